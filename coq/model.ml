
(** val negb : bool -> bool **)

let negb = function
| true -> false
| false -> true

type nat =
| O
| S of nat

(** val option_map : ('a1 -> 'a2) -> 'a1 option -> 'a2 option **)

let option_map f = function
| Some a -> Some (f a)
| None -> None

(** val fst : ('a1 * 'a2) -> 'a1 **)

let fst = function
| (x, _) -> x

(** val snd : ('a1 * 'a2) -> 'a2 **)

let snd = function
| (_, y) -> y

(** val length : 'a1 list -> nat **)

let rec length = function
| [] -> O
| _ :: l' -> S (length l')

(** val app : 'a1 list -> 'a1 list -> 'a1 list **)

let rec app l m =
  match l with
  | [] -> m
  | a :: l1 -> a :: (app l1 m)

type comparison =
| Eq
| Lt
| Gt

(** val compOpp : comparison -> comparison **)

let compOpp = function
| Eq -> Eq
| Lt -> Gt
| Gt -> Lt

module Coq__1 = struct
 (** val add : nat -> nat -> nat **)
 let rec add n0 m =
   match n0 with
   | O -> m
   | S p -> S (add p m)
end
include Coq__1

(** val sub : nat -> nat -> nat **)

let rec sub n0 m =
  match n0 with
  | O -> n0
  | S k -> (match m with
            | O -> n0
            | S l -> sub k l)

module Nat =
 struct
  (** val eqb : nat -> nat -> bool **)

  let rec eqb n0 m =
    match n0 with
    | O -> (match m with
            | O -> true
            | S _ -> false)
    | S n' -> (match m with
               | O -> false
               | S m' -> eqb n' m')

  (** val leb : nat -> nat -> bool **)

  let rec leb n0 m =
    match n0 with
    | O -> true
    | S n' -> (match m with
               | O -> false
               | S m' -> leb n' m')

  (** val ltb : nat -> nat -> bool **)

  let ltb n0 m =
    leb (S n0) m
 end

(** val hd_error : 'a1 list -> 'a1 option **)

let hd_error = function
| [] -> None
| x :: _ -> Some x

(** val tl : 'a1 list -> 'a1 list **)

let tl = function
| [] -> []
| _ :: m -> m

(** val nth : nat -> 'a1 list -> 'a1 -> 'a1 **)

let rec nth n0 l default =
  match n0 with
  | O -> (match l with
          | [] -> default
          | x :: _ -> x)
  | S m -> (match l with
            | [] -> default
            | _ :: t -> nth m t default)

(** val nth_error : 'a1 list -> nat -> 'a1 option **)

let rec nth_error l = function
| O -> (match l with
        | [] -> None
        | x :: _ -> Some x)
| S n1 -> (match l with
           | [] -> None
           | _ :: l0 -> nth_error l0 n1)

(** val last : 'a1 list -> 'a1 -> 'a1 **)

let rec last l d =
  match l with
  | [] -> d
  | a :: l0 -> (match l0 with
                | [] -> a
                | _ :: _ -> last l0 d)

(** val rev : 'a1 list -> 'a1 list **)

let rec rev = function
| [] -> []
| x :: l' -> app (rev l') (x :: [])

(** val rev_append : 'a1 list -> 'a1 list -> 'a1 list **)

let rec rev_append l l' =
  match l with
  | [] -> l'
  | a :: l0 -> rev_append l0 (a :: l')

(** val map : ('a1 -> 'a2) -> 'a1 list -> 'a2 list **)

let rec map f = function
| [] -> []
| a :: t -> (f a) :: (map f t)

(** val existsb : ('a1 -> bool) -> 'a1 list -> bool **)

let rec existsb f = function
| [] -> false
| a :: l0 -> (||) (f a) (existsb f l0)

(** val forallb : ('a1 -> bool) -> 'a1 list -> bool **)

let rec forallb f = function
| [] -> true
| a :: l0 -> (&&) (f a) (forallb f l0)

(** val filter : ('a1 -> bool) -> 'a1 list -> 'a1 list **)

let rec filter f = function
| [] -> []
| x :: l0 -> if f x then x :: (filter f l0) else filter f l0

(** val find : ('a1 -> bool) -> 'a1 list -> 'a1 option **)

let rec find f = function
| [] -> None
| x :: tl0 -> if f x then Some x else find f tl0

(** val combine : 'a1 list -> 'a2 list -> ('a1 * 'a2) list **)

let rec combine l l' =
  match l with
  | [] -> []
  | x :: tl0 ->
    (match l' with
     | [] -> []
     | y :: tl' -> (x, y) :: (combine tl0 tl'))

(** val firstn : nat -> 'a1 list -> 'a1 list **)

let rec firstn n0 l =
  match n0 with
  | O -> []
  | S n1 -> (match l with
             | [] -> []
             | a :: l0 -> a :: (firstn n1 l0))

(** val skipn : nat -> 'a1 list -> 'a1 list **)

let rec skipn n0 l =
  match n0 with
  | O -> l
  | S n1 -> (match l with
             | [] -> []
             | _ :: l0 -> skipn n1 l0)

(** val seq : nat -> nat -> nat list **)

let rec seq start = function
| O -> []
| S len1 -> start :: (seq (S start) len1)

(** val repeat : 'a1 -> nat -> 'a1 list **)

let rec repeat x = function
| O -> []
| S k -> x :: (repeat x k)

type positive =
| XI of positive
| XO of positive
| XH

type n =
| N0
| Npos of positive

type z =
| Z0
| Zpos of positive
| Zneg of positive

module Pos =
 struct
  type mask =
  | IsNul
  | IsPos of positive
  | IsNeg
 end

module Coq_Pos =
 struct
  (** val succ : positive -> positive **)

  let rec succ = function
  | XI p -> XO (succ p)
  | XO p -> XI p
  | XH -> XO XH

  (** val add : positive -> positive -> positive **)

  let rec add x y =
    match x with
    | XI p ->
      (match y with
       | XI q -> XO (add_carry p q)
       | XO q -> XI (add p q)
       | XH -> XO (succ p))
    | XO p ->
      (match y with
       | XI q -> XI (add p q)
       | XO q -> XO (add p q)
       | XH -> XI p)
    | XH -> (match y with
             | XI q -> XO (succ q)
             | XO q -> XI q
             | XH -> XO XH)

  (** val add_carry : positive -> positive -> positive **)

  and add_carry x y =
    match x with
    | XI p ->
      (match y with
       | XI q -> XI (add_carry p q)
       | XO q -> XO (add_carry p q)
       | XH -> XI (succ p))
    | XO p ->
      (match y with
       | XI q -> XO (add_carry p q)
       | XO q -> XI (add p q)
       | XH -> XO (succ p))
    | XH ->
      (match y with
       | XI q -> XI (succ q)
       | XO q -> XO (succ q)
       | XH -> XI XH)

  (** val pred_double : positive -> positive **)

  let rec pred_double = function
  | XI p -> XI (XO p)
  | XO p -> XI (pred_double p)
  | XH -> XH

  type mask = Pos.mask =
  | IsNul
  | IsPos of positive
  | IsNeg

  (** val succ_double_mask : mask -> mask **)

  let succ_double_mask = function
  | IsNul -> IsPos XH
  | IsPos p -> IsPos (XI p)
  | IsNeg -> IsNeg

  (** val double_mask : mask -> mask **)

  let double_mask = function
  | IsPos p -> IsPos (XO p)
  | x0 -> x0

  (** val double_pred_mask : positive -> mask **)

  let double_pred_mask = function
  | XI p -> IsPos (XO (XO p))
  | XO p -> IsPos (XO (pred_double p))
  | XH -> IsNul

  (** val sub_mask : positive -> positive -> mask **)

  let rec sub_mask x y =
    match x with
    | XI p ->
      (match y with
       | XI q -> double_mask (sub_mask p q)
       | XO q -> succ_double_mask (sub_mask p q)
       | XH -> IsPos (XO p))
    | XO p ->
      (match y with
       | XI q -> succ_double_mask (sub_mask_carry p q)
       | XO q -> double_mask (sub_mask p q)
       | XH -> IsPos (pred_double p))
    | XH -> (match y with
             | XH -> IsNul
             | _ -> IsNeg)

  (** val sub_mask_carry : positive -> positive -> mask **)

  and sub_mask_carry x y =
    match x with
    | XI p ->
      (match y with
       | XI q -> succ_double_mask (sub_mask_carry p q)
       | XO q -> double_mask (sub_mask p q)
       | XH -> IsPos (pred_double p))
    | XO p ->
      (match y with
       | XI q -> double_mask (sub_mask_carry p q)
       | XO q -> succ_double_mask (sub_mask_carry p q)
       | XH -> double_pred_mask p)
    | XH -> IsNeg

  (** val mul : positive -> positive -> positive **)

  let rec mul x y =
    match x with
    | XI p -> add y (XO (mul p y))
    | XO p -> XO (mul p y)
    | XH -> y

  (** val iter : ('a1 -> 'a1) -> 'a1 -> positive -> 'a1 **)

  let rec iter f x = function
  | XI n' -> f (iter f (iter f x n') n')
  | XO n' -> iter f (iter f x n') n'
  | XH -> f x

  (** val pow : positive -> positive -> positive **)

  let pow x =
    iter (mul x) XH

  (** val compare_cont : comparison -> positive -> positive -> comparison **)

  let rec compare_cont r x y =
    match x with
    | XI p ->
      (match y with
       | XI q -> compare_cont r p q
       | XO q -> compare_cont Gt p q
       | XH -> Gt)
    | XO p ->
      (match y with
       | XI q -> compare_cont Lt p q
       | XO q -> compare_cont r p q
       | XH -> Gt)
    | XH -> (match y with
             | XH -> r
             | _ -> Lt)

  (** val compare : positive -> positive -> comparison **)

  let compare =
    compare_cont Eq

  (** val eqb : positive -> positive -> bool **)

  let rec eqb p q =
    match p with
    | XI p0 -> (match q with
                | XI q0 -> eqb p0 q0
                | _ -> false)
    | XO p0 -> (match q with
                | XO q0 -> eqb p0 q0
                | _ -> false)
    | XH -> (match q with
             | XH -> true
             | _ -> false)

  (** val iter_op : ('a1 -> 'a1 -> 'a1) -> positive -> 'a1 -> 'a1 **)

  let rec iter_op op0 p a =
    match p with
    | XI p0 -> op0 a (iter_op op0 p0 (op0 a a))
    | XO p0 -> iter_op op0 p0 (op0 a a)
    | XH -> a

  (** val to_nat : positive -> nat **)

  let to_nat x =
    iter_op Coq__1.add x (S O)

  (** val of_succ_nat : nat -> positive **)

  let rec of_succ_nat = function
  | O -> XH
  | S x -> succ (of_succ_nat x)
 end

module N =
 struct
  (** val succ_double : n -> n **)

  let succ_double = function
  | N0 -> Npos XH
  | Npos p -> Npos (XI p)

  (** val double : n -> n **)

  let double = function
  | N0 -> N0
  | Npos p -> Npos (XO p)

  (** val add : n -> n -> n **)

  let add n0 m =
    match n0 with
    | N0 -> m
    | Npos p -> (match m with
                 | N0 -> n0
                 | Npos q -> Npos (Coq_Pos.add p q))

  (** val sub : n -> n -> n **)

  let sub n0 m =
    match n0 with
    | N0 -> N0
    | Npos n' ->
      (match m with
       | N0 -> n0
       | Npos m' ->
         (match Coq_Pos.sub_mask n' m' with
          | Coq_Pos.IsPos p -> Npos p
          | _ -> N0))

  (** val mul : n -> n -> n **)

  let mul n0 m =
    match n0 with
    | N0 -> N0
    | Npos p -> (match m with
                 | N0 -> N0
                 | Npos q -> Npos (Coq_Pos.mul p q))

  (** val compare : n -> n -> comparison **)

  let compare n0 m =
    match n0 with
    | N0 -> (match m with
             | N0 -> Eq
             | Npos _ -> Lt)
    | Npos n' -> (match m with
                  | N0 -> Gt
                  | Npos m' -> Coq_Pos.compare n' m')

  (** val eqb : n -> n -> bool **)

  let eqb n0 m =
    match n0 with
    | N0 -> (match m with
             | N0 -> true
             | Npos _ -> false)
    | Npos p -> (match m with
                 | N0 -> false
                 | Npos q -> Coq_Pos.eqb p q)

  (** val leb : n -> n -> bool **)

  let leb x y =
    match compare x y with
    | Gt -> false
    | _ -> true

  (** val ltb : n -> n -> bool **)

  let ltb x y =
    match compare x y with
    | Lt -> true
    | _ -> false

  (** val pow : n -> n -> n **)

  let pow n0 = function
  | N0 -> Npos XH
  | Npos p0 -> (match n0 with
                | N0 -> N0
                | Npos q -> Npos (Coq_Pos.pow q p0))

  (** val pos_div_eucl : positive -> n -> n * n **)

  let rec pos_div_eucl a b =
    match a with
    | XI a' ->
      let (q, r) = pos_div_eucl a' b in
      let r' = succ_double r in
      if leb b r' then ((succ_double q), (sub r' b)) else ((double q), r')
    | XO a' ->
      let (q, r) = pos_div_eucl a' b in
      let r' = double r in
      if leb b r' then ((succ_double q), (sub r' b)) else ((double q), r')
    | XH ->
      (match b with
       | N0 -> (N0, (Npos XH))
       | Npos p -> (match p with
                    | XH -> ((Npos XH), N0)
                    | _ -> (N0, (Npos XH))))

  (** val div_eucl : n -> n -> n * n **)

  let div_eucl a b =
    match a with
    | N0 -> (N0, N0)
    | Npos na -> (match b with
                  | N0 -> (N0, a)
                  | Npos _ -> pos_div_eucl na b)

  (** val div : n -> n -> n **)

  let div a b =
    fst (div_eucl a b)

  (** val modulo : n -> n -> n **)

  let modulo a b =
    snd (div_eucl a b)

  (** val to_nat : n -> nat **)

  let to_nat = function
  | N0 -> O
  | Npos p -> Coq_Pos.to_nat p

  (** val of_nat : nat -> n **)

  let of_nat = function
  | O -> N0
  | S n' -> Npos (Coq_Pos.of_succ_nat n')
 end

module Z =
 struct
  (** val double : z -> z **)

  let double = function
  | Z0 -> Z0
  | Zpos p -> Zpos (XO p)
  | Zneg p -> Zneg (XO p)

  (** val succ_double : z -> z **)

  let succ_double = function
  | Z0 -> Zpos XH
  | Zpos p -> Zpos (XI p)
  | Zneg p -> Zneg (Coq_Pos.pred_double p)

  (** val pred_double : z -> z **)

  let pred_double = function
  | Z0 -> Zneg XH
  | Zpos p -> Zpos (Coq_Pos.pred_double p)
  | Zneg p -> Zneg (XI p)

  (** val pos_sub : positive -> positive -> z **)

  let rec pos_sub x y =
    match x with
    | XI p ->
      (match y with
       | XI q -> double (pos_sub p q)
       | XO q -> succ_double (pos_sub p q)
       | XH -> Zpos (XO p))
    | XO p ->
      (match y with
       | XI q -> pred_double (pos_sub p q)
       | XO q -> double (pos_sub p q)
       | XH -> Zpos (Coq_Pos.pred_double p))
    | XH ->
      (match y with
       | XI q -> Zneg (XO q)
       | XO q -> Zneg (Coq_Pos.pred_double q)
       | XH -> Z0)

  (** val add : z -> z -> z **)

  let add x y =
    match x with
    | Z0 -> y
    | Zpos x' ->
      (match y with
       | Z0 -> x
       | Zpos y' -> Zpos (Coq_Pos.add x' y')
       | Zneg y' -> pos_sub x' y')
    | Zneg x' ->
      (match y with
       | Z0 -> x
       | Zpos y' -> pos_sub y' x'
       | Zneg y' -> Zneg (Coq_Pos.add x' y'))

  (** val opp : z -> z **)

  let opp = function
  | Z0 -> Z0
  | Zpos x0 -> Zneg x0
  | Zneg x0 -> Zpos x0

  (** val sub : z -> z -> z **)

  let sub m n0 =
    add m (opp n0)

  (** val mul : z -> z -> z **)

  let mul x y =
    match x with
    | Z0 -> Z0
    | Zpos x' ->
      (match y with
       | Z0 -> Z0
       | Zpos y' -> Zpos (Coq_Pos.mul x' y')
       | Zneg y' -> Zneg (Coq_Pos.mul x' y'))
    | Zneg x' ->
      (match y with
       | Z0 -> Z0
       | Zpos y' -> Zneg (Coq_Pos.mul x' y')
       | Zneg y' -> Zpos (Coq_Pos.mul x' y'))

  (** val compare : z -> z -> comparison **)

  let compare x y =
    match x with
    | Z0 -> (match y with
             | Z0 -> Eq
             | Zpos _ -> Lt
             | Zneg _ -> Gt)
    | Zpos x' -> (match y with
                  | Zpos y' -> Coq_Pos.compare x' y'
                  | _ -> Gt)
    | Zneg x' ->
      (match y with
       | Zneg y' -> compOpp (Coq_Pos.compare x' y')
       | _ -> Lt)

  (** val leb : z -> z -> bool **)

  let leb x y =
    match compare x y with
    | Gt -> false
    | _ -> true

  (** val ltb : z -> z -> bool **)

  let ltb x y =
    match compare x y with
    | Lt -> true
    | _ -> false

  (** val eqb : z -> z -> bool **)

  let eqb x y =
    match x with
    | Z0 -> (match y with
             | Z0 -> true
             | _ -> false)
    | Zpos p -> (match y with
                 | Zpos q -> Coq_Pos.eqb p q
                 | _ -> false)
    | Zneg p -> (match y with
                 | Zneg q -> Coq_Pos.eqb p q
                 | _ -> false)

  (** val to_nat : z -> nat **)

  let to_nat = function
  | Zpos p -> Coq_Pos.to_nat p
  | _ -> O

  (** val to_N : z -> n **)

  let to_N = function
  | Zpos p -> Npos p
  | _ -> N0

  (** val of_nat : nat -> z **)

  let of_nat = function
  | O -> Z0
  | S n1 -> Zpos (Coq_Pos.of_succ_nat n1)

  (** val of_N : n -> z **)

  let of_N = function
  | N0 -> Z0
  | Npos p -> Zpos p

  (** val pos_div_eucl : positive -> z -> z * z **)

  let rec pos_div_eucl a b =
    match a with
    | XI a' ->
      let (q, r) = pos_div_eucl a' b in
      let r' = add (mul (Zpos (XO XH)) r) (Zpos XH) in
      if ltb r' b
      then ((mul (Zpos (XO XH)) q), r')
      else ((add (mul (Zpos (XO XH)) q) (Zpos XH)), (sub r' b))
    | XO a' ->
      let (q, r) = pos_div_eucl a' b in
      let r' = mul (Zpos (XO XH)) r in
      if ltb r' b
      then ((mul (Zpos (XO XH)) q), r')
      else ((add (mul (Zpos (XO XH)) q) (Zpos XH)), (sub r' b))
    | XH -> if leb (Zpos (XO XH)) b then (Z0, (Zpos XH)) else ((Zpos XH), Z0)

  (** val div_eucl : z -> z -> z * z **)

  let div_eucl a b =
    match a with
    | Z0 -> (Z0, Z0)
    | Zpos a' ->
      (match b with
       | Z0 -> (Z0, a)
       | Zpos _ -> pos_div_eucl a' b
       | Zneg b' ->
         let (q, r) = pos_div_eucl a' (Zpos b') in
         (match r with
          | Z0 -> ((opp q), Z0)
          | _ -> ((opp (add q (Zpos XH))), (add b r))))
    | Zneg a' ->
      (match b with
       | Z0 -> (Z0, a)
       | Zpos _ ->
         let (q, r) = pos_div_eucl a' b in
         (match r with
          | Z0 -> ((opp q), Z0)
          | _ -> ((opp (add q (Zpos XH))), (sub b r)))
       | Zneg b' -> let (q, r) = pos_div_eucl a' (Zpos b') in (q, (opp r)))

  (** val modulo : z -> z -> z **)

  let modulo a b =
    let (_, r) = div_eucl a b in r

  (** val quotrem : z -> z -> z * z **)

  let quotrem a b =
    match a with
    | Z0 -> (Z0, Z0)
    | Zpos a0 ->
      (match b with
       | Z0 -> (Z0, a)
       | Zpos b0 ->
         let (q, r) = N.pos_div_eucl a0 (Npos b0) in ((of_N q), (of_N r))
       | Zneg b0 ->
         let (q, r) = N.pos_div_eucl a0 (Npos b0) in
         ((opp (of_N q)), (of_N r)))
    | Zneg a0 ->
      (match b with
       | Z0 -> (Z0, a)
       | Zpos b0 ->
         let (q, r) = N.pos_div_eucl a0 (Npos b0) in
         ((opp (of_N q)), (opp (of_N r)))
       | Zneg b0 ->
         let (q, r) = N.pos_div_eucl a0 (Npos b0) in
         ((of_N q), (opp (of_N r))))

  (** val quot : z -> z -> z **)

  let quot a b =
    fst (quotrem a b)

  (** val rem : z -> z -> z **)

  let rem a b =
    snd (quotrem a b)
 end

type bytes = n list

(** val len : bytes -> n **)

let len bs =
  N.of_nat (length bs)

(** val le32 : n -> bytes **)

let le32 v =
  (N.modulo v (Npos (XO (XO (XO (XO (XO (XO (XO (XO XH)))))))))) :: (
    (N.modulo (N.div v (Npos (XO (XO (XO (XO (XO (XO (XO (XO XH))))))))))
      (Npos (XO (XO (XO (XO (XO (XO (XO (XO XH)))))))))) :: ((N.modulo
                                                               (N.div v (Npos
                                                                 (XO (XO (XO
                                                                 (XO (XO (XO
                                                                 (XO (XO (XO
                                                                 (XO (XO (XO
                                                                 (XO (XO (XO
                                                                 (XO
                                                                 XH))))))))))))))))))
                                                               (Npos (XO (XO
                                                               (XO (XO (XO
                                                               (XO (XO (XO
                                                               XH)))))))))) :: (
    (N.modulo
      (N.div v (Npos (XO (XO (XO (XO (XO (XO (XO (XO (XO (XO (XO (XO (XO (XO
        (XO (XO (XO (XO (XO (XO (XO (XO (XO (XO XH))))))))))))))))))))))))))
      (Npos (XO (XO (XO (XO (XO (XO (XO (XO XH)))))))))) :: [])))

(** val le64 : n -> bytes **)

let le64 v =
  app
    (le32
      (N.modulo v (Npos (XO (XO (XO (XO (XO (XO (XO (XO (XO (XO (XO (XO (XO
        (XO (XO (XO (XO (XO (XO (XO (XO (XO (XO (XO (XO (XO (XO (XO (XO (XO
        (XO (XO XH)))))))))))))))))))))))))))))))))))
    (le32
      (N.div v (Npos (XO (XO (XO (XO (XO (XO (XO (XO (XO (XO (XO (XO (XO (XO
        (XO (XO (XO (XO (XO (XO (XO (XO (XO (XO (XO (XO (XO (XO (XO (XO (XO
        (XO XH)))))))))))))))))))))))))))))))))))

(** val nth0 : nat -> bytes -> n **)

let nth0 n0 bs =
  nth n0 bs N0

(** val rd32 : bytes -> n **)

let rd32 bs =
  N.add
    (N.add
      (N.add (nth0 O bs)
        (N.mul (Npos (XO (XO (XO (XO (XO (XO (XO (XO XH)))))))))
          (nth0 (S O) bs)))
      (N.mul (Npos (XO (XO (XO (XO (XO (XO (XO (XO (XO (XO (XO (XO (XO (XO
        (XO (XO XH))))))))))))))))) (nth0 (S (S O)) bs)))
    (N.mul (Npos (XO (XO (XO (XO (XO (XO (XO (XO (XO (XO (XO (XO (XO (XO (XO
      (XO (XO (XO (XO (XO (XO (XO (XO (XO XH)))))))))))))))))))))))))
      (nth0 (S (S (S O))) bs))

(** val rd64 : bytes -> n **)

let rd64 bs =
  N.add (rd32 bs)
    (N.mul (Npos (XO (XO (XO (XO (XO (XO (XO (XO (XO (XO (XO (XO (XO (XO (XO
      (XO (XO (XO (XO (XO (XO (XO (XO (XO (XO (XO (XO (XO (XO (XO (XO (XO
      XH))))))))))))))))))))))))))))))))) (rd32 (skipn (S (S (S (S O)))) bs)))

(** val be32 : n -> bytes **)

let be32 v =
  rev (le32 v)

(** val be64 : n -> bytes **)

let be64 v =
  rev (le64 v)

(** val rdbe32 : bytes -> n **)

let rdbe32 bs =
  rd32 (rev (firstn (S (S (S (S O)))) bs))

(** val rdbe64 : bytes -> n **)

let rdbe64 bs =
  rd64 (rev (firstn (S (S (S (S (S (S (S (S O)))))))) bs))

(** val be16 : n -> bytes **)

let be16 v =
  (N.modulo (N.div v (Npos (XO (XO (XO (XO (XO (XO (XO (XO XH)))))))))) (Npos
    (XO (XO (XO (XO (XO (XO (XO (XO XH)))))))))) :: ((N.modulo v (Npos (XO
                                                       (XO (XO (XO (XO (XO
                                                       (XO (XO XH)))))))))) :: [])

(** val rdbe16 : bytes -> n **)

let rdbe16 bs =
  N.add (N.mul (Npos (XO (XO (XO (XO (XO (XO (XO (XO XH))))))))) (nth0 O bs))
    (nth0 (S O) bs)

(** val two64 : n **)

let two64 =
  Npos (XO (XO (XO (XO (XO (XO (XO (XO (XO (XO (XO (XO (XO (XO (XO (XO (XO
    (XO (XO (XO (XO (XO (XO (XO (XO (XO (XO (XO (XO (XO (XO (XO (XO (XO (XO
    (XO (XO (XO (XO (XO (XO (XO (XO (XO (XO (XO (XO (XO (XO (XO (XO (XO (XO
    (XO (XO (XO (XO (XO (XO (XO (XO (XO (XO (XO
    XH))))))))))))))))))))))))))))))))))))))))))))))))))))))))))))))))

(** val two63 : n **)

let two63 =
  Npos (XO (XO (XO (XO (XO (XO (XO (XO (XO (XO (XO (XO (XO (XO (XO (XO (XO
    (XO (XO (XO (XO (XO (XO (XO (XO (XO (XO (XO (XO (XO (XO (XO (XO (XO (XO
    (XO (XO (XO (XO (XO (XO (XO (XO (XO (XO (XO (XO (XO (XO (XO (XO (XO (XO
    (XO (XO (XO (XO (XO (XO (XO (XO (XO (XO
    XH)))))))))))))))))))))))))))))))))))))))))))))))))))))))))))))))

(** val two32 : n **)

let two32 =
  Npos (XO (XO (XO (XO (XO (XO (XO (XO (XO (XO (XO (XO (XO (XO (XO (XO (XO
    (XO (XO (XO (XO (XO (XO (XO (XO (XO (XO (XO (XO (XO (XO (XO
    XH))))))))))))))))))))))))))))))))

(** val two31 : n **)

let two31 =
  Npos (XO (XO (XO (XO (XO (XO (XO (XO (XO (XO (XO (XO (XO (XO (XO (XO (XO
    (XO (XO (XO (XO (XO (XO (XO (XO (XO (XO (XO (XO (XO (XO
    XH)))))))))))))))))))))))))))))))

(** val two16 : n **)

let two16 =
  Npos (XO (XO (XO (XO (XO (XO (XO (XO (XO (XO (XO (XO (XO (XO (XO (XO
    XH))))))))))))))))

(** val two15 : n **)

let two15 =
  Npos (XO (XO (XO (XO (XO (XO (XO (XO (XO (XO (XO (XO (XO (XO (XO
    XH)))))))))))))))

(** val z_to_u : n -> z -> n **)

let z_to_u w z0 =
  Z.to_N (Z.modulo z0 (Z.of_N w))

(** val u_to_z : n -> n -> n -> z **)

let u_to_z w half u =
  if N.ltb u half then Z.of_N u else Z.sub (Z.of_N u) (Z.of_N w)

type str = n list

(** val sp : n **)

let sp =
  Npos (XO (XO (XO (XO (XO XH)))))

(** val split_aux : str -> str -> str list **)

let rec split_aux s cur =
  match s with
  | [] -> (rev_append cur []) :: []
  | c :: r ->
    if N.eqb c sp
    then (rev_append cur []) :: (split_aux r [])
    else split_aux r (c :: cur)

(** val tokens : str -> str list **)

let tokens s =
  split_aux s []

(** val hexval : n -> n option **)

let hexval c =
  if (&&) (N.leb (Npos (XO (XO (XO (XO (XI XH)))))) c)
       (N.leb c (Npos (XI (XO (XO (XI (XI XH)))))))
  then Some (N.sub c (Npos (XO (XO (XO (XO (XI XH)))))))
  else if (&&) (N.leb (Npos (XI (XO (XO (XO (XO (XI XH))))))) c)
            (N.leb c (Npos (XO (XI (XI (XO (XO (XI XH))))))))
       then Some (N.sub c (Npos (XI (XI (XI (XO (XI (XO XH))))))))
       else None

(** val hex_to_N_aux : str -> n -> n option **)

let rec hex_to_N_aux s acc =
  match s with
  | [] -> Some acc
  | c :: r ->
    (match hexval c with
     | Some v ->
       hex_to_N_aux r (N.add (N.mul acc (Npos (XO (XO (XO (XO XH)))))) v)
     | None -> None)

(** val hex_to_N : str -> n option **)

let hex_to_N s = match s with
| [] -> None
| _ :: _ -> hex_to_N_aux s N0

(** val hex_to_Z : str -> z option **)

let hex_to_Z s = match s with
| [] -> (match hex_to_N s with
         | Some n0 -> Some (Z.of_N n0)
         | None -> None)
| n0 :: r ->
  (match n0 with
   | N0 -> (match hex_to_N s with
            | Some n1 -> Some (Z.of_N n1)
            | None -> None)
   | Npos p ->
     (match p with
      | XI p0 ->
        (match p0 with
         | XO p1 ->
           (match p1 with
            | XI p2 ->
              (match p2 with
               | XI p3 ->
                 (match p3 with
                  | XO p4 ->
                    (match p4 with
                     | XH ->
                       (match hex_to_N r with
                        | Some n1 -> Some (Z.opp (Z.of_N n1))
                        | None -> None)
                     | _ ->
                       (match hex_to_N s with
                        | Some n1 -> Some (Z.of_N n1)
                        | None -> None))
                  | _ ->
                    (match hex_to_N s with
                     | Some n1 -> Some (Z.of_N n1)
                     | None -> None))
               | _ ->
                 (match hex_to_N s with
                  | Some n1 -> Some (Z.of_N n1)
                  | None -> None))
            | _ ->
              (match hex_to_N s with
               | Some n1 -> Some (Z.of_N n1)
               | None -> None))
         | _ ->
           (match hex_to_N s with
            | Some n1 -> Some (Z.of_N n1)
            | None -> None))
      | _ ->
        (match hex_to_N s with
         | Some n1 -> Some (Z.of_N n1)
         | None -> None)))

(** val hex_to_bytes_aux : str -> bytes option **)

let rec hex_to_bytes_aux = function
| [] -> Some []
| a :: l ->
  (match l with
   | [] -> None
   | b :: r ->
     (match hexval a with
      | Some x ->
        (match hexval b with
         | Some y ->
           (match hex_to_bytes_aux r with
            | Some t ->
              Some ((N.add (N.mul x (Npos (XO (XO (XO (XO XH)))))) y) :: t)
            | None -> None)
         | None -> None)
      | None -> None))

(** val hex_to_bytes : str -> bytes option **)

let hex_to_bytes s = match s with
| [] -> hex_to_bytes_aux s
| n0 :: l ->
  (match n0 with
   | N0 -> hex_to_bytes_aux s
   | Npos p ->
     (match p with
      | XI p0 ->
        (match p0 with
         | XO p1 ->
           (match p1 with
            | XI p2 ->
              (match p2 with
               | XI p3 ->
                 (match p3 with
                  | XO p4 ->
                    (match p4 with
                     | XH ->
                       (match l with
                        | [] -> Some []
                        | _ :: _ -> hex_to_bytes_aux s)
                     | _ -> hex_to_bytes_aux s)
                  | _ -> hex_to_bytes_aux s)
               | _ -> hex_to_bytes_aux s)
            | _ -> hex_to_bytes_aux s)
         | _ -> hex_to_bytes_aux s)
      | _ -> hex_to_bytes_aux s))

(** val hexdigit : n -> n **)

let hexdigit v =
  if N.ltb v (Npos (XO (XI (XO XH))))
  then N.add (Npos (XO (XO (XO (XO (XI XH)))))) v
  else N.add (Npos (XI (XI (XI (XO (XI (XO XH))))))) v

(** val n_to_hex_aux : nat -> n -> str -> str **)

let rec n_to_hex_aux fuel v acc =
  match fuel with
  | O -> acc
  | S f ->
    let acc' = (hexdigit (N.modulo v (Npos (XO (XO (XO (XO XH))))))) :: acc in
    if N.ltb v (Npos (XO (XO (XO (XO XH)))))
    then acc'
    else n_to_hex_aux f (N.div v (Npos (XO (XO (XO (XO XH)))))) acc'

(** val n_to_hex : n -> str **)

let n_to_hex v =
  n_to_hex_aux (S (S (S (S (S (S (S (S (S (S (S (S (S (S (S (S (S (S (S (S (S
    (S (S (S (S (S (S (S (S (S (S (S (S (S (S (S (S (S (S (S (S (S (S (S (S
    (S (S (S (S (S (S (S (S (S (S (S (S (S (S (S (S (S (S (S
    O)))))))))))))))))))))))))))))))))))))))))))))))))))))))))))))))) v []

(** val z_to_hex : z -> str **)

let z_to_hex z0 =
  if Z.ltb z0 Z0
  then (Npos (XI (XO (XI (XI (XO XH)))))) :: (n_to_hex (Z.to_N (Z.opp z0)))
  else n_to_hex (Z.to_N z0)

(** val bytes_to_hex_aux : bytes -> str **)

let rec bytes_to_hex_aux = function
| [] -> []
| b :: r ->
  (hexdigit (N.div b (Npos (XO (XO (XO (XO XH))))))) :: ((hexdigit
                                                           (N.modulo b (Npos
                                                             (XO (XO (XO (XO
                                                             XH))))))) :: 
    (bytes_to_hex_aux r))

(** val bytes_to_hex : bytes -> str **)

let bytes_to_hex bs = match bs with
| [] -> (Npos (XI (XO (XI (XI (XO XH)))))) :: []
| _ :: _ -> bytes_to_hex_aux bs

(** val join : str list -> str **)

let rec join = function
| [] -> []
| x :: r -> (match r with
             | [] -> x
             | _ :: _ -> app x (sp :: (join r)))

(** val s_ok : str **)

let s_ok =
  (Npos (XI (XI (XI (XI (XO (XI XH))))))) :: ((Npos (XI (XI (XO (XI (XO (XI
    XH))))))) :: [])

(** val s_err : str **)

let s_err =
  (Npos (XI (XO (XI (XO (XO (XI XH))))))) :: ((Npos (XO (XI (XO (XO (XI (XI
    XH))))))) :: ((Npos (XO (XI (XO (XO (XI (XI XH))))))) :: []))

(** val s_bad : str **)

let s_bad =
  (Npos (XO (XI (XO (XO (XO (XI XH))))))) :: ((Npos (XI (XO (XO (XO (XO (XI
    XH))))))) :: ((Npos (XO (XO (XI (XO (XO (XI XH))))))) :: ((Npos (XI (XO
    (XO (XI (XO (XI XH))))))) :: ((Npos (XO (XI (XI (XI (XO (XI
    XH))))))) :: ((Npos (XO (XO (XO (XO (XI (XI XH))))))) :: ((Npos (XI (XO
    (XI (XO (XI (XI XH))))))) :: ((Npos (XO (XO (XI (XO (XI (XI
    XH))))))) :: [])))))))

(** val s_utc : str **)

let s_utc =
  (Npos (XI (XO (XI (XO (XI (XI XH))))))) :: ((Npos (XO (XO (XI (XO (XI (XI
    XH))))))) :: ((Npos (XI (XI (XO (XO (XO (XI XH))))))) :: []))

(** val str_eqb : str -> str -> bool **)

let rec str_eqb a b =
  match a with
  | [] -> (match b with
           | [] -> true
           | _ :: _ -> false)
  | x :: a' ->
    (match b with
     | [] -> false
     | y :: b' -> (&&) (N.eqb x y) (str_eqb a' b'))

(** val put_uvarint_aux : nat -> n -> bytes **)

let rec put_uvarint_aux fuel v =
  match fuel with
  | O -> []
  | S f ->
    if N.ltb v (Npos (XO (XO (XO (XO (XO (XO (XO XH))))))))
    then v :: []
    else (N.add (N.modulo v (Npos (XO (XO (XO (XO (XO (XO (XO XH)))))))))
           (Npos (XO (XO (XO (XO (XO (XO (XO XH))))))))) :: (put_uvarint_aux
                                                              f
                                                              (N.div v (Npos
                                                                (XO (XO (XO
                                                                (XO (XO (XO
                                                                (XO
                                                                XH))))))))))

(** val put_uvarint : n -> bytes **)

let put_uvarint v =
  put_uvarint_aux (S (S (S (S (S (S (S (S (S (S O)))))))))) v

(** val get_uvarint_aux : bytes -> nat -> n -> n -> n * z **)

let rec get_uvarint_aux buf i x s =
  match buf with
  | [] -> (N0, Z0)
  | b :: r ->
    if Nat.eqb i (S (S (S (S (S (S (S (S (S (S O))))))))))
    then (N0, (Z.opp (Z.add (Z.of_nat i) (Zpos XH))))
    else if N.ltb b (Npos (XO (XO (XO (XO (XO (XO (XO XH))))))))
         then if (&&) (Nat.eqb i (S (S (S (S (S (S (S (S (S O))))))))))
                   (N.ltb (Npos XH) b)
              then (N0, (Z.opp (Z.add (Z.of_nat i) (Zpos XH))))
              else ((N.modulo (N.add x (N.mul b (N.pow (Npos (XO XH)) s)))
                      two64), (Z.add (Z.of_nat i) (Zpos XH)))
         else get_uvarint_aux r (S i)
                (N.modulo
                  (N.add x
                    (N.mul
                      (N.modulo b (Npos (XO (XO (XO (XO (XO (XO (XO
                        XH))))))))) (N.pow (Npos (XO XH)) s))) two64)
                (N.add s (Npos (XI (XI XH))))

(** val get_uvarint : bytes -> n * z **)

let get_uvarint buf =
  get_uvarint_aux buf O N0 N0

type gotime = { t_sec : z; t_nsec : z; t_zone : z option }

(** val marshal_time : gotime -> bytes option **)

let marshal_time t =
  let hdr = fun version offmin ->
    app ((Z.to_N version) :: [])
      (app (be64 (z_to_u two64 t.t_sec))
        (app (be32 (z_to_u two32 t.t_nsec)) (be16 (z_to_u two16 offmin))))
  in
  (match t.t_zone with
   | Some off ->
     let offsec = Z.rem off (Zpos (XO (XO (XI (XI (XI XH)))))) in
     let offmin = Z.quot off (Zpos (XO (XO (XI (XI (XI XH)))))) in
     if (||)
          ((||)
            (Z.ltb offmin (Zneg (XO (XO (XO (XO (XO (XO (XO (XO (XO (XO (XO
              (XO (XO (XO (XO XH))))))))))))))))) (Z.eqb offmin (Zneg XH)))
          (Z.ltb (Zpos (XI (XI (XI (XI (XI (XI (XI (XI (XI (XI (XI (XI (XI
            (XI XH))))))))))))))) offmin)
     then None
     else if Z.eqb offsec Z0
          then Some (hdr (Zpos XH) offmin)
          else Some
                 (app (hdr (Zpos (XO XH)) offmin)
                   ((z_to_u (Npos (XO (XO (XO (XO (XO (XO (XO (XO XH)))))))))
                      offsec) :: []))
   | None -> Some (hdr (Zpos XH) (Zneg XH)))

(** val unmarshal_time : bytes -> gotime option **)

let unmarshal_time buf = match buf with
| [] -> None
| version :: rest ->
  if negb ((||) (N.eqb version (Npos XH)) (N.eqb version (Npos (XO XH))))
  then None
  else let want =
         if N.eqb version (Npos (XO XH))
         then S (S (S (S (S (S (S (S (S (S (S (S (S (S (S (S O)))))))))))))))
         else S (S (S (S (S (S (S (S (S (S (S (S (S (S (S O))))))))))))))
       in
       if negb (Nat.eqb (length buf) want)
       then None
       else let sec = u_to_z two64 two63 (rdbe64 rest) in
            let nsec =
              u_to_z two32 two31
                (rdbe32 (skipn (S (S (S (S (S (S (S (S O)))))))) rest))
            in
            let offmin =
              u_to_z two16 two15
                (rdbe16
                  (skipn (S (S (S (S (S (S (S (S (S (S (S (S O))))))))))))
                    rest))
            in
            let offs =
              if N.eqb version (Npos (XO XH))
              then Z.of_N
                     (nth0 (S (S (S (S (S (S (S (S (S (S (S (S (S (S
                       O)))))))))))))) rest)
              else Z0
            in
            let off =
              Z.add (Z.mul offmin (Zpos (XO (XO (XI (XI (XI XH))))))) offs
            in
            Some { t_sec = sec; t_nsec = nsec; t_zone =
            (if Z.eqb off (Zneg (XO (XO (XI (XI (XI XH))))))
             then None
             else Some off) }

type log = { l_index : n; l_term : n; l_type : n; l_data : bytes;
             l_ext : bytes; l_time : gotime }

(** val enc_bytes : bytes -> bytes **)

let enc_bytes bs =
  app (put_uvarint (len bs)) bs

(** val encode_log : log -> bytes option **)

let encode_log l =
  match marshal_time l.l_time with
  | Some tb ->
    Some
      (app (put_uvarint l.l_index)
        (app (put_uvarint l.l_term)
          (app (put_uvarint l.l_type)
            (app (enc_bytes l.l_data) (app (enc_bytes l.l_ext) tb)))))
  | None -> None

type 'a dres =
| DOk of 'a * bytes
| DErr

(** val dec_varint : bytes -> n dres **)

let dec_varint buf =
  let (v, n0) = get_uvarint buf in
  if Z.leb n0 Z0 then DErr else DOk (v, (skipn (Z.to_nat n0) buf))

(** val dec_bytes : bytes -> bytes dres **)

let dec_bytes buf =
  match dec_varint buf with
  | DOk (n0, rest) ->
    if N.eqb n0 N0
    then DOk ([], rest)
    else if N.ltb (len rest) n0
         then DErr
         else DOk ((firstn (N.to_nat n0) rest), (skipn (N.to_nat n0) rest))
  | DErr -> DErr

(** val decode_log : bytes -> log option **)

let decode_log buf =
  match dec_varint buf with
  | DOk (idx, r1) ->
    (match dec_varint r1 with
     | DOk (term, r2) ->
       (match dec_varint r2 with
        | DOk (typ, r3) ->
          (match dec_bytes r3 with
           | DOk (data, r4) ->
             (match dec_bytes r4 with
              | DOk (ext, r5) ->
                (match unmarshal_time r5 with
                 | Some t ->
                   Some { l_index = idx; l_term = term; l_type =
                     (N.modulo typ (Npos (XO (XO (XO (XO (XO (XO (XO (XO
                       XH)))))))))); l_data = data; l_ext = ext; l_time = t }
                 | None -> None)
              | DErr -> None)
           | DErr -> None)
        | DErr -> None)
     | DErr -> None)
  | DErr -> None

(** val parse_zone : str -> z option option **)

let parse_zone s =
  if str_eqb s s_utc
  then Some None
  else (match hex_to_Z s with
        | Some z0 -> Some (Some z0)
        | None -> None)

(** val show_zone : z option -> str **)

let show_zone = function
| Some o -> z_to_hex o
| None -> s_utc

(** val parse_log : str list -> log option **)

let parse_log = function
| [] -> None
| i :: l ->
  (match l with
   | [] -> None
   | t :: l0 ->
     (match l0 with
      | [] -> None
      | ty :: l1 ->
        (match l1 with
         | [] -> None
         | d :: l2 ->
           (match l2 with
            | [] -> None
            | e :: l3 ->
              (match l3 with
               | [] -> None
               | sec :: l4 ->
                 (match l4 with
                  | [] -> None
                  | ns :: l5 ->
                    (match l5 with
                     | [] -> None
                     | zn :: l6 ->
                       (match l6 with
                        | [] ->
                          (match hex_to_N i with
                           | Some i0 ->
                             (match hex_to_N t with
                              | Some t0 ->
                                (match hex_to_N ty with
                                 | Some ty0 ->
                                   (match hex_to_bytes d with
                                    | Some d0 ->
                                      (match hex_to_bytes e with
                                       | Some e0 ->
                                         (match hex_to_Z sec with
                                          | Some sec0 ->
                                            (match hex_to_Z ns with
                                             | Some ns0 ->
                                               (match parse_zone zn with
                                                | Some zn0 ->
                                                  Some { l_index = i0;
                                                    l_term = t0; l_type =
                                                    ty0; l_data = d0; l_ext =
                                                    e0; l_time = { t_sec =
                                                    sec0; t_nsec = ns0;
                                                    t_zone = zn0 } }
                                                | None -> None)
                                             | None -> None)
                                          | None -> None)
                                       | None -> None)
                                    | None -> None)
                                 | None -> None)
                              | None -> None)
                           | None -> None)
                        | _ :: _ -> None))))))))

(** val show_log : bool -> log -> str **)

let show_log with_time l =
  join
    (app
      ((n_to_hex l.l_index) :: ((n_to_hex l.l_term) :: ((n_to_hex l.l_type) :: (
      (bytes_to_hex l.l_data) :: ((bytes_to_hex l.l_ext) :: [])))))
      (if with_time
       then (z_to_hex l.l_time.t_sec) :: ((z_to_hex l.l_time.t_nsec) :: (
              (show_zone l.l_time.t_zone) :: []))
       else []))

(** val run_enc : str list -> str **)

let run_enc ts =
  match parse_log ts with
  | Some l ->
    (match encode_log l with
     | Some bs -> bytes_to_hex bs
     | None -> s_err)
  | None -> s_bad

(** val run_dec : str list -> str **)

let run_dec = function
| [] -> s_bad
| h :: l ->
  (match l with
   | [] -> s_bad
   | flag :: l0 ->
     (match l0 with
      | [] ->
        (match hex_to_bytes h with
         | Some bs ->
           (match decode_log bs with
            | Some l1 ->
              join
                (s_ok :: ((show_log
                            (str_eqb flag ((Npos (XO (XI (XI (XO (XI (XI
                              XH))))))) :: [])) l1) :: []))
            | None -> s_err)
         | None -> s_bad)
      | _ :: _ -> s_bad))

type tid = nat

(** val exec : ('a1 -> tid -> 'a1 option) -> 'a1 -> tid -> 'a1 **)

let exec step0 s t =
  match step0 s t with
  | Some s' -> s'
  | None -> s

(** val run : ('a1 -> tid -> 'a1 option) -> 'a1 -> tid list -> 'a1 **)

let rec run step0 s = function
| [] -> s
| t :: r -> run step0 (exec step0 s t) r

(** val enabled : ('a1 -> tid -> 'a1 option) -> 'a1 -> tid -> bool **)

let enabled step0 s t =
  match step0 s t with
  | Some _ -> true
  | None -> false

(** val go :
    ('a1 -> tid -> 'a1 option) -> ('a1 -> tid -> bool) -> nat -> 'a1 -> tid
    -> tid list -> 'a1 * tid list **)

let rec go step0 parked0 fuel s t tr =
  match fuel with
  | O -> (s, tr)
  | S f ->
    (match step0 s t with
     | Some s' ->
       if parked0 s' t
       then (s', (t :: tr))
       else go step0 parked0 f s' t (t :: tr)
     | None -> (s, tr))

(** val autonomous :
    ('a1 -> tid -> 'a1 option) -> ('a1 -> tid -> bool) -> 'a1 -> tid -> bool **)

let autonomous step0 parked0 s t =
  (&&) (negb (parked0 s t)) (enabled step0 s t)

(** val settle :
    ('a1 -> tid -> 'a1 option) -> ('a1 -> tid -> bool) -> ('a1 -> nat) -> nat
    -> 'a1 -> tid list -> 'a1 * tid list **)

let rec settle step0 parked0 nthreads0 fuel s tr =
  match fuel with
  | O -> (s, tr)
  | S f ->
    (match find (autonomous step0 parked0 s) (seq O (nthreads0 s)) with
     | Some t ->
       let (s', tr') = go step0 parked0 fuel s t tr in
       settle step0 parked0 nthreads0 f s' tr'
     | None -> (s, tr))

(** val macro1 :
    ('a1 -> tid -> 'a1 option) -> ('a1 -> tid -> bool) -> ('a1 -> tid ->
    bool) -> ('a1 -> nat) -> nat -> 'a1 -> tid -> tid list -> 'a1 * tid list **)

let macro1 step0 parked0 skip0 nthreads0 fuel s t tr =
  if (&&) ((&&) (parked0 s t) (enabled step0 s t)) (negb (skip0 s t))
  then let (s', tr') = go step0 parked0 fuel s t tr in
       settle step0 parked0 nthreads0 fuel s' tr'
  else (s, tr)

(** val macro :
    ('a1 -> tid -> 'a1 option) -> ('a1 -> tid -> bool) -> ('a1 -> tid ->
    bool) -> ('a1 -> nat) -> nat -> 'a1 -> tid list -> tid list -> 'a1 * tid
    list **)

let rec macro step0 parked0 skip0 nthreads0 fuel s sch tr =
  match sch with
  | [] -> (s, tr)
  | t :: r ->
    let (s', tr') = macro1 step0 parked0 skip0 nthreads0 fuel s t tr in
    macro step0 parked0 skip0 nthreads0 fuel s' r tr'

type op =
| OFirst
| OLast
| OGet of nat
| OStore of bool * nat * nat
| ODelete of nat
| OTrunc of nat
| OSet
| OGetS
| OClose

type outcome =
| Ok of nat
| NotFound
| ErrClosed
| ErrSealed
| IOErr
| MetaErr
| Panic

type hnd = { h_base : nat; h_ents : nat list; h_wr : nat; h_syn : nat;
             h_cnt : nat; h_sealed : bool; h_closes : nat }

type fin =
| FUnset
| FNil
| FSet of nat list * nat

type st = { s_ref : nat; s_ret : bool; s_fin : fin; s_open : bool;
            s_segs : nat list; s_min : nat }

type shared = { g_closed : bool; g_mu : tid option; g_trig : bool;
                g_trig_closed : bool; g_await : nat option;
                g_chans : bool list; g_cur : nat; g_states : st list;
                g_hnds : hnd list; g_meta_closes : nat; g_stable : nat }

type kont =
| KRet
| KUnlock
| KOuter of nat
| KRot
| KRetry

type pc =
| PIdle
| PChecked
| PStErr
| PLock
| PLocked
| PWaiting of nat
| PRecvAwait of nat
| PRelock
| PLoad
| PLoaded of nat
| PAcq of nat
| PBody of nat
| PGetRead of nat * nat
| PApp1 of nat
| PApp2 of nat
| PApp3 of nat
| PTrig of nat
| PSend of nat
| PM0 of kont
| PM1 of nat * kont
| PM2 of nat * kont
| PM3 of nat * kont
| PM4 of nat * fin * kont
| PRel of nat * outcome * kont
| PLast of nat * outcome * kont
| PRun of nat list * nat * outcome * kont
| PUnl of outcome
| PCFlag
| PCLock
| PCLocked
| PC3
| PC4
| PC5 of nat
| PC6 of nat
| PCSwapped of nat * nat
| PC8 of nat
| PRIdle
| PRRecv
| PRLock
| PRLocked
| PRExit
| PRT3
| PRT4 of nat option
| PRT5 of nat option
| PRDone
| PPanic

type thread = { t_rot : bool; t_prog : op list; t_outs : outcome list;
                t_pc : pc }

type sys = { sh : shared; ths : thread list }

(** val upd : 'a1 list -> nat -> 'a1 -> 'a1 list **)

let rec upd l i x =
  match l with
  | [] -> []
  | a :: r -> (match i with
               | O -> x :: r
               | S j -> a :: (upd r j x))

(** val dst : st **)

let dst =
  { s_ref = O; s_ret = false; s_fin = FUnset; s_open = false; s_segs = [];
    s_min = O }

(** val dh : hnd **)

let dh =
  { h_base = O; h_ents = []; h_wr = O; h_syn = O; h_cnt = O; h_sealed =
    false; h_closes = O }

(** val getst : shared -> nat -> st **)

let getst g x =
  nth x g.g_states dst

(** val geth : shared -> nat -> hnd **)

let geth g h =
  nth h g.g_hnds dh

(** val set_states : shared -> st list -> shared **)

let set_states g l =
  { g_closed = g.g_closed; g_mu = g.g_mu; g_trig = g.g_trig; g_trig_closed =
    g.g_trig_closed; g_await = g.g_await; g_chans = g.g_chans; g_cur =
    g.g_cur; g_states = l; g_hnds = g.g_hnds; g_meta_closes =
    g.g_meta_closes; g_stable = g.g_stable }

(** val set_hnds : shared -> hnd list -> shared **)

let set_hnds g l =
  { g_closed = g.g_closed; g_mu = g.g_mu; g_trig = g.g_trig; g_trig_closed =
    g.g_trig_closed; g_await = g.g_await; g_chans = g.g_chans; g_cur =
    g.g_cur; g_states = g.g_states; g_hnds = l; g_meta_closes =
    g.g_meta_closes; g_stable = g.g_stable }

(** val set_mu : shared -> tid option -> shared **)

let set_mu g m =
  { g_closed = g.g_closed; g_mu = m; g_trig = g.g_trig; g_trig_closed =
    g.g_trig_closed; g_await = g.g_await; g_chans = g.g_chans; g_cur =
    g.g_cur; g_states = g.g_states; g_hnds = g.g_hnds; g_meta_closes =
    g.g_meta_closes; g_stable = g.g_stable }

(** val set_closed : shared -> shared **)

let set_closed g =
  { g_closed = true; g_mu = g.g_mu; g_trig = g.g_trig; g_trig_closed =
    g.g_trig_closed; g_await = g.g_await; g_chans = g.g_chans; g_cur =
    g.g_cur; g_states = g.g_states; g_hnds = g.g_hnds; g_meta_closes =
    g.g_meta_closes; g_stable = g.g_stable }

(** val set_trig : shared -> bool -> bool -> shared **)

let set_trig g b c =
  { g_closed = g.g_closed; g_mu = g.g_mu; g_trig = b; g_trig_closed = c;
    g_await = g.g_await; g_chans = g.g_chans; g_cur = g.g_cur; g_states =
    g.g_states; g_hnds = g.g_hnds; g_meta_closes = g.g_meta_closes;
    g_stable = g.g_stable }

(** val set_await : shared -> nat option -> bool list -> shared **)

let set_await g a cs =
  { g_closed = g.g_closed; g_mu = g.g_mu; g_trig = g.g_trig; g_trig_closed =
    g.g_trig_closed; g_await = a; g_chans = cs; g_cur = g.g_cur; g_states =
    g.g_states; g_hnds = g.g_hnds; g_meta_closes = g.g_meta_closes;
    g_stable = g.g_stable }

(** val set_cur : shared -> nat -> st list -> shared **)

let set_cur g c l =
  { g_closed = g.g_closed; g_mu = g.g_mu; g_trig = g.g_trig; g_trig_closed =
    g.g_trig_closed; g_await = g.g_await; g_chans = g.g_chans; g_cur = c;
    g_states = l; g_hnds = g.g_hnds; g_meta_closes = g.g_meta_closes;
    g_stable = g.g_stable }

(** val set_meta : shared -> nat -> nat -> shared **)

let set_meta g m s =
  { g_closed = g.g_closed; g_mu = g.g_mu; g_trig = g.g_trig; g_trig_closed =
    g.g_trig_closed; g_await = g.g_await; g_chans = g.g_chans; g_cur =
    g.g_cur; g_states = g.g_states; g_hnds = g.g_hnds; g_meta_closes = m;
    g_stable = s }

(** val st_ref : st -> nat -> st **)

let st_ref s r =
  { s_ref = r; s_ret = s.s_ret; s_fin = s.s_fin; s_open = s.s_open; s_segs =
    s.s_segs; s_min = s.s_min }

(** val st_fin : st -> fin -> st **)

let st_fin s f =
  { s_ref = s.s_ref; s_ret = s.s_ret; s_fin = f; s_open = s.s_open; s_segs =
    s.s_segs; s_min = s.s_min }

(** val st_retire : st -> fin -> st **)

let st_retire s f =
  { s_ref = s.s_ref; s_ret = true; s_fin = f; s_open = s.s_open; s_segs =
    s.s_segs; s_min = s.s_min }

(** val upd_st : shared -> nat -> st -> shared **)

let upd_st g x s =
  set_states g (upd g.g_states x s)

(** val upd_h : shared -> nat -> hnd -> shared **)

let upd_h g h v =
  set_hnds g (upd g.g_hnds h v)

(** val close_h : hnd -> hnd **)

let close_h h =
  { h_base = h.h_base; h_ents = h.h_ents; h_wr = h.h_wr; h_syn = h.h_syn;
    h_cnt = h.h_cnt; h_sealed = h.h_sealed; h_closes = (S h.h_closes) }

(** val close_all : hnd list -> nat list -> hnd list **)

let rec close_all l = function
| [] -> l
| h :: r -> close_all (upd l h (close_h (nth h l dh))) r

(** val tail_of : st -> nat **)

let tail_of s =
  last s.s_segs O

(** val last_index : shared -> st -> nat **)

let last_index g s =
  let t = geth g (tail_of s) in
  if Nat.ltb O t.h_cnt
  then sub (add t.h_base t.h_cnt) (S O)
  else if Nat.leb (S (S O)) (length s.s_segs) then sub t.h_base (S O) else O

(** val first_index : shared -> st -> nat **)

let first_index g s =
  if (&&) (Nat.eqb (length s.s_segs) (S O))
       (Nat.eqb (geth g (tail_of s)).h_cnt O)
  then O
  else s.s_min

(** val seg_for : shared -> nat list -> nat -> nat option -> nat option **)

let rec seg_for g segs i acc =
  match segs with
  | [] -> acc
  | h :: r ->
    if Nat.leb (geth g h).h_base i then seg_for g r i (Some h) else acc

(** val find_log : shared -> st -> nat -> nat option **)

let find_log g s i =
  let f = first_index g s in
  if (&&) ((&&) (Nat.ltb O f) (Nat.leb f i)) (Nat.leb i (last_index g s))
  then (match seg_for g s.s_segs i None with
        | Some h ->
          if Nat.ltb (sub i (geth g h).h_base) (geth g h).h_cnt
          then Some h
          else None
        | None -> None)
  else None

(** val read_log : shared -> nat -> nat -> outcome **)

let read_log g h i =
  let v = geth g h in
  let pos = sub i v.h_base in
  if Nat.leb (length v.h_ents) pos
  then Panic
  else if Nat.ltb O v.h_closes then IOErr else Ok (nth pos v.h_ents O)

(** val split_head :
    shared -> nat -> nat -> nat list -> nat list * nat list **)

let rec split_head g newMin lastIdx segs = match segs with
| [] -> ([], [])
| h :: r ->
  (match r with
   | [] -> if Nat.leb newMin lastIdx then ([], segs) else ((h :: []), [])
   | h2 :: _ ->
     if Nat.leb newMin (sub (geth g h2).h_base (S O))
     then ([], segs)
     else let (a, b) = split_head g newMin lastIdx r in ((h :: a), b))

(** val split_tail : shared -> nat -> nat list -> nat list * nat list **)

let rec split_tail g newMax segs = match segs with
| [] -> ([], [])
| h :: r ->
  if Nat.leb (geth g h).h_base newMax
  then let (a, b) = split_tail g newMax r in ((h :: a), b)
  else ([], segs)

(** val new_hnd : nat -> hnd **)

let new_hnd base =
  { h_base = base; h_ents = []; h_wr = O; h_syn = O; h_cnt = O; h_sealed =
    false; h_closes = O }

(** val mk_state : nat list -> nat -> st **)

let mk_state segs mn =
  { s_ref = (S O); s_ret = false; s_fin = FUnset; s_open = true; s_segs =
    segs; s_min = mn }

(** val empty_state : st **)

let empty_state =
  { s_ref = (S O); s_ret = false; s_fin = FUnset; s_open = false; s_segs =
    []; s_min = O }

(** val publish : shared -> st -> shared **)

let publish g s =
  set_cur g (length g.g_states) (app g.g_states (s :: []))

(** val do_rotate : shared -> nat -> shared * nat list **)

let do_rotate g y =
  let s = getst g y in
  let t = geth g (tail_of s) in
  let nh = length g.g_hnds in
  let g1 = set_hnds g (app g.g_hnds ((new_hnd (add t.h_base t.h_cnt)) :: []))
  in
  ((publish g1 (mk_state (app s.s_segs (nh :: [])) s.s_min)), [])

(** val do_trunc_head : shared -> nat -> nat -> shared * nat list **)

let do_trunc_head g y newMin =
  let s = getst g y in
  let li = last_index g s in
  let (rm, keep) = split_head g newMin li s.s_segs in
  (match keep with
   | [] ->
     let nh = length g.g_hnds in
     let g1 = set_hnds g (app g.g_hnds ((new_hnd (add li (S O))) :: [])) in
     ((publish g1 (mk_state (nh :: []) (add li (S O)))), rm)
   | _ :: _ -> ((publish g (mk_state keep newMin)), rm))

(** val seal_h : hnd -> hnd **)

let seal_h h =
  { h_base = h.h_base; h_ents = h.h_ents; h_wr = h.h_wr; h_syn = h.h_syn;
    h_cnt = h.h_cnt; h_sealed = true; h_closes = h.h_closes }

(** val do_trunc_tail : shared -> nat -> nat -> shared * nat list **)

let do_trunc_tail g y newMax =
  let s = getst g y in
  let (keep, rm) = split_tail g newMax s.s_segs in
  let nh = length g.g_hnds in
  let g1 = set_hnds g (app g.g_hnds ((new_hnd (add newMax (S O))) :: [])) in
  ((publish g1 (mk_state (app keep (nh :: [])) s.s_min)), rm)

type dkind =
| DNoop
| DHead of nat
| DTail of nat

(** val classify : shared -> st -> op -> dkind **)

let classify g s o =
  let f = first_index g s in
  let l = last_index g s in
  (match o with
   | ODelete n0 ->
     if (||) (Nat.ltb n0 f) (Nat.ltb l (S O))
     then DNoop
     else DHead (add n0 (S O))
   | OTrunc n0 ->
     if Nat.leb l n0
     then DNoop
     else if Nat.ltb n0 f then DHead (add l (S O)) else DTail n0
   | _ -> DNoop)

(** val pm3_tx : shared -> op option -> nat -> kont -> shared * nat list **)

let pm3_tx g o y k =
  let same = ((publish g (mk_state (getst g y).s_segs (getst g y).s_min)), [])
  in
  (match k with
   | KRot -> do_rotate g y
   | _ ->
     (match o with
      | Some o0 ->
        (match classify g (getst g y) o0 with
         | DNoop -> same
         | DHead m -> do_trunc_head g y m
         | DTail m -> do_trunc_tail g y m)
      | None -> same))

(** val cur_op : thread -> op option **)

let cur_op th =
  hd_error th.t_prog

(** val setpc : thread -> pc -> thread **)

let setpc th p =
  { t_rot = th.t_rot; t_prog = th.t_prog; t_outs = th.t_outs; t_pc = p }

(** val finish : thread -> outcome -> thread **)

let finish th r =
  { t_rot = th.t_rot; t_prog = (tl th.t_prog); t_outs =
    (app th.t_outs (r :: [])); t_pc = PIdle }

(** val panic : thread -> thread **)

let panic th =
  { t_rot = th.t_rot; t_prog = (tl th.t_prog); t_outs =
    (app th.t_outs (Panic :: [])); t_pc = PPanic }

(** val is_locking : op -> bool **)

let is_locking = function
| OStore (_, _, _) -> true
| ODelete _ -> true
| OTrunc _ -> true
| _ -> false

(** val continue : thread -> outcome -> kont -> thread **)

let continue th r = function
| KRet -> finish th r
| KUnlock -> setpc th (PUnl r)
| KOuter x -> setpc th (PRel (x, r, KUnlock))
| KRot -> setpc th PRT3
| KRetry -> setpc th PLoad

(** val with_ents : hnd -> nat list -> bool -> hnd **)

let with_ents h e sealed =
  { h_base = h.h_base; h_ents = e; h_wr = h.h_wr; h_syn = h.h_syn; h_cnt =
    h.h_cnt; h_sealed = sealed; h_closes = h.h_closes }

(** val with_io : hnd -> nat -> nat -> nat -> hnd **)

let with_io h wr syn cnt =
  { h_base = h.h_base; h_ents = h.h_ents; h_wr = wr; h_syn = syn; h_cnt =
    cnt; h_sealed = h.h_sealed; h_closes = h.h_closes }

(** val step_thread : shared -> tid -> thread -> (shared * thread) option **)

let step_thread g me th =
  match th.t_pc with
  | PIdle ->
    (match cur_op th with
     | Some o ->
       (match o with
        | OClose ->
          if g.g_closed
          then Some (g, (finish th (Ok O)))
          else Some ((set_closed g), (setpc th PCFlag))
        | _ ->
          if g.g_closed
          then Some (g, (finish th ErrClosed))
          else Some (g, (setpc th PChecked)))
     | None -> None)
  | PChecked ->
    (match cur_op th with
     | Some o ->
       (match o with
        | OSet ->
          if Nat.ltb O g.g_meta_closes
          then Some (g, (setpc th PStErr))
          else Some ((set_meta g g.g_meta_closes (S g.g_stable)),
                 (finish th (Ok O)))
        | OGetS ->
          if Nat.ltb O g.g_meta_closes
          then Some (g, (setpc th PStErr))
          else Some (g, (finish th (Ok g.g_stable)))
        | _ ->
          if is_locking o
          then Some (g, (setpc th PLock))
          else Some (g, (setpc th PLoad)))
     | None -> None)
  | PStErr ->
    if g.g_closed
    then Some (g, (finish th ErrClosed))
    else Some (g, (finish th MetaErr))
  | PLock ->
    (match g.g_mu with
     | Some _ -> None
     | None -> Some ((set_mu g (Some me)), (setpc th PLocked)))
  | PLocked ->
    (match g.g_await with
     | Some c -> Some ((set_mu g None), (setpc th (PWaiting c)))
     | None -> Some (g, (setpc th PLoad)))
  | PWaiting c -> Some (g, (setpc th (PRecvAwait c)))
  | PRecvAwait c ->
    if nth c g.g_chans false then Some (g, (setpc th PRelock)) else None
  | PRelock ->
    (match g.g_mu with
     | Some _ -> None
     | None -> Some ((set_mu g (Some me)), (setpc th PLoad)))
  | PLoad -> Some (g, (setpc th (PLoaded g.g_cur)))
  | PLoaded x ->
    let s = getst g x in
    Some ((upd_st g x (st_ref s (S s.s_ref))), (setpc th (PAcq x)))
  | PAcq x ->
    (match cur_op th with
     | Some o ->
       if negb (Nat.eqb g.g_cur x)
       then Some (g, (setpc th (PRel (x, ErrClosed, KRetry))))
       else if (getst g x).s_open
            then Some (g, (setpc th (PBody x)))
            else Some (g,
                   (setpc th (PRel (x, ErrClosed,
                     (if is_locking o then KUnlock else KRet)))))
     | None -> None)
  | PBody x ->
    let s = getst g x in
    if negb s.s_open
    then Some (g, (panic th))
    else (match cur_op th with
          | Some o ->
            (match o with
             | OFirst ->
               Some (g, (setpc th (PRel (x, (Ok (first_index g s)), KRet))))
             | OLast ->
               Some (g, (setpc th (PRel (x, (Ok (last_index g s)), KRet))))
             | OGet i ->
               (match find_log g s i with
                | Some h -> Some (g, (setpc th (PGetRead (x, h))))
                | None -> Some (g, (setpc th (PRel (x, NotFound, KRet)))))
             | OStore (seal, tag, n0) ->
               let t = tail_of s in
               let h = geth g t in
               if h.h_sealed
               then Some (g, (setpc th (PRel (x, ErrSealed, KUnlock))))
               else Some
                      ((upd_h g t
                         (with_ents h (app h.h_ents (repeat tag n0)) seal)),
                      (setpc th (PApp1 x)))
             | ODelete n0 ->
               (match classify g s (ODelete n0) with
                | DNoop -> Some (g, (setpc th (PRel (x, (Ok O), KUnlock))))
                | _ -> Some (g, (setpc th (PM0 (KOuter x)))))
             | OTrunc n0 ->
               (match classify g s (OTrunc n0) with
                | DNoop -> Some (g, (setpc th (PRel (x, (Ok O), KUnlock))))
                | _ -> Some (g, (setpc th (PM0 (KOuter x)))))
             | _ -> None)
          | None -> None)
  | PGetRead (x, h) ->
    (match cur_op th with
     | Some o ->
       (match o with
        | OGet i ->
          (match read_log g h i with
           | Panic -> Some (g, (panic th))
           | x0 -> Some (g, (setpc th (PRel (x, x0, KRet)))))
        | _ -> None)
     | None -> None)
  | PApp1 x ->
    let t = tail_of (getst g x) in
    let h = geth g t in
    Some ((upd_h g t (with_io h (length h.h_ents) h.h_syn h.h_cnt)),
    (setpc th (PApp2 x)))
  | PApp2 x ->
    let t = tail_of (getst g x) in
    let h = geth g t in
    Some ((upd_h g t (with_io h h.h_wr h.h_wr h.h_cnt)), (setpc th (PApp3 x)))
  | PApp3 x ->
    let t = tail_of (getst g x) in
    let h = geth g t in
    let g' = upd_h g t (with_io h h.h_wr h.h_syn (length h.h_ents)) in
    if h.h_sealed
    then Some (g', (setpc th (PTrig x)))
    else Some (g', (setpc th (PRel (x, (Ok O), KUnlock))))
  | PTrig x ->
    if g.g_closed
    then Some (g, (setpc th (PRel (x, (Ok O), KUnlock))))
    else Some
           ((set_await g (Some (length g.g_chans))
              (app g.g_chans (false :: []))), (setpc th (PSend x)))
  | PSend x ->
    if g.g_trig_closed
    then Some (g, (panic th))
    else if g.g_trig
         then None
         else Some ((set_trig g true false),
                (setpc th (PRel (x, (Ok O), KUnlock))))
  | PM0 k -> Some (g, (setpc th (PM1 (g.g_cur, k))))
  | PM1 (y, k) ->
    let s = getst g y in
    if negb s.s_open
    then Some (g, (panic th))
    else Some ((upd_st g y (st_ref s (S s.s_ref))), (setpc th (PM2 (y, k))))
  | PM2 (y, k) ->
    let g1 =
      match k with
      | KOuter _ ->
        (match cur_op th with
         | Some o ->
           (match o with
            | OTrunc n0 ->
              (match classify g (getst g y) (OTrunc n0) with
               | DTail m ->
                 let t = tail_of (getst g y) in
                 if Nat.leb (geth g t).h_base m
                 then upd_h g t (seal_h (geth g t))
                 else g
               | _ -> g)
            | _ -> g)
         | None -> g)
      | _ -> g
    in
    if Nat.ltb O g.g_meta_closes
    then Some (g1, (setpc th (PRel (y, MetaErr, k))))
    else Some (g1, (setpc th (PM3 (y, k))))
  | PM3 (y, k) ->
    let (g', hs) = pm3_tx g (cur_op th) y k in
    Some (g', (setpc th (PM4 (y, (FSet (hs, g'.g_cur)), k))))
  | PM4 (y, f, k) ->
    Some ((upd_st g y (st_retire (getst g y) f)),
      (setpc th (PRel (y, (Ok O), k))))
  | PRel (x, r, k) ->
    let s = getst g x in
    let g' = upd_st g x (st_ref s (sub s.s_ref (S O))) in
    if (&&) (Nat.eqb s.s_ref (S O)) s.s_ret
    then Some (g', (setpc th (PLast (x, r, k))))
    else Some (g', (continue th r k))
  | PLast (x, r, k) ->
    let s = getst g x in
    let g' = upd_st g x (st_fin s FNil) in
    (match s.s_fin with
     | FSet (hs, sc) -> Some (g', (setpc th (PRun (hs, sc, r, k))))
     | _ -> Some (g', (continue th r k)))
  | PRun (hs, sc, r, k) ->
    Some ((set_hnds g (close_all g.g_hnds hs)), (setpc th (PRel (sc, r, k))))
  | PUnl r -> Some ((set_mu g None), (finish th r))
  | PCFlag -> Some (g, (setpc th PCLock))
  | PCLock ->
    (match g.g_mu with
     | Some _ -> None
     | None -> Some ((set_mu g (Some me)), (setpc th PCLocked)))
  | PCLocked ->
    (match g.g_await with
     | Some c ->
       if nth c g.g_chans false
       then Some (g, (panic th))
       else Some ((set_await g None (upd g.g_chans c true)), (setpc th PC3))
     | None -> Some (g, (setpc th PC3)))
  | PC3 ->
    if g.g_trig_closed
    then Some (g, (panic th))
    else Some ((set_trig g g.g_trig true), (setpc th PC4))
  | PC4 -> Some (g, (setpc th (PC5 g.g_cur)))
  | PC5 x ->
    let s = getst g x in
    Some ((upd_st g x (st_ref s (S s.s_ref))), (setpc th (PC6 x)))
  | PC6 x ->
    Some ((publish g empty_state),
      (setpc th (PCSwapped (x, (length g.g_states)))))
  | PCSwapped (x, e) ->
    let s = getst g x in
    if negb s.s_open
    then Some (g, (panic th))
    else Some ((upd_st g x (st_retire s (FSet (s.s_segs, e)))),
           (setpc th (PC8 x)))
  | PC8 x ->
    Some ((set_meta g (S g.g_meta_closes) g.g_stable),
      (setpc th (PRel (x, (Ok O), KUnlock))))
  | PRIdle ->
    if g.g_trig
    then Some ((set_trig g false g.g_trig_closed), (setpc th PRRecv))
    else if g.g_trig_closed then Some (g, (setpc th PRRecv)) else None
  | PRRecv -> Some (g, (setpc th PRLock))
  | PRLock ->
    (match g.g_mu with
     | Some _ -> None
     | None -> Some ((set_mu g (Some me)), (setpc th PRLocked)))
  | PRLocked ->
    if g.g_closed
    then Some (g, (setpc th PRExit))
    else Some (g, (setpc th (PM0 KRot)))
  | PRExit -> Some ((set_mu g None), (setpc th PRDone))
  | PRT3 -> Some ((set_await g None g.g_chans), (setpc th (PRT4 g.g_await)))
  | PRT4 d -> Some ((set_mu g None), (setpc th (PRT5 d)))
  | PRT5 d ->
    (match d with
     | Some c ->
       if nth c g.g_chans false
       then Some (g, (panic th))
       else Some ((set_await g g.g_await (upd g.g_chans c true)),
              (setpc th PRIdle))
     | None -> Some (g, (panic th)))
  | _ -> None

(** val step : sys -> tid -> sys option **)

let step s t =
  match nth_error s.ths t with
  | Some th ->
    (match step_thread s.sh t th with
     | Some p ->
       let (g', th') = p in Some { sh = g'; ths = (upd s.ths t th') }
     | None -> None)
  | None -> None

(** val init_shared : shared **)

let init_shared =
  { g_closed = false; g_mu = None; g_trig = false; g_trig_closed = false;
    g_await = None; g_chans = []; g_cur = O; g_states = ({ s_ref = O; s_ret =
    false; s_fin = FUnset; s_open = true; s_segs = (O :: []); s_min = (S
    O) } :: []); g_hnds = ((new_hnd (S O)) :: []); g_meta_closes = O;
    g_stable = O }

(** val caller : op list -> thread **)

let caller p =
  { t_rot = false; t_prog = p; t_outs = []; t_pc = PIdle }

(** val rotator : thread **)

let rotator =
  { t_rot = true; t_prog = []; t_outs = []; t_pc = PRIdle }

(** val init : op list list -> op list list -> sys **)

let init progs extra =
  { sh = init_shared; ths =
    (app (map caller progs) (rotator :: (map caller extra))) }

(** val pc_point : pc -> bool **)

let pc_point = function
| PChecked -> true
| PLocked -> true
| PWaiting _ -> true
| PLoaded _ -> true
| PGetRead (_, _) -> true
| PApp1 _ -> true
| PApp2 _ -> true
| PApp3 _ -> true
| PM3 (_, _) -> true
| PM4 (_, _, _) -> true
| PLast (_, _, _) -> true
| PCFlag -> true
| PCLocked -> true
| PCSwapped (_, _) -> true
| PRRecv -> true
| PRLocked -> true
| _ -> false

(** val th_done : thread -> bool **)

let th_done th =
  match th.t_pc with
  | PIdle -> (match th.t_prog with
              | [] -> true
              | _ :: _ -> false)
  | PRDone -> true
  | PPanic -> true
  | _ -> false

(** val th_parked : thread -> bool **)

let th_parked th =
  (||) ((||) (pc_point th.t_pc) (th_done th))
    (match th.t_pc with
     | PIdle -> (match th.t_outs with
                 | [] -> true
                 | _ :: _ -> false)
     | _ -> false)

(** val parked : sys -> tid -> bool **)

let parked s t =
  match nth_error s.ths t with
  | Some th -> th_parked th
  | None -> true

(** val pre_lock : thread -> bool **)

let pre_lock th =
  match th.t_pc with
  | PChecked -> (match cur_op th with
                 | Some o -> is_locking o
                 | None -> false)
  | PWaiting _ -> true
  | PCFlag -> true
  | PRRecv -> true
  | _ -> false

(** val th_blocked : thread -> bool **)

let th_blocked th =
  (&&) (negb (th_parked th))
    (negb (match th.t_pc with
           | PRIdle -> true
           | _ -> false))

(** val skip : sys -> tid -> bool **)

let skip s t =
  match nth_error s.ths t with
  | Some th ->
    (&&) (pre_lock th)
      (match s.sh.g_mu with
       | Some o ->
         (&&) (negb (Nat.eqb o t))
           (existsb (fun j ->
             (&&) ((&&) (negb (Nat.eqb j t)) (negb (Nat.eqb j o)))
               (match nth_error s.ths j with
                | Some tj -> th_blocked tj
                | None -> false)) (seq O (length s.ths)))
       | None -> false)
  | None -> true

(** val nthreads : sys -> nat **)

let nthreads s =
  length s.ths

(** val split_on_aux : n -> str -> str -> str list **)

let rec split_on_aux c s cur =
  match s with
  | [] -> (rev_append cur []) :: []
  | x :: r ->
    if N.eqb x c
    then (rev_append cur []) :: (split_on_aux c r [])
    else split_on_aux c r (x :: cur)

(** val split_on : n -> str -> str list **)

let split_on c s =
  split_on_aux c s []

(** val hexnat : str -> nat option **)

let hexnat s =
  match hex_to_N s with
  | Some n0 -> Some (N.to_nat n0)
  | None -> None

(** val nat_hex : nat -> str **)

let nat_hex n0 =
  n_to_hex (N.of_nat n0)

(** val all_some : 'a1 option list -> 'a1 list option **)

let rec all_some = function
| [] -> Some []
| o :: r ->
  (match o with
   | Some a -> (match all_some r with
                | Some t -> Some (a :: t)
                | None -> None)
   | None -> None)

(** val parse_op14 : str -> op option **)

let parse_op14 = function
| [] -> None
| n0 :: r ->
  (match n0 with
   | N0 -> None
   | Npos p ->
     (match p with
      | XI p0 ->
        (match p0 with
         | XI p1 ->
           (match p1 with
            | XI p2 ->
              (match p2 with
               | XO p3 ->
                 (match p3 with
                  | XO p4 ->
                    (match p4 with
                     | XO p5 ->
                       (match p5 with
                        | XH -> option_map (fun x -> OGet x) (hexnat r)
                        | _ -> None)
                     | _ -> None)
                  | _ -> None)
               | _ -> None)
            | XO p2 ->
              (match p2 with
               | XI p3 ->
                 (match p3 with
                  | XO p4 ->
                    (match p4 with
                     | XI p5 ->
                       (match p5 with
                        | XH ->
                          (match r with
                           | [] -> Some OGetS
                           | _ :: _ -> None)
                        | _ -> None)
                     | XO p5 ->
                       (match p5 with
                        | XH ->
                          (match r with
                           | [] -> Some OSet
                           | _ :: _ -> None)
                        | _ -> None)
                     | XH -> None)
                  | _ -> None)
               | XO p3 ->
                 (match p3 with
                  | XI p4 ->
                    (match p4 with
                     | XO p5 ->
                       (match p5 with
                        | XH ->
                          (match r with
                           | [] -> None
                           | sl :: l ->
                             (match sl with
                              | N0 ->
                                (match l with
                                 | [] -> None
                                 | n1 :: r0 ->
                                   (match n1 with
                                    | N0 -> None
                                    | Npos p6 ->
                                      (match p6 with
                                       | XI p7 ->
                                         (match p7 with
                                          | XI p8 ->
                                            (match p8 with
                                             | XI p9 ->
                                               (match p9 with
                                                | XI p10 ->
                                                  (match p10 with
                                                   | XI p11 ->
                                                     (match p11 with
                                                      | XO p12 ->
                                                        (match p12 with
                                                         | XH ->
                                                           (match split_on
                                                                    (Npos (XI
                                                                    (XI (XI
                                                                    (XI (XI
                                                                    (XO
                                                                    XH)))))))
                                                                    r0 with
                                                            | [] -> None
                                                            | tg :: l0 ->
                                                              (match l0 with
                                                               | [] -> None
                                                               | n2 :: l1 ->
                                                                 (match l1 with
                                                                  | [] ->
                                                                    (match 
                                                                    hexnat tg with
                                                                    | Some tg0 ->
                                                                    (match 
                                                                    hexnat n2 with
                                                                    | Some n3 ->
                                                                    (match n3 with
                                                                    | O ->
                                                                    None
                                                                    | S n4 ->
                                                                    if 
                                                                    N.eqb sl
                                                                    (Npos (XO
                                                                    (XO (XO
                                                                    (XO (XI
                                                                    XH))))))
                                                                    then 
                                                                    Some
                                                                    (OStore
                                                                    (false,
                                                                    tg0, (S
                                                                    n4)))
                                                                    else 
                                                                    if 
                                                                    N.eqb sl
                                                                    (Npos (XI
                                                                    (XO (XO
                                                                    (XO (XI
                                                                    XH))))))
                                                                    then 
                                                                    Some
                                                                    (OStore
                                                                    (true,
                                                                    tg0, (S
                                                                    n4)))
                                                                    else None)
                                                                    | None ->
                                                                    None)
                                                                    | None ->
                                                                    None)
                                                                  | _ :: _ ->
                                                                    None)))
                                                         | _ -> None)
                                                      | _ -> None)
                                                   | _ -> None)
                                                | _ -> None)
                                             | _ -> None)
                                          | _ -> None)
                                       | _ -> None)))
                              | Npos p6 ->
                                (match p6 with
                                 | XI p7 ->
                                   (match p7 with
                                    | XI _ ->
                                      (match l with
                                       | [] -> None
                                       | n1 :: r0 ->
                                         (match n1 with
                                          | N0 -> None
                                          | Npos p9 ->
                                            (match p9 with
                                             | XI p10 ->
                                               (match p10 with
                                                | XI p11 ->
                                                  (match p11 with
                                                   | XI p12 ->
                                                     (match p12 with
                                                      | XI p13 ->
                                                        (match p13 with
                                                         | XI p14 ->
                                                           (match p14 with
                                                            | XO p15 ->
                                                              (match p15 with
                                                               | XH ->
                                                                 (match 
                                                                  split_on
                                                                    (Npos (XI
                                                                    (XI (XI
                                                                    (XI (XI
                                                                    (XO
                                                                    XH)))))))
                                                                    r0 with
                                                                  | [] -> None
                                                                  | tg :: l0 ->
                                                                    (match l0 with
                                                                    | [] ->
                                                                    None
                                                                    | n2 :: l1 ->
                                                                    (match l1 with
                                                                    | [] ->
                                                                    (match 
                                                                    hexnat tg with
                                                                    | Some tg0 ->
                                                                    (match 
                                                                    hexnat n2 with
                                                                    | Some n3 ->
                                                                    (match n3 with
                                                                    | O ->
                                                                    None
                                                                    | S n4 ->
                                                                    if 
                                                                    N.eqb sl
                                                                    (Npos (XO
                                                                    (XO (XO
                                                                    (XO (XI
                                                                    XH))))))
                                                                    then 
                                                                    Some
                                                                    (OStore
                                                                    (false,
                                                                    tg0, (S
                                                                    n4)))
                                                                    else 
                                                                    if 
                                                                    N.eqb sl
                                                                    (Npos (XI
                                                                    (XO (XO
                                                                    (XO (XI
                                                                    XH))))))
                                                                    then 
                                                                    Some
                                                                    (OStore
                                                                    (true,
                                                                    tg0, (S
                                                                    n4)))
                                                                    else None)
                                                                    | None ->
                                                                    None)
                                                                    | None ->
                                                                    None)
                                                                    | _ :: _ ->
                                                                    None)))
                                                               | _ -> None)
                                                            | _ -> None)
                                                         | _ -> None)
                                                      | _ -> None)
                                                   | _ -> None)
                                                | _ -> None)
                                             | _ -> None)))
                                    | XO p8 ->
                                      (match p8 with
                                       | XI _ ->
                                         (match l with
                                          | [] -> None
                                          | n1 :: r0 ->
                                            (match n1 with
                                             | N0 -> None
                                             | Npos p10 ->
                                               (match p10 with
                                                | XI p11 ->
                                                  (match p11 with
                                                   | XI p12 ->
                                                     (match p12 with
                                                      | XI p13 ->
                                                        (match p13 with
                                                         | XI p14 ->
                                                           (match p14 with
                                                            | XI p15 ->
                                                              (match p15 with
                                                               | XO p16 ->
                                                                 (match p16 with
                                                                  | XH ->
                                                                    (match 
                                                                    split_on
                                                                    (Npos (XI
                                                                    (XI (XI
                                                                    (XI (XI
                                                                    (XO
                                                                    XH)))))))
                                                                    r0 with
                                                                    | [] ->
                                                                    None
                                                                    | tg :: l0 ->
                                                                    (match l0 with
                                                                    | [] ->
                                                                    None
                                                                    | n2 :: l1 ->
                                                                    (match l1 with
                                                                    | [] ->
                                                                    (match 
                                                                    hexnat tg with
                                                                    | Some tg0 ->
                                                                    (match 
                                                                    hexnat n2 with
                                                                    | Some n3 ->
                                                                    (match n3 with
                                                                    | O ->
                                                                    None
                                                                    | S n4 ->
                                                                    if 
                                                                    N.eqb sl
                                                                    (Npos (XO
                                                                    (XO (XO
                                                                    (XO (XI
                                                                    XH))))))
                                                                    then 
                                                                    Some
                                                                    (OStore
                                                                    (false,
                                                                    tg0, (S
                                                                    n4)))
                                                                    else 
                                                                    if 
                                                                    N.eqb sl
                                                                    (Npos (XI
                                                                    (XO (XO
                                                                    (XO (XI
                                                                    XH))))))
                                                                    then 
                                                                    Some
                                                                    (OStore
                                                                    (true,
                                                                    tg0, (S
                                                                    n4)))
                                                                    else None)
                                                                    | None ->
                                                                    None)
                                                                    | None ->
                                                                    None)
                                                                    | _ :: _ ->
                                                                    None)))
                                                                  | _ -> None)
                                                               | _ -> None)
                                                            | _ -> None)
                                                         | _ -> None)
                                                      | _ -> None)
                                                   | _ -> None)
                                                | _ -> None)))
                                       | XO p9 ->
                                         (match p9 with
                                          | XI _ ->
                                            (match l with
                                             | [] -> None
                                             | n1 :: r0 ->
                                               (match n1 with
                                                | N0 -> None
                                                | Npos p11 ->
                                                  (match p11 with
                                                   | XI p12 ->
                                                     (match p12 with
                                                      | XI p13 ->
                                                        (match p13 with
                                                         | XI p14 ->
                                                           (match p14 with
                                                            | XI p15 ->
                                                              (match p15 with
                                                               | XI p16 ->
                                                                 (match p16 with
                                                                  | XO p17 ->
                                                                    (match p17 with
                                                                    | XH ->
                                                                    (match 
                                                                    split_on
                                                                    (Npos (XI
                                                                    (XI (XI
                                                                    (XI (XI
                                                                    (XO
                                                                    XH)))))))
                                                                    r0 with
                                                                    | [] ->
                                                                    None
                                                                    | tg :: l0 ->
                                                                    (match l0 with
                                                                    | [] ->
                                                                    None
                                                                    | n2 :: l1 ->
                                                                    (match l1 with
                                                                    | [] ->
                                                                    (match 
                                                                    hexnat tg with
                                                                    | Some tg0 ->
                                                                    (match 
                                                                    hexnat n2 with
                                                                    | Some n3 ->
                                                                    (match n3 with
                                                                    | O ->
                                                                    None
                                                                    | S n4 ->
                                                                    if 
                                                                    N.eqb sl
                                                                    (Npos (XO
                                                                    (XO (XO
                                                                    (XO (XI
                                                                    XH))))))
                                                                    then 
                                                                    Some
                                                                    (OStore
                                                                    (false,
                                                                    tg0, (S
                                                                    n4)))
                                                                    else 
                                                                    if 
                                                                    N.eqb sl
                                                                    (Npos (XI
                                                                    (XO (XO
                                                                    (XO (XI
                                                                    XH))))))
                                                                    then 
                                                                    Some
                                                                    (OStore
                                                                    (true,
                                                                    tg0, (S
                                                                    n4)))
                                                                    else None)
                                                                    | None ->
                                                                    None)
                                                                    | None ->
                                                                    None)
                                                                    | _ :: _ ->
                                                                    None)))
                                                                    | _ ->
                                                                    None)
                                                                  | _ -> None)
                                                               | _ -> None)
                                                            | _ -> None)
                                                         | _ -> None)
                                                      | _ -> None)
                                                   | _ -> None)))
                                          | XO p10 ->
                                            (match p10 with
                                             | XI p11 ->
                                               (match p11 with
                                                | XH ->
                                                  (match l with
                                                   | [] ->
                                                     Some (OStore (true, O,
                                                       (S O)))
                                                   | n1 :: r0 ->
                                                     (match n1 with
                                                      | N0 -> None
                                                      | Npos p12 ->
                                                        (match p12 with
                                                         | XI p13 ->
                                                           (match p13 with
                                                            | XI p14 ->
                                                              (match p14 with
                                                               | XI p15 ->
                                                                 (match p15 with
                                                                  | XI p16 ->
                                                                    (match p16 with
                                                                    | XI p17 ->
                                                                    (match p17 with
                                                                    | XO p18 ->
                                                                    (match p18 with
                                                                    | XH ->
                                                                    (match 
                                                                    split_on
                                                                    (Npos (XI
                                                                    (XI (XI
                                                                    (XI (XI
                                                                    (XO
                                                                    XH)))))))
                                                                    r0 with
                                                                    | [] ->
                                                                    None
                                                                    | tg :: l0 ->
                                                                    (match l0 with
                                                                    | [] ->
                                                                    None
                                                                    | n2 :: l1 ->
                                                                    (match l1 with
                                                                    | [] ->
                                                                    (match 
                                                                    hexnat tg with
                                                                    | Some tg0 ->
                                                                    (match 
                                                                    hexnat n2 with
                                                                    | Some n3 ->
                                                                    (match n3 with
                                                                    | O ->
                                                                    None
                                                                    | S n4 ->
                                                                    if 
                                                                    N.eqb sl
                                                                    (Npos (XO
                                                                    (XO (XO
                                                                    (XO (XI
                                                                    XH))))))
                                                                    then 
                                                                    Some
                                                                    (OStore
                                                                    (false,
                                                                    tg0, (S
                                                                    n4)))
                                                                    else 
                                                                    if 
                                                                    N.eqb sl
                                                                    (Npos (XI
                                                                    (XO (XO
                                                                    (XO (XI
                                                                    XH))))))
                                                                    then 
                                                                    Some
                                                                    (OStore
                                                                    (true,
                                                                    tg0, (S
                                                                    n4)))
                                                                    else None)
                                                                    | None ->
                                                                    None)
                                                                    | None ->
                                                                    None)
                                                                    | _ :: _ ->
                                                                    None)))
                                                                    | _ ->
                                                                    None)
                                                                    | _ ->
                                                                    None)
                                                                    | _ ->
                                                                    None)
                                                                  | _ -> None)
                                                               | _ -> None)
                                                            | _ -> None)
                                                         | _ -> None)))
                                                | _ ->
                                                  (match l with
                                                   | [] -> None
                                                   | n1 :: r0 ->
                                                     (match n1 with
                                                      | N0 -> None
                                                      | Npos p13 ->
                                                        (match p13 with
                                                         | XI p14 ->
                                                           (match p14 with
                                                            | XI p15 ->
                                                              (match p15 with
                                                               | XI p16 ->
                                                                 (match p16 with
                                                                  | XI p17 ->
                                                                    (match p17 with
                                                                    | XI p18 ->
                                                                    (match p18 with
                                                                    | XO p19 ->
                                                                    (match p19 with
                                                                    | XH ->
                                                                    (match 
                                                                    split_on
                                                                    (Npos (XI
                                                                    (XI (XI
                                                                    (XI (XI
                                                                    (XO
                                                                    XH)))))))
                                                                    r0 with
                                                                    | [] ->
                                                                    None
                                                                    | tg :: l0 ->
                                                                    (match l0 with
                                                                    | [] ->
                                                                    None
                                                                    | n2 :: l1 ->
                                                                    (match l1 with
                                                                    | [] ->
                                                                    (match 
                                                                    hexnat tg with
                                                                    | Some tg0 ->
                                                                    (match 
                                                                    hexnat n2 with
                                                                    | Some n3 ->
                                                                    (match n3 with
                                                                    | O ->
                                                                    None
                                                                    | S n4 ->
                                                                    if 
                                                                    N.eqb sl
                                                                    (Npos (XO
                                                                    (XO (XO
                                                                    (XO (XI
                                                                    XH))))))
                                                                    then 
                                                                    Some
                                                                    (OStore
                                                                    (false,
                                                                    tg0, (S
                                                                    n4)))
                                                                    else 
                                                                    if 
                                                                    N.eqb sl
                                                                    (Npos (XI
                                                                    (XO (XO
                                                                    (XO (XI
                                                                    XH))))))
                                                                    then 
                                                                    Some
                                                                    (OStore
                                                                    (true,
                                                                    tg0, (S
                                                                    n4)))
                                                                    else None)
                                                                    | None ->
                                                                    None)
                                                                    | None ->
                                                                    None)
                                                                    | _ :: _ ->
                                                                    None)))
                                                                    | _ ->
                                                                    None)
                                                                    | _ ->
                                                                    None)
                                                                    | _ ->
                                                                    None)
                                                                  | _ -> None)
                                                               | _ -> None)
                                                            | _ -> None)
                                                         | _ -> None))))
                                             | XO _ ->
                                               (match l with
                                                | [] -> None
                                                | n1 :: r0 ->
                                                  (match n1 with
                                                   | N0 -> None
                                                   | Npos p12 ->
                                                     (match p12 with
                                                      | XI p13 ->
                                                        (match p13 with
                                                         | XI p14 ->
                                                           (match p14 with
                                                            | XI p15 ->
                                                              (match p15 with
                                                               | XI p16 ->
                                                                 (match p16 with
                                                                  | XI p17 ->
                                                                    (match p17 with
                                                                    | XO p18 ->
                                                                    (match p18 with
                                                                    | XH ->
                                                                    (match 
                                                                    split_on
                                                                    (Npos (XI
                                                                    (XI (XI
                                                                    (XI (XI
                                                                    (XO
                                                                    XH)))))))
                                                                    r0 with
                                                                    | [] ->
                                                                    None
                                                                    | tg :: l0 ->
                                                                    (match l0 with
                                                                    | [] ->
                                                                    None
                                                                    | n2 :: l1 ->
                                                                    (match l1 with
                                                                    | [] ->
                                                                    (match 
                                                                    hexnat tg with
                                                                    | Some tg0 ->
                                                                    (match 
                                                                    hexnat n2 with
                                                                    | Some n3 ->
                                                                    (match n3 with
                                                                    | O ->
                                                                    None
                                                                    | S n4 ->
                                                                    if 
                                                                    N.eqb sl
                                                                    (Npos (XO
                                                                    (XO (XO
                                                                    (XO (XI
                                                                    XH))))))
                                                                    then 
                                                                    Some
                                                                    (OStore
                                                                    (false,
                                                                    tg0, (S
                                                                    n4)))
                                                                    else 
                                                                    if 
                                                                    N.eqb sl
                                                                    (Npos (XI
                                                                    (XO (XO
                                                                    (XO (XI
                                                                    XH))))))
                                                                    then 
                                                                    Some
                                                                    (OStore
                                                                    (true,
                                                                    tg0, (S
                                                                    n4)))
                                                                    else None)
                                                                    | None ->
                                                                    None)
                                                                    | None ->
                                                                    None)
                                                                    | _ :: _ ->
                                                                    None)))
                                                                    | _ ->
                                                                    None)
                                                                    | _ ->
                                                                    None)
                                                                  | _ -> None)
                                                               | _ -> None)
                                                            | _ -> None)
                                                         | _ -> None)
                                                      | _ -> None)))
                                             | XH ->
                                               (match l with
                                                | [] -> None
                                                | n1 :: r0 ->
                                                  (match n1 with
                                                   | N0 -> None
                                                   | Npos p11 ->
                                                     (match p11 with
                                                      | XI p12 ->
                                                        (match p12 with
                                                         | XI p13 ->
                                                           (match p13 with
                                                            | XI p14 ->
                                                              (match p14 with
                                                               | XI p15 ->
                                                                 (match p15 with
                                                                  | XI p16 ->
                                                                    (match p16 with
                                                                    | XO p17 ->
                                                                    (match p17 with
                                                                    | XH ->
                                                                    (match 
                                                                    split_on
                                                                    (Npos (XI
                                                                    (XI (XI
                                                                    (XI (XI
                                                                    (XO
                                                                    XH)))))))
                                                                    r0 with
                                                                    | [] ->
                                                                    None
                                                                    | tg :: l0 ->
                                                                    (match l0 with
                                                                    | [] ->
                                                                    None
                                                                    | n2 :: l1 ->
                                                                    (match l1 with
                                                                    | [] ->
                                                                    (match 
                                                                    hexnat tg with
                                                                    | Some tg0 ->
                                                                    (match 
                                                                    hexnat n2 with
                                                                    | Some n3 ->
                                                                    (match n3 with
                                                                    | O ->
                                                                    None
                                                                    | S n4 ->
                                                                    if 
                                                                    N.eqb sl
                                                                    (Npos (XO
                                                                    (XO (XO
                                                                    (XO (XI
                                                                    XH))))))
                                                                    then 
                                                                    Some
                                                                    (OStore
                                                                    (false,
                                                                    tg0, (S
                                                                    n4)))
                                                                    else 
                                                                    if 
                                                                    N.eqb sl
                                                                    (Npos (XI
                                                                    (XO (XO
                                                                    (XO (XI
                                                                    XH))))))
                                                                    then 
                                                                    Some
                                                                    (OStore
                                                                    (true,
                                                                    tg0, (S
                                                                    n4)))
                                                                    else None)
                                                                    | None ->
                                                                    None)
                                                                    | None ->
                                                                    None)
                                                                    | _ :: _ ->
                                                                    None)))
                                                                    | _ ->
                                                                    None)
                                                                    | _ ->
                                                                    None)
                                                                  | _ -> None)
                                                               | _ -> None)
                                                            | _ -> None)
                                                         | _ -> None)
                                                      | _ -> None))))
                                          | XH ->
                                            (match l with
                                             | [] -> None
                                             | n1 :: r0 ->
                                               (match n1 with
                                                | N0 -> None
                                                | Npos p10 ->
                                                  (match p10 with
                                                   | XI p11 ->
                                                     (match p11 with
                                                      | XI p12 ->
                                                        (match p12 with
                                                         | XI p13 ->
                                                           (match p13 with
                                                            | XI p14 ->
                                                              (match p14 with
                                                               | XI p15 ->
                                                                 (match p15 with
                                                                  | XO p16 ->
                                                                    (match p16 with
                                                                    | XH ->
                                                                    (match 
                                                                    split_on
                                                                    (Npos (XI
                                                                    (XI (XI
                                                                    (XI (XI
                                                                    (XO
                                                                    XH)))))))
                                                                    r0 with
                                                                    | [] ->
                                                                    None
                                                                    | tg :: l0 ->
                                                                    (match l0 with
                                                                    | [] ->
                                                                    None
                                                                    | n2 :: l1 ->
                                                                    (match l1 with
                                                                    | [] ->
                                                                    (match 
                                                                    hexnat tg with
                                                                    | Some tg0 ->
                                                                    (match 
                                                                    hexnat n2 with
                                                                    | Some n3 ->
                                                                    (match n3 with
                                                                    | O ->
                                                                    None
                                                                    | S n4 ->
                                                                    if 
                                                                    N.eqb sl
                                                                    (Npos (XO
                                                                    (XO (XO
                                                                    (XO (XI
                                                                    XH))))))
                                                                    then 
                                                                    Some
                                                                    (OStore
                                                                    (false,
                                                                    tg0, (S
                                                                    n4)))
                                                                    else 
                                                                    if 
                                                                    N.eqb sl
                                                                    (Npos (XI
                                                                    (XO (XO
                                                                    (XO (XI
                                                                    XH))))))
                                                                    then 
                                                                    Some
                                                                    (OStore
                                                                    (true,
                                                                    tg0, (S
                                                                    n4)))
                                                                    else None)
                                                                    | None ->
                                                                    None)
                                                                    | None ->
                                                                    None)
                                                                    | _ :: _ ->
                                                                    None)))
                                                                    | _ ->
                                                                    None)
                                                                  | _ -> None)
                                                               | _ -> None)
                                                            | _ -> None)
                                                         | _ -> None)
                                                      | _ -> None)
                                                   | _ -> None))))
                                       | XH ->
                                         (match l with
                                          | [] -> None
                                          | n1 :: r0 ->
                                            (match n1 with
                                             | N0 -> None
                                             | Npos p9 ->
                                               (match p9 with
                                                | XI p10 ->
                                                  (match p10 with
                                                   | XI p11 ->
                                                     (match p11 with
                                                      | XI p12 ->
                                                        (match p12 with
                                                         | XI p13 ->
                                                           (match p13 with
                                                            | XI p14 ->
                                                              (match p14 with
                                                               | XO p15 ->
                                                                 (match p15 with
                                                                  | XH ->
                                                                    (match 
                                                                    split_on
                                                                    (Npos (XI
                                                                    (XI (XI
                                                                    (XI (XI
                                                                    (XO
                                                                    XH)))))))
                                                                    r0 with
                                                                    | [] ->
                                                                    None
                                                                    | tg :: l0 ->
                                                                    (match l0 with
                                                                    | [] ->
                                                                    None
                                                                    | n2 :: l1 ->
                                                                    (match l1 with
                                                                    | [] ->
                                                                    (match 
                                                                    hexnat tg with
                                                                    | Some tg0 ->
                                                                    (match 
                                                                    hexnat n2 with
                                                                    | Some n3 ->
                                                                    (match n3 with
                                                                    | O ->
                                                                    None
                                                                    | S n4 ->
                                                                    if 
                                                                    N.eqb sl
                                                                    (Npos (XO
                                                                    (XO (XO
                                                                    (XO (XI
                                                                    XH))))))
                                                                    then 
                                                                    Some
                                                                    (OStore
                                                                    (false,
                                                                    tg0, (S
                                                                    n4)))
                                                                    else 
                                                                    if 
                                                                    N.eqb sl
                                                                    (Npos (XI
                                                                    (XO (XO
                                                                    (XO (XI
                                                                    XH))))))
                                                                    then 
                                                                    Some
                                                                    (OStore
                                                                    (true,
                                                                    tg0, (S
                                                                    n4)))
                                                                    else None)
                                                                    | None ->
                                                                    None)
                                                                    | None ->
                                                                    None)
                                                                    | _ :: _ ->
                                                                    None)))
                                                                  | _ -> None)
                                                               | _ -> None)
                                                            | _ -> None)
                                                         | _ -> None)
                                                      | _ -> None)
                                                   | _ -> None)
                                                | _ -> None))))
                                    | XH ->
                                      (match l with
                                       | [] -> None
                                       | n1 :: r0 ->
                                         (match n1 with
                                          | N0 -> None
                                          | Npos p8 ->
                                            (match p8 with
                                             | XI p9 ->
                                               (match p9 with
                                                | XI p10 ->
                                                  (match p10 with
                                                   | XI p11 ->
                                                     (match p11 with
                                                      | XI p12 ->
                                                        (match p12 with
                                                         | XI p13 ->
                                                           (match p13 with
                                                            | XO p14 ->
                                                              (match p14 with
                                                               | XH ->
                                                                 (match 
                                                                  split_on
                                                                    (Npos (XI
                                                                    (XI (XI
                                                                    (XI (XI
                                                                    (XO
                                                                    XH)))))))
                                                                    r0 with
                                                                  | [] -> None
                                                                  | tg :: l0 ->
                                                                    (match l0 with
                                                                    | [] ->
                                                                    None
                                                                    | n2 :: l1 ->
                                                                    (match l1 with
                                                                    | [] ->
                                                                    (match 
                                                                    hexnat tg with
                                                                    | Some tg0 ->
                                                                    (match 
                                                                    hexnat n2 with
                                                                    | Some n3 ->
                                                                    (match n3 with
                                                                    | O ->
                                                                    None
                                                                    | S n4 ->
                                                                    if 
                                                                    N.eqb sl
                                                                    (Npos (XO
                                                                    (XO (XO
                                                                    (XO (XI
                                                                    XH))))))
                                                                    then 
                                                                    Some
                                                                    (OStore
                                                                    (false,
                                                                    tg0, (S
                                                                    n4)))
                                                                    else 
                                                                    if 
                                                                    N.eqb sl
                                                                    (Npos (XI
                                                                    (XO (XO
                                                                    (XO (XI
                                                                    XH))))))
                                                                    then 
                                                                    Some
                                                                    (OStore
                                                                    (true,
                                                                    tg0, (S
                                                                    n4)))
                                                                    else None)
                                                                    | None ->
                                                                    None)
                                                                    | None ->
                                                                    None)
                                                                    | _ :: _ ->
                                                                    None)))
                                                               | _ -> None)
                                                            | _ -> None)
                                                         | _ -> None)
                                                      | _ -> None)
                                                   | _ -> None)
                                                | _ -> None)
                                             | _ -> None))))
                                 | XO p7 ->
                                   (match p7 with
                                    | XI _ ->
                                      (match l with
                                       | [] -> None
                                       | n1 :: r0 ->
                                         (match n1 with
                                          | N0 -> None
                                          | Npos p9 ->
                                            (match p9 with
                                             | XI p10 ->
                                               (match p10 with
                                                | XI p11 ->
                                                  (match p11 with
                                                   | XI p12 ->
                                                     (match p12 with
                                                      | XI p13 ->
                                                        (match p13 with
                                                         | XI p14 ->
                                                           (match p14 with
                                                            | XO p15 ->
                                                              (match p15 with
                                                               | XH ->
                                                                 (match 
                                                                  split_on
                                                                    (Npos (XI
                                                                    (XI (XI
                                                                    (XI (XI
                                                                    (XO
                                                                    XH)))))))
                                                                    r0 with
                                                                  | [] -> None
                                                                  | tg :: l0 ->
                                                                    (match l0 with
                                                                    | [] ->
                                                                    None
                                                                    | n2 :: l1 ->
                                                                    (match l1 with
                                                                    | [] ->
                                                                    (match 
                                                                    hexnat tg with
                                                                    | Some tg0 ->
                                                                    (match 
                                                                    hexnat n2 with
                                                                    | Some n3 ->
                                                                    (match n3 with
                                                                    | O ->
                                                                    None
                                                                    | S n4 ->
                                                                    if 
                                                                    N.eqb sl
                                                                    (Npos (XO
                                                                    (XO (XO
                                                                    (XO (XI
                                                                    XH))))))
                                                                    then 
                                                                    Some
                                                                    (OStore
                                                                    (false,
                                                                    tg0, (S
                                                                    n4)))
                                                                    else 
                                                                    if 
                                                                    N.eqb sl
                                                                    (Npos (XI
                                                                    (XO (XO
                                                                    (XO (XI
                                                                    XH))))))
                                                                    then 
                                                                    Some
                                                                    (OStore
                                                                    (true,
                                                                    tg0, (S
                                                                    n4)))
                                                                    else None)
                                                                    | None ->
                                                                    None)
                                                                    | None ->
                                                                    None)
                                                                    | _ :: _ ->
                                                                    None)))
                                                               | _ -> None)
                                                            | _ -> None)
                                                         | _ -> None)
                                                      | _ -> None)
                                                   | _ -> None)
                                                | _ -> None)
                                             | _ -> None)))
                                    | XO p8 ->
                                      (match p8 with
                                       | XI _ ->
                                         (match l with
                                          | [] -> None
                                          | n1 :: r0 ->
                                            (match n1 with
                                             | N0 -> None
                                             | Npos p10 ->
                                               (match p10 with
                                                | XI p11 ->
                                                  (match p11 with
                                                   | XI p12 ->
                                                     (match p12 with
                                                      | XI p13 ->
                                                        (match p13 with
                                                         | XI p14 ->
                                                           (match p14 with
                                                            | XI p15 ->
                                                              (match p15 with
                                                               | XO p16 ->
                                                                 (match p16 with
                                                                  | XH ->
                                                                    (match 
                                                                    split_on
                                                                    (Npos (XI
                                                                    (XI (XI
                                                                    (XI (XI
                                                                    (XO
                                                                    XH)))))))
                                                                    r0 with
                                                                    | [] ->
                                                                    None
                                                                    | tg :: l0 ->
                                                                    (match l0 with
                                                                    | [] ->
                                                                    None
                                                                    | n2 :: l1 ->
                                                                    (match l1 with
                                                                    | [] ->
                                                                    (match 
                                                                    hexnat tg with
                                                                    | Some tg0 ->
                                                                    (match 
                                                                    hexnat n2 with
                                                                    | Some n3 ->
                                                                    (match n3 with
                                                                    | O ->
                                                                    None
                                                                    | S n4 ->
                                                                    if 
                                                                    N.eqb sl
                                                                    (Npos (XO
                                                                    (XO (XO
                                                                    (XO (XI
                                                                    XH))))))
                                                                    then 
                                                                    Some
                                                                    (OStore
                                                                    (false,
                                                                    tg0, (S
                                                                    n4)))
                                                                    else 
                                                                    if 
                                                                    N.eqb sl
                                                                    (Npos (XI
                                                                    (XO (XO
                                                                    (XO (XI
                                                                    XH))))))
                                                                    then 
                                                                    Some
                                                                    (OStore
                                                                    (true,
                                                                    tg0, (S
                                                                    n4)))
                                                                    else None)
                                                                    | None ->
                                                                    None)
                                                                    | None ->
                                                                    None)
                                                                    | _ :: _ ->
                                                                    None)))
                                                                  | _ -> None)
                                                               | _ -> None)
                                                            | _ -> None)
                                                         | _ -> None)
                                                      | _ -> None)
                                                   | _ -> None)
                                                | _ -> None)))
                                       | XO p9 ->
                                         (match p9 with
                                          | XI _ ->
                                            (match l with
                                             | [] -> None
                                             | n1 :: r0 ->
                                               (match n1 with
                                                | N0 -> None
                                                | Npos p11 ->
                                                  (match p11 with
                                                   | XI p12 ->
                                                     (match p12 with
                                                      | XI p13 ->
                                                        (match p13 with
                                                         | XI p14 ->
                                                           (match p14 with
                                                            | XI p15 ->
                                                              (match p15 with
                                                               | XI p16 ->
                                                                 (match p16 with
                                                                  | XO p17 ->
                                                                    (match p17 with
                                                                    | XH ->
                                                                    (match 
                                                                    split_on
                                                                    (Npos (XI
                                                                    (XI (XI
                                                                    (XI (XI
                                                                    (XO
                                                                    XH)))))))
                                                                    r0 with
                                                                    | [] ->
                                                                    None
                                                                    | tg :: l0 ->
                                                                    (match l0 with
                                                                    | [] ->
                                                                    None
                                                                    | n2 :: l1 ->
                                                                    (match l1 with
                                                                    | [] ->
                                                                    (match 
                                                                    hexnat tg with
                                                                    | Some tg0 ->
                                                                    (match 
                                                                    hexnat n2 with
                                                                    | Some n3 ->
                                                                    (match n3 with
                                                                    | O ->
                                                                    None
                                                                    | S n4 ->
                                                                    if 
                                                                    N.eqb sl
                                                                    (Npos (XO
                                                                    (XO (XO
                                                                    (XO (XI
                                                                    XH))))))
                                                                    then 
                                                                    Some
                                                                    (OStore
                                                                    (false,
                                                                    tg0, (S
                                                                    n4)))
                                                                    else 
                                                                    if 
                                                                    N.eqb sl
                                                                    (Npos (XI
                                                                    (XO (XO
                                                                    (XO (XI
                                                                    XH))))))
                                                                    then 
                                                                    Some
                                                                    (OStore
                                                                    (true,
                                                                    tg0, (S
                                                                    n4)))
                                                                    else None)
                                                                    | None ->
                                                                    None)
                                                                    | None ->
                                                                    None)
                                                                    | _ :: _ ->
                                                                    None)))
                                                                    | _ ->
                                                                    None)
                                                                  | _ -> None)
                                                               | _ -> None)
                                                            | _ -> None)
                                                         | _ -> None)
                                                      | _ -> None)
                                                   | _ -> None)))
                                          | XO p10 ->
                                            (match p10 with
                                             | XI p11 ->
                                               (match p11 with
                                                | XH ->
                                                  (match l with
                                                   | [] ->
                                                     Some (OStore (false, O,
                                                       (S O)))
                                                   | n1 :: r0 ->
                                                     (match n1 with
                                                      | N0 -> None
                                                      | Npos p12 ->
                                                        (match p12 with
                                                         | XI p13 ->
                                                           (match p13 with
                                                            | XI p14 ->
                                                              (match p14 with
                                                               | XI p15 ->
                                                                 (match p15 with
                                                                  | XI p16 ->
                                                                    (match p16 with
                                                                    | XI p17 ->
                                                                    (match p17 with
                                                                    | XO p18 ->
                                                                    (match p18 with
                                                                    | XH ->
                                                                    (match 
                                                                    split_on
                                                                    (Npos (XI
                                                                    (XI (XI
                                                                    (XI (XI
                                                                    (XO
                                                                    XH)))))))
                                                                    r0 with
                                                                    | [] ->
                                                                    None
                                                                    | tg :: l0 ->
                                                                    (match l0 with
                                                                    | [] ->
                                                                    None
                                                                    | n2 :: l1 ->
                                                                    (match l1 with
                                                                    | [] ->
                                                                    (match 
                                                                    hexnat tg with
                                                                    | Some tg0 ->
                                                                    (match 
                                                                    hexnat n2 with
                                                                    | Some n3 ->
                                                                    (match n3 with
                                                                    | O ->
                                                                    None
                                                                    | S n4 ->
                                                                    if 
                                                                    N.eqb sl
                                                                    (Npos (XO
                                                                    (XO (XO
                                                                    (XO (XI
                                                                    XH))))))
                                                                    then 
                                                                    Some
                                                                    (OStore
                                                                    (false,
                                                                    tg0, (S
                                                                    n4)))
                                                                    else 
                                                                    if 
                                                                    N.eqb sl
                                                                    (Npos (XI
                                                                    (XO (XO
                                                                    (XO (XI
                                                                    XH))))))
                                                                    then 
                                                                    Some
                                                                    (OStore
                                                                    (true,
                                                                    tg0, (S
                                                                    n4)))
                                                                    else None)
                                                                    | None ->
                                                                    None)
                                                                    | None ->
                                                                    None)
                                                                    | _ :: _ ->
                                                                    None)))
                                                                    | _ ->
                                                                    None)
                                                                    | _ ->
                                                                    None)
                                                                    | _ ->
                                                                    None)
                                                                  | _ -> None)
                                                               | _ -> None)
                                                            | _ -> None)
                                                         | _ -> None)))
                                                | _ ->
                                                  (match l with
                                                   | [] -> None
                                                   | n1 :: r0 ->
                                                     (match n1 with
                                                      | N0 -> None
                                                      | Npos p13 ->
                                                        (match p13 with
                                                         | XI p14 ->
                                                           (match p14 with
                                                            | XI p15 ->
                                                              (match p15 with
                                                               | XI p16 ->
                                                                 (match p16 with
                                                                  | XI p17 ->
                                                                    (match p17 with
                                                                    | XI p18 ->
                                                                    (match p18 with
                                                                    | XO p19 ->
                                                                    (match p19 with
                                                                    | XH ->
                                                                    (match 
                                                                    split_on
                                                                    (Npos (XI
                                                                    (XI (XI
                                                                    (XI (XI
                                                                    (XO
                                                                    XH)))))))
                                                                    r0 with
                                                                    | [] ->
                                                                    None
                                                                    | tg :: l0 ->
                                                                    (match l0 with
                                                                    | [] ->
                                                                    None
                                                                    | n2 :: l1 ->
                                                                    (match l1 with
                                                                    | [] ->
                                                                    (match 
                                                                    hexnat tg with
                                                                    | Some tg0 ->
                                                                    (match 
                                                                    hexnat n2 with
                                                                    | Some n3 ->
                                                                    (match n3 with
                                                                    | O ->
                                                                    None
                                                                    | S n4 ->
                                                                    if 
                                                                    N.eqb sl
                                                                    (Npos (XO
                                                                    (XO (XO
                                                                    (XO (XI
                                                                    XH))))))
                                                                    then 
                                                                    Some
                                                                    (OStore
                                                                    (false,
                                                                    tg0, (S
                                                                    n4)))
                                                                    else 
                                                                    if 
                                                                    N.eqb sl
                                                                    (Npos (XI
                                                                    (XO (XO
                                                                    (XO (XI
                                                                    XH))))))
                                                                    then 
                                                                    Some
                                                                    (OStore
                                                                    (true,
                                                                    tg0, (S
                                                                    n4)))
                                                                    else None)
                                                                    | None ->
                                                                    None)
                                                                    | None ->
                                                                    None)
                                                                    | _ :: _ ->
                                                                    None)))
                                                                    | _ ->
                                                                    None)
                                                                    | _ ->
                                                                    None)
                                                                    | _ ->
                                                                    None)
                                                                  | _ -> None)
                                                               | _ -> None)
                                                            | _ -> None)
                                                         | _ -> None))))
                                             | XO _ ->
                                               (match l with
                                                | [] -> None
                                                | n1 :: r0 ->
                                                  (match n1 with
                                                   | N0 -> None
                                                   | Npos p12 ->
                                                     (match p12 with
                                                      | XI p13 ->
                                                        (match p13 with
                                                         | XI p14 ->
                                                           (match p14 with
                                                            | XI p15 ->
                                                              (match p15 with
                                                               | XI p16 ->
                                                                 (match p16 with
                                                                  | XI p17 ->
                                                                    (match p17 with
                                                                    | XO p18 ->
                                                                    (match p18 with
                                                                    | XH ->
                                                                    (match 
                                                                    split_on
                                                                    (Npos (XI
                                                                    (XI (XI
                                                                    (XI (XI
                                                                    (XO
                                                                    XH)))))))
                                                                    r0 with
                                                                    | [] ->
                                                                    None
                                                                    | tg :: l0 ->
                                                                    (match l0 with
                                                                    | [] ->
                                                                    None
                                                                    | n2 :: l1 ->
                                                                    (match l1 with
                                                                    | [] ->
                                                                    (match 
                                                                    hexnat tg with
                                                                    | Some tg0 ->
                                                                    (match 
                                                                    hexnat n2 with
                                                                    | Some n3 ->
                                                                    (match n3 with
                                                                    | O ->
                                                                    None
                                                                    | S n4 ->
                                                                    if 
                                                                    N.eqb sl
                                                                    (Npos (XO
                                                                    (XO (XO
                                                                    (XO (XI
                                                                    XH))))))
                                                                    then 
                                                                    Some
                                                                    (OStore
                                                                    (false,
                                                                    tg0, (S
                                                                    n4)))
                                                                    else 
                                                                    if 
                                                                    N.eqb sl
                                                                    (Npos (XI
                                                                    (XO (XO
                                                                    (XO (XI
                                                                    XH))))))
                                                                    then 
                                                                    Some
                                                                    (OStore
                                                                    (true,
                                                                    tg0, (S
                                                                    n4)))
                                                                    else None)
                                                                    | None ->
                                                                    None)
                                                                    | None ->
                                                                    None)
                                                                    | _ :: _ ->
                                                                    None)))
                                                                    | _ ->
                                                                    None)
                                                                    | _ ->
                                                                    None)
                                                                  | _ -> None)
                                                               | _ -> None)
                                                            | _ -> None)
                                                         | _ -> None)
                                                      | _ -> None)))
                                             | XH ->
                                               (match l with
                                                | [] -> None
                                                | n1 :: r0 ->
                                                  (match n1 with
                                                   | N0 -> None
                                                   | Npos p11 ->
                                                     (match p11 with
                                                      | XI p12 ->
                                                        (match p12 with
                                                         | XI p13 ->
                                                           (match p13 with
                                                            | XI p14 ->
                                                              (match p14 with
                                                               | XI p15 ->
                                                                 (match p15 with
                                                                  | XI p16 ->
                                                                    (match p16 with
                                                                    | XO p17 ->
                                                                    (match p17 with
                                                                    | XH ->
                                                                    (match 
                                                                    split_on
                                                                    (Npos (XI
                                                                    (XI (XI
                                                                    (XI (XI
                                                                    (XO
                                                                    XH)))))))
                                                                    r0 with
                                                                    | [] ->
                                                                    None
                                                                    | tg :: l0 ->
                                                                    (match l0 with
                                                                    | [] ->
                                                                    None
                                                                    | n2 :: l1 ->
                                                                    (match l1 with
                                                                    | [] ->
                                                                    (match 
                                                                    hexnat tg with
                                                                    | Some tg0 ->
                                                                    (match 
                                                                    hexnat n2 with
                                                                    | Some n3 ->
                                                                    (match n3 with
                                                                    | O ->
                                                                    None
                                                                    | S n4 ->
                                                                    if 
                                                                    N.eqb sl
                                                                    (Npos (XO
                                                                    (XO (XO
                                                                    (XO (XI
                                                                    XH))))))
                                                                    then 
                                                                    Some
                                                                    (OStore
                                                                    (false,
                                                                    tg0, (S
                                                                    n4)))
                                                                    else 
                                                                    if 
                                                                    N.eqb sl
                                                                    (Npos (XI
                                                                    (XO (XO
                                                                    (XO (XI
                                                                    XH))))))
                                                                    then 
                                                                    Some
                                                                    (OStore
                                                                    (true,
                                                                    tg0, (S
                                                                    n4)))
                                                                    else None)
                                                                    | None ->
                                                                    None)
                                                                    | None ->
                                                                    None)
                                                                    | _ :: _ ->
                                                                    None)))
                                                                    | _ ->
                                                                    None)
                                                                    | _ ->
                                                                    None)
                                                                  | _ -> None)
                                                               | _ -> None)
                                                            | _ -> None)
                                                         | _ -> None)
                                                      | _ -> None))))
                                          | XH ->
                                            (match l with
                                             | [] -> None
                                             | n1 :: r0 ->
                                               (match n1 with
                                                | N0 -> None
                                                | Npos p10 ->
                                                  (match p10 with
                                                   | XI p11 ->
                                                     (match p11 with
                                                      | XI p12 ->
                                                        (match p12 with
                                                         | XI p13 ->
                                                           (match p13 with
                                                            | XI p14 ->
                                                              (match p14 with
                                                               | XI p15 ->
                                                                 (match p15 with
                                                                  | XO p16 ->
                                                                    (match p16 with
                                                                    | XH ->
                                                                    (match 
                                                                    split_on
                                                                    (Npos (XI
                                                                    (XI (XI
                                                                    (XI (XI
                                                                    (XO
                                                                    XH)))))))
                                                                    r0 with
                                                                    | [] ->
                                                                    None
                                                                    | tg :: l0 ->
                                                                    (match l0 with
                                                                    | [] ->
                                                                    None
                                                                    | n2 :: l1 ->
                                                                    (match l1 with
                                                                    | [] ->
                                                                    (match 
                                                                    hexnat tg with
                                                                    | Some tg0 ->
                                                                    (match 
                                                                    hexnat n2 with
                                                                    | Some n3 ->
                                                                    (match n3 with
                                                                    | O ->
                                                                    None
                                                                    | S n4 ->
                                                                    if 
                                                                    N.eqb sl
                                                                    (Npos (XO
                                                                    (XO (XO
                                                                    (XO (XI
                                                                    XH))))))
                                                                    then 
                                                                    Some
                                                                    (OStore
                                                                    (false,
                                                                    tg0, (S
                                                                    n4)))
                                                                    else 
                                                                    if 
                                                                    N.eqb sl
                                                                    (Npos (XI
                                                                    (XO (XO
                                                                    (XO (XI
                                                                    XH))))))
                                                                    then 
                                                                    Some
                                                                    (OStore
                                                                    (true,
                                                                    tg0, (S
                                                                    n4)))
                                                                    else None)
                                                                    | None ->
                                                                    None)
                                                                    | None ->
                                                                    None)
                                                                    | _ :: _ ->
                                                                    None)))
                                                                    | _ ->
                                                                    None)
                                                                  | _ -> None)
                                                               | _ -> None)
                                                            | _ -> None)
                                                         | _ -> None)
                                                      | _ -> None)
                                                   | _ -> None))))
                                       | XH ->
                                         (match l with
                                          | [] -> None
                                          | n1 :: r0 ->
                                            (match n1 with
                                             | N0 -> None
                                             | Npos p9 ->
                                               (match p9 with
                                                | XI p10 ->
                                                  (match p10 with
                                                   | XI p11 ->
                                                     (match p11 with
                                                      | XI p12 ->
                                                        (match p12 with
                                                         | XI p13 ->
                                                           (match p13 with
                                                            | XI p14 ->
                                                              (match p14 with
                                                               | XO p15 ->
                                                                 (match p15 with
                                                                  | XH ->
                                                                    (match 
                                                                    split_on
                                                                    (Npos (XI
                                                                    (XI (XI
                                                                    (XI (XI
                                                                    (XO
                                                                    XH)))))))
                                                                    r0 with
                                                                    | [] ->
                                                                    None
                                                                    | tg :: l0 ->
                                                                    (match l0 with
                                                                    | [] ->
                                                                    None
                                                                    | n2 :: l1 ->
                                                                    (match l1 with
                                                                    | [] ->
                                                                    (match 
                                                                    hexnat tg with
                                                                    | Some tg0 ->
                                                                    (match 
                                                                    hexnat n2 with
                                                                    | Some n3 ->
                                                                    (match n3 with
                                                                    | O ->
                                                                    None
                                                                    | S n4 ->
                                                                    if 
                                                                    N.eqb sl
                                                                    (Npos (XO
                                                                    (XO (XO
                                                                    (XO (XI
                                                                    XH))))))
                                                                    then 
                                                                    Some
                                                                    (OStore
                                                                    (false,
                                                                    tg0, (S
                                                                    n4)))
                                                                    else 
                                                                    if 
                                                                    N.eqb sl
                                                                    (Npos (XI
                                                                    (XO (XO
                                                                    (XO (XI
                                                                    XH))))))
                                                                    then 
                                                                    Some
                                                                    (OStore
                                                                    (true,
                                                                    tg0, (S
                                                                    n4)))
                                                                    else None)
                                                                    | None ->
                                                                    None)
                                                                    | None ->
                                                                    None)
                                                                    | _ :: _ ->
                                                                    None)))
                                                                  | _ -> None)
                                                               | _ -> None)
                                                            | _ -> None)
                                                         | _ -> None)
                                                      | _ -> None)
                                                   | _ -> None)
                                                | _ -> None))))
                                    | XH ->
                                      (match l with
                                       | [] -> None
                                       | n1 :: r0 ->
                                         (match n1 with
                                          | N0 -> None
                                          | Npos p8 ->
                                            (match p8 with
                                             | XI p9 ->
                                               (match p9 with
                                                | XI p10 ->
                                                  (match p10 with
                                                   | XI p11 ->
                                                     (match p11 with
                                                      | XI p12 ->
                                                        (match p12 with
                                                         | XI p13 ->
                                                           (match p13 with
                                                            | XO p14 ->
                                                              (match p14 with
                                                               | XH ->
                                                                 (match 
                                                                  split_on
                                                                    (Npos (XI
                                                                    (XI (XI
                                                                    (XI (XI
                                                                    (XO
                                                                    XH)))))))
                                                                    r0 with
                                                                  | [] -> None
                                                                  | tg :: l0 ->
                                                                    (match l0 with
                                                                    | [] ->
                                                                    None
                                                                    | n2 :: l1 ->
                                                                    (match l1 with
                                                                    | [] ->
                                                                    (match 
                                                                    hexnat tg with
                                                                    | Some tg0 ->
                                                                    (match 
                                                                    hexnat n2 with
                                                                    | Some n3 ->
                                                                    (match n3 with
                                                                    | O ->
                                                                    None
                                                                    | S n4 ->
                                                                    if 
                                                                    N.eqb sl
                                                                    (Npos (XO
                                                                    (XO (XO
                                                                    (XO (XI
                                                                    XH))))))
                                                                    then 
                                                                    Some
                                                                    (OStore
                                                                    (false,
                                                                    tg0, (S
                                                                    n4)))
                                                                    else 
                                                                    if 
                                                                    N.eqb sl
                                                                    (Npos (XI
                                                                    (XO (XO
                                                                    (XO (XI
                                                                    XH))))))
                                                                    then 
                                                                    Some
                                                                    (OStore
                                                                    (true,
                                                                    tg0, (S
                                                                    n4)))
                                                                    else None)
                                                                    | None ->
                                                                    None)
                                                                    | None ->
                                                                    None)
                                                                    | _ :: _ ->
                                                                    None)))
                                                               | _ -> None)
                                                            | _ -> None)
                                                         | _ -> None)
                                                      | _ -> None)
                                                   | _ -> None)
                                                | _ -> None)
                                             | _ -> None))))
                                 | XH ->
                                   (match l with
                                    | [] -> None
                                    | n1 :: r0 ->
                                      (match n1 with
                                       | N0 -> None
                                       | Npos p7 ->
                                         (match p7 with
                                          | XI p8 ->
                                            (match p8 with
                                             | XI p9 ->
                                               (match p9 with
                                                | XI p10 ->
                                                  (match p10 with
                                                   | XI p11 ->
                                                     (match p11 with
                                                      | XI p12 ->
                                                        (match p12 with
                                                         | XO p13 ->
                                                           (match p13 with
                                                            | XH ->
                                                              (match 
                                                               split_on (Npos
                                                                 (XI (XI (XI
                                                                 (XI (XI (XO
                                                                 XH))))))) r0 with
                                                               | [] -> None
                                                               | tg :: l0 ->
                                                                 (match l0 with
                                                                  | [] -> None
                                                                  | n2 :: l1 ->
                                                                    (match l1 with
                                                                    | [] ->
                                                                    (match 
                                                                    hexnat tg with
                                                                    | Some tg0 ->
                                                                    (match 
                                                                    hexnat n2 with
                                                                    | Some n3 ->
                                                                    (match n3 with
                                                                    | O ->
                                                                    None
                                                                    | S n4 ->
                                                                    if 
                                                                    N.eqb sl
                                                                    (Npos (XO
                                                                    (XO (XO
                                                                    (XO (XI
                                                                    XH))))))
                                                                    then 
                                                                    Some
                                                                    (OStore
                                                                    (false,
                                                                    tg0, (S
                                                                    n4)))
                                                                    else 
                                                                    if 
                                                                    N.eqb sl
                                                                    (Npos (XI
                                                                    (XO (XO
                                                                    (XO (XI
                                                                    XH))))))
                                                                    then 
                                                                    Some
                                                                    (OStore
                                                                    (true,
                                                                    tg0, (S
                                                                    n4)))
                                                                    else None)
                                                                    | None ->
                                                                    None)
                                                                    | None ->
                                                                    None)
                                                                    | _ :: _ ->
                                                                    None)))
                                                            | _ -> None)
                                                         | _ -> None)
                                                      | _ -> None)
                                                   | _ -> None)
                                                | _ -> None)
                                             | _ -> None)
                                          | _ -> None))))))
                        | _ -> None)
                     | _ -> None)
                  | _ -> None)
               | XH -> None)
            | XH -> None)
         | _ -> None)
      | XO p0 ->
        (match p0 with
         | XI p1 ->
           (match p1 with
            | XI p2 ->
              (match p2 with
               | XO p3 ->
                 (match p3 with
                  | XO p4 ->
                    (match p4 with
                     | XO p5 ->
                       (match p5 with
                        | XH ->
                          (match r with
                           | [] -> Some OFirst
                           | _ :: _ -> None)
                        | _ -> None)
                     | _ -> None)
                  | _ -> None)
               | _ -> None)
            | _ -> None)
         | XO p1 ->
           (match p1 with
            | XI p2 ->
              (match p2 with
               | XI p3 ->
                 (match p3 with
                  | XO p4 ->
                    (match p4 with
                     | XO p5 ->
                       (match p5 with
                        | XH ->
                          (match r with
                           | [] -> Some OLast
                           | _ :: _ -> None)
                        | _ -> None)
                     | _ -> None)
                  | _ -> None)
               | XO p3 ->
                 (match p3 with
                  | XI p4 ->
                    (match p4 with
                     | XO p5 ->
                       (match p5 with
                        | XH -> option_map (fun x -> OTrunc x) (hexnat r)
                        | _ -> None)
                     | _ -> None)
                  | XO p4 ->
                    (match p4 with
                     | XO p5 ->
                       (match p5 with
                        | XH -> option_map (fun x -> ODelete x) (hexnat r)
                        | _ -> None)
                     | _ -> None)
                  | XH -> None)
               | XH -> None)
            | XO p2 ->
              (match p2 with
               | XI p3 ->
                 (match p3 with
                  | XI p4 ->
                    (match p4 with
                     | XO p5 ->
                       (match p5 with
                        | XH ->
                          (match r with
                           | [] -> Some OClose
                           | _ :: _ -> None)
                        | _ -> None)
                     | _ -> None)
                  | _ -> None)
               | _ -> None)
            | XH -> None)
         | XH -> None)
      | XH -> None))

(** val parse_prog14 : str -> op list option **)

let parse_prog14 s = match s with
| [] ->
  all_some (map parse_op14 (split_on (Npos (XO (XI (XI (XI (XO XH)))))) s))
| n0 :: l ->
  (match n0 with
   | N0 ->
     all_some (map parse_op14 (split_on (Npos (XO (XI (XI (XI (XO XH)))))) s))
   | Npos p ->
     (match p with
      | XI p0 ->
        (match p0 with
         | XO p1 ->
           (match p1 with
            | XI p2 ->
              (match p2 with
               | XI p3 ->
                 (match p3 with
                  | XO p4 ->
                    (match p4 with
                     | XH ->
                       (match l with
                        | [] -> Some []
                        | _ :: _ ->
                          all_some
                            (map parse_op14
                              (split_on (Npos (XO (XI (XI (XI (XO XH)))))) s)))
                     | _ ->
                       all_some
                         (map parse_op14
                           (split_on (Npos (XO (XI (XI (XI (XO XH)))))) s)))
                  | _ ->
                    all_some
                      (map parse_op14
                        (split_on (Npos (XO (XI (XI (XI (XO XH)))))) s)))
               | _ ->
                 all_some
                   (map parse_op14
                     (split_on (Npos (XO (XI (XI (XI (XO XH)))))) s)))
            | _ ->
              all_some
                (map parse_op14
                  (split_on (Npos (XO (XI (XI (XI (XO XH)))))) s)))
         | _ ->
           all_some
             (map parse_op14 (split_on (Npos (XO (XI (XI (XI (XO XH)))))) s)))
      | _ ->
        all_some
          (map parse_op14 (split_on (Npos (XO (XI (XI (XI (XO XH)))))) s))))

(** val show_outcome : op -> outcome -> str **)

let show_outcome o = function
| Ok v ->
  (match o with
   | OFirst ->
     app s_ok (app ((Npos (XO (XI (XO (XI (XI XH)))))) :: []) (nat_hex v))
   | OLast ->
     app s_ok (app ((Npos (XO (XI (XO (XI (XI XH)))))) :: []) (nat_hex v))
   | OGet _ ->
     app s_ok (app ((Npos (XO (XI (XO (XI (XI XH)))))) :: []) (nat_hex v))
   | OGetS ->
     app s_ok
       (app ((Npos (XO (XI (XO (XI (XI XH)))))) :: [])
         (nat_hex (if Nat.ltb O v then S O else O)))
   | _ -> s_ok)
| NotFound ->
  (Npos (XO (XI (XI (XI (XO (XI XH))))))) :: ((Npos (XO (XI (XI (XO (XO (XI
    XH))))))) :: [])
| ErrClosed ->
  (Npos (XI (XI (XO (XO (XO (XI XH))))))) :: ((Npos (XO (XO (XI (XI (XO (XI
    XH))))))) :: ((Npos (XI (XI (XI (XI (XO (XI XH))))))) :: ((Npos (XI (XI
    (XO (XO (XI (XI XH))))))) :: ((Npos (XI (XO (XI (XO (XO (XI
    XH))))))) :: ((Npos (XO (XO (XI (XO (XO (XI XH))))))) :: [])))))
| ErrSealed ->
  (Npos (XI (XI (XO (XO (XI (XI XH))))))) :: ((Npos (XI (XO (XI (XO (XO (XI
    XH))))))) :: ((Npos (XI (XO (XO (XO (XO (XI XH))))))) :: ((Npos (XO (XO
    (XI (XI (XO (XI XH))))))) :: ((Npos (XI (XO (XI (XO (XO (XI
    XH))))))) :: ((Npos (XO (XO (XI (XO (XO (XI XH))))))) :: [])))))
| IOErr ->
  (Npos (XI (XO (XO (XI (XO (XI XH))))))) :: ((Npos (XI (XI (XI (XI (XO (XI
    XH))))))) :: ((Npos (XI (XO (XI (XO (XO (XI XH))))))) :: ((Npos (XO (XI
    (XO (XO (XI (XI XH))))))) :: ((Npos (XO (XI (XO (XO (XI (XI
    XH))))))) :: []))))
| MetaErr ->
  (Npos (XI (XO (XI (XI (XO (XI XH))))))) :: ((Npos (XI (XO (XI (XO (XO (XI
    XH))))))) :: ((Npos (XO (XO (XI (XO (XI (XI XH))))))) :: ((Npos (XI (XO
    (XO (XO (XO (XI XH))))))) :: ((Npos (XI (XO (XI (XO (XO (XI
    XH))))))) :: ((Npos (XO (XI (XO (XO (XI (XI XH))))))) :: ((Npos (XO (XI
    (XO (XO (XI (XI XH))))))) :: []))))))
| Panic ->
  (Npos (XO (XO (XO (XO (XI (XI XH))))))) :: ((Npos (XI (XO (XO (XO (XO (XI
    XH))))))) :: ((Npos (XO (XI (XI (XI (XO (XI XH))))))) :: ((Npos (XI (XO
    (XO (XI (XO (XI XH))))))) :: ((Npos (XI (XI (XO (XO (XO (XI
    XH))))))) :: []))))

(** val join_with : n -> str list -> str **)

let rec join_with c = function
| [] -> []
| x :: r -> (match r with
             | [] -> x
             | _ :: _ -> app x (c :: (join_with c r)))

(** val zip_show : op list -> outcome list -> str list **)

let rec zip_show p o =
  match p with
  | [] -> []
  | a :: p' ->
    (match o with
     | [] -> []
     | b :: o' -> (show_outcome a b) :: (zip_show p' o'))

(** val fuel14 : nat **)

let fuel14 =
  S (S (S (S (S (S (S (S (S (S (S (S (S (S (S (S (S (S (S (S (S (S (S (S (S
    (S (S (S (S (S (S (S (S (S (S (S (S (S (S (S (S (S (S (S (S (S (S (S (S
    (S (S (S (S (S (S (S (S (S (S (S (S (S (S (S (S (S (S (S (S (S (S (S (S
    (S (S (S (S (S (S (S (S (S (S (S (S (S (S (S (S (S (S (S (S (S (S (S (S
    (S (S (S (S (S (S (S (S (S (S (S (S (S (S (S (S (S (S (S (S (S (S (S (S
    (S (S (S (S (S (S (S (S (S (S (S (S (S (S (S (S (S (S (S (S (S (S (S (S
    (S (S (S (S (S (S (S (S (S (S (S (S (S (S (S (S (S (S (S (S (S (S (S (S
    (S (S (S (S (S (S (S (S (S (S (S (S (S (S (S (S (S (S (S (S (S (S (S (S
    (S (S (S (S (S (S (S (S (S (S (S (S (S (S (S (S (S (S (S (S (S (S (S (S
    (S (S (S (S (S (S (S (S (S (S (S (S (S (S (S (S (S (S (S (S (S (S (S (S
    (S (S (S (S (S (S (S (S (S (S (S (S (S (S (S (S (S (S (S (S (S (S (S (S
    (S (S (S (S (S (S (S (S (S (S (S (S (S (S (S (S (S (S (S (S (S (S (S (S
    (S (S (S (S (S (S (S (S (S (S (S (S (S (S (S (S (S (S (S (S (S (S (S (S
    (S (S (S (S (S (S (S (S (S (S (S (S (S (S (S (S (S (S (S (S (S (S (S (S
    (S (S (S (S (S (S (S (S (S (S (S (S (S (S (S (S (S (S (S (S (S (S (S (S
    (S (S (S (S (S (S (S (S (S (S (S (S (S (S (S (S (S (S (S (S (S (S (S (S
    (S (S (S (S (S (S (S (S (S (S (S (S (S (S (S
    O)))))))))))))))))))))))))))))))))))))))))))))))))))))))))))))))))))))))))))))))))))))))))))))))))))))))))))))))))))))))))))))))))))))))))))))))))))))))))))))))))))))))))))))))))))))))))))))))))))))))))))))))))))))))))))))))))))))))))))))))))))))))))))))))))))))))))))))))))))))))))))))))))))))))))))))))))))))))))))))))))))))))))))))))))))))))))))))))))))))))))))))))))))))))))))))))))))))))))))))))

(** val macro14 : sys -> tid -> tid list -> sys * tid list **)

let macro14 =
  macro1 step parked skip nthreads fuel14

(** val run_call : nat -> sys -> tid -> nat -> tid list -> sys * tid list **)

let rec run_call fuel s t nouts tr =
  match fuel with
  | O -> (s, tr)
  | S f ->
    (match step s t with
     | Some s' ->
       let tr' = t :: tr in
       (match nth_error s'.ths t with
        | Some th ->
          if Nat.ltb nouts (length th.t_outs)
          then (s', tr')
          else run_call f s' t nouts tr'
        | None -> (s', tr'))
     | None -> (s, tr))

(** val run_free : nat -> sys -> tid -> tid list -> sys * tid list **)

let rec run_free fuel s t tr =
  match fuel with
  | O -> (s, tr)
  | S f ->
    (match step s t with
     | Some s' -> run_free f s' t (t :: tr)
     | None -> (s, tr))

(** val run_setup : nat -> sys -> tid -> tid -> tid list -> sys * tid list **)

let rec run_setup n0 s ts tr_ tr =
  match n0 with
  | O -> (s, tr)
  | S m ->
    let nouts =
      match nth_error s.ths ts with
      | Some th -> length th.t_outs
      | None -> O
    in
    let (s1, tr1) = run_call fuel14 s ts nouts tr in
    let (s2, tr2) = run_free fuel14 s1 tr_ tr1 in run_setup m s2 ts tr_ tr2

(** val callers_done : sys -> nat -> bool **)

let callers_done s n0 =
  forallb (fun t ->
    match nth_error s.ths t with
    | Some th -> th_done th
    | None -> true) (seq O n0)

(** val round : sys -> tid list -> tid list -> sys * tid list **)

let rec round s ids tr =
  match ids with
  | [] -> (s, tr)
  | t :: r -> let (s', tr') = macro14 s t tr in round s' r tr'

(** val drain : nat -> nat -> sys -> tid list -> sys * tid list **)

let rec drain rounds n0 s tr =
  match rounds with
  | O -> (s, tr)
  | S k ->
    if callers_done s n0
    then (s, tr)
    else let (s', tr') = round s (seq O (S n0)) tr in
         if Nat.eqb (length tr') (length tr)
         then (s', tr')
         else drain k n0 s' tr'

(** val finish_rot : nat -> sys -> tid -> tid list -> sys * tid list **)

let rec finish_rot k s r tr =
  match k with
  | O -> (s, tr)
  | S j ->
    (match nth_error s.ths r with
     | Some th ->
       if pc_point th.t_pc
       then let (s', tr') = macro14 s r tr in finish_rot j s' r tr'
       else (s, tr)
     | None -> (s, tr))

(** val micro14 : op list -> op list list -> tid list -> tid list **)

let micro14 setup progs sch =
  let n0 = length progs in
  let s0 = init progs (setup :: []) in
  let (s1, tr1) = run_setup (length setup) s0 (S n0) n0 [] in
  let (s2, tr2) = macro step parked skip nthreads fuel14 s1 sch tr1 in
  let (s3, tr3) =
    drain (S (S (S (S (S (S (S (S (S (S (S (S (S (S (S (S (S (S (S (S (S (S
      (S (S (S (S (S (S (S (S (S (S (S (S (S (S (S (S (S (S (S (S (S (S (S (S
      (S (S (S (S (S (S (S (S (S (S (S (S (S (S (S (S (S (S (S (S (S (S (S (S
      (S (S (S (S (S (S (S (S (S (S (S (S (S (S (S (S (S (S (S (S (S (S (S (S
      (S (S (S (S (S (S (S (S (S (S (S (S (S (S (S (S (S (S (S (S (S (S (S (S
      (S (S (S (S (S (S (S (S (S (S (S (S (S (S (S (S (S (S (S (S (S (S (S (S
      (S (S (S (S (S (S (S (S (S (S (S (S (S (S (S (S (S (S (S (S (S (S (S (S
      (S (S (S (S (S (S (S (S (S (S (S (S (S (S (S (S (S (S (S (S (S (S (S (S
      (S (S (S (S (S (S (S (S (S (S (S (S (S (S (S (S (S (S (S (S (S (S (S (S
      (S (S (S (S (S (S (S (S (S (S (S (S (S (S (S (S (S (S (S (S (S (S (S (S
      (S (S (S (S (S (S (S (S (S (S (S (S (S (S (S (S (S (S (S (S (S (S (S (S
      (S (S (S (S (S (S (S (S (S (S (S (S (S (S (S (S (S (S (S (S (S (S (S (S
      (S (S (S (S (S (S (S (S (S (S (S (S (S (S (S (S (S (S (S (S (S (S (S (S
      (S (S (S (S (S (S (S (S (S (S (S (S (S (S (S (S (S (S (S (S (S (S (S (S
      (S (S (S (S (S (S (S (S (S (S (S (S (S (S (S (S (S (S (S (S (S (S (S (S
      (S (S (S (S (S (S (S (S (S (S (S (S (S (S (S (S (S (S (S (S (S (S (S (S
      (S (S (S (S (S (S (S (S (S (S (S (S (S (S (S (S (S (S
      O))))))))))))))))))))))))))))))))))))))))))))))))))))))))))))))))))))))))))))))))))))))))))))))))))))))))))))))))))))))))))))))))))))))))))))))))))))))))))))))))))))))))))))))))))))))))))))))))))))))))))))))))))))))))))))))))))))))))))))))))))))))))))))))))))))))))))))))))))))))))))))))))))))))))))))))))))))))))))))))))))))))))))))))))))))))))))))))))))))))))))))))))))))))))))))))))))))))))))))))))
      n0 s2 tr2
  in
  let (_, tr4) =
    finish_rot (S (S (S (S (S (S (S (S (S (S (S (S (S (S (S (S (S (S (S (S (S
      (S (S (S (S (S (S (S (S (S (S (S (S (S (S (S (S (S (S (S
      O)))))))))))))))))))))))))))))))))))))))) s3 n0 tr3
  in
  rev_append tr4 []

(** val s_dl : str **)

let s_dl =
  (Npos (XI (XI (XO (XI (XI XH)))))) :: ((Npos (XO (XO (XI (XO (XO (XI
    XH))))))) :: ((Npos (XO (XO (XI (XI (XO (XI XH))))))) :: ((Npos (XI (XO
    (XI (XI (XI XH)))))) :: [])))

(** val s_rot : str **)

let s_rot =
  (Npos (XO (XO (XO (XO (XO XH)))))) :: ((Npos (XO (XI (XO (XO (XI (XI
    XH))))))) :: ((Npos (XI (XI (XI (XI (XO (XI XH))))))) :: ((Npos (XO (XO
    (XI (XO (XI (XI XH))))))) :: ((Npos (XI (XO (XI (XI (XI XH)))))) :: []))))

(** val s_mc : str **)

let s_mc =
  (Npos (XO (XO (XO (XO (XO XH)))))) :: ((Npos (XI (XO (XI (XI (XO (XI
    XH))))))) :: ((Npos (XI (XI (XO (XO (XO (XI XH))))))) :: ((Npos (XI (XO
    (XI (XI (XI XH)))))) :: [])))

(** val s_open0 : str **)

let s_open0 =
  (Npos (XO (XO (XO (XO (XO XH)))))) :: ((Npos (XI (XI (XI (XI (XO (XI
    XH))))))) :: ((Npos (XO (XO (XO (XO (XI (XI XH))))))) :: ((Npos (XI (XO
    (XI (XO (XO (XI XH))))))) :: ((Npos (XO (XI (XI (XI (XO (XI
    XH))))))) :: ((Npos (XI (XO (XI (XI (XI XH)))))) :: [])))))

(** val s_multi : str **)

let s_multi =
  (Npos (XO (XO (XO (XO (XO XH)))))) :: ((Npos (XI (XO (XI (XI (XO (XI
    XH))))))) :: ((Npos (XI (XO (XI (XO (XI (XI XH))))))) :: ((Npos (XO (XO
    (XI (XI (XO (XI XH))))))) :: ((Npos (XO (XO (XI (XO (XI (XI
    XH))))))) :: ((Npos (XI (XO (XO (XI (XO (XI XH))))))) :: ((Npos (XI (XO
    (XI (XI (XI XH)))))) :: []))))))

(** val has_closed : thread -> op list -> bool **)

let has_closed th p =
  existsb (fun o -> match o with
                    | OClose -> true
                    | _ -> false) (firstn (length th.t_outs) p)

(** val observe14 : op list list -> sys -> str **)

let observe14 progs s =
  let n0 = length progs in
  let per =
    map (fun pat ->
      let (t, p) = pat in
      (match nth_error s.ths t with
       | Some th ->
         app
           (join_with (Npos (XO (XI (XI (XI (XO XH))))))
             (zip_show p th.t_outs))
           (if Nat.ltb (length th.t_outs) (length p)
            then (Npos (XO (XI (XO (XI (XO XH)))))) :: []
            else [])
       | None -> [])) (combine (seq O n0) progs)
  in
  let dl = negb (callers_done s n0) in
  let closed =
    existsb (fun pat ->
      let (t, p) = pat in
      (match nth_error s.ths t with
       | Some th -> has_closed th p
       | None -> false)) (combine (seq O n0) progs)
  in
  let rot =
    match nth_error s.ths n0 with
    | Some th -> th_done th
    | None -> false
  in
  let nopen = length (filter (fun h -> Nat.eqb h.h_closes O) s.sh.g_hnds) in
  let nmulti = length (filter (fun h -> Nat.ltb (S O) h.h_closes) s.sh.g_hnds)
  in
  app (join_with (Npos (XO (XO (XI (XI (XI (XI XH))))))) per)
    (app s_dl
      (app
        (if dl
         then (Npos (XI (XO (XO (XO (XI XH)))))) :: []
         else (Npos (XO (XO (XO (XO (XI XH)))))) :: [])
        (app s_rot
          (app
            (if (&&) closed (negb dl)
             then if rot
                  then (Npos (XI (XO (XO (XO (XI XH)))))) :: []
                  else (Npos (XO (XO (XO (XO (XI XH)))))) :: []
             else (Npos (XO (XO (XO (XI (XI (XI XH))))))) :: [])
            (app s_mc
              (app (nat_hex s.sh.g_meta_closes)
                (app s_open0
                  (app (nat_hex nopen) (app s_multi (nat_hex nmulti))))))))))

(** val parse_sched : str -> tid list option **)

let rec parse_sched = function
| [] -> Some []
| c :: r ->
  (match hexval c with
   | Some v ->
     (match parse_sched r with
      | Some t -> Some ((N.to_nat v) :: t)
      | None -> None)
   | None -> None)

(** val run_c14 : str list -> str **)

let run_c14 = function
| [] -> s_bad
| setup :: l ->
  (match l with
   | [] -> s_bad
   | threads :: l0 ->
     (match l0 with
      | [] -> s_bad
      | sch :: l1 ->
        (match l1 with
         | [] ->
           (match parse_prog14 setup with
            | Some su ->
              (match all_some
                       (map parse_prog14
                         (split_on (Npos (XO (XO (XI (XI (XO XH)))))) threads)) with
               | Some progs ->
                 (match parse_sched sch with
                  | Some sc ->
                    observe14 progs
                      (run step (init progs (su :: [])) (micro14 su progs sc))
                  | None -> s_bad)
               | None -> s_bad)
            | None -> s_bad)
         | _ :: _ -> s_bad)))

(** val k_c14 : str **)

let k_c14 =
  (Npos (XI (XI (XO (XO (XO (XI XH))))))) :: ((Npos (XI (XO (XO (XO (XI
    XH)))))) :: ((Npos (XO (XO (XI (XO (XI XH)))))) :: []))

(** val k_c06 : str **)

let k_c06 =
  (Npos (XI (XI (XO (XO (XO (XI XH))))))) :: ((Npos (XO (XO (XO (XO (XI
    XH)))))) :: ((Npos (XO (XI (XI (XO (XI XH)))))) :: []))

(** val run_sched : str list -> str **)

let run_sched = function
| [] -> s_bad
| sc :: rest ->
  if (||) (str_eqb sc k_c14) (str_eqb sc k_c06) then run_c14 rest else s_bad

(** val k_enc : str **)

let k_enc =
  (Npos (XI (XO (XI (XO (XO (XI XH))))))) :: ((Npos (XO (XI (XI (XI (XO (XI
    XH))))))) :: ((Npos (XI (XI (XO (XO (XO (XI XH))))))) :: []))

(** val k_dec : str **)

let k_dec =
  (Npos (XO (XO (XI (XO (XO (XI XH))))))) :: ((Npos (XI (XO (XI (XO (XO (XI
    XH))))))) :: ((Npos (XI (XI (XO (XO (XO (XI XH))))))) :: []))

(** val k_sched : str **)

let k_sched =
  (Npos (XI (XI (XO (XO (XI (XI XH))))))) :: ((Npos (XI (XI (XO (XO (XO (XI
    XH))))))) :: ((Npos (XO (XO (XO (XI (XO (XI XH))))))) :: ((Npos (XI (XO
    (XI (XO (XO (XI XH))))))) :: ((Npos (XO (XO (XI (XO (XO (XI
    XH))))))) :: []))))

(** val run_line : str -> str **)

let run_line line =
  match tokens line with
  | [] -> s_bad
  | cmd :: args ->
    if str_eqb cmd k_enc
    then run_enc args
    else if str_eqb cmd k_dec
         then run_dec args
         else if str_eqb cmd k_sched then run_sched args else s_bad
