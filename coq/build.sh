#!/bin/sh
# full .vo build of the RW development (no -vos)
cd "$(dirname "$0")"
find . -name '*.v' ! -path './Extract/out/*' ! -name 'cases_*.v' | sed 's|^\./||' | sort > .vfiles
{ cat _CoqProject.base; cat .vfiles; } > _CoqProject
coq_makefile -f _CoqProject -o Makefile.coq >/dev/null 2>&1
exec make -f Makefile.coq -j16 "$@"
