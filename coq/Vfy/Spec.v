(* Spec.v -- the contiguous-log specification of a raft.LogStore (the C05 spec
   the WAL is separately proved against): a list of entries with a first index.
   An entry's place is its position (first + k); the Index *field* of a stored
   entry is data (an at-rest corruption may change it).
   Model only; facts in SpecFacts.v. *)
From RW Require Import Base.Bytes Vfy.Checksum.
Open Scope N_scope.

Record sstore := { s_first : N; s_logs : list entry }.

Definition s_empty : sstore := {| s_first := 0; s_logs := [] |}.

Definition first_index (s : sstore) : N :=
  match s_logs s with [] => 0 | _ :: _ => s_first s end.
Definition last_index (s : sstore) : N :=
  match s_logs s with [] => 0 | _ :: _ => s_first s + N.of_nat (length (s_logs s)) - 1 end.

(* GetLog: None = ErrLogNotFound *)
Definition get (s : sstore) (i : N) : option entry :=
  if i <? s_first s then None else nth_error (s_logs s) (N.to_nat (i - s_first s)).

Fixpoint contig_from (i : N) (b : list entry) : bool :=
  match b with
  | [] => true
  | e :: r => (e_index e =? i) && contig_from (i + 1) r
  end.

(* StoreLogs: None = error (non-monotonic / index 0), store unchanged.  An empty
   log accepts any non-zero starting index. *)
Definition store_logs (s : sstore) (b : list entry) : option sstore :=
  match b with
  | [] => Some s
  | e0 :: _ =>
      match s_logs s with
      | [] => if e_index e0 =? 0 then None
              else if contig_from (e_index e0) b
                   then Some {| s_first := e_index e0; s_logs := b |} else None
      | _ :: _ => if contig_from (s_first s + N.of_nat (length (s_logs s))) b
                  then Some {| s_first := s_first s; s_logs := s_logs s ++ b |} else None
      end
  end.

(* DeleteRange (inclusive): prefix or suffix only; None = error (middle range) *)
Definition delete_range (s : sstore) (mn mx : N) : option sstore :=
  if mx <? mn then Some s
  else match s_logs s with
       | [] => Some s
       | _ :: _ =>
           let f := s_first s in
           let l := last_index s in
           if (mx <? f) || (l <? mn) then Some s
           else if mn <=? f then
                  if l <=? mx then Some s_empty
                  else Some {| s_first := mx + 1;
                               s_logs := skipn (N.to_nat (mx + 1 - f)) (s_logs s) |}
                else if l <=? mx then
                       Some {| s_first := f; s_logs := firstn (N.to_nat (mn - f)) (s_logs s) |}
                     else None
       end.

(* the entries at indexes [lo, hi) (by position) *)
Definition slice (s : sstore) (lo hi : N) : list entry :=
  if lo <? s_first s then []
  else firstn (N.to_nat (hi - lo)) (skipn (N.to_nat (lo - s_first s)) (s_logs s)).

(* the store holds every index of [lo, hi) *)
Definition holds_range (s : sstore) (lo hi : N) : Prop :=
  s_logs s <> [] /\ s_first s <= lo /\ hi <= s_first s + N.of_nat (length (s_logs s)).

Fixpoint set_nth {A} (l : list A) (k : nat) (x : A) : list A :=
  match l, k with
  | [], _ => []
  | _ :: r, O => x :: r
  | y :: r, S k' => y :: set_nth r k' x
  end.

(* at-rest corruption: the store now returns e at index i (no-op outside the log) *)
Definition tamper (s : sstore) (i : N) (e : entry) : sstore :=
  if i <? s_first s then s
  else {| s_first := s_first s; s_logs := set_nth (s_logs s) (N.to_nat (i - s_first s)) e |}.

Definition same_shape (a b : sstore) : Prop :=
  s_first a = s_first b /\ length (s_logs a) = length (s_logs b).

(* [sh] is the log as WRITTEN (ghost): it ends where the store [st] ends, but
   pure head truncations (log compaction) do not erase it, so it may start
   earlier.  Both are empty together. *)
Definition aligned (st sh : sstore) : Prop :=
  match s_logs st, s_logs sh with
  | [], [] => True
  | _ :: _, _ :: _ =>
      s_first sh <= s_first st /\
      s_first sh + N.of_nat (length (s_logs sh)) = s_first st + N.of_nat (length (s_logs st))
  | _, _ => False
  end.

(* the written log after a successful DeleteRange(mn, mx) of the store [st]:
   only a delete that reaches the last index (tail truncation, or everything)
   removes what was written; [st] is the store BEFORE the delete *)
Definition shadow_delete (st sh : sstore) (mn mx : N) : sstore :=
  if mx <? mn then sh
  else match s_logs st with
       | [] => sh
       | _ :: _ =>
           let l := last_index st in
           if l <=? mx then
             if l <? mn then sh
             else if mn <=? s_first st then s_empty
                  else {| s_first := s_first sh;
                          s_logs := firstn (N.to_nat (mn - s_first sh)) (s_logs sh) |}
           else sh
       end.
