(* SpecFacts.v -- facts about the contiguous-log spec store *)
From RW Require Import Base.Bytes Vfy.Checksum Vfy.Spec.
From Coq Require Import ZifyN ZifyNat ZifyBool.
Open Scope N_scope.

Notation len l := (N.of_nat (length l)).

(* ---- list helpers ----------------------------------------------------------- *)
Lemma skipn_app_le {A} (l x : list A) (j : nat) :
  (j <= length l)%nat -> skipn j (l ++ x) = skipn j l ++ x.
Proof.
  intros H. rewrite skipn_app. replace (j - length l)%nat with 0%nat by lia. reflexivity.
Qed.

Lemma firstn_skipn_app_stable {A} (l x : list A) (j k : nat) :
  (j + k <= length l)%nat -> firstn k (skipn j (l ++ x)) = firstn k (skipn j l).
Proof.
  intros H. rewrite skipn_app_le by lia. rewrite firstn_app.
  replace (k - length (skipn j l))%nat with 0%nat by (rewrite skipn_length; lia).
  rewrite firstn_O, app_nil_r. reflexivity.
Qed.

Lemma firstn_exact_app {A} (a b : list A) (k : nat) :
  k = length a -> firstn k (a ++ b) = a.
Proof.
  intros ->. rewrite firstn_app, Nat.sub_diag, firstn_O, app_nil_r. apply firstn_all.
Qed.

Lemma skipn_exact_app {A} (a b : list A) (k : nat) :
  k = length a -> skipn k (a ++ b) = b.
Proof.
  intros ->. rewrite skipn_app, Nat.sub_diag, skipn_all. reflexivity.
Qed.

Lemma nth_error_skipn_cons {A} (l : list A) (k : nat) (e : A) :
  nth_error l k = Some e -> skipn k l = e :: skipn (S k) l.
Proof.
  revert k; induction l as [|x l IH]; intros [|k] H; try discriminate.
  - inversion H; subst. reflexivity.
  - cbn [nth_error] in H. cbn [skipn]. rewrite (IH k H). reflexivity.
Qed.

Lemma set_nth_length {A} (l : list A) k x : length (set_nth l k x) = length l.
Proof.
  revert k; induction l as [|y l IH]; intros [|k]; cbn; auto.
Qed.

(* ---- contiguity --------------------------------------------------------------- *)
Lemma contig_from_map i b b' :
  map e_index b' = map e_index b -> contig_from i b' = contig_from i b.
Proof.
  revert i b'; induction b as [|e r IH]; intros i [|e' r'] H; try discriminate; [reflexivity|].
  cbn in H. inversion H as [[H1 H2]]. cbn [contig_from]. rewrite H1, (IH (i + 1) r' H2). reflexivity.
Qed.

Lemma contig_from_cons i e r :
  contig_from i (e :: r) = true <-> e_index e = i /\ contig_from (i + 1) r = true.
Proof.
  cbn [contig_from]. rewrite andb_true_iff, N.eqb_eq. reflexivity.
Qed.

(* ---- StoreLogs ------------------------------------------------------------------ *)
Lemma store_logs_nil s : store_logs s [] = Some s.
Proof. reflexivity. Qed.

Definition wf_store (s : sstore) : Prop := s_logs s <> [] -> s_first s <> 0.

Lemma store_logs_some s b s' :
  b <> [] -> store_logs s b = Some s' -> wf_store s ->
  s_logs s' = s_logs s ++ b /\
  contig_from (s_first s' + len (s_logs s)) b = true /\
  s_first s' <> 0 /\
  (s_logs s <> [] -> s_first s' = s_first s).
Proof.
  intros Hb H Hwf. destruct b as [|e0 r]; [contradiction|].
  unfold store_logs in H. destruct (s_logs s) as [|x l] eqn:El.
  - destruct (e_index e0 =? 0) eqn:E0; [discriminate|].
    destruct (contig_from (e_index e0) (e0 :: r)) eqn:Ec; [|discriminate].
    inversion H; subst; cbn [s_logs s_first length]. repeat split; auto.
    + rewrite N.add_0_r. exact Ec.
    + apply N.eqb_neq in E0. exact E0.
    + intros Hne. contradiction.
  - destruct (contig_from (s_first s + len (x :: l)) (e0 :: r)) eqn:Ec; [|discriminate].
    inversion H; subst; cbn [s_logs s_first]. repeat split; auto.
    apply Hwf. rewrite El. discriminate.
Qed.

Lemma store_logs_wf s b s' : store_logs s b = Some s' -> wf_store s -> wf_store s'.
Proof.
  intros H Hwf. destruct b as [|e0 r].
  - inversion H; subst; exact Hwf.
  - destruct (store_logs_some s (e0 :: r) s') as (_&_&Hnz&_); auto; try discriminate.
    intros _. exact Hnz.
Qed.

Lemma store_logs_shape a sh b a' :
  same_shape a sh -> store_logs a b = Some a' ->
  exists sh', store_logs sh b = Some sh' /\ same_shape a' sh'.
Proof.
  intros [Hf Hl] H. destruct b as [|e0 r].
  - inversion H; subst. exists sh. split; [reflexivity|split; assumption].
  - unfold store_logs in *. destruct (s_logs a) as [|x l] eqn:Ea; destruct (s_logs sh) as [|y m] eqn:Es;
      try discriminate Hl.
    + destruct (e_index e0 =? 0); [discriminate|].
      destruct (contig_from (e_index e0) (e0 :: r)); [|discriminate].
      inversion H; subst. eexists; split; [reflexivity|]. split; reflexivity.
    + rewrite <- Hf, <- Hl.
      destruct (contig_from (s_first a + len (x :: l)) (e0 :: r)); [|discriminate].
      inversion H; subst. eexists; split; [reflexivity|].
      split; cbn [s_first s_logs]; [reflexivity|]. rewrite !app_length. cbn [length] in *. rewrite ?app_length. cbn [length]. lia.
Qed.

Lemma store_logs_shape_none a sh b :
  same_shape a sh -> store_logs a b = None -> store_logs sh b = None.
Proof.
  intros Hs H. destruct (store_logs sh b) as [sh'|] eqn:E; [|reflexivity].
  assert (Hs' : same_shape sh a) by (destruct Hs; split; auto).
  destruct (store_logs_shape sh a b sh' Hs' E) as (x & Hx & _). congruence.
Qed.

(* ---- DeleteRange ---------------------------------------------------------------- *)
Lemma last_index_shape a sh : same_shape a sh -> last_index a = last_index sh.
Proof.
  intros [Hf Hl]. unfold last_index.
  destruct (s_logs a) as [|x l]; destruct (s_logs sh) as [|y m]; try discriminate Hl; [reflexivity|].
  rewrite Hf, Hl. reflexivity.
Qed.

Lemma delete_range_shape a sh mn mx a' :
  same_shape a sh -> delete_range a mn mx = Some a' ->
  exists sh', delete_range sh mn mx = Some sh' /\ same_shape a' sh'.
Proof.
  intros Hs H. pose proof (last_index_shape a sh Hs) as Hlast. destruct Hs as [Hf Hl].
  unfold delete_range in *. destruct (mx <? mn).
  - inversion H; subst. exists sh. split; [reflexivity|split; assumption].
  - destruct (s_logs a) as [|x l] eqn:Ea; destruct (s_logs sh) as [|y m] eqn:Es; try discriminate Hl.
    + inversion H; subst. exists sh. split; [reflexivity|]. split; [exact Hf|]. rewrite Ea, Es. reflexivity.
    + cbv zeta in *. rewrite <- Hf, <- Hlast.
      destruct ((mx <? s_first a) || (last_index a <? mn)).
      * inversion H; subst. exists sh. split; [reflexivity|]. split; [exact Hf|]. rewrite Ea, Es. exact Hl.
      * destruct (mn <=? s_first a).
        -- destruct (last_index a <=? mx).
           ++ inversion H; subst. eexists; split; [reflexivity|]. split; reflexivity.
           ++ inversion H; subst. eexists; split; [reflexivity|]. split; [reflexivity|].
              cbn [s_logs]. rewrite !skipn_length, Hl. reflexivity.
        -- destruct (last_index a <=? mx); [|discriminate].
           inversion H; subst. eexists; split; [reflexivity|]. split; [reflexivity|].
           cbn [s_logs]. rewrite !firstn_length, Hl. reflexivity.
Qed.

Lemma delete_range_wf s mn mx s' : delete_range s mn mx = Some s' -> wf_store s -> wf_store s'.
Proof.
  intros H Hwf. unfold delete_range in H. destruct (mx <? mn); [inversion H; subst; exact Hwf|].
  destruct (s_logs s) as [|x l] eqn:El; [inversion H; subst; exact Hwf|]. cbv zeta in H.
  destruct ((mx <? s_first s) || (last_index s <? mn)); [inversion H; subst; exact Hwf|].
  destruct (mn <=? s_first s).
  - destruct (last_index s <=? mx); inversion H; subst; unfold wf_store; cbn [s_logs s_first].
    + intros C; contradiction.
    + intros _. lia.
  - destruct (last_index s <=? mx); [|discriminate]. inversion H; subst.
    unfold wf_store; cbn [s_logs s_first]. intros _. apply Hwf. rewrite El. discriminate.
Qed.

Lemma tamper_shape s i e : same_shape (tamper s i e) s.
Proof.
  unfold tamper. destruct (i <? s_first s); split; auto. cbn [s_logs]. apply set_nth_length.
Qed.

Lemma same_shape_refl s : same_shape s s.
Proof. split; reflexivity. Qed.
Lemma same_shape_sym a b : same_shape a b -> same_shape b a.
Proof. intros [H1 H2]; split; auto. Qed.
Lemma same_shape_trans a b c : same_shape a b -> same_shape b c -> same_shape a c.
Proof. intros [H1 H2] [H3 H4]; split; congruence. Qed.

(* ---- reading a range ---------------------------------------------------------- *)
Lemma get_skipn s i e :
  get s i = Some e ->
  s_first s <= i /\ skipn (N.to_nat (i - s_first s)) (s_logs s) = e :: skipn (S (N.to_nat (i - s_first s))) (s_logs s).
Proof.
  unfold get. destruct (i <? s_first s) eqn:E; [discriminate|]. intros H.
  split; [lia|]. apply nth_error_skipn_cons. exact H.
Qed.

Lemma get_in_range s i :
  s_first s <= i -> i < s_first s + len (s_logs s) -> exists e, get s i = Some e.
Proof.
  intros H1 H2. unfold get. replace (i <? s_first s) with false by lia.
  destruct (nth_error (s_logs s) (N.to_nat (i - s_first s))) as [e|] eqn:E; [eauto|].
  apply nth_error_None in E. lia.
Qed.

Lemma holds_range_first s lo hi : holds_range s lo hi -> first_index s <= lo.
Proof.
  intros (Hne & Hf & _). unfold first_index. destruct (s_logs s); [contradiction|exact Hf].
Qed.
