(* SpecFacts.v -- facts about the contiguous-log spec store *)
From RW Require Import Base.Bytes Base.BytesFacts Vfy.Checksum Vfy.Spec.
From Coq Require Import ZifyN ZifyNat ZifyBool.
Open Scope N_scope.

Notation len l := (N.of_nat (length l)).

(* ---- list helpers ----------------------------------------------------------- *)
Lemma skipn_app_le {A} (l x : list A) (j : nat) :
  (j <= length l)%nat -> skipn j (l ++ x) = skipn j l ++ x.
Proof.
  intros H. rewrite skipn_app. replace (j - length l)%nat with 0%nat by lia. reflexivity.
Qed.

Lemma firstn_skipn_app_stable {A} (l x : list A) (j k : nat) :
  (j + k <= length l)%nat -> firstn k (skipn j (l ++ x)) = firstn k (skipn j l).
Proof.
  intros H. rewrite skipn_app_le by lia. rewrite firstn_app.
  replace (k - length (skipn j l))%nat with 0%nat by (rewrite skipn_length; lia).
  rewrite firstn_O, app_nil_r. reflexivity.
Qed.

Lemma firstn_exact_app {A} (a b : list A) (k : nat) :
  k = length a -> firstn k (a ++ b) = a.
Proof.
  intros ->. rewrite firstn_app, Nat.sub_diag, firstn_O, app_nil_r. apply firstn_all.
Qed.

Lemma skipn_exact_app {A} (a b : list A) (k : nat) :
  k = length a -> skipn k (a ++ b) = b.
Proof.
  intros ->. rewrite skipn_app, Nat.sub_diag, skipn_all. reflexivity.
Qed.

Lemma nth_error_skipn_cons {A} (l : list A) (k : nat) (e : A) :
  nth_error l k = Some e -> skipn k l = e :: skipn (S k) l.
Proof.
  revert k; induction l as [|x l IH]; intros [|k] H; try discriminate.
  - inversion H; subst. reflexivity.
  - cbn [nth_error] in H. cbn [skipn]. rewrite (IH k H). reflexivity.
Qed.

Lemma set_nth_length {A} (l : list A) k x : length (set_nth l k x) = length l.
Proof.
  revert k; induction l as [|y l IH]; intros [|k]; cbn; auto.
Qed.

(* ---- contiguity --------------------------------------------------------------- *)
Lemma contig_from_map i b b' :
  map e_index b' = map e_index b -> contig_from i b' = contig_from i b.
Proof.
  revert i b'; induction b as [|e r IH]; intros i [|e' r'] H; try discriminate; [reflexivity|].
  cbn in H. inversion H as [[H1 H2]]. cbn [contig_from]. rewrite H1, (IH (i + 1) r' H2). reflexivity.
Qed.

Lemma contig_from_cons i e r :
  contig_from i (e :: r) = true <-> e_index e = i /\ contig_from (i + 1) r = true.
Proof.
  cbn [contig_from]. rewrite andb_true_iff, N.eqb_eq. reflexivity.
Qed.

(* ---- StoreLogs ------------------------------------------------------------------ *)
Lemma store_logs_nil s : store_logs s [] = Some s.
Proof. reflexivity. Qed.

Definition wf_store (s : sstore) : Prop := s_logs s <> [] -> s_first s <> 0.

Lemma store_logs_some s b s' :
  b <> [] -> store_logs s b = Some s' -> wf_store s ->
  s_logs s' = s_logs s ++ b /\
  contig_from (s_first s' + len (s_logs s)) b = true /\
  s_first s' <> 0 /\
  (s_logs s <> [] -> s_first s' = s_first s).
Proof.
  intros Hb H Hwf. destruct b as [|e0 r]; [contradiction|].
  unfold store_logs in H. destruct (s_logs s) as [|x l] eqn:El.
  - destruct (e_index e0 =? 0) eqn:E0; [discriminate|].
    destruct (contig_from (e_index e0) (e0 :: r)) eqn:Ec; [|discriminate].
    inversion H; subst; cbn [s_logs s_first length]. repeat split; auto.
    + rewrite N.add_0_r. exact Ec.
    + apply N.eqb_neq in E0. exact E0.
    + intros Hne. contradiction.
  - destruct (contig_from (s_first s + len (x :: l)) (e0 :: r)) eqn:Ec; [|discriminate].
    inversion H; subst; cbn [s_logs s_first]. repeat split; auto.
    apply Hwf. rewrite El. discriminate.
Qed.

Lemma store_logs_wf s b s' : store_logs s b = Some s' -> wf_store s -> wf_store s'.
Proof.
  intros H Hwf. destruct b as [|e0 r].
  - inversion H; subst; exact Hwf.
  - destruct (store_logs_some s (e0 :: r) s') as (_&_&Hnz&_); auto; try discriminate.
    intros _. exact Hnz.
Qed.

Lemma store_logs_shape a sh b a' :
  same_shape a sh -> store_logs a b = Some a' ->
  exists sh', store_logs sh b = Some sh' /\ same_shape a' sh'.
Proof.
  intros [Hf Hl] H. destruct b as [|e0 r].
  - inversion H; subst. exists sh. split; [reflexivity|split; assumption].
  - unfold store_logs in *. destruct (s_logs a) as [|x l] eqn:Ea; destruct (s_logs sh) as [|y m] eqn:Es;
      try discriminate Hl.
    + destruct (e_index e0 =? 0); [discriminate|].
      destruct (contig_from (e_index e0) (e0 :: r)); [|discriminate].
      inversion H; subst. eexists; split; [reflexivity|]. split; reflexivity.
    + rewrite <- Hf, <- Hl.
      destruct (contig_from (s_first a + len (x :: l)) (e0 :: r)); [|discriminate].
      inversion H; subst. eexists; split; [reflexivity|].
      split; cbn [s_first s_logs]; [reflexivity|]. rewrite !app_length. cbn [length] in *. rewrite ?app_length. cbn [length]. lia.
Qed.

Lemma store_logs_shape_none a sh b :
  same_shape a sh -> store_logs a b = None -> store_logs sh b = None.
Proof.
  intros Hs H. destruct (store_logs sh b) as [sh'|] eqn:E; [|reflexivity].
  assert (Hs' : same_shape sh a) by (destruct Hs; split; auto).
  destruct (store_logs_shape sh a b sh' Hs' E) as (x & Hx & _). congruence.
Qed.

(* ---- DeleteRange ---------------------------------------------------------------- *)
Lemma last_index_shape a sh : same_shape a sh -> last_index a = last_index sh.
Proof.
  intros [Hf Hl]. unfold last_index.
  destruct (s_logs a) as [|x l]; destruct (s_logs sh) as [|y m]; try discriminate Hl; [reflexivity|].
  rewrite Hf, Hl. reflexivity.
Qed.

Lemma delete_range_shape a sh mn mx a' :
  same_shape a sh -> delete_range a mn mx = Some a' ->
  exists sh', delete_range sh mn mx = Some sh' /\ same_shape a' sh'.
Proof.
  intros Hs H. pose proof (last_index_shape a sh Hs) as Hlast. destruct Hs as [Hf Hl].
  unfold delete_range in *. destruct (mx <? mn).
  - inversion H; subst. exists sh. split; [reflexivity|split; assumption].
  - destruct (s_logs a) as [|x l] eqn:Ea; destruct (s_logs sh) as [|y m] eqn:Es; try discriminate Hl.
    + inversion H; subst. exists sh. split; [reflexivity|]. split; [exact Hf|]. rewrite Ea, Es. reflexivity.
    + cbv zeta in *. rewrite <- Hf, <- Hlast.
      destruct ((mx <? s_first a) || (last_index a <? mn)).
      * inversion H; subst. exists sh. split; [reflexivity|]. split; [exact Hf|]. rewrite Ea, Es. exact Hl.
      * destruct (mn <=? s_first a).
        -- destruct (last_index a <=? mx).
           ++ inversion H; subst. eexists; split; [reflexivity|]. split; reflexivity.
           ++ inversion H; subst. eexists; split; [reflexivity|]. split; [reflexivity|].
              cbn [s_logs]. rewrite !skipn_length, Hl. reflexivity.
        -- destruct (last_index a <=? mx); [|discriminate].
           inversion H; subst. eexists; split; [reflexivity|]. split; [reflexivity|].
           cbn [s_logs]. rewrite !firstn_length, Hl. reflexivity.
Qed.

Lemma delete_range_wf s mn mx s' : delete_range s mn mx = Some s' -> wf_store s -> wf_store s'.
Proof.
  intros H Hwf. unfold delete_range in H. destruct (mx <? mn); [inversion H; subst; exact Hwf|].
  destruct (s_logs s) as [|x l] eqn:El; [inversion H; subst; exact Hwf|]. cbv zeta in H.
  destruct ((mx <? s_first s) || (last_index s <? mn)); [inversion H; subst; exact Hwf|].
  destruct (mn <=? s_first s).
  - destruct (last_index s <=? mx); inversion H; subst; unfold wf_store; cbn [s_logs s_first].
    + intros C; contradiction.
    + intros _. lia.
  - destruct (last_index s <=? mx); [|discriminate]. inversion H; subst.
    unfold wf_store; cbn [s_logs s_first]. intros _. apply Hwf. rewrite El. discriminate.
Qed.

Lemma tamper_shape s i e : same_shape (tamper s i e) s.
Proof.
  unfold tamper. destruct (i <? s_first s); split; auto. cbn [s_logs]. apply set_nth_length.
Qed.

Lemma same_shape_refl s : same_shape s s.
Proof. split; reflexivity. Qed.
Lemma same_shape_sym a b : same_shape a b -> same_shape b a.
Proof. intros [H1 H2]; split; auto. Qed.
Lemma same_shape_trans a b c : same_shape a b -> same_shape b c -> same_shape a c.
Proof. intros [H1 H2] [H3 H4]; split; congruence. Qed.

(* ---- reading a range ---------------------------------------------------------- *)
Lemma get_skipn s i e :
  get s i = Some e ->
  s_first s <= i /\ skipn (N.to_nat (i - s_first s)) (s_logs s) = e :: skipn (S (N.to_nat (i - s_first s))) (s_logs s).
Proof.
  unfold get. destruct (i <? s_first s) eqn:E; [discriminate|]. intros H.
  split; [lia|]. apply nth_error_skipn_cons. exact H.
Qed.

Lemma get_in_range s i :
  s_first s <= i -> i < s_first s + len (s_logs s) -> exists e, get s i = Some e.
Proof.
  intros H1 H2. unfold get. replace (i <? s_first s) with false by lia.
  destruct (nth_error (s_logs s) (N.to_nat (i - s_first s))) as [e|] eqn:E; [eauto|].
  apply nth_error_None in E. lia.
Qed.

Lemma holds_range_first s lo hi : holds_range s lo hi -> first_index s <= lo.
Proof.
  intros (Hne & Hf & _). unfold first_index. destruct (s_logs s); [contradiction|exact Hf].
Qed.

(* ---- the written log (ghost) vs the store ------------------------------------- *)
Lemma aligned_refl s : aligned s s.
Proof. unfold aligned. destruct (s_logs s); [exact I|split; lia]. Qed.

Lemma aligned_cases st sh :
  aligned st sh ->
  (s_logs st = [] /\ s_logs sh = []) \/
  (s_logs st <> [] /\ s_logs sh <> [] /\ s_first sh <= s_first st /\
   s_first sh + len (s_logs sh) = s_first st + len (s_logs st)).
Proof.
  unfold aligned. destruct (s_logs st) as [|x l]; destruct (s_logs sh) as [|y m]; try contradiction.
  - left; auto.
  - intros [H1 H2]. right. repeat split; try discriminate; assumption.
Qed.

Lemma aligned_intro st sh :
  s_logs st <> [] -> s_logs sh <> [] -> s_first sh <= s_first st ->
  s_first sh + len (s_logs sh) = s_first st + len (s_logs st) -> aligned st sh.
Proof.
  unfold aligned. destruct (s_logs st); destruct (s_logs sh); try contradiction; auto.
Qed.

Lemma aligned_empty st sh : s_logs st = [] -> s_logs sh = [] -> aligned st sh.
Proof. unfold aligned. intros -> ->. exact I. Qed.

Lemma store_logs_aligned st sh b st' :
  aligned st sh -> store_logs st b = Some st' ->
  exists sh', store_logs sh b = Some sh' /\ aligned st' sh'.
Proof.
  intros Ha H. destruct b as [|e0 r].
  - inversion H; subst. exists sh. split; [reflexivity|exact Ha].
  - destruct (aligned_cases _ _ Ha) as [[E1 E2]|(N1 & N2 & Hf & Hl)]; unfold store_logs in *.
    + rewrite E1 in H. rewrite E2.
      destruct (e_index e0 =? 0); [discriminate|].
      destruct (contig_from (e_index e0) (e0 :: r)); [|discriminate].
      inversion H; subst. eexists; split; [reflexivity|]. apply aligned_refl.
    + destruct (s_logs st) as [|x l] eqn:Est; [contradiction|].
      destruct (s_logs sh) as [|y m] eqn:Esh; [contradiction|].
      rewrite Hl.
      destruct (contig_from (s_first st + len (x :: l)) (e0 :: r)); [|discriminate].
      inversion H; subst. eexists; split; [reflexivity|].
      apply aligned_intro; cbn [s_logs s_first]; try discriminate; try exact Hf.
      change (x :: l ++ e0 :: r) with ((x :: l) ++ e0 :: r). rewrite !app_length. lia.
Qed.

Lemma store_logs_aligned_none st sh b :
  aligned st sh -> store_logs st b = None -> store_logs sh b = None.
Proof.
  intros Ha H. destruct b as [|e0 r]; [discriminate|].
  destruct (aligned_cases _ _ Ha) as [[E1 E2]|(N1 & N2 & Hf & Hl)]; unfold store_logs in *.
  - rewrite E1 in H. rewrite E2. exact H.
  - destruct (s_logs st) as [|x l] eqn:Est; [contradiction|].
    destruct (s_logs sh) as [|y m] eqn:Esh; [contradiction|].
    rewrite Hl. destruct (contig_from (s_first st + len (x :: l)) (e0 :: r)); [discriminate|reflexivity].
Qed.

Lemma tamper_aligned st sh i e : aligned st sh -> aligned (tamper st i e) sh.
Proof.
  intros Ha. destruct (tamper_shape st i e) as [Hf Hl].
  destruct (aligned_cases _ _ Ha) as [[E1 E2]|(N1 & N2 & H1 & H2)].
  - apply aligned_empty; [|exact E2]. apply length_zero_iff_nil. rewrite Hl, E1. reflexivity.
  - apply aligned_intro; auto; try lia.
    intros C. apply N1. apply length_zero_iff_nil. rewrite <- Hl, C. reflexivity.
Qed.

Lemma last_index_nonempty s : s_logs s <> [] -> last_index s = s_first s + len (s_logs s) - 1.
Proof. unfold last_index. destruct (s_logs s); [contradiction|reflexivity]. Qed.

Lemma delete_aligned st sh mn mx st' :
  aligned st sh -> wf_store sh -> delete_range st mn mx = Some st' ->
  aligned st' (shadow_delete st sh mn mx) /\ wf_store (shadow_delete st sh mn mx).
Proof.
  intros Ha Hwf H. unfold delete_range, shadow_delete in *.
  destruct (mx <? mn) eqn:Em; [inversion H; subst; auto|].
  destruct (aligned_cases _ _ Ha) as [[E1 E2]|(N1 & N2 & Hf & Hl)].
  - rewrite E1 in *. inversion H; subst. auto.
  - pose proof (last_index_nonempty st N1) as Hlast.
    destruct (s_logs st) as [|x l] eqn:Est; [contradiction|]. cbv zeta in *.
    assert (Hlen : 0 < len (x :: l)) by (cbn [length]; lia).
    destruct ((mx <? s_first st) || (last_index st <? mn)) eqn:Enoop.
    + inversion H; subst st'. clear H.
      destruct (last_index st <=? mx) eqn:E1; [|auto].
      destruct (last_index st <? mn) eqn:E2; [auto|]. exfalso. lia.
    + destruct (mn <=? s_first st) eqn:Ehead.
      * destruct (last_index st <=? mx) eqn:Eall.
        -- inversion H; subst st'. replace (last_index st <? mn) with false by lia.
           split; [apply aligned_empty; reflexivity|]. intros C; contradiction C; reflexivity.
        -- inversion H; subst st'. split; [|exact Hwf].
           apply aligned_intro; cbn [s_logs s_first]; auto.
           ++ intros C. apply (f_equal (@length entry)) in C. rewrite skipn_length in C. cbn [length] in *. lia.
           ++ lia.
           ++ rewrite skipn_length. cbn [length] in *. lia.
      * destruct (last_index st <=? mx) eqn:Etail; [|discriminate].
        inversion H; subst st'. replace (last_index st <? mn) with false by lia.
        assert (Hk : (N.to_nat (mn - s_first sh) <= length (s_logs sh))%nat) by lia.
        split.
        -- apply aligned_intro; cbn [s_logs s_first]; auto.
           ++ intros C. apply (f_equal (@length entry)) in C. rewrite firstn_length in C. cbn [length] in *. lia.
           ++ intros C. apply (f_equal (@length entry)) in C. rewrite firstn_length in C. cbn [length] in *. lia.
           ++ rewrite !firstn_length. cbn [length] in *. lia.
        -- unfold wf_store. cbn [s_logs s_first]. intros _. apply Hwf. exact N2.
Qed.

(* without at-rest corruption the store is the part of the written log that
   compaction has left: the same entries, from the store's first index on *)
Definition suffix_of (st sh : sstore) : Prop :=
  aligned st sh /\ s_logs st = skipn (N.to_nat (s_first st - s_first sh)) (s_logs sh).

Lemma suffix_of_refl s : suffix_of s s.
Proof. split; [apply aligned_refl|]. rewrite N.sub_diag. reflexivity. Qed.

Lemma suffix_of_store st sh b st' sh' :
  suffix_of st sh -> store_logs st b = Some st' -> store_logs sh b = Some sh' -> suffix_of st' sh'.
Proof.
  intros [Ha Hs] H1 H2. destruct (store_logs_aligned st sh b st' Ha H1) as (x & Hx & Ha').
  rewrite H2 in Hx. inversion Hx; subst x. split; [exact Ha'|].
  destruct b as [|e0 r]; [inversion H1; inversion H2; subst; exact Hs|].
  destruct (aligned_cases _ _ Ha) as [[E1 E2]|(N1 & N2 & Hf & Hl)]; unfold store_logs in *.
  - rewrite E1 in H1. rewrite E2 in H2.
    destruct (e_index e0 =? 0); [discriminate|].
    destruct (contig_from (e_index e0) (e0 :: r)); [|discriminate].
    inversion H1; inversion H2; subst. cbn [s_first s_logs]. rewrite N.sub_diag. reflexivity.
  - destruct (s_logs st) as [|x l] eqn:Est; [contradiction|].
    destruct (s_logs sh) as [|y m] eqn:Esh; [contradiction|].
    destruct (contig_from (s_first st + len (x :: l)) (e0 :: r)); [|discriminate].
    destruct (contig_from (s_first sh + len (y :: m)) (e0 :: r)); [|discriminate].
    inversion H1; inversion H2; subst. cbn [s_first s_logs].
    change (y :: m ++ e0 :: r) with ((y :: m) ++ e0 :: r).
    rewrite skipn_app_le by (cbn [length] in *; lia). rewrite <- Hs. reflexivity.
Qed.

Lemma suffix_of_delete st sh mn mx st' :
  suffix_of st sh -> wf_store sh -> delete_range st mn mx = Some st' ->
  suffix_of st' (shadow_delete st sh mn mx).
Proof.
  intros [Ha Hs] Hwf H. split; [apply (delete_aligned st sh mn mx st' Ha Hwf H)|].
  unfold delete_range, shadow_delete in *.
  destruct (mx <? mn) eqn:Em; [inversion H; subst; exact Hs|].
  destruct (aligned_cases _ _ Ha) as [[E1 E2]|(N1 & N2 & Hf & Hl)].
  - rewrite E1 in *. inversion H; subst. rewrite E1. exact Hs.
  - pose proof (last_index_nonempty st N1) as Hlast.
    destruct (s_logs st) as [|x l] eqn:Est; [contradiction|]. cbv zeta in *.
    assert (Hlen : 0 < len (x :: l)) by (cbn [length]; lia).
    destruct ((mx <? s_first st) || (last_index st <? mn)) eqn:Enoop.
    + inversion H; subst st'. clear H.
      destruct (last_index st <=? mx) eqn:E1; [|rewrite Est; exact Hs].
      destruct (last_index st <? mn) eqn:E2; [rewrite Est; exact Hs|]. exfalso. lia.
    + destruct (mn <=? s_first st) eqn:Ehead.
      * destruct (last_index st <=? mx) eqn:Eall.
        -- inversion H; subst st'. replace (last_index st <? mn) with false by lia. reflexivity.
        -- inversion H; subst st'. cbn [s_logs s_first]. rewrite Hs, skipn_skipn'. f_equal. lia.
      * destruct (last_index st <=? mx) eqn:Etail; [|discriminate].
        inversion H; subst st'. replace (last_index st <? mn) with false by lia.
        cbn [s_logs s_first]. rewrite Hs, firstn_skipn_comm. f_equal. f_equal. lia.
Qed.
