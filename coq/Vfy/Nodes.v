(* Nodes.v -- multi-node histories of verifying LogStores.
   A node = middleware state + underlying store (contiguous-log spec) + the
   hand-off channel state.  [n_shadow] is ghost: the log as the node WROTE it --
   the same StoreLogs calls, never tampered at rest, tail truncations applied,
   but pure head truncations (compaction) do not erase it ([aligned]): the
   running sum still covers entries that were written and compacted away.
   Nodes interact only through what the environment feeds them: HStore takes an
   arbitrary batch, which covers leader appends, replication with any batch
   split, conflicting suffixes after a leadership change and in-flight
   corruption alike.  A step that is not enabled is a no-op, so every list of
   events is a history.
   Model only; facts in NodesFacts.v. *)
From RW Require Import Base.Bytes Vfy.Checksum Vfy.Spec Vfy.Store Vfy.VerifChan.
Open Scope N_scope.

Record node := { n_v : vstate; n_store : sstore; n_shadow : sstore;
                 n_fail : bool;           (* next underlying StoreLogs fails (injected) *)
                 n_c : vchan }.

Definition node_init : node :=
  {| n_v := v_init; n_store := s_empty; n_shadow := s_empty; n_fail := false; n_c := c_init |}.

Definition with_c (nd : node) (c : vchan) : node :=
  {| n_v := n_v nd; n_store := n_store nd; n_shadow := n_shadow nd; n_fail := n_fail nd; n_c := c |}.

Section WithCheckpointFn.
  Variable cpf : entry -> option bool.

  (* StoreLogs through the middleware (up to and including the state update and
     checkpoints_written; the sends follow as separate steps) *)
  Definition node_store (nd : node) (b : list entry) : sres * node * list report :=
    let o := vstore_logs cpf (n_fail nd) (n_v nd) (n_store nd) b in
    let sh' := match o_res o with
               | SOk => match store_logs (n_shadow nd) (o_batch o) with
                        | Some x => x | None => n_shadow nd end
               | _ => n_shadow nd
               end in
    (o_res o,
     {| n_v := o_v o; n_store := o_store o; n_shadow := sh';
        n_fail := if o_called o then false else n_fail nd;
        n_c := ch_push (n_c nd) (o_reports o) |},
     o_reports o).

  Definition node_delete (nd : node) (mn mx : N) (lf : bool) : bool * node :=
    let '(ok, v', s') := vdelete_range lf (n_v nd) (n_store nd) mn mx in
    let sh' := if ok then shadow_delete (n_store nd) (n_shadow nd) mn mx else n_shadow nd in
    (ok, {| n_v := v'; n_store := s'; n_shadow := sh'; n_fail := n_fail nd; n_c := n_c nd |}).

  Definition node_restart (nd : node) : node :=
    if ch_quiescent (n_c nd) then
      {| n_v := v_init; n_store := n_store nd; n_shadow := n_shadow nd; n_fail := n_fail nd;
         n_c := ch_restart (n_c nd) |}
    else nd.

  Definition node_tamper (nd : node) (i : N) (e : entry) : node :=
    {| n_v := n_v nd; n_store := tamper (n_store nd) i e; n_shadow := n_shadow nd;
       n_fail := n_fail nd; n_c := n_c nd |}.

  Definition node_arm_fail (nd : node) : node :=
    {| n_v := n_v nd; n_store := n_store nd; n_shadow := n_shadow nd; n_fail := true; n_c := n_c nd |}.

  Inductive event :=
  | HStore (n : nat) (b : list entry)     (* StoreLogs(b) on node n (one caller: needs no send pending) *)
  | HDelete (n : nat) (mn mx : N) (lf : bool) (* DeleteRange; lf: its LastIndex read of the store fails *)
  | HRestart (n : nat)                    (* new LogStore over the same store *)
  | HTamper (n : nat) (i : N) (e : entry) (* at-rest corruption *)
  | HFail (n : nat)                       (* arm an underlying StoreLogs failure *)
  | HSend (n : nat)                       (* one triggerVerify of the running StoreLogs *)
  | HRecv (n : nat)                       (* verifier goroutine takes + verifies a report *)
  | HReturn (n : nat).                    (* ReportFn returns *)

  Definition ev_node (ev : event) : nat :=
    match ev with
    | HStore n _ | HDelete n _ _ _ | HRestart n | HTamper n _ _ | HFail n
    | HSend n | HRecv n | HReturn n => n
    end.

  Definition node_step (nd : node) (ev : event) : node :=
    match ev with
    | HStore _ b => match c_pending (n_c nd) with
                    | [] => snd (fst (node_store nd b))
                    | _ :: _ => nd
                    end
    | HDelete _ mn mx lf => snd (node_delete nd mn mx lf)
    | HRestart _ => node_restart nd
    | HTamper _ i e => node_tamper nd i e
    | HFail _ => node_arm_fail nd
    | HSend _ => with_c nd (ch_send (n_c nd))
    | HRecv _ => with_c nd (ch_recv (n_store nd) (n_c nd))
    | HReturn _ => with_c nd (ch_return (n_c nd))
    end.

  Fixpoint upd_nth (l : list node) (k : nat) (f : node -> node) : list node :=
    match l, k with
    | [], _ => []
    | x :: r, O => f x :: r
    | x :: r, S k' => x :: upd_nth r k' f
    end.

  Definition sys := list node.
  Definition sys_init (k : nat) : sys := repeat node_init k.
  Definition node_at (st : sys) (n : nat) : node := nth n st node_init.

  Definition step (st : sys) (ev : event) : sys :=
    upd_nth st (ev_node ev) (fun nd => node_step nd ev).

  Definition run (st : sys) (h : list event) : sys := fold_left step h st.

  Definition is_tamper (ev : event) : bool :=
    match ev with HTamper _ _ _ => true | _ => false end.
End WithCheckpointFn.
