(* Store.v -- model of verifier.LogStore over the contiguous-log spec:
   updateVerifyState, StoreLogs, DeleteRange (store.go) and verify (verifier.go).
   Model only; facts in StoreFacts.v. *)
From RW Require Import Base.Bytes Base.Fnv Vfy.Checksum Vfy.Spec.
Open Scope N_scope.

Inductive errkind :=
| ENone          (* Err == nil *)
| ECkInflight    (* ErrChecksumMismatch, "in-flight corruption"  (write_checksum_failures) *)
| ECkStorage     (* ErrChecksumMismatch, "storage corruption"    (read_checksum_failures) *)
| ERange         (* ErrRangeMismatch *)
| EOther.        (* FirstIndex / GetLog failed *)

Record report := { r_start : N; r_end : N;          (* Range [Start, End) *)
                   r_expected : N; r_written : N; r_read : N;
                   r_err : errkind;
                   r_skipped : option (N * N) }.

Definition set_err (r : report) (k : errkind) : report :=
  {| r_start := r_start r; r_end := r_end r; r_expected := r_expected r;
     r_written := r_written r; r_read := r_read r; r_err := k; r_skipped := r_skipped r |}.
Definition set_read (r : report) (v : N) : report :=
  {| r_start := r_start r; r_end := r_end r; r_expected := r_expected r;
     r_written := r_written r; r_read := v; r_err := r_err r; r_skipped := r_skipped r |}.
Definition set_skipped (r : report) (k : option (N * N)) : report :=
  {| r_start := r_start r; r_end := r_end r; r_expected := r_expected r;
     r_written := r_written r; r_read := r_read r; r_err := r_err r; r_skipped := k |}.

Definition is_checksum_err (k : errkind) : bool :=
  match k with ECkInflight | ECkStorage => true | _ => false end.

(* LogStore.checksum / LogStore.sumStartIdx; both start at 0, 0 = "take the next index" *)
Record vstate := { v_sum : N; v_start : N }.
Definition v_init : vstate := {| v_sum := 0; v_start := 0 |}.

Section WithCheckpointFn.
  (* the application's IsCheckpointFn: None = it returned an error *)
  Variable cpf : entry -> option bool.

  Inductive uvs_res := UvsErr | UvsOk (sum start : N) (r : option report) (e' : entry).

  Definition new_report (st en expd wr : N) : report :=
    {| r_start := st; r_end := en; r_expected := expd; r_written := wr; r_read := 0;
       r_err := ENone; r_skipped := None |}.

  Definition update_verify_state (e : entry) (cs start : N) : uvs_res :=
    match cpf e with
    | None => UvsErr
    | Some is_cp =>
        let start := if start =? 0 then e_index e else start in
        if is_cp then
          match e_ext e with
          | [] =>  (* new checkpoint: we must be the leader *)
              let e' := set_ext e (encode_meta start cs) in
              UvsOk (checksum_log 0 e') (e_index e)
                    (Some (new_report start (e_index e) cs cs)) e'
          | _ :: _ =>
              match decode_meta (e_ext e) with
              | MetaErr => UvsErr
              | MetaOk cp_start cp_sum =>
                  let w := if cp_start =? start then cs else 0 in
                  UvsOk (checksum_log 0 e) (e_index e)
                        (Some (new_report cp_start (e_index e) cp_sum w)) e
              end
          end
        else UvsOk (checksum_log cs e) start None e
    end.

  Definition opt_list {A} (o : option A) : list A :=
    match o with Some x => [x] | None => [] end.

  (* the loop of StoreLogs over the batch: final (sum, start), triggered
     reports, and the batch as handed to the underlying store *)
  Fixpoint uvs_loop (b : list entry) (cs start : N) : option (N * N * list report * list entry) :=
    match b with
    | [] => Some (cs, start, [], [])
    | e :: r =>
        match update_verify_state e cs start with
        | UvsErr => None
        | UvsOk cs' st' ro e' =>
            match uvs_loop r cs' st' with
            | None => None
            | Some (c, s, rs, es) => Some (c, s, opt_list ro ++ rs, e' :: es)
            end
        end
    end.

  Inductive sres := SOk | SErrVfy | SErrStore.

  Record store_out := { o_res : sres; o_v : vstate; o_store : sstore;
                        o_reports : list report;   (* to be handed to triggerVerify, in order *)
                        o_batch : list entry;      (* what reached the underlying store *)
                        o_called : bool }.         (* underlying StoreLogs was called *)

  (* StoreLogs; fail = the underlying store will fail this call (injected fault) *)
  Definition vstore_logs (fail : bool) (v : vstate) (s : sstore) (b : list entry) : store_out :=
    match b with
    | [] => {| o_res := SOk; o_v := v; o_store := s; o_reports := []; o_batch := []; o_called := false |}
    | _ :: _ =>
        match uvs_loop b (v_sum v) (v_start v) with
        | None => {| o_res := SErrVfy; o_v := v; o_store := s; o_reports := []; o_batch := [];
                     o_called := false |}
        | Some (cs, st, rs, b') =>
            match (if fail then None else store_logs s b') with
            | None => {| o_res := SErrStore; o_v := v; o_store := s; o_reports := [];
                         o_batch := b'; o_called := true |}
            | Some s' => {| o_res := SOk; o_v := {| v_sum := cs; v_start := st |}; o_store := s';
                            o_reports := rs; o_batch := b'; o_called := true |}
            end
        end
    end.
End WithCheckpointFn.

(* DeleteRange: LastIndex is read first ([lf] = that read returned an error);
   after a successful underlying delete the running sum restarts if the read
   failed or the deleted range reached that last index (tail
   truncation -- issued by raft from the appending goroutine).  Head truncations
   (log compaction, issued concurrently from raft's snapshot goroutine) leave
   (checksum, sumStartIdx) alone. *)
Definition vdelete_range (lf : bool) (v : vstate) (s : sstore) (mn mx : N) : bool * vstate * sstore :=
  let last := last_index s in
  match delete_range s mn mx with
  | None => (false, v, s)
  | Some s' => (true, if lf || (last <=? mx) then v_init else v, s')
  end.

(* the read loop of verify: GetLog idx .. for n consecutive indexes *)
Fixpoint read_range (s : sstore) (idx : N) (n : nat) (sum : N) : option N :=
  match n with
  | O => Some sum
  | S k => match get s idx with
           | None => None
           | Some e => read_range s (idx + 1) k (checksum_log sum e)
           end
  end.

Definition verify (s : sstore) (r : report) : report :=
  if negb (r_written r =? 0) && negb (r_written r =? r_expected r) then set_err r ECkInflight
  else if r_start r <? first_index s then set_err r ERange
  else match read_range s (r_start r) (N.to_nat (r_end r - r_start r)) 0 with
       | None => set_err r EOther
       | Some sum => let r' := set_read r sum in
                     if sum =? r_expected r then r' else set_err r' ECkStorage
       end.
