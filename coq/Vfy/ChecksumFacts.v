(* ChecksumFacts.v -- the chained sum is FNV-1a (from state 0) over an explicit
   byte stream; where that stream is injective and where it is not. *)
From RW Require Import Base.Bytes Base.BytesFacts Base.Fnv Base.FnvFacts Gen.Constants Vfy.Checksum.
From Coq Require Import ZifyN ZifyNat ZifyBool.
Open Scope N_scope.

(* ---- checksumLog = one fnv_add over the entry's stream -------------------- *)
Lemma checksum_log_stream s e :
  is_bootstrap e = false -> checksum_log s e = fnv_add s (entry_stream e).
Proof.
  intros Hb. unfold checksum_log, entry_stream, fnv_add_u64. rewrite Hb.
  rewrite !fnv_add_app. destruct (e_ext e) as [|x r]; reflexivity.
Qed.

Lemma checksum_log_bootstrap s e : is_bootstrap e = true -> checksum_log s e = 0.
Proof. intros Hb. unfold checksum_log. rewrite Hb. reflexivity. Qed.

Lemma chain_nil s : chain s [] = s.
Proof. reflexivity. Qed.
Lemma chain_cons s e r : chain s (e :: r) = chain (checksum_log s e) r.
Proof. reflexivity. Qed.
Lemma chain_app s a b : chain s (a ++ b) = chain (chain s a) b.
Proof. unfold chain. apply fold_left_app. Qed.
Lemma chain_snoc s a e : chain s (a ++ [e]) = checksum_log (chain s a) e.
Proof. rewrite chain_app. reflexivity. Qed.

Lemma chain_from_stream es : forall acc,
  chain (fnv_add 0 acc) es = fnv_add 0 (chain_stream_from acc es).
Proof.
  induction es as [|e r IH]; intros acc; [reflexivity|].
  rewrite chain_cons. cbn [chain_stream_from]. destruct (is_bootstrap e) eqn:Hb.
  - rewrite checksum_log_bootstrap by exact Hb. apply (IH []).
  - rewrite checksum_log_stream by exact Hb. rewrite <- fnv_add_app. apply IH.
Qed.

(* the chained sum of a range is FNV-1a from state 0 over
   be64 idx ++ be64 term ++ be64 type ++ data ++ ext per entry, restarted after
   a bootstrap entry *)
Lemma chain_is_fnv_of_stream es : chain 0 es = fnv_add 0 (chain_stream es).
Proof. apply (chain_from_stream es []). Qed.

Lemma chain_stream_from_no_bootstrap es : no_bootstrap es ->
  forall acc, chain_stream_from acc es = acc ++ concat (map entry_stream es).
Proof.
  induction 1 as [|e r He Hr IH]; intros acc; cbn [chain_stream_from map concat].
  - rewrite app_nil_r. reflexivity.
  - rewrite He, IH, app_assoc. reflexivity.
Qed.

Lemma chain_stream_no_bootstrap es : no_bootstrap es ->
  chain_stream es = concat (map entry_stream es).
Proof. intros H. apply (chain_stream_from_no_bootstrap es H []). Qed.

Lemma chain_no_bootstrap es : no_bootstrap es ->
  forall s, chain s es = fnv_add s (concat (map entry_stream es)).
Proof.
  induction 1 as [|e r He Hr IH]; intros s; [reflexivity|].
  rewrite chain_cons, checksum_log_stream by exact He. cbn [map concat].
  rewrite fnv_add_app. apply IH.
Qed.

Lemma checksum_log_lt s e : s < two64 -> checksum_log s e < two64.
Proof.
  intros Hs. destruct (is_bootstrap e) eqn:Hb.
  - rewrite checksum_log_bootstrap by exact Hb. reflexivity.
  - rewrite checksum_log_stream by exact Hb. apply fnv_add_lt. exact Hs.
Qed.

Lemma chain_lt es : forall s, s < two64 -> chain s es < two64.
Proof.
  induction es as [|e r IH]; intros s Hs; [exact Hs|].
  rewrite chain_cons. apply IH. apply checksum_log_lt. exact Hs.
Qed.

(* ---- injectivity of the entry stream ------------------------------------ *)
Lemma app_eq_len {A} (a a' b b' : list A) :
  length a = length a' -> a ++ b = a' ++ b' -> a = a' /\ b = b'.
Proof.
  revert a'; induction a as [|x a IH]; intros [|y a'] Hl E; try discriminate.
  - split; [reflexivity|exact E].
  - simpl in Hl, E. inversion E; subst. destruct (IH a') as [E1 E2]; auto. subst. auto.
Qed.

Lemma be64_inj a b : a < two64 -> b < two64 -> be64 a = be64 b -> a = b.
Proof.
  intros Ha Hb E. unfold be64 in E.
  assert (E2 : le64 a = le64 b).
  { rewrite <- (rev_involutive (le64 a)), <- (rev_involutive (le64 b)), E. reflexivity. }
  rewrite <- (rd64_le64 a Ha), <- (rd64_le64 b Hb), E2. reflexivity.
Qed.

Definition hdr_ok (e : entry) : Prop := e_index e < two64 /\ e_term e < two64 /\ e_type e < two64.

Lemma wf_entry_hdr_ok e : wf_entry e -> hdr_ok e.
Proof. unfold wf_entry, hdr_ok, two64. intros (?&?&?&?&?). repeat split; lia. Qed.

(* the stream determines Index, Term, Type and Data ++ Extensions -- and nothing more *)
Lemma entry_stream_inj e e' : hdr_ok e -> hdr_ok e' ->
  entry_stream e = entry_stream e' ->
  e_index e = e_index e' /\ e_term e = e_term e' /\ e_type e = e_type e' /\
  e_data e ++ e_ext e = e_data e' ++ e_ext e'.
Proof.
  intros (Hi&Ht&Hy) (Hi'&Ht'&Hy') E. unfold entry_stream in E.
  apply app_eq_len in E as [E1 E]; [|rewrite !be64_length; reflexivity].
  apply app_eq_len in E as [E2 E]; [|rewrite !be64_length; reflexivity].
  apply app_eq_len in E as [E3 E]; [|rewrite !be64_length; reflexivity].
  repeat split; auto using be64_inj.
Qed.

Lemma entry_ext_eq (e e' : entry) :
  e_index e = e_index e' -> e_term e = e_term e' -> e_type e = e_type e' ->
  e_data e = e_data e' -> e_ext e = e_ext e' -> e = e'.
Proof. destruct e, e'; simpl; intros; subst; reflexivity. Qed.

(* every mutation that leaves Data or Extensions alone (wrong index / term /
   type, any change of Data alone incl. truncation and extension, any change of
   Extensions alone) changes the hashed stream *)
Lemma single_field_mutation_changes_stream e e' : hdr_ok e -> hdr_ok e' ->
  e <> e' -> (e_data e = e_data e' \/ e_ext e = e_ext e') ->
  entry_stream e <> entry_stream e'.
Proof.
  intros H H' Hne Hside E. apply Hne.
  destruct (entry_stream_inj e e' H H' E) as (Ei&Et&Ey&Ed).
  destruct Hside as [Hd|Hx].
  - apply entry_ext_eq; auto. rewrite Hd in Ed. apply app_inv_head in Ed. exact Ed.
  - apply entry_ext_eq; auto. rewrite Hx in Ed. apply app_inv_tail in Ed. exact Ed.
Qed.

(* ... but NOT injective across the Data/Extensions boundary (no length prefix) *)
Lemma boundary_shift_same_stream i t y d x r :
  entry_stream {| e_index := i; e_term := t; e_type := y; e_data := d ++ x; e_ext := r |} =
  entry_stream {| e_index := i; e_term := t; e_type := y; e_data := d; e_ext := x ++ r |}.
Proof. unfold entry_stream; cbn. rewrite <- !app_assoc. reflexivity. Qed.

Lemma boundary_shift_same_checksum s i t y d x r :
  checksum_log s {| e_index := i; e_term := t; e_type := y; e_data := d ++ x; e_ext := r |} =
  checksum_log s {| e_index := i; e_term := t; e_type := y; e_data := d; e_ext := x ++ r |}.
Proof.
  destruct (is_bootstrap {| e_index := i; e_term := t; e_type := y; e_data := d ++ x; e_ext := r |}) eqn:Hb.
  - rewrite !checksum_log_bootstrap; auto.
  - rewrite !checksum_log_stream; auto. rewrite boundary_shift_same_stream. reflexivity.
Qed.

(* ---- ranges --------------------------------------------------------------- *)
Lemma no_bootstrap_app a b : no_bootstrap (a ++ b) <-> no_bootstrap a /\ no_bootstrap b.
Proof. unfold no_bootstrap. apply Forall_app. Qed.

Lemma range_stream_split pre e post : no_bootstrap (pre ++ e :: post) ->
  chain_stream (pre ++ e :: post) =
  concat (map entry_stream pre) ++ entry_stream e ++ concat (map entry_stream post).
Proof.
  intros H. rewrite chain_stream_no_bootstrap by exact H.
  rewrite map_app, concat_app. reflexivity.
Qed.

(* replacing one entry of a range by one with a different stream changes the
   stream of the range *)
Lemma range_mutation_changes_stream pre e e' post :
  no_bootstrap (pre ++ e :: post) -> no_bootstrap (pre ++ e' :: post) ->
  entry_stream e <> entry_stream e' ->
  length (entry_stream e) = length (entry_stream e') \/ post = [] ->
  chain_stream (pre ++ e :: post) <> chain_stream (pre ++ e' :: post).
Proof.
  intros H H' Hne Hl E. rewrite !range_stream_split in E by assumption.
  apply app_inv_head in E. destruct Hl as [Hl|Hp].
  - apply app_eq_len in E as [E1 _]; [|exact Hl]. contradiction.
  - subst post. cbn in E. rewrite !app_nil_r in E. contradiction.
Qed.

Lemma wf_bytes_concat l : Forall wf_bytes l -> wf_bytes (concat l).
Proof.
  induction 1 as [|x r Hx Hr IH]; cbn; [constructor|].
  apply (proj2 (wf_bytes_app _ _)); split; assumption.
Qed.

Lemma wf_entry_stream e : wf_entry e -> wf_bytes (entry_stream e).
Proof.
  intros (_&_&_&Hd&Hx). unfold entry_stream.
  apply (proj2 (wf_bytes_app _ _)); split; [apply wf_be64|].
  apply (proj2 (wf_bytes_app _ _)); split; [apply wf_be64|].
  apply (proj2 (wf_bytes_app _ _)); split; [apply wf_be64|].
  apply (proj2 (wf_bytes_app _ _)); split; assumption.
Qed.

(* a one-byte difference anywhere in the stream of one entry of a range is
   detected whatever follows -- no collision caveat *)
Lemma range_byte_flip_changes_sum pre e e' post x b1 b2 y :
  no_bootstrap (pre ++ e :: post) -> no_bootstrap (pre ++ e' :: post) ->
  Forall wf_entry post ->
  entry_stream e = x ++ b1 :: y -> entry_stream e' = x ++ b2 :: y ->
  wf_byte b1 -> wf_byte b2 -> wf_bytes y -> b1 <> b2 ->
  chain 0 (pre ++ e :: post) <> chain 0 (pre ++ e' :: post).
Proof.
  intros H H' Hpost E1 E2 Hb1 Hb2 Hy Hne.
  rewrite !chain_is_fnv_of_stream, !range_stream_split by assumption.
  rewrite E1, E2, <- !app_assoc, !app_assoc with (l := concat (map entry_stream pre)).
  cbn [app]. apply single_byte_flip_always_detected; auto.
  - reflexivity.
  - apply (proj2 (wf_bytes_app _ _)); split; [exact Hy|].
    apply wf_bytes_concat. apply Forall_map.
    eapply Forall_impl; [|exact Hpost]. intros a Ha. apply wf_entry_stream. exact Ha.
Qed.

(* ---- checkpoint metadata -------------------------------------------------- *)
Lemma encode_meta_length a b : length (encode_meta a b) = 24%nat.
Proof. reflexivity. Qed.

Lemma magic_lt : ExtensionMagicPrefix < two64.
Proof. reflexivity. Qed.

Lemma decode_encode_meta a b : a < two64 -> b < two64 ->
  decode_meta (encode_meta a b) = MetaOk a b.
Proof.
  intros Ha Hb. unfold decode_meta. rewrite encode_meta_length.
  change (24 <? 24)%nat with false. cbv iota.
  unfold encode_meta.
  assert (F1 : forall u r, firstn 8 (le64 u ++ r) = le64 u).
  { intros u r. rewrite firstn_app, le64_length. simpl (8 - 8)%nat.
    rewrite firstn_O, app_nil_r. apply firstn_all2. rewrite le64_length. lia. }
  assert (S1 : forall u r, skipn 8 (le64 u ++ r) = r).
  { intros u r. rewrite skipn_app, le64_length. simpl (8 - 8)%nat.
    rewrite skipn_all2 by (rewrite le64_length; lia). reflexivity. }
  rewrite F1, (rd64_le64 _ magic_lt), N.eqb_refl.
  rewrite S1, F1, (rd64_le64 _ Ha).
  change (skipn 16 (le64 ExtensionMagicPrefix ++ le64 a ++ le64 b))
    with (skipn 8 (skipn 8 (le64 ExtensionMagicPrefix ++ le64 a ++ le64 b))).
  rewrite S1, S1. rewrite <- (app_nil_r (le64 b)), F1, (rd64_le64 _ Hb). reflexivity.
Qed.

Lemma entry_eqb_eq a b : entry_eqb a b = true <-> a = b.
Proof.
  unfold entry_eqb. split.
  - intros H. repeat (apply andb_true_iff in H as [H ?]).
    apply entry_ext_eq; try (apply N.eqb_eq; assumption); apply beq_bytes_eq; assumption.
  - intros ->. rewrite !N.eqb_refl, !beq_bytes_refl. reflexivity.
Qed.
