(* NodesFacts.v -- invariants of multi-node histories and the theorems behind
   C16 (no false alarms), C17 (detection, blame) and C18 (pass-through). *)
From RW Require Import Base.Bytes Base.Fnv Base.FnvFacts Vfy.Checksum Vfy.ChecksumFacts
  Vfy.Spec Vfy.SpecFacts Vfy.Store Vfy.StoreFacts Vfy.VerifChan Vfy.VerifChanFacts Vfy.Nodes.
From Coq Require Import ZifyN ZifyNat ZifyBool.
Open Scope N_scope.

Section WithCpf.
  Variable cpf : entry -> option bool.

  (* ---- systems -------------------------------------------------------------- *)
  Lemma node_at_upd st k f n :
    node_at (upd_nth st k f) n = node_at st n \/
    (n = k /\ node_at (upd_nth st k f) n = f (node_at st n)).
  Proof.
    unfold node_at. revert k n; induction st as [|x st IH]; intros k n.
    - left. destruct k; reflexivity.
    - destruct k as [|k]; destruct n as [|n]; cbn [upd_nth nth]; auto.
      destruct (IH k n) as [H|[H1 H2]]; [left; exact H|right; split; [congruence|exact H2]].
  Qed.

  Lemma node_at_init k n : node_at (sys_init k) n = node_init.
  Proof.
    unfold node_at, sys_init. revert n; induction k as [|k IH]; intros [|n]; cbn; auto.
  Qed.

  (* a property of nodes that every step preserves holds along every history *)
  Lemma run_invariant (P : node -> Prop) :
    (forall nd ev, P nd -> P (node_step cpf nd ev)) ->
    forall h st, (forall n, P (node_at st n)) -> forall n, P (node_at (run cpf st h) n).
  Proof.
    intros Hstep h. induction h as [|ev h IH]; intros st H n; [apply H|].
    unfold run in *. cbn [fold_left]. apply IH. intros m. unfold step.
    destruct (node_at_upd st (ev_node ev) (fun nd => node_step cpf nd ev) m) as [E|[_ E]]; rewrite E.
    - apply H.
    - apply Hstep. apply H.
  Qed.

  (* ---- the node invariant ------------------------------------------------------ *)
  Definition ninv (nd : node) : Prop :=
    aligned (n_store nd) (n_shadow nd) /\ vinv (n_v nd) (n_shadow nd).

  Lemma ninv_init : ninv node_init.
  Proof.
    split; [apply aligned_refl|]. apply vinv_init. intros C. contradiction C. reflexivity.
  Qed.

  (* what a successful StoreLogs guarantees about the node and its reports *)
  Lemma node_store_ok nd b nd' rs :
    ninv nd -> node_store cpf nd b = (SOk, nd', rs) ->
    ninv nd' /\
    Forall (Rv (s_first (n_shadow nd')) (s_logs (n_shadow nd'))) rs /\
    (leader_batch cpf b -> Forall (Rleader (s_first (n_shadow nd')) (s_logs (n_shadow nd'))) rs).
  Proof.
    intros [Hs Hv] H. unfold node_store in H.
    destruct b as [|e0 r].
    - rewrite vstore_logs_nil in H. cbn in H. inversion H; subst. cbn.
      split; [split; assumption|]. split; [constructor|intros _; constructor].
    - remember (vstore_logs cpf (n_fail nd) (n_v nd) (n_store nd) (e0 :: r)) as o eqn:Eo.
      inversion H as [[Hres Hnd Hrs]]. clear H.
      assert (Hb : e0 :: r <> []) by discriminate.
      assert (Hres' : o_res (vstore_logs cpf (n_fail nd) (n_v nd) (n_store nd) (e0 :: r)) = SOk)
        by (rewrite <- Eo; exact Hres).
      destruct (vstore_logs_ok cpf (n_fail nd) (n_v nd) (n_store nd) (n_shadow nd) (e0 :: r)
                  Hv Hs Hres' Hb) as (sh' & Esh & Hs' & Hv' & HR & HL).
      rewrite <- Eo in Esh, Hs', Hv', HR, HL.
      rewrite Hres. cbn [n_shadow n_store n_v]. rewrite Esh.
      split; [split; assumption|]. split; assumption.
  Qed.

  Lemma node_store_err nd b res nd' rs :
    node_store cpf nd b = (res, nd', rs) -> res <> SOk ->
    n_v nd' = n_v nd /\ n_store nd' = n_store nd /\ n_shadow nd' = n_shadow nd /\ rs = [] /\
    c_pending (n_c nd') = c_pending (n_c nd) /\ c_written (n_c nd') = c_written (n_c nd).
  Proof.
    unfold node_store. intros H Hne. inversion H as [[Hres Hnd Hrs]]. subst res.
    destruct (vstore_logs_err cpf (n_fail nd) (n_v nd) (n_store nd) b Hne) as (A & B & C).
    cbn [n_v n_store n_shadow n_c]. rewrite A, B, C.
    destruct (o_res (vstore_logs cpf (n_fail nd) (n_v nd) (n_store nd) b)); try contradiction;
      repeat split; cbn; try rewrite app_nil_r; try lia; reflexivity.
  Qed.

  Lemma ninv_store nd b : ninv nd -> ninv (snd (fst (node_store cpf nd b))).
  Proof.
    intros H. destruct (node_store cpf nd b) as [[res nd'] rs] eqn:E. cbn [fst snd].
    destruct res.
    - apply (node_store_ok nd b nd' rs H E).
    - destruct (node_store_err nd b _ nd' rs E) as (A & B & C & _); [discriminate|].
      destruct H as [Hs Hv]. split; rewrite ?A, ?B, ?C; assumption.
    - destruct (node_store_err nd b _ nd' rs E) as (A & B & C & _); [discriminate|].
      destruct H as [Hs Hv]. split; rewrite ?A, ?B, ?C; assumption.
  Qed.

  Lemma ninv_delete nd mn mx lf : ninv nd -> ninv (snd (node_delete nd mn mx lf)).
  Proof.
    intros [Hs Hv]. unfold node_delete, vdelete_range.
    destruct (delete_range (n_store nd) mn mx) as [s'|] eqn:E; cbn [snd n_store n_shadow n_v].
    - destruct (delete_aligned _ _ _ _ _ Hs (proj2 Hv) E) as [Ha Hw].
      split; [exact Ha|].
      destruct (lf || (last_index (n_store nd) <=? mx)) eqn:El; [apply vinv_init; exact Hw|].
      apply Bool.orb_false_elim in El. destruct El as [_ El].
      (* a pure head truncation: the written log and the running sum are untouched *)
      replace (shadow_delete (n_store nd) (n_shadow nd) mn mx) with (n_shadow nd); [exact Hv|].
      unfold shadow_delete. destruct (mx <? mn); [reflexivity|].
      destruct (s_logs (n_store nd)); [reflexivity|]. cbv zeta. rewrite El. reflexivity.
    - split; assumption.
  Qed.

  Lemma ninv_step nd ev : ninv nd -> ninv (node_step cpf nd ev).
  Proof.
    intros H. destruct ev; cbn [node_step].
    - destruct (c_pending (n_c nd)); [apply ninv_store; exact H|exact H].
    - apply ninv_delete; exact H.
    - unfold node_restart. destruct (ch_quiescent (n_c nd)); [|exact H].
      destruct H as [Hs [_ Hw]]. split; [exact Hs|]. apply vinv_init. exact Hw.
    - destruct H as [Hs Hv]. split; [|exact Hv]. cbn [node_tamper n_store n_shadow].
      apply tamper_aligned. exact Hs.
    - exact H.
    - exact H.
    - exact H.
    - exact H.
  Qed.

  Lemma ninv_run h k n : ninv (node_at (run cpf (sys_init k) h) n).
  Proof.
    apply (run_invariant ninv ninv_step). intros m. rewrite node_at_init. apply ninv_init.
  Qed.

  (* without at-rest corruption the store is exactly the part of the written log
     that compaction has left (and all of it when nothing was compacted) *)
  Lemma suffix_step nd ev :
    is_tamper ev = false -> ninv nd -> suffix_of (n_store nd) (n_shadow nd) ->
    suffix_of (n_store (node_step cpf nd ev)) (n_shadow (node_step cpf nd ev)).
  Proof.
    intros Ht [Ha [_ Hw]] E. destruct ev; cbn [node_step is_tamper] in *; try discriminate; try exact E.
    - destruct (c_pending (n_c nd)); [|exact E]. unfold node_store. cbn [fst snd n_shadow n_store].
      unfold vstore_logs. destruct b as [|e0 r]; [exact E|].
      destruct (uvs_loop cpf (e0 :: r) (v_sum (n_v nd)) (v_start (n_v nd))) as [[[[cs st] rs] b']|];
        [|exact E].
      destruct (n_fail nd); [exact E|]. cbn.
      destruct (store_logs (n_store nd) b') as [s'|] eqn:Es; cbn; [|exact E].
      destruct (store_logs_aligned _ _ _ _ Ha Es) as (sh' & Esh & _). rewrite Esh.
      eapply suffix_of_store; eauto.
    - unfold node_delete, vdelete_range.
      destruct (delete_range (n_store nd) mn mx) as [s'|] eqn:Ed; cbn [snd n_store n_shadow]; [|exact E].
      eapply suffix_of_delete; eauto.
    - unfold node_restart. destruct (ch_quiescent (n_c nd)); exact E.
  Qed.

  Lemma no_tamper_suffix h k n :
    forallb (fun ev => negb (is_tamper ev)) h = true ->
    suffix_of (n_store (node_at (run cpf (sys_init k) h) n)) (n_shadow (node_at (run cpf (sys_init k) h) n)).
  Proof.
    intros Hh.
    assert (G : forall h st, forallb (fun ev => negb (is_tamper ev)) h = true ->
                (forall m, ninv (node_at st m) /\ suffix_of (n_store (node_at st m)) (n_shadow (node_at st m))) ->
                forall m, suffix_of (n_store (node_at (run cpf st h) m)) (n_shadow (node_at (run cpf st h) m))).
    { clear. induction h as [|ev h IH]; intros st Hh H m; [apply H|].
      cbn [forallb] in Hh. apply andb_true_iff in Hh as [H1 H2].
      unfold run in *. cbn [fold_left]. apply IH; [exact H2|]. intros j. unfold step.
      destruct (node_at_upd st (ev_node ev) (fun nd => node_step cpf nd ev) j) as [E|[_ E]]; rewrite E.
      - apply H.
      - split; [apply ninv_step; apply H|].
        apply suffix_step; [destruct (is_tamper ev); [discriminate|reflexivity]|apply H|apply H]. }
    apply G; [exact Hh|]. intros m. rewrite node_at_init. split; [apply ninv_init|apply suffix_of_refl].
  Qed.

  (* ---- what a triggered report claims -------------------------------------------- *)
  Lemma Rfull_holds sh r :
    Rfull (s_first sh) (s_logs sh) r ->
    holds_range sh (r_start r) (r_end r) /\
    r_written r = chain 0 (slice sh (r_start r) (r_end r)).
  Proof.
    intros (H1 & H2 & H3 & H4). split.
    - split; [|split; lia]. intros C. rewrite C in H3. cbn in H3. lia.
    - rewrite slice_range_of by exact H1. exact H4.
  Qed.

  (* the report of a checkpoint stored after ANY history: it has no error yet and
     WrittenSum is either 0 (not claimed) or the chain over exactly the entries
     the node wrote, and still holds, for the whole range *)
  Lemma report_written h k n b nd' rs r :
    node_store cpf (node_at (run cpf (sys_init k) h) n) b = (SOk, nd', rs) -> In r rs ->
    r_err r = ENone /\
    (r_written r = 0 \/
     (holds_range (n_shadow nd') (r_start r) (r_end r) /\
      r_written r = chain 0 (slice (n_shadow nd') (r_start r) (r_end r)))).
  Proof.
    intros H Hin.
    destruct (node_store_ok _ b nd' rs (ninv_run h k n) H) as (_ & HR & _).
    rewrite Forall_forall in HR. destruct (HR r Hin) as [He [Hz|Hf]].
    - split; [exact He|left; exact Hz].
    - split; [exact He|right; apply Rfull_holds; exact Hf].
  Qed.

  (* a leader's own checkpoint: ExpectedSum (what goes into the Extensions and to
     every follower) is the chain over what the leader wrote for [Start, End) *)
  Lemma leader_sum h k n b nd' rs r :
    node_store cpf (node_at (run cpf (sys_init k) h) n) b = (SOk, nd', rs) ->
    leader_batch cpf b -> In r rs ->
    holds_range (n_shadow nd') (r_start r) (r_end r) /\
    r_expected r = chain 0 (slice (n_shadow nd') (r_start r) (r_end r)) /\
    r_written r = r_expected r.
  Proof.
    intros H Hl Hin.
    destruct (node_store_ok _ b nd' rs (ninv_run h k n) H) as (_ & _ & HL).
    specialize (HL Hl). rewrite Forall_forall in HL. destruct (HL r Hin) as [Hf He].
    destruct (Rfull_holds _ _ Hf) as [A B]. split; [exact A|]. split; [rewrite He; exact B|symmetry; exact He].
  Qed.

  (* ---- C16 ------------------------------------------------------------------------ *)
  Theorem no_false_alarm h k n b nd' rs r L sv :
    node_store cpf (node_at (run cpf (sys_init k) h) n) b = (SOk, nd', rs) -> In r rs ->
    r_expected r = chain 0 L ->
    (holds_range (n_shadow nd') (r_start r) (r_end r) ->
     slice (n_shadow nd') (r_start r) (r_end r) = L) ->
    holds_range sv (r_start r) (r_end r) -> slice sv (r_start r) (r_end r) = L ->
    r_err (verify sv r) = ENone.
  Proof.
    intros H Hin Hexp Hw Hh Hr.
    destruct (report_written h k n b nd' rs r H Hin) as [He Hwr].
    pose proof (verify_err_cases sv r He) as V. cbv zeta in V.
    pose proof (holds_range_first _ _ _ Hh) as Hf.
    rewrite (read_range_holds _ _ _ Hh), Hr, <- Hexp in V.
    destruct V as [(_ & Hnz & Hne)|(_ & [(_ & Hlt)|(_ & [(_ & Hk)|(Hne & _)])])].
    - exfalso. destruct Hwr as [Z|[Hhr Hc]]; [contradiction|]. apply Hne.
      rewrite Hc, (Hw Hhr). symmetry. exact Hexp.
    - lia.
    - exact Hk.
    - contradiction Hne. reflexivity.
  Qed.

  Theorem range_mismatch h k n b nd' rs r sv :
    node_store cpf (node_at (run cpf (sys_init k) h) n) b = (SOk, nd', rs) -> In r rs ->
    r_start r < first_index sv ->
    (* the node did not hold the whole range when the checkpoint was stored ... *)
    (~ holds_range (n_shadow nd') (r_start r) (r_end r) -> r_err (verify sv r) = ERange) /\
    (* ... and in any case the only other verdict is a write-time mismatch of a
       range the node did hold and write then *)
    (r_err (verify sv r) = ERange \/
     (r_err (verify sv r) = ECkInflight /\ holds_range (n_shadow nd') (r_start r) (r_end r) /\
      r_written r = chain 0 (slice (n_shadow nd') (r_start r) (r_end r)) /\
      r_written r <> r_expected r)).
  Proof.
    intros H Hin Hlt.
    destruct (report_written h k n b nd' rs r H Hin) as [He Hwr].
    pose proof (verify_err_cases sv r He) as V. cbv zeta in V.
    assert (G : r_err (verify sv r) = ERange \/
                (r_err (verify sv r) = ECkInflight /\ r_written r <> 0 /\ r_written r <> r_expected r)).
    { destruct V as [(Hk & Hnz & Hne)|(_ & [(Hk & _)|(Hle & _)])]; [right; auto|left; exact Hk|lia]. }
    split.
    - intros Hnh. destruct G as [G|(_ & Hnz & _)]; [exact G|].
      destruct Hwr as [Z|[Hhr _]]; contradiction.
    - destruct G as [G|(Hk & Hnz & Hne)]; [left; exact G|right].
      destruct Hwr as [Z|[Hhr Hc]]; [contradiction|]. auto.
  Qed.

  (* ---- C17 ------------------------------------------------------------------------ *)
  (* detection is a property of verify alone: whatever the range holds at
     verification time (altered in flight or at rest), if it is not what the
     leader checksummed the verdict is a checksum mismatch -- unless the two byte
     streams collide under FNV-1a *)
  Theorem detect sv r L R :
    r_err r = ENone -> r_expected r = chain 0 L ->
    holds_range sv (r_start r) (r_end r) -> slice sv (r_start r) (r_end r) = R -> R <> L ->
    is_checksum_err (r_err (verify sv r)) = true \/
    fnv_add 0 (chain_stream R) = fnv_add 0 (chain_stream L).
  Proof.
    intros He Hexp Hh Hr Hne.
    pose proof (verify_err_cases sv r He) as V. cbv zeta in V.
    pose proof (holds_range_first _ _ _ Hh) as Hf.
    rewrite (read_range_holds _ _ _ Hh), Hr in V.
    destruct V as [(Hk & _)|(_ & [(_ & Hlt)|(_ & [(Hs & _)|(_ & Hk)])])].
    - left. rewrite Hk. reflexivity.
    - lia.
    - right. rewrite <- !chain_is_fnv_of_stream. rewrite Hs. exact Hexp.
    - left. rewrite Hk. reflexivity.
  Qed.

  Theorem detect_no_collision sv r L R :
    r_err r = ENone -> r_expected r = chain 0 L ->
    holds_range sv (r_start r) (r_end r) -> slice sv (r_start r) (r_end r) = R ->
    chain 0 R <> chain 0 L ->
    is_checksum_err (r_err (verify sv r)) = true.
  Proof.
    intros He Hexp Hh Hr Hne.
    pose proof (verify_err_cases sv r He) as V. cbv zeta in V.
    pose proof (holds_range_first _ _ _ Hh) as Hf.
    rewrite (read_range_holds _ _ _ Hh), Hr in V.
    destruct V as [(Hk & _)|(_ & [(_ & Hlt)|(_ & [(Hs & _)|(_ & Hk)])])].
    - rewrite Hk. reflexivity.
    - lia.
    - exfalso. apply Hne. rewrite Hs. exact Hexp.
    - rewrite Hk. reflexivity.
  Qed.

  (* a one-byte difference in one entry of the range is always detected *)
  Theorem detect_byte_flip sv r pre e e' post x b1 b2 y :
    r_err r = ENone -> r_expected r = chain 0 (pre ++ e :: post) ->
    holds_range sv (r_start r) (r_end r) ->
    slice sv (r_start r) (r_end r) = pre ++ e' :: post ->
    no_bootstrap (pre ++ e :: post) -> no_bootstrap (pre ++ e' :: post) -> Forall wf_entry post ->
    entry_stream e = x ++ b1 :: y -> entry_stream e' = x ++ b2 :: y ->
    wf_byte b1 -> wf_byte b2 -> wf_bytes y -> b1 <> b2 ->
    is_checksum_err (r_err (verify sv r)) = true.
  Proof.
    intros He Hexp Hh Hr Hn1 Hn2 Hp E1 E2 B1 B2 Hy Hne.
    eapply detect_no_collision; eauto.
    apply not_eq_sym.
    eapply range_byte_flip_changes_sum; eauto.
  Qed.

  (* in-flight corruption is blamed only when the node really wrote, for the
     whole range, something other than what the leader checksummed *)
  Theorem blame_inflight_sound h k n b nd' rs r L sv :
    node_store cpf (node_at (run cpf (sys_init k) h) n) b = (SOk, nd', rs) -> In r rs ->
    r_expected r = chain 0 L ->
    r_err (verify sv r) = ECkInflight ->
    holds_range (n_shadow nd') (r_start r) (r_end r) /\
    slice (n_shadow nd') (r_start r) (r_end r) <> L /\
    r_written r = chain 0 (slice (n_shadow nd') (r_start r) (r_end r)).
  Proof.
    intros H Hin Hexp Hk.
    destruct (report_written h k n b nd' rs r H Hin) as [He Hwr].
    pose proof (verify_err_cases sv r He) as V. cbv zeta in V. rewrite Hk in V.
    destruct V as [(_ & Hnz & Hne)|(_ & [(C & _)|(_ & V)])]; [|discriminate C|].
    - destruct Hwr as [Z|[Hhr Hc]]; [contradiction|]. split; [exact Hhr|]. split; [|exact Hc].
      intros E. apply Hne. rewrite Hc, E. symmetry. exact Hexp.
    - exfalso. destruct (read_range sv (r_start r) (N.to_nat (r_end r - r_start r)) 0);
        [destruct V as [[_ C]|[_ C]]; discriminate C|discriminate V].
  Qed.

  (* ---- C18: pass-through ---------------------------------------------------------- *)
  (* e' is e, or e is a leader's checkpoint (empty Extensions) that gained the
     24 bytes of verification metadata *)
  Definition gains_meta (e e' : entry) : Prop :=
    e' = e \/ (cpf e = Some true /\ e_ext e = [] /\
               exists a c, e' = set_ext e (encode_meta a c) /\ length (e_ext e') = 24%nat).

  (* a checkpoint whose Extensions hold something that is not our metadata *)
  Definition foreign_checkpoint (e : entry) : Prop :=
    cpf e = Some true /\ e_ext e <> [] /\ decode_meta (e_ext e) = MetaErr.

  Lemma uvs_gains e cs start cs' st' ro e' :
    update_verify_state cpf e cs start = UvsOk cs' st' ro e' -> gains_meta e e'.
  Proof.
    unfold update_verify_state. destruct (cpf e) as [[|]|] eqn:Ec; try discriminate.
    - destruct (e_ext e) as [|x0 xr] eqn:Ex.
      + intros H; inversion H. right. repeat split; auto. eexists _, _. split; reflexivity.
      + destruct (decode_meta (x0 :: xr)); [|discriminate]. intros H; inversion H. left; reflexivity.
    - intros H; inversion H. left; reflexivity.
  Qed.

  Lemma uvs_loop_gains b : forall cs start cs' st' rs b',
    uvs_loop cpf b cs start = Some (cs', st', rs, b') -> Forall2 gains_meta b b'.
  Proof.
    induction b as [|e r IH]; intros cs start cs' st' rs b' H.
    - inversion H; constructor.
    - cbn [uvs_loop] in H.
      destruct (update_verify_state cpf e cs start) as [|c1 s1 ro e1] eqn:Eu; [discriminate|].
      destruct (uvs_loop cpf r c1 s1) as [[[[c2 s2] rs2] es2]|] eqn:El; [|discriminate].
      inversion H; subst. constructor; [eapply uvs_gains; eauto|eapply IH; eauto].
  Qed.

  Lemma uvs_loop_refuses b : forall cs start e,
    In e b -> (cpf e = None \/ foreign_checkpoint e) -> uvs_loop cpf b cs start = None.
  Proof.
    induction b as [|x r IH]; intros cs start e Hin Hbad; [contradiction|].
    cbn [uvs_loop]. destruct (update_verify_state cpf x cs start) as [|c1 s1 ro e1] eqn:Eu; [reflexivity|].
    destruct Hin as [->|Hin].
    - exfalso. unfold update_verify_state in Eu. destruct Hbad as [Hn|(Hc & Hx & Hd)].
      + rewrite Hn in Eu. discriminate.
      + rewrite Hc in Eu. destruct (e_ext e) as [|x0 xr]; [contradiction|]. rewrite Hd in Eu. discriminate.
    - rewrite (IH c1 s1 e Hin Hbad). reflexivity.
  Qed.

  (* StoreLogs through the middleware = StoreLogs of the same entries on the
     underlying store, a leader's checkpoint gaining metadata; on any error the
     store and the verifier state are untouched and nothing is reported *)
  Theorem passthrough_store nd b res nd' rs :
    node_store cpf nd b = (res, nd', rs) ->
    match res with
    | SOk => exists b', Forall2 gains_meta b b' /\ store_logs (n_store nd) b' = Some (n_store nd')
    | SErrVfy => n_store nd' = n_store nd /\ n_v nd' = n_v nd /\ rs = []
    | SErrStore => n_store nd' = n_store nd /\ n_v nd' = n_v nd /\ rs = [] /\
                   (n_fail nd = true \/
                    exists b', Forall2 gains_meta b b' /\ store_logs (n_store nd) b' = None)
    end.
  Proof.
    intros H. destruct res.
    - unfold node_store in H. inversion H as [[Hres Hnd Hrs]]. cbn [n_store].
      unfold vstore_logs in *. destruct b as [|e0 r].
      + exists []. split; [constructor|reflexivity].
      + destruct (uvs_loop cpf (e0 :: r) (v_sum (n_v nd)) (v_start (n_v nd))) as [[[[cs st] rs'] b']|] eqn:El;
          [|discriminate Hres].
        destruct (n_fail nd); [discriminate Hres|].
        destruct (store_logs (n_store nd) b') as [s'|] eqn:Es; [|discriminate Hres].
        exists b'. split; [eapply uvs_loop_gains; eauto|]. cbn. exact Es.
    - destruct (node_store_err nd b _ nd' rs H) as (A & B & _ & D & _); [discriminate|]. auto.
    - destruct (node_store_err nd b _ nd' rs H) as (A & B & _ & D & _); [discriminate|].
      repeat split; auto.
      unfold node_store in H. inversion H as [[Hres Hnd Hrs]].
      unfold vstore_logs in Hres. destruct b as [|e0 r]; [discriminate Hres|].
      destruct (uvs_loop cpf (e0 :: r) (v_sum (n_v nd)) (v_start (n_v nd))) as [[[[cs st] rs'] b']|] eqn:El;
        [|discriminate Hres].
      destruct (n_fail nd); [left; reflexivity|].
      destruct (store_logs (n_store nd) b') as [s'|] eqn:Es; [discriminate Hres|].
      right. exists b'. split; [eapply uvs_loop_gains; eauto|exact Es].
  Qed.

  Theorem foreign_checkpoint_refused nd b e :
    In e b -> (cpf e = None \/ foreign_checkpoint e) ->
    fst (fst (node_store cpf nd b)) = SErrVfy /\
    n_store (snd (fst (node_store cpf nd b))) = n_store nd.
  Proof.
    intros Hin Hbad. unfold node_store. cbn [fst snd n_store]. unfold vstore_logs.
    destruct b as [|e0 r]; [contradiction|].
    rewrite (uvs_loop_refuses (e0 :: r) _ _ e Hin Hbad). split; reflexivity.
  Qed.

  (* DeleteRange: same result and same effect on the store as the underlying
     call (preceded by one LastIndex read, which has no effect); the running sum
     restarts exactly when the deleted range reached that last index, and is
     left alone by head truncations *)
  Theorem passthrough_delete nd mn mx lf :
    match delete_range (n_store nd) mn mx with
    | Some s' => node_delete nd mn mx lf = (true, snd (node_delete nd mn mx lf)) /\
                 n_store (snd (node_delete nd mn mx lf)) = s' /\
                 n_v (snd (node_delete nd mn mx lf)) =
                   (if lf || (last_index (n_store nd) <=? mx) then v_init else n_v nd)
    | None => fst (node_delete nd mn mx lf) = false /\
              n_store (snd (node_delete nd mn mx lf)) = n_store nd /\
              n_v (snd (node_delete nd mn mx lf)) = n_v nd
    end.
  Proof.
    unfold node_delete, vdelete_range. destruct (delete_range (n_store nd) mn mx); cbn; auto.
  Qed.

  (* reads never involve the middleware state, and no verifier step (send,
     receive + verify, ReportFn return, restart) changes the store *)
  Theorem passthrough_other nd ev :
    match ev with HStore _ _ | HDelete _ _ _ _ | HTamper _ _ _ => True
    | _ => n_store (node_step cpf nd ev) = n_store nd end.
  Proof.
    destruct ev; cbn [node_step]; auto.
    unfold node_restart. destruct (ch_quiescent (n_c nd)); reflexivity.
  Qed.

  (* ---- C18: the channel part of a node is the VerifChan system -------------------- *)
  Definition cevents_of (nd : node) (ev : event) : list cevent :=
    match ev with
    | HStore _ b => match c_pending (n_c nd) with
                    | [] => [CPush (snd (node_store cpf nd b))]
                    | _ => []
                    end
    | HSend _ => [CSend]
    | HRecv _ => [CRecv (n_store nd)]
    | HReturn _ => [CReturn]
    | _ => []
    end.

  Lemma node_step_channel nd ev :
    (forall n, ev <> HRestart n) ->
    n_c (node_step cpf nd ev) = crun (n_c nd) (cevents_of nd ev).
  Proof.
    intros Hnr. destruct ev; cbn [node_step cevents_of crun fold_left cstep]; try reflexivity.
    - destruct (c_pending (n_c nd)); reflexivity.
    - unfold node_delete, vdelete_range. destruct (delete_range (n_store nd) mn mx); reflexivity.
    - contradiction (Hnr n). reflexivity.
  Qed.
End WithCpf.
