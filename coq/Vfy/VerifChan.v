(* VerifChan.v -- small-step model of the hand-off between StoreLogs and the
   background verifier (store.go triggerVerify, verifier.go runVerifier):
     * verifyCh is a channel with a buffer of ONE report;
     * triggerVerify is a non-blocking send: channel full => dropped_reports++;
     * the verifier goroutine receives, fills SkippedRange from
       lastCheckPointIdx, runs verify, calls ReportFn, then counts ranges_verified;
     * ReportFn may block forever: that is a schedule in which [ch_return]
       never happens.
   Threads: the StoreLogs caller ([ch_push] at the end of the underlying write,
   then one [ch_send] per triggered report), the verifier ([ch_recv]) and the
   return of ReportFn ([ch_return]).  A step that is not enabled is a no-op, so
   every list of events is a schedule.
   Ghost state (never observed by the runner): for each enqueued report the list
   of reports dropped since the previous successful send.
   Model only; facts in VerifChanFacts.v. *)
From RW Require Import Base.Bytes Vfy.Checksum Vfy.Spec Vfy.Store.
Open Scope N_scope.

Definition treport := (report * list report)%type.   (* report, ghost: drops before it *)

Record vchan := {
  c_pending : list report;       (* triggered, triggerVerify not yet called (StoreLogs still running) *)
  c_ch : option treport;         (* the 1-slot buffer of verifyCh *)
  c_inprog : option treport;     (* taken by the verifier, verified, inside ReportFn *)
  c_last : N;                    (* lastCheckPointIdx of runVerifier *)
  c_delivered : list treport;    (* ReportFn returned (ranges_verified), oldest first *)
  c_dropped : N;                 (* dropped_reports *)
  c_written : N;                 (* checkpoints_written *)
  g_drops : list report          (* ghost: dropped since the last successful send *)
}.

Definition c_init : vchan :=
  {| c_pending := []; c_ch := None; c_inprog := None; c_last := 0; c_delivered := [];
     c_dropped := 0; c_written := 0; g_drops := [] |}.

(* StoreLogs after the underlying write succeeded: count, then queue the sends *)
Definition ch_push (c : vchan) (rs : list report) : vchan :=
  {| c_pending := c_pending c ++ rs; c_ch := c_ch c; c_inprog := c_inprog c; c_last := c_last c;
     c_delivered := c_delivered c; c_dropped := c_dropped c;
     c_written := c_written c + N.of_nat (length rs); g_drops := g_drops c |}.

(* one triggerVerify: select { case verifyCh <- r: default: dropped++ } *)
Definition ch_send (c : vchan) : vchan :=
  match c_pending c with
  | [] => c
  | r :: rest =>
      match c_ch c with
      | None => {| c_pending := rest; c_ch := Some (r, g_drops c); c_inprog := c_inprog c;
                   c_last := c_last c; c_delivered := c_delivered c; c_dropped := c_dropped c;
                   c_written := c_written c; g_drops := [] |}
      | Some _ => {| c_pending := rest; c_ch := c_ch c; c_inprog := c_inprog c;
                     c_last := c_last c; c_delivered := c_delivered c;
                     c_dropped := c_dropped c + 1;
                     c_written := c_written c; g_drops := g_drops c ++ [r] |}
      end
  end.

Definition skipped_of (last start : N) : option (N * N) :=
  if (0 <? last) && negb (last =? start) then Some (last, start) else None.

(* the verifier takes the buffered report, verifies it against the store as it
   is now, and enters ReportFn *)
Definition ch_recv (s : sstore) (c : vchan) : vchan :=
  match c_inprog c, c_ch c with
  | None, Some (r, d) =>
      let r1 := set_skipped r (skipped_of (c_last c) (r_start r)) in
      {| c_pending := c_pending c; c_ch := None; c_inprog := Some (verify s r1, d);
         c_last := r_end r; c_delivered := c_delivered c; c_dropped := c_dropped c;
         c_written := c_written c; g_drops := g_drops c |}
  | _, _ => c
  end.

(* ReportFn returns *)
Definition ch_return (c : vchan) : vchan :=
  match c_inprog c with
  | Some x => {| c_pending := c_pending c; c_ch := c_ch c; c_inprog := None; c_last := c_last c;
                 c_delivered := c_delivered c ++ [x]; c_dropped := c_dropped c;
                 c_written := c_written c; g_drops := g_drops c |}
  | None => c
  end.

(* a new LogStore over the same store (middleware restart): new goroutine and
   channel; counters and the reports already delivered are kept by the
   environment.  Only when nothing is in flight (graceful restart). *)
Definition ch_quiescent (c : vchan) : bool :=
  match c_pending c, c_ch c, c_inprog c with [], None, None => true | _, _, _ => false end.

Definition ch_restart (c : vchan) : vchan :=
  {| c_pending := []; c_ch := None; c_inprog := None; c_last := 0;
     c_delivered := c_delivered c; c_dropped := c_dropped c; c_written := c_written c;
     g_drops := [] |}.

(* ---- the channel system on its own: schedules --------------------------- *)
Inductive cevent :=
| CPush (rs : list report)    (* a StoreLogs with these checkpoints reached its send loop *)
| CSend                       (* one triggerVerify *)
| CRecv (s : sstore)          (* verifier takes a report; s = the store at that moment *)
| CReturn.                    (* ReportFn returns *)

Definition cstep (c : vchan) (ev : cevent) : vchan :=
  match ev with
  | CPush rs => ch_push c rs
  | CSend => ch_send c
  | CRecv s => ch_recv s c
  | CReturn => ch_return c
  end.

Definition crun (c : vchan) (evs : list cevent) : vchan := fold_left cstep evs c.

Definition opt_count {A} (o : option A) : N := match o with Some _ => 1 | None => 0 end.

(* all reports pushed by a schedule, in order *)
Definition pushed (evs : list cevent) : list report :=
  flat_map (fun ev => match ev with CPush rs => rs | _ => [] end) evs.

(* each checkpoint's range starts where the previous one ended (steady state) *)
Fixpoint chained_from (last : N) (rs : list report) : Prop :=
  match rs with
  | [] => True
  | r :: rest => (last = 0 \/ r_start r = last) /\ 0 < r_end r /\ chained_from (r_end r) rest
  end.

(* the ranges of ds tile [a, b) *)
Fixpoint tiles (ds : list report) (a b : N) : Prop :=
  match ds with
  | [] => a = b
  | d :: rest => r_start d = a /\ tiles rest (r_end d) b
  end.
