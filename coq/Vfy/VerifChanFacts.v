(* VerifChanFacts.v -- all schedules of the hand-off between StoreLogs and the
   verifier goroutine: the sender never waits, every checkpoint is accounted for
   exactly once, and the report after drops names exactly the skipped range. *)
From RW Require Import Base.Bytes Vfy.Checksum Vfy.Spec Vfy.SpecFacts Vfy.Store Vfy.StoreFacts Vfy.VerifChan.
From Coq Require Import ZifyN ZifyNat ZifyBool.
Open Scope N_scope.

(* ---- the sender never blocks ------------------------------------------------ *)
Lemma ch_send_pending c r rest :
  c_pending c = r :: rest -> c_pending (ch_send c) = rest.
Proof. intros H. unfold ch_send. rewrite H. destruct (c_ch c); reflexivity. Qed.

Lemma ch_send_pending_nil c : c_pending c = [] -> ch_send c = c.
Proof. intros H. unfold ch_send. rewrite H. reflexivity. Qed.

Lemma ch_recv_pending s c : c_pending (ch_recv s c) = c_pending c.
Proof. unfold ch_recv. destruct (c_inprog c); [reflexivity|]. destruct (c_ch c) as [[r d]|]; reflexivity. Qed.

Lemma ch_return_pending c : c_pending (ch_return c) = c_pending c.
Proof. unfold ch_return. destruct (c_inprog c); reflexivity. Qed.

Definition is_push (ev : cevent) : bool := match ev with CPush _ => true | _ => false end.
Definition is_send (ev : cevent) : bool := match ev with CSend => true | _ => false end.
Definition is_return (ev : cevent) : bool := match ev with CReturn => true | _ => false end.

Definition count_sends (evs : list cevent) : nat := length (filter is_send evs).

(* Whatever the verifier and ReportFn do -- including ReportFn never returning:
   there may be no CReturn in the schedule at all -- every send step of the
   StoreLogs caller completes, and after as many of its own steps as it has
   triggered reports it is done. *)
Lemma store_never_blocks evs : forall c,
  forallb (fun ev => negb (is_push ev)) evs = true ->
  length (c_pending (crun c evs)) = (length (c_pending c) - count_sends evs)%nat.
Proof.
  induction evs as [|ev evs IH]; intros c Hnp; [cbn; lia|].
  cbn [forallb] in Hnp. apply andb_true_iff in Hnp as [H1 H2].
  unfold crun in *. cbn [fold_left]. rewrite (IH _ H2). unfold count_sends.
  destruct ev; cbn [cstep is_send filter is_push negb] in *; try discriminate.
  - destruct (c_pending c) as [|r rest] eqn:E.
    + rewrite ch_send_pending_nil by exact E. rewrite E. cbn. lia.
    + rewrite (ch_send_pending c r rest E). cbn [length]. lia.
  - rewrite ch_recv_pending. reflexivity.
  - rewrite ch_return_pending. reflexivity.
Qed.

Lemma store_completes evs c :
  forallb (fun ev => negb (is_push ev)) evs = true ->
  (length (c_pending c) <= count_sends evs)%nat ->
  c_pending (crun c evs) = [].
Proof.
  intros H1 H2. apply length_zero_iff_nil. rewrite store_never_blocks by exact H1. lia.
Qed.

(* ---- accounting --------------------------------------------------------------- *)
Definition accounted (c : vchan) : N :=
  len (c_delivered c) + c_dropped c + opt_count (c_ch c) + opt_count (c_inprog c) + len (c_pending c).

Lemma accounting_step c ev :
  accounted c = c_written c -> accounted (cstep c ev) = c_written (cstep c ev).
Proof.
  unfold accounted. intros H. destruct ev as [rs| |s|]; cbn [cstep].
  - unfold ch_push; cbn. rewrite app_length. lia.
  - unfold ch_send. destruct (c_pending c) as [|r rest] eqn:E; [rewrite ?E in *; exact H|].
    destruct (c_ch c) as [x|] eqn:Ec; cbn in *; lia.
  - unfold ch_recv. destruct (c_inprog c) as [x|] eqn:Ei; [rewrite ?Ei in *; exact H|].
    destruct (c_ch c) as [[r d]|] eqn:Ec; [|rewrite ?Ei, ?Ec in *; exact H]. cbn in *. lia.
  - unfold ch_return. destruct (c_inprog c) as [x|] eqn:Ei; [|rewrite ?Ei in *; exact H].
    cbn in *. rewrite app_length. cbn. lia.
Qed.

Lemma accounting_run evs : forall c,
  accounted c = c_written c -> accounted (crun c evs) = c_written (crun c evs).
Proof.
  induction evs as [|ev evs IH]; intros c H; [exact H|].
  unfold crun in *. cbn [fold_left]. apply IH. apply accounting_step. exact H.
Qed.

Lemma written_run evs : forall c,
  c_written (crun c evs) = c_written c + len (pushed evs).
Proof.
  induction evs as [|ev evs IH]; intros c; [cbn; lia|].
  unfold crun in *. cbn [fold_left]. rewrite IH. unfold pushed. cbn [flat_map]. rewrite app_length.
  destruct ev as [rs| |s|]; cbn [cstep].
  - unfold ch_push; cbn. lia.
  - unfold ch_send. destruct (c_pending c); [cbn; lia|]. destruct (c_ch c); cbn; lia.
  - unfold ch_recv. destruct (c_inprog c); [cbn; lia|]. destruct (c_ch c) as [[r d]|]; cbn; lia.
  - unfold ch_return. destruct (c_inprog c); cbn; lia.
Qed.

(* every checkpoint pushed is, at any moment of any schedule, exactly one of:
   delivered, dropped (counted), in the channel, in progress, not yet sent *)
Theorem accounting evs :
  let c := crun c_init evs in
  len (c_delivered c) + c_dropped c + opt_count (c_ch c) + opt_count (c_inprog c) + len (c_pending c)
  = len (pushed evs) /\ c_written c = len (pushed evs).
Proof.
  cbv zeta. pose proof (accounting_run evs c_init eq_refl) as H. unfold accounted in H.
  pose proof (written_run evs c_init) as W. cbn [c_written c_init] in W. split; lia.
Qed.

(* ---- the skipped range --------------------------------------------------------- *)
Definition drops_start (ds : list report) (dflt : N) : N :=
  match ds with [] => dflt | d :: _ => r_start d end.

(* what a processed report must say: the drops recorded before it tile the range
   from their first start to the report's own start, and SkippedRange is exactly
   that range (nil when it is empty) *)
Definition names_skipped (x : treport) : Prop :=
  let '(r, ds) := x in
  let a := drops_start ds (r_start r) in
  tiles ds a (r_start r) /\
  r_skipped r = (if a =? r_start r then None else Some (a, r_start r)).

Definition lastenq (c : vchan) : N :=
  match c_ch c with Some (r, _) => r_end r | None => c_last c end.

Definition last_end (ds : list report) (dflt : N) : N :=
  match rev ds with d :: _ => r_end d | [] => dflt end.

Definition tip (c : vchan) : N := last_end (g_drops c) (lastenq c).

Definition processed (c : vchan) : list treport :=
  c_delivered c ++ match c_inprog c with Some x => [x] | None => [] end.

Definition sum_drops (l : list treport) : N :=
  fold_right (fun x acc => len (snd x) + acc) 0 l.
Arguments sum_drops : simpl never.

Record sk_inv (c : vchan) (future : list report) : Prop := {
  sk_chain : chained_from (tip c) (c_pending c ++ future);
  sk_tiles : tiles (g_drops c) (lastenq c) (tip c);
  sk_ch : forall r ds, c_ch c = Some (r, ds) ->
            0 < r_end r /\
            ((c_last c = 0 /\ ds = []) \/ (0 < c_last c /\ tiles ds (c_last c) (r_start r)));
  sk_done : Forall names_skipped (processed c);
  sk_pos : Forall (fun d => 0 < r_end d) (g_drops c);
  sk_zero : lastenq c = 0 -> g_drops c = [];
  sk_count : c_dropped c =
             sum_drops (processed c) + match c_ch c with Some (_, ds) => len ds | None => 0 end
             + len (g_drops c)
}.

Lemma last_end_snoc ds d dflt : last_end (ds ++ [d]) dflt = r_end d.
Proof. unfold last_end. rewrite rev_app_distr. reflexivity. Qed.

Lemma last_end_nil dflt : last_end [] dflt = dflt.
Proof. reflexivity. Qed.

Lemma tiles_snoc ds : forall a b d,
  tiles ds a b -> r_start d = b -> tiles (ds ++ [d]) a (r_end d).
Proof.
  induction ds as [|x ds IH]; intros a b d H Hd; cbn [tiles app] in *.
  - subst. split; reflexivity.
  - destruct H as [H1 H2]. split; [exact H1|]. eapply IH; eauto.
Qed.

Lemma last_end_pos ds dflt :
  ds <> [] -> Forall (fun d => 0 < r_end d) ds -> 0 < last_end ds dflt.
Proof.
  intros Hne HF. unfold last_end. destruct (rev ds) as [|d r] eqn:E.
  - apply (f_equal (@rev report)) in E. rewrite rev_involutive in E. cbn in E. contradiction.
  - assert (Hin : In d ds). { apply in_rev. rewrite E. left. reflexivity. }
    rewrite Forall_forall in HF. apply HF. exact Hin.
Qed.

Lemma sum_drops_app a b : sum_drops (a ++ b) = sum_drops a + sum_drops b.
Proof. unfold sum_drops. induction a as [|x a IH]; cbn [app fold_right]; [reflexivity|]. rewrite IH. lia. Qed.

Lemma sum_drops_single x : sum_drops [x] = len (snd x).
Proof. unfold sum_drops. cbn [fold_right]. lia. Qed.
Lemma sum_drops_nil : sum_drops [] = 0.
Proof. reflexivity. Qed.

Lemma sk_inv_init future : chained_from 0 future -> sk_inv c_init future.
Proof.
  intros H. constructor; cbn; auto. intros r ds C. discriminate C.
Qed.

Lemma verify_start s r : r_start (verify s r) = r_start r.
Proof. apply verify_fields. Qed.
Lemma verify_skipped s r : r_skipped (verify s r) = r_skipped r.
Proof. apply verify_fields. Qed.

Lemma sk_inv_step c ev future :
  sk_inv c (match ev with CPush rs => rs ++ future | _ => future end) ->
  sk_inv (cstep c ev) future.
Proof.
  intros I. destruct ev as [rs| |s|]; cbn [cstep].
  - (* push *)
    destruct I as [I1 I2 I3 I4 I5 I6 I7].
    constructor; auto. cbn [ch_push c_pending]. unfold tip, lastenq in *. cbn.
    rewrite <- app_assoc. exact I1.
  - (* send *)
    unfold ch_send. destruct (c_pending c) as [|r rest] eqn:Ep; [exact I|].
    destruct I as [I1 I2 I3 I4 I5 I6 I7]. rewrite Ep in I1. cbn [app chained_from] in I1.
    destruct I1 as (Hst & Hpos & Hrest).
    destruct (c_ch c) as [[r0 d0]|] eqn:Ec.
    + (* channel full: drop *)
      destruct (I3 r0 d0 eq_refl) as [Hp0 _].
      assert (Htip : r_start r = tip c).
      { destruct Hst as [Hz|Hs]; [|exact Hs]. exfalso.
        unfold tip in Hz. destruct (g_drops c) as [|g gs] eqn:Eg.
        - cbn in Hz. unfold lastenq in Hz. rewrite Ec in Hz. lia.
        - pose proof (last_end_pos (g :: gs) (lastenq c)) as P. rewrite Hz in P.
          assert (0 < 0) by (apply P; [discriminate|exact I5]). lia. }
      constructor; unfold tip, lastenq, processed in *; cbn; rewrite ?Ec in *.
      * rewrite last_end_snoc. exact Hrest.
      * rewrite last_end_snoc. eapply tiles_snoc; eauto.
      * exact I3.
      * exact I4.
      * apply Forall_app. split; [exact I5|]. constructor; [exact Hpos|constructor].
      * intros Z. lia.
      * rewrite I7, app_length. cbn. lia.
    + (* channel empty: enqueue with the drops recorded so far *)
      constructor; unfold tip, lastenq, processed in *; cbn; rewrite ?Ec in *.
      * exact Hrest.
      * reflexivity.
      * intros r1 ds1 E1. inversion E1; subst r1 ds1. split; [exact Hpos|].
        destruct (N.eq_dec (c_last c) 0) as [Z|NZ].
        -- left. split; [exact Z|]. apply I6. exact Z.
        -- right. split; [lia|]. destruct Hst as [Hz|Hs].
           ++ exfalso. destruct (g_drops c) as [|g gs] eqn:Eg.
              ** cbn in Hz. lia.
              ** pose proof (last_end_pos (g :: gs) (c_last c)) as P. rewrite Hz in P.
                 assert (0 < 0) by (apply P; [discriminate|exact I5]). lia.
           ++ rewrite Hs. exact I2.
      * exact I4.
      * constructor.
      * intros _. reflexivity.
      * rewrite I7. cbn. lia.
  - (* recv *)
    unfold ch_recv. destruct (c_inprog c) as [x|] eqn:Ei; [exact I|].
    destruct (c_ch c) as [[r ds]|] eqn:Ec; [|exact I].
    destruct I as [I1 I2 I3 I4 I5 I6 I7].
    destruct (I3 r ds Ec) as [Hpos Hcase].
    constructor; unfold tip, lastenq, processed in *; cbn; rewrite ?Ec, ?Ei in *; auto.
    + intros r1 ds1 C. discriminate C.
    + apply Forall_app. split; [apply Forall_app in I4 as [A _]; exact A|].
      constructor; [|constructor]. unfold names_skipped.
      rewrite verify_start, verify_skipped. cbn [set_skipped r_start r_skipped].
      unfold skipped_of. destruct Hcase as [[Z Hd]|[Hp Ht]].
      * subst ds. cbn [drops_start tiles]. rewrite Z, N.eqb_refl. cbn. auto.
      * destruct ds as [|d dr]; cbn [drops_start tiles] in *.
        -- rewrite Ht, !N.eqb_refl. replace (0 <? r_start r) with true by lia. cbn. auto.
        -- destruct Ht as [Hd Ht]. split; [split; [reflexivity|exact Ht]|].
           rewrite Hd. replace (0 <? c_last c) with true by lia. cbn.
           destruct (c_last c =? r_start r); reflexivity.
    + rewrite I7, !sum_drops_app, sum_drops_single, sum_drops_nil. cbn [snd]. lia.
  - (* return *)
    unfold ch_return. destruct (c_inprog c) as [x|] eqn:Ei; [|exact I].
    destruct I as [I1 I2 I3 I4 I5 I6 I7].
    constructor; unfold tip, lastenq, processed in *; cbn; rewrite ?Ei in *; auto.
    + rewrite app_nil_r. exact I4.
    + rewrite I7, app_nil_r. reflexivity.
Qed.

Lemma sk_inv_run evs : forall c future,
  sk_inv c (pushed evs ++ future) -> sk_inv (crun c evs) future.
Proof.
  induction evs as [|ev evs IH]; intros c future I; [exact I|].
  unfold crun in *. cbn [fold_left]. apply IH. apply sk_inv_step.
  unfold pushed in I. cbn [flat_map] in I. destruct ev; cbn in I |- *; try exact I.
  rewrite <- app_assoc in I. exact I.
Qed.

(* For every schedule whose checkpoints form a chain (each range starts where
   the previous one ended): every processed report carries, as SkippedRange,
   exactly the range tiled by the checkpoints dropped since the previous
   enqueued report (nil when there were none), and the drop counter is the
   number of reports so recorded. *)
Theorem skipped_range evs :
  chained_from 0 (pushed evs) ->
  let c := crun c_init evs in
  Forall names_skipped (processed c) /\
  c_dropped c = sum_drops (processed c)
                + match c_ch c with Some (_, ds) => len ds | None => 0 end + len (g_drops c).
Proof.
  intros H. cbv zeta.
  assert (I : sk_inv (crun c_init evs) []).
  { apply sk_inv_run. rewrite app_nil_r. apply sk_inv_init. exact H. }
  split; [apply (sk_done _ _ I)|apply (sk_count _ _ I)].
Qed.
