(* StoreFacts.v -- the running sum of the middleware is always the chain over the
   entries written since sumStartIdx and still held; what a triggered report
   claims as WrittenSum; what verify concludes. *)
From RW Require Import Base.Bytes Base.Fnv Base.FnvFacts Vfy.Checksum Vfy.ChecksumFacts
  Vfy.Spec Vfy.SpecFacts Vfy.Store.
From Coq Require Import ZifyN ZifyNat ZifyBool.
Open Scope N_scope.

(* the running state (cs, start) over a log l whose first entry has index f *)
Definition Pv (f : N) (l : list entry) (cs start : N) : Prop :=
  (start = 0 /\ cs = 0) \/
  (f <= start /\ start < f + len l /\ cs = chain 0 (skipn (N.to_nat (start - f)) l)).

Definition range_of (f : N) (l : list entry) (a b : N) : list entry :=
  firstn (N.to_nat (b - a)) (skipn (N.to_nat (a - f)) l).

(* the report's range lies inside l, the checkpoint entry itself (at r_end) too,
   and WrittenSum is the chain over exactly the entries of the range *)
Definition Rfull (f : N) (l : list entry) (r : report) : Prop :=
  f <= r_start r /\ r_start r <= r_end r /\ r_end r < f + len l /\
  r_written r = chain 0 (range_of f l (r_start r) (r_end r)).

Definition Rv (f : N) (l : list entry) (r : report) : Prop :=
  r_err r = ENone /\ (r_written r = 0 \/ Rfull f l r).

Definition Rleader (f : N) (l : list entry) (r : report) : Prop :=
  Rfull f l r /\ r_expected r = r_written r.

Lemma range_of_stable f l x a b :
  f <= a -> a <= b -> b <= f + len l -> range_of f (l ++ x) a b = range_of f l a b.
Proof.
  intros H1 H2 H3. unfold range_of. apply firstn_skipn_app_stable. lia.
Qed.

Lemma Rfull_stable f l x r : Rfull f l r -> Rfull f (l ++ x) r.
Proof.
  intros (H1&H2&H3&H4). unfold Rfull. rewrite app_length.
  repeat split; try lia. rewrite range_of_stable by lia. exact H4.
Qed.

Lemma Rv_stable f l x r : Rv f l r -> Rv f (l ++ x) r.
Proof. intros [He [H|H]]; split; auto. right. apply Rfull_stable; exact H. Qed.

Lemma Rleader_stable f l x r : Rleader f l r -> Rleader f (l ++ x) r.
Proof. intros [H E]; split; auto using Rfull_stable. Qed.

Section WithCpf.
  Variable cpf : entry -> option bool.

  Lemma set_ext_index e x : e_index (set_ext e x) = e_index e.
  Proof. reflexivity. Qed.

  (* one entry appended at position f + len l *)
  Lemma uvs_step_inv f l e cs start cs' st' ro e' :
    f <> 0 -> e_index e = f + len l -> Pv f l cs start ->
    update_verify_state cpf e cs start = UvsOk cs' st' ro e' ->
    Pv f (l ++ [e']) cs' st' /\ e_index e' = e_index e /\
    (forall r, ro = Some r -> Rv f (l ++ [e']) r /\
                               (e_ext e = [] -> Rleader f (l ++ [e']) r)).
  Proof.
    intros Hf Hi HP H. unfold update_verify_state in H.
    destruct (cpf e) as [is_cp|]; [|discriminate].
    assert (Hlen : N.to_nat (f + len l - f) = length l) by lia.
    assert (Hone : forall x : entry, skipn (N.to_nat (f + len l - f)) (l ++ [x]) = [x]).
    { intros x. rewrite Hlen. apply skipn_exact_app. reflexivity. }
    (* the state after taking "next index" when start = 0 *)
    set (st := if start =? 0 then e_index e else start) in *.
    assert (Hst : (start = 0 /\ cs = 0 /\ st = f + len l) \/
                  (start <> 0 /\ st = start /\ f <= start /\ start < f + len l /\
                   cs = chain 0 (skipn (N.to_nat (start - f)) l))).
    { destruct HP as [[Hs Hc]|(H1&H2&H3)].
      - left. subst st. rewrite Hs. cbn. auto.
      - right. assert (start <> 0) by lia. subst st.
        replace (start =? 0) with false by lia. auto. }
    assert (HnewP : forall x : entry, Pv f (l ++ [x]) (checksum_log 0 x) (f + len l)).
    { intros x. right. rewrite app_length. cbn [length]. repeat split; try lia.
      rewrite Hone. reflexivity. }
    (* the report of a checkpoint whose written sum is cs over [st, idx) *)
    assert (Hrep : forall x : entry, forall expd,
               Rv f (l ++ [x]) (new_report st (e_index e) expd cs) /\
               (expd = cs -> Rleader f (l ++ [x]) (new_report st (e_index e) expd cs))).
    { intros x expd.
      assert (HF : Rfull f (l ++ [x]) (new_report st (e_index e) expd cs)).
      { unfold Rfull. cbn [r_start r_end r_written new_report]. rewrite app_length. cbn [length].
        destruct Hst as [(Hs&Hc&Hs')|(Hs&Hs'&H1&H2&H3)].
        - rewrite Hs', Hi. repeat split; try lia. unfold range_of.
          replace (N.to_nat (f + len l - (f + len l))) with 0%nat by lia. rewrite Hc. reflexivity.
        - rewrite Hs', Hi. repeat split; try lia. unfold range_of.
          rewrite skipn_app_le by lia. rewrite firstn_exact_app; [exact H3|].
          rewrite skipn_length. lia. }
      split; [split; [reflexivity|right; exact HF]|]. intros ->. split; [exact HF|reflexivity]. }
    destruct is_cp.
    - destruct (e_ext e) as [|x0 xr] eqn:Ex.
      + (* leader *)
        inversion H; subst cs' st' ro e'. split; [rewrite Hi; apply HnewP|]. split; [reflexivity|].
        intros r Hr. inversion Hr; subst r. destruct (Hrep (set_ext e (encode_meta st cs)) cs) as [A B].
        split; [exact A|]. intros _. apply B. reflexivity.
      + destruct (decode_meta (x0 :: xr)) as [cps cpsum|] eqn:Ed; [|discriminate].
        inversion H; subst cs' st' ro e'. split; [rewrite Hi; apply HnewP|]. split; [reflexivity|].
        intros r Hr. inversion Hr; subst r. split; [|intros C; discriminate C].
        destruct (cps =? st) eqn:Ecp.
        * apply N.eqb_eq in Ecp. subst cps. apply (Hrep e cpsum).
        * split; [reflexivity|left; reflexivity].
    - inversion H; subst cs' st' ro e'. split; [|split; [reflexivity|intros r Hr; discriminate Hr]].
      destruct Hst as [(Hs&Hc&Hs')|(Hs&Hs'&H1&H2&H3)].
      + rewrite Hs', Hc. apply HnewP.
      + rewrite Hs'. right. rewrite app_length. cbn [length]. repeat split; try lia.
        rewrite skipn_app_le by lia. rewrite chain_snoc, <- H3. reflexivity.
  Qed.

  Lemma uvs_loop_inv b : forall f l cs start cs' st' rs b',
    f <> 0 -> contig_from (f + len l) b = true -> Pv f l cs start ->
    uvs_loop cpf b cs start = Some (cs', st', rs, b') ->
    Pv f (l ++ b') cs' st' /\ map e_index b' = map e_index b /\
    Forall (Rv f (l ++ b')) rs /\
    (Forall (fun e => e_ext e = []) (filter (fun e => match cpf e with Some true => true | _ => false end) b) ->
     Forall (Rleader f (l ++ b')) rs).
  Proof.
    induction b as [|e r IH]; intros f l cs start cs' st' rs b' Hf Hc HP H.
    - inversion H; subst. rewrite app_nil_r. repeat split; auto.
    - cbn [uvs_loop] in H.
      destruct (update_verify_state cpf e cs start) as [|c1 s1 ro e1] eqn:Eu; [discriminate|].
      destruct (uvs_loop cpf r c1 s1) as [[[[c2 s2] rs2] es2]|] eqn:El; [|discriminate].
      inversion H; subst cs' st' rs b'. clear H.
      apply contig_from_cons in Hc as [Hi Hc].
      destruct (uvs_step_inv f l e cs start c1 s1 ro e1 Hf Hi HP Eu) as (HP1 & Hi1 & Hr1).
      assert (Hc' : contig_from (f + len (l ++ [e1])) r = true).
      { rewrite app_length. cbn [length]. replace (f + N.of_nat (length l + 1)) with (f + len l + 1) by lia.
        exact Hc. }
      destruct (IH f (l ++ [e1]) c1 s1 c2 s2 rs2 es2 Hf Hc' HP1 El) as (HP2 & Hm & HR & HL).
      rewrite <- app_assoc in HP2, HR, HL. cbn [app] in HP2, HR, HL.
      split; [exact HP2|]. split; [cbn [map]; rewrite Hi1, Hm; reflexivity|].
      split.
      + apply Forall_app. split; [|exact HR]. destruct ro as [r0|]; cbn [opt_list]; [|constructor].
        constructor; [|constructor]. destruct (Hr1 r0 eq_refl) as [A _].
        change (e1 :: es2) with ([e1] ++ es2). rewrite app_assoc. apply Rv_stable. exact A.
      + intros Hlead. apply Forall_app. split.
        * destruct ro as [r0|]; cbn [opt_list]; [|constructor]. constructor; [|constructor].
          destruct (Hr1 r0 eq_refl) as [_ B].
          change (e1 :: es2) with ([e1] ++ es2). rewrite app_assoc. apply Rleader_stable. apply B.
          (* a report was triggered, so e is a checkpoint, so its Extensions are empty *)
          unfold update_verify_state in Eu. cbn [filter] in Hlead.
          destruct (cpf e) as [[|]|]; try discriminate Eu.
          inversion Hlead; assumption.
        * apply HL. cbn [filter] in Hlead. destruct (cpf e) as [[|]|]; auto. inversion Hlead; assumption.
  Qed.

  Lemma uvs_index e cs start cs' st' ro e' :
    update_verify_state cpf e cs start = UvsOk cs' st' ro e' -> e_index e' = e_index e.
  Proof.
    unfold update_verify_state. destruct (cpf e) as [[|]|]; try discriminate.
    - destruct (e_ext e) as [|x0 xr].
      + intros H; inversion H; reflexivity.
      + destruct (decode_meta (x0 :: xr)); [|discriminate]. intros H; inversion H; reflexivity.
    - intros H; inversion H; reflexivity.
  Qed.

  Lemma uvs_loop_map b : forall cs start cs' st' rs b',
    uvs_loop cpf b cs start = Some (cs', st', rs, b') -> map e_index b' = map e_index b.
  Proof.
    induction b as [|e r IH]; intros cs start cs' st' rs b' H.
    - inversion H; reflexivity.
    - cbn [uvs_loop] in H.
      destruct (update_verify_state cpf e cs start) as [|c1 s1 ro e1] eqn:Eu; [discriminate|].
      destruct (uvs_loop cpf r c1 s1) as [[[[c2 s2] rs2] es2]|] eqn:El; [|discriminate].
      inversion H; subst. cbn [map]. rewrite (uvs_index _ _ _ _ _ _ _ Eu), (IH _ _ _ _ _ _ El). reflexivity.
  Qed.

  (* ---- StoreLogs as a whole ------------------------------------------------- *)
  Definition vinv (v : vstate) (sh : sstore) : Prop :=
    Pv (s_first sh) (s_logs sh) (v_sum v) (v_start v) /\ wf_store sh.

  Lemma Pv_empty f f' cs start : Pv f [] cs start -> Pv f' [] cs start.
  Proof. intros [H|(H1&H2&_)]; [left; exact H|]. cbn in H2. lia. Qed.

  Definition leader_batch (b : list entry) : Prop :=
    Forall (fun e => e_ext e = []) (filter (fun e => match cpf e with Some true => true | _ => false end) b).

  Lemma vstore_logs_ok fail v s sh b :
    vinv v sh -> aligned s sh ->
    o_res (vstore_logs cpf fail v s b) = SOk -> b <> [] ->
    let o := vstore_logs cpf fail v s b in
    exists sh', store_logs sh (o_batch o) = Some sh' /\ aligned (o_store o) sh' /\
                vinv (o_v o) sh' /\
                Forall (Rv (s_first sh') (s_logs sh')) (o_reports o) /\
                (leader_batch b -> Forall (Rleader (s_first sh') (s_logs sh')) (o_reports o)).
  Proof.
    intros [HP Hwf] Hs Hres Hb. cbv zeta. unfold vstore_logs in *.
    destruct b as [|e0 r]; [contradiction|].
    destruct (uvs_loop cpf (e0 :: r) (v_sum v) (v_start v)) as [[[[cs st] rs] b']|] eqn:El;
      [|discriminate Hres].
    destruct fail; [discriminate Hres|].
    destruct (store_logs s b') as [s'|] eqn:Es; [|discriminate Hres].
    cbn [o_batch o_store o_v o_reports].
    destruct (store_logs_aligned s sh b' s' Hs Es) as (sh' & Esh & Hs').
    exists sh'. split; [exact Esh|]. split; [exact Hs'|].
    pose proof (uvs_loop_map _ _ _ _ _ _ _ El) as Hm.
    assert (Hb' : b' <> []).
    { intros ->. discriminate Hm. }
    destruct (store_logs_some sh b' sh' Hb' Esh Hwf) as (Hlogs & Hcont & Hnz & Hsame).
    assert (HP' : Pv (s_first sh') (s_logs sh) (v_sum v) (v_start v)).
    { destruct (s_logs sh) as [|x l] eqn:E.
      - apply (Pv_empty (s_first sh)). exact HP.
      - rewrite Hsame by discriminate. exact HP. }
    rewrite (contig_from_map _ _ _ Hm) in Hcont.
    destruct (uvs_loop_inv (e0 :: r) (s_first sh') (s_logs sh) (v_sum v) (v_start v) cs st rs b'
                Hnz Hcont HP' El) as (HP2 & _ & HR & HL).
    rewrite <- Hlogs in HP2, HR, HL.
    split; [split; [exact HP2|eapply store_logs_wf; eauto]|]. split; [exact HR|exact HL].
  Qed.

  Lemma vstore_logs_err fail v s b :
    o_res (vstore_logs cpf fail v s b) <> SOk ->
    o_v (vstore_logs cpf fail v s b) = v /\ o_store (vstore_logs cpf fail v s b) = s /\
    o_reports (vstore_logs cpf fail v s b) = [].
  Proof.
    unfold vstore_logs. destruct b as [|e0 r]; [intros H; contradiction H; reflexivity|].
    destruct (uvs_loop cpf (e0 :: r) (v_sum v) (v_start v)) as [[[[cs st] rs] b']|]; [|auto].
    destruct fail; [auto|]. destruct (store_logs s b'); [|auto].
    intros H; contradiction H; reflexivity.
  Qed.

  Lemma vstore_logs_nil fail v s :
    vstore_logs cpf fail v s [] =
    {| o_res := SOk; o_v := v; o_store := s; o_reports := []; o_batch := []; o_called := false |}.
  Proof. reflexivity. Qed.
End WithCpf.

(* ---- DeleteRange ------------------------------------------------------------------ *)
Lemma vinv_init sh : wf_store sh -> vinv v_init sh.
Proof. intros H. split; [left; split; reflexivity|exact H]. Qed.

(* ---- verify ----------------------------------------------------------------------- *)
Lemma slice_range_of s a b : s_first s <= a -> slice s a b = range_of (s_first s) (s_logs s) a b.
Proof. intros H. unfold slice, range_of. replace (a <? s_first s) with false by lia. reflexivity. Qed.

Lemma read_range_chain s : forall n idx sum,
  s_first s <= idx -> idx + N.of_nat n <= s_first s + len (s_logs s) ->
  read_range s idx n sum =
  Some (chain sum (firstn n (skipn (N.to_nat (idx - s_first s)) (s_logs s)))).
Proof.
  induction n as [|n IH]; intros idx sum H1 H2; [reflexivity|].
  cbn [read_range].
  destruct (get_in_range s idx H1) as [e He]; [lia|]. rewrite He.
  destruct (get_skipn s idx e He) as [_ Hsk]. rewrite Hsk. cbn [firstn]. rewrite chain_cons.
  rewrite IH by lia.
  replace (N.to_nat (idx + 1 - s_first s)) with (S (N.to_nat (idx - s_first s))) by lia. reflexivity.
Qed.

Lemma read_range_holds s a b :
  holds_range s a b -> read_range s a (N.to_nat (b - a)) 0 = Some (chain 0 (slice s a b)).
Proof.
  intros (Hne & Hf & Hl). rewrite slice_range_of by exact Hf. unfold range_of.
  destruct (N.le_gt_cases b a) as [Hba|Hab].
  - replace (N.to_nat (b - a)) with 0%nat by lia. reflexivity.
  - rewrite read_range_chain by lia. reflexivity.
Qed.

Lemma verify_err_cases s r :
  r_err r = ENone ->
  let k := r_err (verify s r) in
  (k = ECkInflight /\ r_written r <> 0 /\ r_written r <> r_expected r) \/
  ((r_written r = 0 \/ r_written r = r_expected r) /\
   ((k = ERange /\ r_start r < first_index s) \/
    (first_index s <= r_start r /\
     match read_range s (r_start r) (N.to_nat (r_end r - r_start r)) 0 with
     | None => k = EOther
     | Some sum => (sum = r_expected r /\ k = ENone) \/ (sum <> r_expected r /\ k = ECkStorage)
     end))).
Proof.
  intros He. cbv zeta. unfold verify.
  destruct (r_written r =? 0) eqn:E0; destruct (r_written r =? r_expected r) eqn:E1; cbn [negb andb];
    try (left; cbn [r_err set_err]; repeat split; lia).
  all: right; (split; [lia|]).
  all: destruct (r_start r <? first_index s) eqn:Ef; [left; split; [reflexivity|lia]|right; split; [lia|]].
  all: destruct (read_range s (r_start r) (N.to_nat (r_end r - r_start r)) 0) as [sum|]; [|reflexivity].
  all: destruct (sum =? r_expected r) eqn:Es; [left|right]; split; try lia; cbn [r_err set_err set_read]; auto.
Qed.

Lemma verify_fields s r :
  r_start (verify s r) = r_start r /\ r_end (verify s r) = r_end r /\
  r_expected (verify s r) = r_expected r /\ r_written (verify s r) = r_written r /\
  r_skipped (verify s r) = r_skipped r.
Proof.
  unfold verify.
  destruct (negb (r_written r =? 0) && negb (r_written r =? r_expected r)); [repeat split|].
  destruct (r_start r <? first_index s); [repeat split|].
  destruct (read_range s (r_start r) (N.to_nat (r_end r - r_start r)) 0) as [sum|]; [|repeat split].
  destruct (sum =? r_expected r); repeat split.
Qed.

Lemma verify_skipped_irrelevant s r k : r_err (verify s (set_skipped r k)) = r_err (verify s r).
Proof.
  unfold verify. cbn [set_skipped r_written r_expected r_start r_end].
  destruct (negb (r_written r =? 0) && negb (r_written r =? r_expected r)); [reflexivity|].
  destruct (r_start r <? first_index s); [reflexivity|].
  destruct (read_range s (r_start r) (N.to_nat (r_end r - r_start r)) 0) as [sum|]; [|reflexivity].
  destruct (sum =? r_expected r); reflexivity.
Qed.
