(* Checksum.v -- model of verifier.checksumLog, the checksum chain over a list of
   entries and encode/decodeCheckpointMeta (verifier/verifier.go, store.go).
   Model only; facts in ChecksumFacts.v. *)
From RW Require Import Base.Bytes Base.Fnv Gen.Constants.
Open Scope N_scope.

(* raft.Log projected to the fields the verifier looks at (AppendedAt is never
   hashed nor compared) *)
Record entry := { e_index : N; e_term : N; e_type : N; e_data : bytes; e_ext : bytes }.

Definition wf_entry (e : entry) : Prop :=
  e_index e < two64 /\ e_term e < two64 /\ e_type e < 256 /\
  wf_bytes (e_data e) /\ wf_bytes (e_ext e).

Definition log_configuration : N := 5.     (* raft.LogConfiguration *)

(* index 1 + LogConfiguration: the documented bootstrap exception *)
Definition is_bootstrap (e : entry) : bool :=
  (e_index e =? 1) && (e_type e =? log_configuration).

(* checksumLog, statement by statement; the state is whatever the caller passes
   (the verifier starts from 0, not from the FNV offset basis) *)
Definition checksum_log (sum : N) (e : entry) : N :=
  if is_bootstrap e then 0
  else
    let s1 := fnv_add_u64 sum (e_index e) in
    let s2 := fnv_add_u64 s1 (e_term e) in
    let s3 := fnv_add_u64 s2 (e_type e) in
    let s4 := fnv_add s3 (e_data e) in
    match e_ext e with
    | [] => s4
    | _ :: _ => fnv_add s4 (e_ext e)
    end.

Definition chain (sum : N) (es : list entry) : N := fold_left checksum_log es sum.

(* the byte stream one entry contributes to the hash *)
Definition entry_stream (e : entry) : bytes :=
  be64 (e_index e) ++ be64 (e_term e) ++ be64 (e_type e) ++ e_data e ++ e_ext e.

(* the stream of a whole range: a bootstrap entry resets it (checksumLog returns 0) *)
Fixpoint chain_stream_from (acc : bytes) (es : list entry) : bytes :=
  match es with
  | [] => acc
  | e :: r => if is_bootstrap e then chain_stream_from [] r
              else chain_stream_from (acc ++ entry_stream e) r
  end.
Definition chain_stream (es : list entry) : bytes := chain_stream_from [] es.

Definition no_bootstrap (es : list entry) : Prop := Forall (fun e => is_bootstrap e = false) es.

(* ---- checkpoint metadata in Extensions: magic, start index, sum (3 x LE64) ---- *)
Definition encode_meta (start sum : N) : bytes :=
  le64 ExtensionMagicPrefix ++ le64 start ++ le64 sum.

Inductive meta_res := MetaOk (start sum : N) | MetaErr.

Definition decode_meta (bs : bytes) : meta_res :=
  if (length bs <? 24)%nat then MetaErr
  else if rd64 (firstn 8 bs) =? ExtensionMagicPrefix
       then MetaOk (rd64 (firstn 8 (skipn 8 bs))) (rd64 (firstn 8 (skipn 16 bs)))
       else MetaErr.

Definition set_ext (e : entry) (x : bytes) : entry :=
  {| e_index := e_index e; e_term := e_term e; e_type := e_type e;
     e_data := e_data e; e_ext := x |}.

Definition entry_eqb (a b : entry) : bool :=
  (e_index a =? e_index b) && (e_term a =? e_term b) && (e_type a =? e_type b)
  && beq_bytes (e_data a) (e_data b) && beq_bytes (e_ext a) (e_ext b).
