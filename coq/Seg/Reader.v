(* Reader.v -- model of segment/reader.go and Writer.OffsetForFrame *)
From RW Require Import Base.Bytes Fmt.Frame Seg.Writer Seg.Recover Gen.Constants.
Open Scope N_scope.

Inductive rres := ROk (payload : bytes) | RNotFound | RCorrupt | RErr.

(* readFrame: returns the result and the bytes allocated beyond the pooled buffer *)
Definition read_frame (f : bytes) (off : N) : rres * N :=
  let buf := read_at f off min_buf_size in
  if len buf <? 8 then (RErr, 0)
  else match read_frame_header buf with
       | FHShort => (RErr, 0)
       | FHCorrupt => (RCorrupt, 0)
       | FHZero => (ROk [], 0)
       | FH typ v =>
           let l := fh_len typ v in
           if 8 + l <=? len buf then (ROk (sub 8 (N.to_nat l) buf), 0)
           else if MaxEntrySize <? l then (RCorrupt, 0)
           else let p := read_at f (off + 8) l in
                if len p <? l then (RErr, l) else (ROk p, l)
       end.

(* tail: in-memory offsets bounded by commit_idx; the writer checks the MinIndex
   it was created with *)
Definition tail_offset (w : wstate) (idx : N) : option N :=
  if (idx <? si_base (w_info w)) || (idx <? si_min (w_info w)) || (w_commit_idx w <? idx) then None
  else nth_error (w_offsets w) (N.to_nat (idx - si_base (w_info w))).

Definition tail_get (w : wstate) (f : bytes) (idx : N) : rres :=
  match tail_offset w idx with
  | None => RNotFound
  | Some off => fst (read_frame f off)
  end.

(* sealed: 4-byte read in the on-disk index block *)
Definition sealed_get (info : seginfo) (f : bytes) (idx : N) : rres :=
  if si_index_start info =? 0 then RErr
  else if (idx <? si_min info) || ((0 <? si_max info) && (si_max info <? idx)) then RNotFound
  else
    let bo := (si_index_start info + ((idx - si_base info) mod two64) * 4) mod two64 in
    let b4 := read_at f bo 4 in
    if len b4 <? 4 then RErr else fst (read_frame f (rd32 b4)).

(* Filer.Open of a sealed segment: header must be readable and match *)
Definition open_sealed (info : seginfo) (f : bytes) : bool :=
  if len f <? 32 then false
  else match read_file_header (firstn 32 f) with
       | None => false
       | Some h => validate_file_header h info
       end.
