(* Writer.v -- model of segment/writer.go (write path).  The writer produces
   I/O actions instead of performing them. *)
From RW Require Import Base.Bytes Base.Crc32c Fmt.Frame Gen.Constants.
Open Scope N_scope.

Inductive waction := WWrite (off : N) (bs : bytes) | WSync.
Inductive wres := WOk | WErrSealed | WErrTooBig | WErrNonMono | WErrShortBuf | WErrIO.
(* injected I/O error of the commit: none; WriteAt fails and writes nothing;
   WriteAt is SHORT: it writes the first half of the buffer (rounded down) and
   returns an error (io.EOF with n < len, admissible for an io.WriterAt); Sync
   fails after the complete write *)
Inductive wfault := FNone | FWrite | FWriteShort | FSync.

Record wstate := {
  w_info : seginfo;
  w_buf : bytes;            (* commitBuf *)
  w_crc : N;                (* rolling crc of bytes buffered since the last commit *)
  w_off : N;                (* writeOffset (uint32) *)
  w_index_start : N;        (* 0 = unsealed *)
  w_offsets : list N;       (* file offsets of entry frames, oldest first *)
  w_commit_idx : N }.       (* last committed index, 0 = none *)

Definition set_buf (w : wstate) buf crc offs :=
  {| w_info := w_info w; w_buf := buf; w_crc := crc; w_off := w_off w;
     w_index_start := w_index_start w; w_offsets := offs; w_commit_idx := w_commit_idx w |}.

Definition init_empty (info : seginfo) : wstate :=
  let h := file_header info in
  {| w_info := info; w_buf := h; w_crc := crc32c h; w_off := 0; w_index_start := 0;
     w_offsets := []; w_commit_idx := 0 |}.

Definition entry := (N * bytes)%type.     (* index, encoded payload *)

Definition append_entry (w : wstate) (e : entry) : option wstate :=
  if fst e =? si_base (w_info w) + len (w_offsets w) then
    let fr := enc_frame FrameEntry (snd e) in
    Some (set_buf w (w_buf w ++ fr) (crc_update (w_crc w) fr)
                  (w_offsets w ++ [(w_off w + len (w_buf w)) mod two32]))
  else None.

Fixpoint append_entries (w : wstate) (es : list entry) : option wstate :=
  match es with
  | [] => Some w
  | e :: r => match append_entry w e with
              | Some w' => append_entries w' r
              | None => None
              end
  end.

Definition append_index (w : wstate) : option wstate :=
  match w_offsets w with
  | [] => None                                   (* io.ErrShortBuffer in the code *)
  | _ =>
      let fr := index_frame (w_offsets w) in
      Some {| w_info := w_info w; w_buf := w_buf w ++ fr; w_crc := crc_update (w_crc w) fr;
              w_off := w_off w; w_index_start := w_off w + len (w_buf w) + 8;
              w_offsets := w_offsets w; w_commit_idx := w_commit_idx w |}
  end.

Definition commit_idx_of (w : wstate) : N :=
  match w_offsets w with
  | [] => 0
  | _ => si_base (w_info w) + len (w_offsets w) - 1
  end.

(* appendCommit + flush + sync.  On failure the caller rolls back. *)
Definition append_commit (w : wstate) (f : wfault) : option wstate * list waction :=
  let buf := w_buf w ++ commit_frame (w_crc w) in
  match f with
  | FWrite => (None, [])
  | FWriteShort => (None, [WWrite (w_off w) (firstn (length buf / 2) buf)])
  | FSync => (None, [WWrite (w_off w) buf; WSync])
  | FNone =>
      let w' := {| w_info := w_info w; w_buf := []; w_crc := 0;
                   w_off := (w_off w + len buf) mod two32;
                   w_index_start := w_index_start w; w_offsets := w_offsets w;
                   w_commit_idx := w_commit_idx w |} in
      (Some {| w_info := w_info w'; w_buf := []; w_crc := 0; w_off := w_off w';
               w_index_start := w_index_start w'; w_offsets := w_offsets w';
               w_commit_idx := commit_idx_of w' |},
       [WWrite (w_off w) buf; WSync])
  end.

Definition needs_seal (w : wstate) : bool :=
  si_size_limit (w_info w) <?
  (w_off w + (len (w_buf w) + index_frame_size (len (w_offsets w))) mod two32) mod two32.

Definition too_big (es : list entry) : bool :=
  existsb (fun e => MaxEntrySize <? len (snd e)) es.

Definition append (w : wstate) (es : list entry) (f : wfault) : wres * wstate * list waction :=
  match es with
  | [] => (WOk, w, [])
  | _ =>
      if 0 <? w_index_start w then (WErrSealed, w, [])
      else if too_big es then (WErrTooBig, w, [])
      else match append_entries w es with
           | None => (WErrNonMono, w, [])
           | Some w1 =>
               let w2 := if needs_seal w1 then append_index w1 else Some w1 in
               match w2 with
               | None => (WErrShortBuf, w, [])
               | Some w2 =>
                   match append_commit w2 f with
                   | (Some w3, acts) => (WOk, w3, acts)
                   | (None, acts) => (WErrIO, w, acts)
                   end
               end
           end
  end.

Definition force_seal (w : wstate) (f : wfault) : wres * wstate * list waction :=
  if 0 <? w_index_start w then (WOk, w, [])
  else match append_index w with
       | None => (WErrShortBuf, w, [])
       | Some w1 =>
           match append_commit w1 f with
           | (Some w2, acts) => (WOk, w2, acts)
           | (None, acts) => (WErrIO, w, acts)     (* rolled back, like append *)
           end
       end.

Definition sealed (w : wstate) : bool := 0 <? w_index_start w.

(* apply actions to a byte image of the file *)
Definition apply_waction (file : bytes) (a : waction) : bytes :=
  match a with
  | WWrite off bs => overwrite file (N.to_nat off) bs
  | WSync => file
  end.
Definition apply_wactions (file : bytes) (acts : list waction) : bytes :=
  fold_left apply_waction acts file.
