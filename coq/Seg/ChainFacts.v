(* ChainFacts.v -- the L1 recovery law stated on the writer model itself
   (seg_recover_committed) and over chains of append / crash / recover rounds
   (seg_recover_chain). *)
From RW Require Import Base.Bytes Base.BytesFacts Base.Crc32c Base.Crc32cFacts Fmt.Frame Fmt.FrameFacts
     Seg.Writer Seg.Recover Seg.SegAbs Seg.WriterFacts Seg.ScanFacts Seg.RecoverFacts Gen.Constants.
From Coq Require Import ZifyN ZifyNat ZifyBool.
Open Scope N_scope.

(* payload bytes are bytes *)
Definition op_wf (op : wop) : Prop :=
  match op with
  | OpAppend es => Forall (fun e => wf_bytes (snd e)) es
  | OpSeal => True
  end.
Definition ops_wf (ops : list wop) : Prop := Forall op_wf ops.

Definition batches_wf (bs : list batch) : Prop := Forall (fun b => Forall wf_bytes (fst b)) bs.

Lemma op_batch_wf w w' op : op_wf op -> batches_wf (op_batch w w' op).
Proof.
  intros H. destruct op as [es|]; cbn [op_batch].
  - destruct es as [|e r]; [constructor|]. constructor; [|constructor]. cbn [fst].
    cbn [op_wf] in H. rewrite Forall_map. exact H.
  - destruct (sealed w); [constructor|]. constructor; [constructor|constructor].
Qed.

Lemma wrun_batches_wf ops : forall w w' acts bs,
  ops_wf ops -> wrun w ops = Some (w', acts, bs) -> batches_wf bs.
Proof.
  induction ops as [|op r IH]; intros w w' acts bs Hw H.
  - cbn in H. inversion H; subst. constructor.
  - inversion Hw as [|? ? Hop Hr]; subst. cbn [wrun] in H.
    destruct (do_op w op) as [[res w1] acts0]. destruct res; try discriminate.
    destruct (wrun w1 r) as [[[w2 acts2] bs2]|] eqn:E; [|discriminate].
    inversion H; subst. apply Forall_app; split; [apply op_batch_wf; exact Hop|].
    eapply IH; eassumption.
Qed.

Lemma wrun_app a : forall w b w1 acts1 bs1 w2 acts2 bs2,
  wrun w a = Some (w1, acts1, bs1) -> wrun w1 b = Some (w2, acts2, bs2) ->
  wrun w (a ++ b) = Some (w2, acts1 ++ acts2, bs1 ++ bs2).
Proof.
  induction a as [|op r IH]; intros w b w1 acts1 bs1 w2 acts2 bs2 H1 H2.
  - cbn in H1. inversion H1; subst. exact H2.
  - cbn [app wrun] in *. destruct (do_op w op) as [[res w0] acts0]. destruct res; try discriminate.
    destruct (wrun w0 r) as [[[w3 acts3] bs3]|] eqn:E; [|discriminate].
    inversion H1; subst. rewrite (IH _ _ _ _ _ _ _ _ E H2). rewrite <- !app_assoc. reflexivity.
Qed.

Lemma chain_wf_of info bs : forall s,
  batches_wf bs -> len (c_img (fold_left (cstep info) bs s)) < two32 -> chain_wf info s bs.
Proof.
  induction bs as [|b r IH]; intros s Hw Hl; [exact I|].
  inversion Hw; subst. cbn [chain_wf fold_left] in *. split.
  - split; [assumption|]. pose proof (len_img_fold_mono info r (cstep info s b)). lia.
  - apply IH; assumption.
Qed.

(* THE L1 LAW on the writer model.  After any successful run [ops], one more
   operation [op] whose bytes [new] (written at [off]) reach the disk only as
   the torn image T: recovery returns the state before op (T incomplete) or
   after it (T complete) -- exactly, all fields. *)
Theorem seg_recover_committed info ops op w acts bs w' off new b T k :
  hdr_wf info -> ops_wf (ops ++ [op]) ->
  wrun (init_empty info) ops = Some (w, acts, bs) ->
  wrun w [op] = Some (w', [WWrite off new; WSync], [b]) ->
  len (image info (bs ++ [b])) < two32 ->
  torn new T -> no_torn_collision new T ->
  off = len (writes_concat acts) /\
  recover_state info (writes_concat acts ++ T ++ zeros k) = Some (if beq_bytes T new then w' else w).
Proof.
  intros Hhw Hwf H1 H2 Hlen HT Hnc.
  assert (Hl1 : len (image info bs) < two32).
  { unfold image in *. rewrite cstate_snoc in Hlen.
    pose proof (len_img_cstep info (cstate info bs) b). unfold c_pos in *. lia. }
  destruct (wrun_image info ops w acts bs H1 Hl1) as (Ew & _ & Ec).
  set (s := cstate info bs) in *. subst w.
  assert (Hl2 : len (c_img (fold_left (cstep info) [b] s)) < two32).
  { cbn [fold_left]. unfold image in Hlen. rewrite cstate_snoc in Hlen. exact Hlen. }
  destruct (wrun_char info [op] s w' _ [b] H2 Hl2) as (Ew' & Hcont & Himg).
  cbn [fold_left] in Ew', Himg. cbn [writes_contiguous] in Hcont. destruct Hcont as [Eoff _].
  cbn [writes_concat cstep c_img] in Himg. rewrite app_nil_r in Himg.
  apply app_inv_head in Himg. subst new w'.
  rewrite Ec. fold (image info bs). split; [exact Eoff|].
  assert (Hbw : batches_wf (bs ++ [b])).
  { apply Forall_app in Hwf as [Hw1 Hw2]. apply Forall_app; split.
    - exact (wrun_batches_wf ops _ _ _ _ Hw1 H1).
    - exact (wrun_batches_wf [op] _ _ _ _ Hw2 H2). }
  assert (Hcw : chain_wf info c0 (bs ++ [b])).
  { apply chain_wf_of; [exact Hbw|]. fold (cstate info (bs ++ [b])). exact Hlen. }
  apply (seg_recover_torn info bs b T k Hhw Hcw HT Hnc).
Qed.

(* ---------------- chains of rounds ---------------- *)
(* chain info k0 sv bs w f: after some history of successful operations and
   crash/recover rounds on a file of k0 zero bytes, the writer state is w, the
   file is f, and sv / bs are the operations / batches that survived. *)
Inductive chain (info : seginfo) (k0 : nat) : list wop -> list batch -> wstate -> bytes -> Prop :=
| chain_start : chain info k0 [] [] (init_empty info) (zeros k0)
| chain_ops sv bs w f ops w1 acts bs1 :
    chain info k0 sv bs w f ->
    ops_wf ops -> wrun w ops = Some (w1, acts, bs1) ->
    len (image info (bs ++ bs1)) < two32 ->
    chain info k0 (sv ++ ops) (bs ++ bs1) w1 (apply_wactions f acts)
| chain_crash sv bs w f op w2 off new b T w3 acts3 :
    chain info k0 sv bs w f ->
    op_wf op -> wrun w [op] = Some (w2, [WWrite off new; WSync], [b]) ->
    len (image info (bs ++ [b])) < two32 ->
    torn new T -> no_torn_collision new T ->
    recover_tail info (overwrite f (N.to_nat off) T) = Some (w3, acts3) ->
    chain info k0 (sv ++ (if beq_bytes T new then [op] else []))
          (bs ++ (if beq_bytes T new then [b] else []))
          w3 (apply_wactions (overwrite f (N.to_nat off) T) acts3).

Definition chain_inv (info : seginfo) (sv : list wop) (bs : list batch) (w : wstate) (f : bytes) : Prop :=
  ops_wf sv /\ len (image info bs) < two32 /\
  (exists acts, wrun (init_empty info) sv = Some (w, acts, bs)) /\
  exists k, f = image info bs ++ zeros k.

Lemma skipn_zeros_app n k : exists k', skipn n (zeros k) = zeros k'.
Proof. exists (k - n)%nat. apply skipn_zeros. Qed.

(* whatever the history of crashes, the writer state is the state of a writer
   that executed exactly the surviving operations without any crash, and the
   file is their image followed by zeros *)
Theorem seg_recover_chain info k0 sv bs w f :
  hdr_wf info -> chain info k0 sv bs w f -> chain_inv info sv bs w f.
Proof.
  intros Hhw H. induction H as
    [|sv bs w f ops w1 acts bs1 Hch IH Hwf Hrun Hlen
     |sv bs w f op w2 off new b T w3 acts3 Hch IH Hwf Hrun Hlen HT Hnc Hrec].
  - split; [constructor|]. split; [reflexivity|]. split; [exists []; reflexivity|exists k0; reflexivity].
  - destruct IH as (Hsv & Hl & (acts0 & Hrun0) & (k & Ef)).
    pose proof (wrun_app _ _ _ _ _ _ _ _ _ Hrun0 Hrun) as Hall.
    split; [|split; [|split]].
    + apply Forall_app; split; assumption.
    + exact Hlen.
    + eexists. exact Hall.
    + destruct (wrun_image info sv w acts0 bs Hrun0 Hl) as (Ew & _ & _). subst w.
      assert (Hl2 : len (c_img (fold_left (cstep info) bs1 (cstate info bs))) < two32).
      { unfold image in Hlen. rewrite cstate_app in Hlen. exact Hlen. }
      destruct (wrun_char info ops _ _ _ _ Hrun Hl2) as (_ & Hcont & Himg).
      rewrite Ef. unfold image at 1.
      rewrite (apply_wactions_contiguous acts (c_img (cstate info bs)) (zeros k) Hcont).
      rewrite app_assoc, Himg. unfold image. rewrite cstate_app.
      destruct (skipn_zeros_app (length (writes_concat acts)) k) as [k' ->]. exists k'. reflexivity.
  - destruct IH as (Hsv & Hl & (acts0 & Hrun0) & (k & Ef)).
    assert (Hwf' : ops_wf (sv ++ [op])) by (apply Forall_app; split; [assumption|constructor; [assumption|constructor]]).
    destruct (seg_recover_committed info sv op w acts0 bs w2 off new b T (k - length T)
                Hhw Hwf' Hrun0 Hrun Hlen HT Hnc) as (Eoff & _).
    destruct (wrun_image info sv w acts0 bs Hrun0 Hl) as (Ew & _ & Ec).
    set (s := cstate info bs) in *.
    (* identify new with the batch image *)
    assert (Hl2 : len (c_img (fold_left (cstep info) [b] s)) < two32).
    { cbn [fold_left]. unfold image in Hlen. rewrite cstate_snoc in Hlen. exact Hlen. }
    rewrite Ew in Hrun.
    destruct (wrun_char info [op] s w2 _ [b] Hrun Hl2) as (Ew2 & _ & Himg).
    cbn [fold_left] in Ew2, Himg. cbn [writes_concat cstep c_img] in Himg. rewrite app_nil_r in Himg.
    apply app_inv_head in Himg.
    (* the file with the torn write *)
    assert (Ef2 : overwrite f (N.to_nat off) T = c_img s ++ T ++ zeros (k - length T)).
    { rewrite Ef, Eoff, Ec, to_nat_len. unfold image. fold s. rewrite overwrite_app.
      rewrite skipn_zeros. reflexivity. }
    assert (Hbw : batches_wf (bs ++ [b])).
    { apply Forall_app; split.
      - exact (wrun_batches_wf sv _ _ _ _ Hsv Hrun0).
      - refine (wrun_batches_wf [op] _ _ _ _ _ Hrun). constructor; [assumption|constructor]. }
    assert (Hcw : chain_wf info c0 (bs ++ [b])).
    { apply chain_wf_of; [exact Hbw|]. fold (cstate info (bs ++ [b])). exact Hlen. }
    subst new.
    destruct (seg_recover_round info bs b T (k - length T) Hhw Hcw HT Hnc) as (acts & Hrt & Happ).
    fold s in Hrt, Happ. rewrite <- Ef2 in Hrt, Happ. rewrite Hrec in Hrt. inversion Hrt; subst w3 acts3.
    rewrite Happ.
    destruct (beq_bytes T (batch_write info s b)) eqn:Eb.
    + split; [|split; [|split]].
      * exact Hwf'.
      * exact Hlen.
      * exists (acts0 ++ [WWrite off (batch_write info s b); WSync]). rewrite <- Ew2.
        eapply wrun_app; [exact Hrun0|]. rewrite Ew. exact Hrun.
      * unfold image. rewrite cstate_snoc. fold s. eexists. reflexivity.
    + rewrite !app_nil_r. split; [|split; [|split]].
      * exact Hsv.
      * exact Hl.
      * eexists. rewrite <- Ew. exact Hrun0.
      * unfold image. fold s. eexists. reflexivity.
Qed.

(* in such a round recovery never fails *)
Corollary seg_recover_round_total info k0 sv bs w f op w2 off new b T :
  hdr_wf info -> chain info k0 sv bs w f ->
  op_wf op -> wrun w [op] = Some (w2, [WWrite off new; WSync], [b]) ->
  len (image info (bs ++ [b])) < two32 ->
  torn new T -> no_torn_collision new T ->
  exists w3 acts3, recover_tail info (overwrite f (N.to_nat off) T) = Some (w3, acts3) /\
                   w3 = (if beq_bytes T new then w2 else w).
Proof.
  intros Hhw Hch Hwf Hrun Hlen HT Hnc.
  destruct (seg_recover_chain info k0 sv bs w f Hhw Hch) as (Hsv & Hl & (acts0 & Hrun0) & (k & Ef)).
  assert (Hwf' : ops_wf (sv ++ [op])) by (apply Forall_app; split; [assumption|constructor; [assumption|constructor]]).
  destruct (seg_recover_committed info sv op w acts0 bs w2 off new b T (k - length T)
              Hhw Hwf' Hrun0 Hrun Hlen HT Hnc) as (Eoff & Hrs).
  destruct (wrun_image info sv w acts0 bs Hrun0 Hl) as (_ & _ & Ec).
  assert (Ef2 : overwrite f (N.to_nat off) T = writes_concat acts0 ++ T ++ zeros (k - length T)).
  { rewrite Ef, Eoff, <- Ec, to_nat_len. rewrite overwrite_app. rewrite skipn_zeros. reflexivity. }
  unfold recover_tail. rewrite Ef2, Hrs. eexists. eexists. split; reflexivity.
Qed.
