(* Recover.v -- model of readThroughSegment / recoverTail / zeroStaleTail
   (segment/writer.go) over the byte image of a file.  recoverTailState as
   repaired (walk back over ALL commit frames to the most recent one whose CRC
   verifies); the algorithm before the repair is kept in Seg/RecoverOld.v. *)
From RW Require Import Base.Bytes Base.Crc32c Fmt.Frame Seg.Writer Gen.Constants.
Open Scope N_scope.

(* ReadAt(buf of n bytes, off): the bytes available, possibly fewer *)
Definition read_at (f : bytes) (off n : N) : bytes :=
  if len f <=? off then []
  else sub (N.to_nat off) (N.to_nat (N.min n (len f - off))) f.

Record frame_ev := { fe_typ : N; fe_val : N; fe_off : N }.

(* the frames readThroughSegment hands to its callback, in order *)
Fixpoint scan_from (fuel : nat) (f : bytes) (off : N) : list frame_ev :=
  match fuel with
  | O => []
  | S fuel' =>
      match read_frame_header (read_at f off 8) with
      | FH typ v => {| fe_typ := typ; fe_val := v; fe_off := off |}
                    :: scan_from fuel' f (off + enc_frame_size (fh_len typ v))
      | _ => []
      end
  end.
Definition scan_fuel (f : bytes) : nat := S (length f / 8).
Definition scan (f : bytes) : list frame_ev := scan_from (scan_fuel f) f 32.

(* header as readThroughSegment sees it: 32 bytes, zero padded on a short read;
   a malformed header yields the zero info *)
Definition scanned_header (f : bytes) : N * N * N :=
  match read_file_header (firstn 32 (f ++ zeros 32)) with
  | Some h => h
  | None => (0, 0, 0)
  end.

Record commit_info := { c_crc : N; c_off : N; c_crc_start : N; c_offsets_len : nat;
                        c_index_start : N }.

(* every commit frame of the scan, newest first *)
Record rec_acc := { ra_offsets : list N; ra_pending : N; ra_commits : list commit_info }.

Definition rec_step (a : rec_acc) (e : frame_ev) : rec_acc :=
  if fe_typ e =? FrameEntry then
    {| ra_offsets := ra_offsets a ++ [fe_off e mod two32]; ra_pending := ra_pending a;
       ra_commits := ra_commits a |}
  else if fe_typ e =? FrameIndex then
    {| ra_offsets := ra_offsets a; ra_pending := fe_off e + 8; ra_commits := ra_commits a |}
  else (* commit *)
    {| ra_offsets := ra_offsets a; ra_pending := 0;
       ra_commits := {| c_crc := fe_val e; c_off := fe_off e;
                        c_crc_start := match ra_commits a with
                                       | p :: _ => c_off p + 8
                                       | [] => 0
                                       end;
                        c_offsets_len := length (ra_offsets a);
                        c_index_start := ra_pending a |} :: ra_commits a |}.

Definition rec_fold (evs : list frame_ev) : rec_acc :=
  fold_left rec_step evs {| ra_offsets := []; ra_pending := 0; ra_commits := [] |}.

Definition recovered (info : seginfo) (off istart : N) (offs : list N) : wstate :=
  let w := {| w_info := info; w_buf := []; w_crc := 0; w_off := off mod two32;
              w_index_start := istart; w_offsets := offs; w_commit_idx := 0 |} in
  {| w_info := info; w_buf := []; w_crc := 0; w_off := w_off w; w_index_start := istart;
     w_offsets := offs; w_commit_idx := commit_idx_of w |}.

(* the CRC a commit frame stores matches the bytes between the preceding commit
   frame of the scan (the start of the file for the first one) and itself *)
Definition commit_good (f : bytes) (c : commit_info) : bool :=
  crc32c (read_at f (c_crc_start c) (c_off c - c_crc_start c)) =? c_crc c.

(* walk back from the last commit frame to the most recent one that verifies *)
Fixpoint find_good (f : bytes) (cs : list commit_info) : option commit_info :=
  match cs with
  | [] => None
  | c :: r => if commit_good f c then Some c else find_good f r
  end.

(* recoverTailState: None = error (header mismatch).  No commit frame, or none
   that verifies: the file is re-initialised empty without looking at its
   header.  (The ReadAt of the batch buffer cannot come up short: every commit
   frame of the scan lies inside the file, AllocFacts.recover_alloc_bound.) *)
Definition recover_state (info : seginfo) (f : bytes) : option wstate :=
  let a := rec_fold (scan f) in
  let hdr_ok := validate_file_header (scanned_header f) info in
  match find_good f (ra_commits a) with
  | None => Some (init_empty info)
  | Some g =>
      if hdr_ok then Some (recovered info (c_off g + 8) (c_index_start g)
                                     (firstn (c_offsets_len g) (ra_offsets a)))
      else None
  end.

(* zeroStaleTail: 64 KiB chunks from the recovered write offset to EOF *)
Fixpoint scrub_chunks (fuel : nat) (f : bytes) (off : N) : list waction :=
  match fuel with
  | O => []
  | S fuel' =>
      let c := read_at f off min_buf_size in
      match c with
      | [] => []
      | _ => (if all_zero c then [] else [WWrite off (zeros (length c))])
             ++ scrub_chunks fuel' f (off + len c)
      end
  end.
Definition scrub_actions (f : bytes) (off : N) : list waction :=
  let ws := scrub_chunks (S (N.to_nat (len f / min_buf_size))) f off in
  match ws with [] => [] | _ => ws ++ [WSync] end.

Definition recover_tail (info : seginfo) (f : bytes) : option (wstate * list waction) :=
  match recover_state info f with
  | None => None
  | Some w => Some (w, scrub_actions f (w_off w))
  end.
