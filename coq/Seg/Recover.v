(* Recover.v -- model of readThroughSegment / recoverTail / zeroStaleTail
   (segment/writer.go) over the byte image of a file. *)
From RW Require Import Base.Bytes Base.Crc32c Fmt.Frame Seg.Writer Gen.Constants.
Open Scope N_scope.

(* ReadAt(buf of n bytes, off): the bytes available, possibly fewer *)
Definition read_at (f : bytes) (off n : N) : bytes :=
  if len f <=? off then []
  else sub (N.to_nat off) (N.to_nat (N.min n (len f - off))) f.

Record frame_ev := { fe_typ : N; fe_val : N; fe_off : N }.

(* the frames readThroughSegment hands to its callback, in order *)
Fixpoint scan_from (fuel : nat) (f : bytes) (off : N) : list frame_ev :=
  match fuel with
  | O => []
  | S fuel' =>
      match read_frame_header (read_at f off 8) with
      | FH typ v => {| fe_typ := typ; fe_val := v; fe_off := off |}
                    :: scan_from fuel' f (off + enc_frame_size (fh_len typ v))
      | _ => []
      end
  end.
Definition scan_fuel (f : bytes) : nat := S (length f / 8).
Definition scan (f : bytes) : list frame_ev := scan_from (scan_fuel f) f 32.

(* header as readThroughSegment sees it: 32 bytes, zero padded on a short read;
   a malformed header yields the zero info *)
Definition scanned_header (f : bytes) : N * N * N :=
  match read_file_header (firstn 32 (f ++ zeros 32)) with
  | Some h => h
  | None => (0, 0, 0)
  end.

Record commit_info := { c_crc : N; c_off : N; c_crc_start : N; c_offsets_len : nat;
                        c_index_start : N }.

Record rec_acc := { ra_offsets : list N; ra_pending : N;
                    ra_prev : option commit_info; ra_final : option commit_info }.

Definition rec_step (a : rec_acc) (e : frame_ev) : rec_acc :=
  if fe_typ e =? FrameEntry then
    {| ra_offsets := ra_offsets a ++ [fe_off e mod two32]; ra_pending := ra_pending a;
       ra_prev := ra_prev a; ra_final := ra_final a |}
  else if fe_typ e =? FrameIndex then
    {| ra_offsets := ra_offsets a; ra_pending := fe_off e + 8;
       ra_prev := ra_prev a; ra_final := ra_final a |}
  else (* commit *)
    {| ra_offsets := ra_offsets a; ra_pending := 0;
       ra_prev := ra_final a;
       ra_final := Some {| c_crc := fe_val e; c_off := fe_off e;
                           c_crc_start := match ra_final a with
                                          | Some p => c_off p + 8
                                          | None => 0
                                          end;
                           c_offsets_len := length (ra_offsets a);
                           c_index_start := ra_pending a |} |}.

Definition rec_fold (evs : list frame_ev) : rec_acc :=
  fold_left rec_step evs {| ra_offsets := []; ra_pending := 0; ra_prev := None; ra_final := None |}.

Definition recovered (info : seginfo) (off istart : N) (offs : list N) : wstate :=
  let w := {| w_info := info; w_buf := []; w_crc := 0; w_off := off mod two32;
              w_index_start := istart; w_offsets := offs; w_commit_idx := 0 |} in
  {| w_info := info; w_buf := []; w_crc := 0; w_off := w_off w; w_index_start := istart;
     w_offsets := offs; w_commit_idx := commit_idx_of w |}.

(* recoverTailState: None = error (header mismatch) *)
Definition recover_state (info : seginfo) (f : bytes) : option wstate :=
  let a := rec_fold (scan f) in
  let hdr_ok := validate_file_header (scanned_header f) info in
  match ra_final a with
  | None => Some (init_empty info)
  | Some fc =>
      if Nat.ltb (c_offsets_len fc) (length (ra_offsets a)) then
        if hdr_ok then Some (recovered info (c_off fc + 8) (c_index_start fc)
                                       (firstn (c_offsets_len fc) (ra_offsets a)))
        else None
      else
        let batch := read_at f (c_crc_start fc) (c_off fc - c_crc_start fc) in
        if crc32c batch =? c_crc fc then
          if hdr_ok then Some (recovered info (c_off fc + 8) (c_index_start fc) (ra_offsets a))
          else None
        else
          match ra_prev a with
          | None => Some (init_empty info)
          | Some pc =>
              if hdr_ok then Some (recovered info (c_off pc + 8) (c_index_start pc)
                                             (firstn (c_offsets_len pc) (ra_offsets a)))
              else None
          end
  end.

(* zeroStaleTail: 64 KiB chunks from the recovered write offset to EOF *)
Fixpoint scrub_chunks (fuel : nat) (f : bytes) (off : N) : list waction :=
  match fuel with
  | O => []
  | S fuel' =>
      let c := read_at f off min_buf_size in
      match c with
      | [] => []
      | _ => (if all_zero c then [] else [WWrite off (zeros (length c))])
             ++ scrub_chunks fuel' f (off + len c)
      end
  end.
Definition scrub_actions (f : bytes) (off : N) : list waction :=
  let ws := scrub_chunks (S (N.to_nat (len f / min_buf_size))) f off in
  match ws with [] => [] | _ => ws ++ [WSync] end.

Definition recover_tail (info : seginfo) (f : bytes) : option (wstate * list waction) :=
  match recover_state info f with
  | None => None
  | Some w => Some (w, scrub_actions f (w_off w))
  end.
