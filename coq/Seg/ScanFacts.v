(* ScanFacts.v -- readThroughSegment (Recover.scan): the fuel is never the
   reason the scan stops; scanning a sequence of well-shaped frames yields
   exactly their headers and continues behind them. *)
From RW Require Import Base.Bytes Base.BytesFacts Base.Crc32c Fmt.Frame Fmt.FrameFacts
     Seg.Writer Seg.Recover Seg.SegAbs Seg.WriterFacts Gen.Constants.
From Coq Require Import ZifyN ZifyNat ZifyBool.
Open Scope N_scope.

(* ---------------- ReadAt ---------------- *)
Lemma read_at_app a r n : read_at (a ++ r) (len a) n = firstn (N.to_nat n) r.
Proof.
  unfold read_at. rewrite len_app.
  destruct (len a + len r <=? len a) eqn:E.
  - apply N.leb_le in E. destruct r; [rewrite firstn_nil; reflexivity|rewrite len_cons in E; lia].
  - unfold sub. rewrite to_nat_len, skipn_app_exact.
    replace (len a + len r - len a) with (len r) by lia.
    destruct (N.le_ge_cases n (len r)) as [H|H].
    + rewrite N.min_l by exact H. reflexivity.
    + rewrite N.min_r by exact H. rewrite to_nat_len.
      rewrite firstn_all. symmetry. apply firstn_all2. unfold len in H. lia.
Qed.

Lemma read_at_len f off n : len (read_at f off n) <= n.
Proof.
  unfold read_at. destruct (len f <=? off); [cbn; lia|].
  unfold sub, len. rewrite firstn_length. lia.
Qed.

Lemma read_at_len_file f off n : off + len (read_at f off n) <= N.max off (len f).
Proof.
  unfold read_at. destruct (len f <=? off) eqn:E; [cbn; lia|].
  apply N.leb_gt in E. unfold sub, len in *. rewrite firstn_length, skipn_length. lia.
Qed.

Lemma read_at_beyond f off n : len f <= off -> read_at f off n = [].
Proof. intros H. unfold read_at. replace (len f <=? off) with true; [reflexivity|]. symmetry. apply N.leb_le. exact H. Qed.

(* ---------------- fuel ---------------- *)
(* every frame advances the offset by at least 8 bytes, so once the remaining
   file is shorter than 8 * fuel the result no longer depends on the fuel *)
Lemma scan_from_fuel_enough fuel : forall f off fuel',
  len f < off + 8 * N.of_nat fuel -> (fuel <= fuel')%nat ->
  scan_from fuel' f off = scan_from fuel f off.
Proof.
  induction fuel as [|k IH]; intros f off fuel' Hlen Hle.
  - cbn [scan_from]. destruct fuel' as [|k']; [reflexivity|]. cbn [scan_from].
    rewrite read_at_beyond by lia. reflexivity.
  - destruct fuel' as [|k']; [lia|]. cbn [scan_from].
    destruct (read_frame_header (read_at f off 8)) as [typ v| | |] eqn:E; try reflexivity.
    f_equal. apply IH; [|lia].
    assert (H8 : 8 <= len (read_at f off 8)).
    { destruct (N.lt_ge_cases (len (read_at f off 8)) 8) as [Hs|Hs]; [|exact Hs].
      rewrite read_frame_header_short in E by exact Hs. discriminate. }
    pose proof (read_at_len_file f off 8). pose proof (enc_frame_size_ge (fh_len typ v)). lia.
Qed.

Theorem scan_fuel_suffices f fuel :
  (scan_fuel f <= fuel)%nat -> scan_from fuel f 32 = scan f.
Proof.
  intros H. unfold scan. apply scan_from_fuel_enough; [|exact H].
  unfold scan_fuel, len.
  pose proof (Nat.div_mod (length f) 8 ltac:(lia)).
  pose proof (Nat.mod_upper_bound (length f) 8 ltac:(lia)). lia.
Qed.

(* fuel-free scan from any offset, with its unfolding equation *)
Definition scanF (f : bytes) (off : N) : list frame_ev := scan_from (scan_fuel f) f off.

Lemma scan_is_scanF f : scan f = scanF f 32.
Proof. reflexivity. Qed.

Lemma scan_fuel_bound f off : len f < off + 8 * N.of_nat (scan_fuel f).
Proof.
  unfold scan_fuel, len.
  pose proof (Nat.div_mod (length f) 8 ltac:(lia)).
  pose proof (Nat.mod_upper_bound (length f) 8 ltac:(lia)). lia.
Qed.

Lemma scanF_unfold f off :
  scanF f off =
  match read_frame_header (read_at f off 8) with
  | FH typ v => {| fe_typ := typ; fe_val := v; fe_off := off |}
                :: scanF f (off + enc_frame_size (fh_len typ v))
  | _ => []
  end.
Proof.
  unfold scanF at 1. unfold scan_fuel at 1. cbn [scan_from].
  destruct (read_frame_header (read_at f off 8)) as [typ v| | |] eqn:E; try reflexivity.
  f_equal. symmetry. apply scan_from_fuel_enough.
  - assert (H8 : 8 <= len (read_at f off 8)).
    { destruct (N.lt_ge_cases (len (read_at f off 8)) 8) as [Hs|Hs]; [|exact Hs].
      rewrite read_frame_header_short in E by exact Hs. discriminate. }
    pose proof (read_at_len_file f off 8). pose proof (enc_frame_size_ge (fh_len typ v)).
    unfold len.
    pose proof (Nat.div_mod (length f) 8 ltac:(lia)).
    pose proof (Nat.mod_upper_bound (length f) 8 ltac:(lia)). unfold len in *. lia.
  - unfold scan_fuel. lia.
Qed.

(* the scan moves forward: every frame starts at or behind the offset the scan
   was started at, and at least 8 bytes behind the previous frame *)
Fixpoint scan_sorted (off : N) (evs : list frame_ev) : Prop :=
  match evs with
  | [] => True
  | e :: r => off <= fe_off e /\ scan_sorted (fe_off e + 8) r
  end.

Lemma scan_sorted_weaken evs off off' : off' <= off -> scan_sorted off evs -> scan_sorted off' evs.
Proof. destruct evs as [|e r]; [auto|]. cbn [scan_sorted]. intros H [H1 H2]. split; [lia|exact H2]. Qed.

Lemma scan_from_sorted fuel : forall f off, scan_sorted off (scan_from fuel f off).
Proof.
  induction fuel as [|k IH]; intros f off; [exact I|]. cbn [scan_from].
  destruct (read_frame_header (read_at f off 8)) as [typ v| | |]; try exact I.
  cbn [scan_sorted fe_off]. split; [lia|].
  eapply scan_sorted_weaken; [|apply IH]. pose proof (enc_frame_size_ge (fh_len typ v)). lia.
Qed.

Lemma scan_sorted_ge evs : forall off, scan_sorted off evs -> Forall (fun e => off <= fe_off e) evs.
Proof.
  induction evs as [|e r IH]; intros off H; [constructor|]. cbn [scan_sorted] in H. destruct H as [H1 H2].
  constructor; [exact H1|]. eapply Forall_impl; [|apply (IH _ H2)]. intros x Hx. cbn beta in Hx. lia.
Qed.

(* ---------------- frame shapes ---------------- *)
(* a frame as the scanner sees it: an intact 8-byte header followed by a body
   of the right length whose content does not matter *)
Record fshape := { fs_typ : N; fs_val : N; fs_body : bytes }.

Definition fs_bytes (s : fshape) : bytes := frame_header (fs_typ s) (fs_val s) ++ fs_body s.

Definition fs_ok (s : fshape) : Prop :=
  (fs_typ s = FrameEntry \/ fs_typ s = FrameIndex \/ fs_typ s = FrameCommit) /\
  fs_val s < two32 /\ 8 + len (fs_body s) = enc_frame_size (fh_len (fs_typ s) (fs_val s)).

Definition sh_entry (p : bytes) : fshape :=
  {| fs_typ := FrameEntry; fs_val := len p; fs_body := p ++ zeros (N.to_nat (pad_len (len p))) |}.
Definition sh_index (offs : list N) : fshape :=
  {| fs_typ := FrameIndex; fs_val := 4 * len offs;
     fs_body := index_payload offs ++ (if N.odd (len offs) then le32 0 else []) |}.
Definition sh_commit (crc : N) : fshape := {| fs_typ := FrameCommit; fs_val := crc; fs_body := [] |}.

Definition frames_bytes (l : list fshape) : bytes := flat_map fs_bytes l.

Fixpoint fs_events (off : N) (l : list fshape) : list frame_ev :=
  match l with
  | [] => []
  | s :: r => {| fe_typ := fs_typ s; fe_val := fs_val s; fe_off := off |}
              :: fs_events (off + 8 + len (fs_body s)) r
  end.

Lemma fs_bytes_entry p : fs_bytes (sh_entry p) = enc_frame FrameEntry p.
Proof. reflexivity. Qed.
Lemma fs_bytes_index offs : fs_bytes (sh_index offs) = index_frame offs.
Proof. reflexivity. Qed.
Lemma fs_bytes_commit c : fs_bytes (sh_commit c) = commit_frame c.
Proof. reflexivity. Qed.

Lemma len_fs_bytes s : len (fs_bytes s) = 8 + len (fs_body s).
Proof. unfold fs_bytes. rewrite len_app, len_frame_header. reflexivity. Qed.

Lemma frames_bytes_app a b : frames_bytes (a ++ b) = frames_bytes a ++ frames_bytes b.
Proof. unfold frames_bytes. apply flat_map_app. Qed.

Lemma frames_bytes_entries ps : frames_bytes (map sh_entry ps) = entries_bytes ps.
Proof.
  unfold frames_bytes, entries_bytes. induction ps as [|p r IH]; [reflexivity|].
  cbn [map flat_map]. rewrite IH. reflexivity.
Qed.

Lemma fs_events_app off a b :
  fs_events off (a ++ b) = fs_events off a ++ fs_events (off + len (frames_bytes a)) b.
Proof.
  revert off; induction a as [|s a IH]; intros off.
  - cbn. rewrite N.add_0_r. reflexivity.
  - cbn [app fs_events]. rewrite IH. f_equal. f_equal. f_equal.
    unfold frames_bytes. cbn [flat_map]. rewrite len_app, len_fs_bytes. fold (frames_bytes a). lia.
Qed.

Lemma fs_ok_entry p : len p < two32 -> fs_ok (sh_entry p).
Proof.
  intros H. unfold fs_ok, sh_entry. cbn [fs_typ fs_val fs_body]. split; [auto|]. split; [exact H|].
  rewrite len_app, len_zeros. unfold fh_len.
  replace (FrameEntry =? FrameCommit) with false by reflexivity.
  unfold enc_frame_size. lia.
Qed.
Lemma fs_ok_index offs : 4 * len offs < two32 -> fs_ok (sh_index offs).
Proof.
  intros H. unfold fs_ok. cbn [sh_index fs_typ fs_val fs_body]. split; [auto|]. split; [exact H|].
  unfold fh_len. replace (FrameIndex =? FrameCommit) with false by reflexivity.
  pose proof (len_index_frame offs) as L. unfold index_frame in L.
  rewrite len_app, len_frame_header in L. exact L.
Qed.
Lemma fs_ok_commit c : c < two32 -> fs_ok (sh_commit c).
Proof.
  intros H. unfold fs_ok. cbn [sh_commit fs_typ fs_val fs_body]. split; [auto|]. split; [exact H|].
  reflexivity.
Qed.

(* scanning across well-shaped frames *)
Lemma scanF_frames l : forall a r,
  Forall fs_ok l ->
  scanF (a ++ frames_bytes l ++ r) (len a) =
  fs_events (len a) l ++ scanF (a ++ frames_bytes l ++ r) (len a + len (frames_bytes l)).
Proof.
  induction l as [|s l IH]; intros a r Hok.
  - cbn. rewrite N.add_0_r. reflexivity.
  - inversion Hok as [|? ? Hs Hl]; subst.
    destruct Hs as (Ht & Hv & Hb).
    assert (E : a ++ frames_bytes (s :: l) ++ r = (a ++ fs_bytes s) ++ frames_bytes l ++ r).
    { unfold frames_bytes. cbn [flat_map]. rewrite <- !app_assoc. reflexivity. }
    assert (L : len (frames_bytes (s :: l)) = 8 + len (fs_body s) + len (frames_bytes l)).
    { unfold frames_bytes. cbn [flat_map]. rewrite len_app, len_fs_bytes. reflexivity. }
    rewrite scanF_unfold. rewrite read_at_app.
    assert (R : firstn (N.to_nat 8) (frames_bytes (s :: l) ++ r) = frame_header (fs_typ s) (fs_val s)).
    { unfold frames_bytes. cbn [flat_map]. unfold fs_bytes at 1. rewrite <- !app_assoc.
      change (N.to_nat 8) with (length (frame_header (fs_typ s) (fs_val s))).
      apply firstn_app_exact. }
    rewrite R. rewrite <- (app_nil_r (frame_header (fs_typ s) (fs_val s))).
    rewrite read_frame_header_hdr by assumption.
    cbn [fs_events app]. f_equal.
    replace (len a + enc_frame_size (fh_len (fs_typ s) (fs_val s))) with (len (a ++ fs_bytes s))
      by (rewrite len_app, len_fs_bytes; lia).
    rewrite E. rewrite IH by exact Hl.
    rewrite len_app, len_fs_bytes. f_equal.
    + f_equal. lia.
    + f_equal. lia.
Qed.

(* where the scan stops: an all-zero header chunk, or fewer than 8 bytes left *)
Lemma scanF_stop_zero a r : scanF (a ++ zeros 8 ++ r) (len a) = [].
Proof.
  rewrite scanF_unfold, read_at_app.
  change (N.to_nat 8) with (length (zeros 8)). rewrite firstn_app_exact.
  rewrite <- (app_nil_r (zeros 8)). rewrite read_frame_header_zero. reflexivity.
Qed.

Lemma scanF_stop_short a r : len r < 8 -> scanF (a ++ r) (len a) = [].
Proof.
  intros H. rewrite scanF_unfold, read_at_app.
  rewrite read_frame_header_short; [reflexivity|].
  pose proof (len_firstn_le (N.to_nat 8) r). lia.
Qed.

Lemma scanF_stop_zeros a k : scanF (a ++ zeros k) (len a) = [].
Proof.
  destruct (Nat.lt_ge_cases k 8) as [H|H].
  - apply scanF_stop_short. rewrite len_zeros. lia.
  - replace k with (8 + (k - 8))%nat by lia. rewrite zeros_app. apply scanF_stop_zero.
Qed.
