(* Dump.v -- model of Filer.DumpSegment (segment/filer.go): entries are emitted
   when the commit frame of their batch is reached. *)
From RW Require Import Base.Bytes Fmt.Frame Seg.Writer Seg.Recover Gen.Constants.
Open Scope N_scope.

Inductive dump_res := DumpOk (es : list (N * bytes)) | DumpErr (es : list (N * bytes)).

(* batch: pending (idx, off, len) oldest first *)
Fixpoint dump_batch (f : bytes) (batch : list (N * N * N)) (acc : list (N * bytes))
  : option (list (N * bytes)) * list (N * bytes) :=
  match batch with
  | [] => (Some acc, acc)
  | (idx, off, l) :: r =>
      if MaxEntrySize <? l then (None, acc)
      else let p := read_at f (off + 8) l in
           if len p <? l then (None, acc)
           else dump_batch f r (acc ++ [(idx, p)])
  end.

Fixpoint dump_go (f : bytes) (evs : list frame_ev) (idx : N) (after before : N)
         (batch : list (N * N * N)) (acc : list (N * bytes)) : dump_res :=
  match evs with
  | [] => DumpOk acc
  | e :: r =>
      if fe_typ e =? FrameCommit then
        match dump_batch f batch acc with
        | (None, acc') => DumpErr acc'
        | (Some acc', _) => dump_go f r idx after before [] acc'
        end
      else if negb (fe_typ e =? FrameEntry) then dump_go f r idx after before batch acc
      else if idx <=? after then dump_go f r (idx + 1) after before batch acc
      else if (0 <? before) && (before <=? idx) then DumpOk acc
      else dump_go f r (idx + 1) after before (batch ++ [(idx, fe_off e, fe_val e)]) acc
  end.

Definition dump_segment (f : bytes) (base after before : N) : dump_res :=
  dump_go f (scan f) base after before [] [].

(* ------------------------------------------------------------------ *)
(* Filer.DumpLogs: listInternal maps segment ID -> base index from the file
   names and visits the files in the order ListDir returns them, i.e. by file
   name: 20 decimal digits of the base index, then 16 hex digits of the ID
   (the variable is called segIDsSorted, but nothing sorts by ID).  A segment
   whose successor starts at or below [after] is skipped, the walk ends at the
   first segment starting at or above [before]; the first failing DumpSegment
   ends it with that error.  Files: (id, base, content), one per ID. *)
Definition name_le (x y : N * N * bytes) : bool :=
  let '(ix, bx, _) := x in let '(iy, by_, _) := y in
  (bx <? by_) || ((bx =? by_) && (ix <=? iy)).
Fixpoint insert_by_name (x : N * N * bytes) (l : list (N * N * bytes)) : list (N * N * bytes) :=
  match l with
  | [] => [x]
  | y :: r => if name_le x y then x :: l else y :: insert_by_name x r
  end.
Definition sort_by_name (l : list (N * N * bytes)) : list (N * N * bytes) :=
  fold_right insert_by_name [] l.

Fixpoint dump_logs_go (files : list (N * N * bytes)) (after before : N)
         (acc : list (N * bytes)) : dump_res :=
  match files with
  | [] => DumpOk acc
  | (_, base, f) :: r =>
      let next_base := match r with (_, b, _) :: _ => b | [] => 0 end in
      if (0 <? after) && (0 <? next_base) && (next_base <=? after) then dump_logs_go r after before acc
      else if (0 <? before) && (before <=? base) then DumpOk acc
      else match dump_segment f base after before with
           | DumpOk es => dump_logs_go r after before (acc ++ es)
           | DumpErr es => DumpErr (acc ++ es)
           end
  end.

(* a *.wal name that does not parse makes listInternal fail before any file is read *)
Definition dump_logs (badname : bool) (files : list (N * N * bytes)) (after before : N) : dump_res :=
  if badname then DumpErr [] else dump_logs_go (sort_by_name files) after before [].
