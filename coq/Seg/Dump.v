(* Dump.v -- model of Filer.DumpSegment (segment/filer.go): entries are emitted
   when the commit frame of their batch is reached. *)
From RW Require Import Base.Bytes Fmt.Frame Seg.Writer Seg.Recover Gen.Constants.
Open Scope N_scope.

Inductive dump_res := DumpOk (es : list (N * bytes)) | DumpErr (es : list (N * bytes)).

(* batch: pending (idx, off, len) oldest first *)
Fixpoint dump_batch (f : bytes) (batch : list (N * N * N)) (acc : list (N * bytes))
  : option (list (N * bytes)) * list (N * bytes) :=
  match batch with
  | [] => (Some acc, acc)
  | (idx, off, l) :: r =>
      if MaxEntrySize <? l then (None, acc)
      else let p := read_at f (off + 8) l in
           if len p <? l then (None, acc)
           else dump_batch f r (acc ++ [(idx, p)])
  end.

Fixpoint dump_go (f : bytes) (evs : list frame_ev) (idx : N) (after before : N)
         (batch : list (N * N * N)) (acc : list (N * bytes)) : dump_res :=
  match evs with
  | [] => DumpOk acc
  | e :: r =>
      if fe_typ e =? FrameCommit then
        match dump_batch f batch acc with
        | (None, acc') => DumpErr acc'
        | (Some acc', _) => dump_go f r idx after before [] acc'
        end
      else if negb (fe_typ e =? FrameEntry) then dump_go f r idx after before batch acc
      else if idx <=? after then dump_go f r (idx + 1) after before batch acc
      else if (0 <? before) && (before <=? idx) then DumpOk acc
      else dump_go f r (idx + 1) after before (batch ++ [(idx, fe_off e, fe_val e)]) acc
  end.

Definition dump_segment (f : bytes) (base after before : N) : dump_res :=
  dump_go f (scan f) base after before [] [].
