(* AllocFacts.v -- C11, segment level: the data-dependent allocations of
   recovery and of DumpSegment are bounded by the file length / MaxEntrySize
   whatever bytes the file holds. *)
From RW Require Import Base.Bytes Base.BytesFacts Base.Crc32c Fmt.Frame Fmt.FrameFacts
     Seg.Writer Seg.Recover Seg.Reader Seg.Dump Seg.SegAbs Seg.ScanFacts Gen.Constants.
From Coq Require Import ZifyN ZifyNat ZifyBool.
Open Scope N_scope.

(* every frame the scan reports was read completely: its header lies in the file *)
Lemma scan_from_in_file fuel : forall f off,
  Forall (fun e => fe_off e + 8 <= len f) (scan_from fuel f off).
Proof.
  induction fuel as [|k IH]; intros f off; [constructor|]. cbn [scan_from].
  destruct (read_frame_header (read_at f off 8)) as [typ v| | |] eqn:E; try constructor; [|apply IH].
  cbn [fe_off].
  assert (H8 : 8 <= len (read_at f off 8)).
  { destruct (N.lt_ge_cases (len (read_at f off 8)) 8) as [Hs|Hs]; [|exact Hs].
    rewrite read_frame_header_short in E by exact Hs. discriminate. }
  pose proof (read_at_len_file f off 8). lia.
Qed.

(* every commit frame the recovery remembers lies inside the file, and its CRC
   range starts at or before it (at 0 or right behind an earlier commit frame) *)
Definition commit_in_file (f : bytes) (c : commit_info) : Prop :=
  c_crc_start c <= c_off c /\ c_off c + 8 <= len f.

Lemma rec_fold_commits_in_file f evs : forall a off,
  Forall (fun e => fe_off e + 8 <= len f) evs ->
  scan_sorted off evs ->
  Forall (commit_in_file f) (ra_commits a) ->
  Forall (fun c => c_off c + 8 <= off) (ra_commits a) ->
  Forall (commit_in_file f) (ra_commits (fold_left rec_step evs a)).
Proof.
  induction evs as [|e r IH]; intros a off He Hs Ha Hb; [exact Ha|].
  inversion He as [|? ? He0 Her]; subst. cbn [scan_sorted] in Hs. destruct Hs as [Hoff Hs].
  cbn [fold_left].
  assert (Hb' : Forall (fun c => c_off c + 8 <= fe_off e + 8) (ra_commits a)).
  { eapply Forall_impl; [|exact Hb]. intros c Hc. cbn beta in Hc. lia. }
  apply (IH (rec_step a e) (fe_off e + 8) Her Hs); unfold rec_step;
    (destruct (fe_typ e =? FrameEntry); [cbn [ra_commits]; try exact Ha; exact Hb'|]);
    (destruct (fe_typ e =? FrameIndex); [cbn [ra_commits]; try exact Ha; exact Hb'|]);
    cbn [ra_commits].
  - constructor; [|exact Ha]. unfold commit_in_file. cbn [c_off c_crc_start]. split; [|exact He0].
    destruct (ra_commits a) as [|p ?]; [lia|]. inversion Hb; subst. lia.
  - constructor; [cbn [c_off]; lia|exact Hb'].
Qed.

Lemma read_at_inside f off n : off + n <= len f -> len (read_at f off n) = n.
Proof.
  intros H. unfold read_at. destruct (len f <=? off) eqn:E.
  - apply N.leb_le in E. cbn. lia.
  - apply N.leb_gt in E. unfold sub, len in *. rewrite firstn_length, skipn_length. lia.
Qed.

(* recoverTail's only data-dependent allocation is the CRC batch buffer, sized
   to the largest c_off - c_crc_start among the commit frames it walks back
   over.  For EVERY commit frame of the scan that size is at most the file
   length, and the ReadAt that fills the buffer is never short (so the error
   path of that ReadAt is dead code for a file that does not shrink). *)
Theorem recover_alloc_bound f :
  Forall (fun c => c_off c - c_crc_start c <= len f /\
                   len (read_at f (c_crc_start c) (c_off c - c_crc_start c)) = c_off c - c_crc_start c)
         (ra_commits (rec_fold (scan f))).
Proof.
  assert (H : Forall (commit_in_file f) (ra_commits (rec_fold (scan f)))).
  { unfold rec_fold. apply (rec_fold_commits_in_file f (scan f) _ 32).
    - apply scan_from_in_file.
    - apply scan_from_sorted.
    - constructor.
    - constructor. }
  eapply Forall_impl; [|exact H]. intros c [H1 H2]. split; [lia|].
  apply read_at_inside. lia.
Qed.

(* recover_state is a total function of the bytes (by typing); moreover it only
   fails on a header mismatch, never on the frames *)
Theorem recover_total info f :
  validate_file_header (scanned_header f) info = true -> exists w, recover_state info f = Some w.
Proof.
  intros H. unfold recover_state. rewrite H.
  destruct (find_good f (ra_commits (rec_fold (scan f)))); eexists; reflexivity.
Qed.

(* DumpSegment: every buffer it fills, hence every payload it emits, is at most
   MaxEntrySize bytes long *)
Lemma dump_batch_bound f batch : forall acc,
  Forall (fun e : N * bytes => len (snd e) <= MaxEntrySize) acc ->
  Forall (fun e : N * bytes => len (snd e) <= MaxEntrySize) (snd (dump_batch f batch acc)) /\
  match fst (dump_batch f batch acc) with
  | Some acc' => Forall (fun e : N * bytes => len (snd e) <= MaxEntrySize) acc'
  | None => True
  end.
Proof.
  induction batch as [|[[idx off] l] r IH]; intros acc Ha; [cbn; auto|].
  cbn [dump_batch]. destruct (MaxEntrySize <? l) eqn:E1; [cbn; auto|]. apply N.ltb_ge in E1.
  destruct (len (read_at f (off + 8) l) <? l) eqn:E2; [cbn; auto|].
  apply IH. apply Forall_app; split; [exact Ha|]. constructor; [|constructor]. cbn [snd].
  pose proof (read_at_len f (off + 8) l). lia.
Qed.

Lemma dump_go_bound f evs : forall idx after before batch acc,
  Forall (fun e : N * bytes => len (snd e) <= MaxEntrySize) acc ->
  match dump_go f evs idx after before batch acc with
  | DumpOk es | DumpErr es => Forall (fun e : N * bytes => len (snd e) <= MaxEntrySize) es
  end.
Proof.
  induction evs as [|e r IH]; intros idx after before batch acc Ha; [exact Ha|].
  cbn [dump_go]. destruct (fe_typ e =? FrameCommit).
  - destruct (dump_batch_bound f batch acc Ha) as [H1 H2].
    destruct (dump_batch f batch acc) as [[acc'|] acc'']; cbn [fst snd] in *; [apply IH; exact H2|exact H1].
  - destruct (negb (fe_typ e =? FrameEntry)); [apply IH; exact Ha|].
    destruct (idx <=? after); [apply IH; exact Ha|].
    destruct ((0 <? before) && (before <=? idx)); [exact Ha|apply IH; exact Ha].
Qed.

Theorem dump_alloc_bound f base after before :
  match dump_segment f base after before with
  | DumpOk es | DumpErr es => Forall (fun e : N * bytes => len (snd e) <= MaxEntrySize) es
  end.
Proof. unfold dump_segment. apply dump_go_bound. constructor. Qed.

(* DumpLogs: every entry handed to the callback is at most MaxEntrySize long,
   whatever the files contain *)
Lemma dump_logs_go_bound files : forall after before acc,
  Forall (fun e : N * bytes => len (snd e) <= MaxEntrySize) acc ->
  match dump_logs_go files after before acc with
  | DumpOk es | DumpErr es => Forall (fun e : N * bytes => len (snd e) <= MaxEntrySize) es
  end.
Proof.
  induction files as [|[[id base] f] r IH]; intros after before acc Ha; cbn [dump_logs_go]; [exact Ha|].
  destruct ((0 <? after) && (0 <? match r with (_, b, _) :: _ => b | [] => 0 end)
            && (match r with (_, b, _) :: _ => b | [] => 0 end <=? after)); [apply IH; exact Ha|].
  destruct ((0 <? before) && (before <=? base)); [exact Ha|].
  pose proof (dump_alloc_bound f base after before) as Hb.
  destruct (dump_segment f base after before) as [es|es].
  - apply IH. apply Forall_app. split; assumption.
  - apply Forall_app. split; assumption.
Qed.

Theorem dump_logs_alloc_bound badname files after before :
  match dump_logs badname files after before with
  | DumpOk es | DumpErr es => Forall (fun e : N * bytes => len (snd e) <= MaxEntrySize) es
  end.
Proof.
  unfold dump_logs. destruct badname; [constructor|].
  apply dump_logs_go_bound. constructor.
Qed.
