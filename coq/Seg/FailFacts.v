(* FailFacts.v -- byte-level recovery after FAILED appends.

   A batch whose write or fsync failed is rolled back in the writer only; its
   bytes stay in the file.  A shorter batch written over its start leaves the
   rest of it -- entry frames and its commit frame -- behind the valid chain.
   This file proves, for the repaired recovery (Seg/Recover.v: walk back over
   ALL commit frames of the scan to the most recent one whose CRC verifies):

     recover_behind      image of a chain followed by ANY bytes in which no
                         commit frame verifies: recovery returns the chain
     fail_recover        every history of successful and failed appends /
                         force-seals: recovery of the file returns the writer of
                         the acknowledged batches, or of those plus the LAST
                         failed write (whose bytes are then completely in the
                         file) -- never an entry of an earlier failed batch,
                         never a part of a batch, never a mix of two
     fail_recover_crash  the same for every durable image a power loss can
                         leave (unsynced writes torn per 8-byte chunk over the
                         last synced image)
     recover_old_refuted the algorithm before the repair (Seg/RecoverOld.v)
                         serves an entry of a failed, overwritten batch on a
                         concrete history of honest batches

   Assumed (in the spirit of no_torn_collision): no_stale_commit f p -- no
   commit frame that the scan of f meets at or behind offset p stores the CRC
   of its apparent range (the bytes between the preceding commit frame of the
   scan and itself).  Decidable: no_stale_commitb. *)
From RW Require Import Base.Bytes Base.BytesFacts Base.Crc32c Base.Crc32cFacts Fmt.Frame Fmt.FrameFacts
     Seg.Writer Seg.Recover Seg.RecoverOld Seg.Reader Seg.SegAbs Seg.WriterFacts Seg.ScanFacts
     Seg.RecoverFacts Seg.ChainFacts Gen.Constants.
From Coq Require Import ZifyN ZifyNat ZifyBool.
Open Scope N_scope.

(* ------------------------------------------------------------------ *)
(* stale commit frames                                                  *)
Definition no_stale_commit (f : bytes) (p : N) : Prop :=
  forall c, In c (ra_commits (rec_fold (scan f))) -> p <= c_off c ->
    crc32c (read_at f (c_crc_start c) (c_off c - c_crc_start c)) <> c_crc c.

Definition no_stale_commitb (f : bytes) (p : N) : bool :=
  forallb (fun c => (c_off c <? p) || negb (commit_good f c)) (ra_commits (rec_fold (scan f))).

Lemma no_stale_commitb_spec f p : no_stale_commitb f p = true <-> no_stale_commit f p.
Proof.
  unfold no_stale_commitb, no_stale_commit. rewrite forallb_forall. split; intros H c Hin.
  - intros Hp. specialize (H c Hin). apply orb_true_iff in H as [H|H]; [lia|].
    apply negb_true_iff in H. unfold commit_good in H. apply N.eqb_neq in H. exact H.
  - destruct (c_off c <? p) eqn:E; [reflexivity|]. cbn [orb]. apply negb_true_iff.
    unfold commit_good. apply N.eqb_neq. apply H; [exact Hin|lia].
Qed.

(* ------------------------------------------------------------------ *)
(* a chain followed by arbitrary bytes                                  *)
Lemma recover_stale_sorted info s r a evs2 (f := c_img s ++ r) :
  hdr_wf info -> hdr_inv info s -> len (c_img s) < two32 ->
  acc_inv info s a ->
  rec_fold (scan f) = fold_left rec_step evs2 a ->
  Forall (fun e => len (c_img s) <= fe_off e) evs2 ->
  no_stale_commit f (len (c_img s)) ->
  recover_state info f = Some (wst info s).
Proof.
  intros Hhw Hh Hl Hacc Hfold Hge Hns.
  destruct (fold_any evs2 a) as ((new & Hc & Hnew) & _). cbn zeta in Hc.
  apply (recover_stale info s r a evs2 new); try assumption.
  apply Forall_forall. intros c Hin.
  assert (Hoff : len (c_img s) <= c_off c).
  { rewrite Forall_forall in Hnew. destruct (Hnew c Hin) as (e & He & ->).
    rewrite Forall_forall in Hge. apply Hge. exact He. }
  unfold commit_good. apply N.eqb_neq. apply Hns; [|exact Hoff].
  fold f. rewrite Hfold, Hc. apply in_or_app. left. exact Hin.
Qed.

Lemma chain_wf_len info bs : chain_wf info c0 bs -> len (c_img (cstate info bs)) < two32.
Proof.
  destruct bs as [|b bs _] using rev_ind; intros H; [reflexivity|].
  apply chain_wf_app in H as [_ H]. cbn [chain_wf] in H. destruct H as [[_ H] _].
  rewrite cstate_snoc. exact H.
Qed.

(* THE LAW FOR LEFTOVERS.  The file holds the image of the chain bs followed by
   any bytes R at all (remains of failed writes, torn or not, one over the
   other).  If no commit frame the scan meets in R verifies, recovery returns
   exactly the writer of bs. *)
Theorem recover_behind info bs R :
  hdr_wf info -> chain_wf info c0 bs ->
  let s := cstate info bs in
  no_stale_commit (c_img s ++ R) (len (c_img s)) ->
  recover_state info (c_img s ++ R) = Some (wst info s).
Proof.
  intros Hhw Hwf s Hns.
  pose proof (chain_wf_len info bs Hwf) as Hl. fold s in Hl.
  destruct (chain_scan info bs Hwf) as (Hh & evs & Hacc & Hscan). fold s in Hh, Hacc, Hscan.
  destruct bs as [|b bs _] using rev_ind.
  - (* empty chain: the whole scan is leftovers *)
    apply (recover_stale_sorted info s R
             {| ra_offsets := []; ra_pending := 0; ra_commits := [] |} (scan (c_img s ++ R))); try assumption.
    + unfold acc_inv. cbn. auto.
    + reflexivity.
    + eapply Forall_impl; [|apply scan_sorted_ge, scan_from_sorted]. intros e He. cbn in *. lia.
  - assert (Hn : c_img s <> []) by (unfold s; rewrite cstate_snoc; apply c_img_cstep_nonnil).
    assert (Hpend : c_pend info s = []) by (unfold c_pend; destruct (c_img s); congruence).
    assert (Hpos : c_pos info s = len (c_img s)) by (unfold c_pos; rewrite Hpend; cbn; lia).
    specialize (Hscan [] R). rewrite Hpend in Hscan. specialize (Hscan eq_refl). cbn [app] in Hscan.
    apply (recover_stale_sorted info s R (rec_fold evs) (scanF (c_img s ++ R) (c_pos info s))); try assumption.
    + rewrite scan_is_scanF, Hscan. unfold rec_fold. apply fold_left_app.
    + rewrite <- Hpos. apply scan_sorted_ge. apply scan_from_sorted.
Qed.

(* ------------------------------------------------------------------ *)
(* the writer with injected faults                                      *)
Definition fop := (wop * wfault)%type.

Definition do_fop (w : wstate) (o : fop) : wres * wstate * list waction :=
  match fst o with
  | OpAppend es => append w es (snd o)
  | OpSeal => force_seal w (snd o)
  end.

Lemma do_fop_none w op : do_fop w (op, FNone) = do_op w op.
Proof. destruct op; reflexivity. Qed.

(* an operation does nothing at all, or succeeds with one write and one fsync *)
Lemma do_op_acts w op r w' acts :
  do_op w op = (r, w', acts) ->
  (acts = [] /\ w' = w) \/ (r = WOk /\ exists off buf, acts = [WWrite off buf; WSync]).
Proof.
  destruct op as [es|]; cbn [do_op].
  - unfold append. destruct es as [|e0 es0]; [intros H; inversion H; auto|].
    destruct (0 <? w_index_start w); [intros H; inversion H; auto|].
    destruct (too_big (e0 :: es0)); [intros H; inversion H; auto|].
    destruct (append_entries w (e0 :: es0)) as [w1|]; [|intros H; inversion H; auto].
    destruct (if needs_seal w1 then append_index w1 else Some w1) as [w2|]; [|intros H; inversion H; auto].
    cbn [append_commit]. intros H. inversion H; subst. right. split; [reflexivity|]. eexists. eexists. reflexivity.
  - unfold force_seal. destruct (0 <? w_index_start w); [intros H; inversion H; auto|].
    destruct (append_index w) as [w1|]; [|intros H; inversion H; auto].
    cbn [append_commit]. intros H. inversion H; subst. right. split; [reflexivity|]. eexists. eexists. reflexivity.
Qed.

(* what a short write puts into the file: the first half of the buffer *)
Definition short_acts (acts : list waction) : list waction :=
  match acts with
  | WWrite off buf :: _ => [WWrite off (firstn (length buf / 2) buf)]
  | _ => []
  end.

(* the same operation with a fault: an operation that does nothing is not
   affected; otherwise the result is an I/O error, the writer is rolled back,
   and the write has happened completely (fsync fails), to its first half
   (short write) or not at all (write fails) *)
Lemma do_fop_fault w op flt r w' acts :
  do_op w op = (r, w', acts) -> flt <> FNone ->
  do_fop w (op, flt) =
  match acts with
  | [] => (r, w', [])
  | _ => (WErrIO, w, match flt with FSync => acts | FWriteShort => short_acts acts | FWrite | FNone => [] end)
  end.
Proof.
  intros H Hf. unfold do_fop. cbn [fst snd]. destruct op as [es|]; cbn [do_op] in H.
  - unfold append in *. destruct es as [|e0 es0]; [inversion H; reflexivity|].
    destruct (0 <? w_index_start w); [inversion H; reflexivity|].
    destruct (too_big (e0 :: es0)); [inversion H; reflexivity|].
    destruct (append_entries w (e0 :: es0)) as [w1|]; [|inversion H; reflexivity].
    destruct (if needs_seal w1 then append_index w1 else Some w1) as [w2|]; [|inversion H; reflexivity].
    cbn [append_commit] in H. inversion H; subst. destruct flt; [congruence| | |]; reflexivity.
  - unfold force_seal in *. destruct (0 <? w_index_start w); [inversion H; reflexivity|].
    destruct (append_index w) as [w1|]; [|inversion H; reflexivity].
    cbn [append_commit] in H. inversion H; subst. destruct flt; [congruence| | |]; reflexivity.
Qed.

(* an operation that writes commits exactly one batch *)
Lemma op_batch_single w op w' off buf :
  do_op w op = (WOk, w', [WWrite off buf; WSync]) -> exists b, op_batch w w' op = [b].
Proof.
  destruct op as [es|]; cbn [do_op op_batch].
  - destruct es as [|e0 es0]; [cbn; intros H; inversion H|]. intros _. eexists. reflexivity.
  - unfold force_seal, sealed. destruct (0 <? w_index_start w); [intros H; inversion H|].
    intros _. eexists. reflexivity.
Qed.

(* ... and from the state of a chain it is the append of that batch to the chain *)
Lemma do_op_wst info s op w' off buf b :
  do_op (wst info s) op = (WOk, w', [WWrite off buf; WSync]) ->
  op_batch (wst info s) w' op = [b] ->
  len (c_img (cstep info s b)) < two32 ->
  w' = wst info (cstep info s b) /\ off = len (c_img s) /\ buf = batch_write info s b.
Proof.
  intros Hop Hb Hlen.
  assert (Hrun : wrun (wst info s) [op] = Some (w', [WWrite off buf; WSync], [b])).
  { cbn [wrun]. rewrite Hop, Hb. reflexivity. }
  destruct (wrun_char info [op] s w' _ [b] Hrun Hlen) as (Ew & Hcont & Himg).
  cbn [fold_left] in Ew, Himg. cbn [writes_contiguous] in Hcont. destruct Hcont as [Eoff _].
  cbn [writes_concat cstep c_img] in Himg. rewrite app_nil_r in Himg. apply app_inv_head in Himg.
  auto.
Qed.

(* ------------------------------------------------------------------ *)
(* histories of successful and failed operations                        *)
(* The run is instrumented.  Operational part: the writer, the file as the
   process sees it, the file as of the last successful fsync, the writes
   issued since.  Ghost part: the batches of the operations that succeeded
   (fs_bs); the batches whose COMPLETE write was issued and whose fsync failed
   since the last success (fs_pend; a failed operation that wrote nothing --
   refused, or its write failed outright -- leaves no trace anywhere, a SHORT
   write leaves the first half of its bytes in the file and can never be
   complete there); the batch of fs_pend, if any, that is complete in the file
   right behind the acknowledged batches (fs_last: the last failed complete
   write, unless a later short write damaged it); and whether every write
   belonged to a batch that ends below 2^32 (fs_ok). *)
Record fstate := {
  fs_w : wstate; fs_file : bytes; fs_sync : bytes; fs_pw : list (N * bytes);
  fs_bs : list batch; fs_pend : list batch; fs_last : list batch; fs_ok : bool }.

Definition fstart (info : seginfo) (k0 : nat) : fstate :=
  {| fs_w := init_empty info; fs_file := zeros k0; fs_sync := zeros k0; fs_pw := [];
     fs_bs := []; fs_pend := []; fs_last := []; fs_ok := true |}.

Fixpoint writes_of (acts : list waction) : list (N * bytes) :=
  match acts with
  | [] => []
  | WWrite off bs :: r => (off, bs) :: writes_of r
  | WSync :: r => writes_of r
  end.

Definition batch_fits (info : seginfo) (bs : list batch) (b : list batch) : bool :=
  len (image info (bs ++ b)) <? two32.

(* the bytes w are in the image at offset p *)
Definition on_disk (T : bytes) (p : N) (w : bytes) : Prop := sub (N.to_nat p) (length w) T = w.
Definition on_diskb (T : bytes) (p : N) (w : bytes) : bool := beq_bytes (sub (N.to_nat p) (length w) T) w.

Lemma on_diskb_spec T p w : on_diskb T p w = true <-> on_disk T p w.
Proof. apply beq_bytes_eq. Qed.

Definition fstep (st : fstate) (o : fop) : fstate :=
  let '(r, w', acts) := do_fop (fs_w st) o in
  let '(_, w1, _) := do_op (fs_w st) (fst o) in
  let b := op_batch (fs_w st) w1 (fst o) in       (* the batch the operation commits if it succeeds *)
  let info := w_info (fs_w st) in
  let file' := apply_wactions (fs_file st) acts in
  match acts with
  | [] => {| fs_w := w'; fs_file := fs_file st; fs_sync := fs_sync st; fs_pw := fs_pw st;
             fs_bs := fs_bs st; fs_pend := fs_pend st; fs_last := fs_last st; fs_ok := fs_ok st |}
  | _ =>
      let ok := fs_ok st && batch_fits info (fs_bs st) b in
      match r with
      | WOk => {| fs_w := w'; fs_file := file'; fs_sync := file'; fs_pw := [];
                  fs_bs := fs_bs st ++ b; fs_pend := []; fs_last := []; fs_ok := ok |}
      | _ =>
          match snd o with
          | FWriteShort =>
              (* half of the bytes are in the file: the batch is not a candidate; a
                 complete failed batch underneath survives only if the half write
                 did not touch it *)
              {| fs_w := w'; fs_file := file'; fs_sync := fs_sync st; fs_pw := fs_pw st ++ writes_of acts;
                 fs_bs := fs_bs st; fs_pend := fs_pend st;
                 fs_last := filter (fun d => on_diskb file' (len (image info (fs_bs st)))
                                                      (batch_write info (cstate info (fs_bs st)) d))
                                   (fs_last st);
                 fs_ok := ok |}
          | _ =>
              {| fs_w := w'; fs_file := file'; fs_sync := fs_sync st; fs_pw := fs_pw st ++ writes_of acts;
                 fs_bs := fs_bs st; fs_pend := fs_pend st ++ b; fs_last := b; fs_ok := ok |}
          end
      end
  end.

Definition frun_from (st : fstate) (ops : list fop) : fstate := fold_left fstep ops st.
Definition frun (info : seginfo) (k0 : nat) (ops : list fop) : fstate := frun_from (fstart info k0) ops.

(* the invariant of such runs *)
Record finv (info : seginfo) (st : fstate) : Prop := {
  fi_w : fs_w st = wst info (cstate info (fs_bs st));
  fi_wf : chain_wf info c0 (fs_bs st);
  fi_pend : Forall (bwf info (cstate info (fs_bs st))) (fs_pend st);
  fi_last : Forall (bwf info (cstate info (fs_bs st))) (fs_last st);
  fi_last1 : (length (fs_last st) <= 1)%nat;
  fi_file : exists R, fs_file st =
                      c_img (cstate info (fs_bs st)) ++
                      match fs_last st with
                      | [] => R
                      | d :: _ => batch_write info (cstate info (fs_bs st)) d ++ R
                      end;
  fi_sync : exists R0, fs_sync st = c_img (cstate info (fs_bs st)) ++ R0;
  fi_pw : Forall (fun w => fst w = len (c_img (cstate info (fs_bs st)))) (fs_pw st) }.

Lemma finv_start info k0 : finv info (fstart info k0).
Proof.
  constructor; cbn [fstart fs_w fs_file fs_sync fs_pw fs_bs fs_pend fs_last]; change (cstate info []) with c0.
  - symmetry. apply wst_c0.
  - exact I.
  - constructor.
  - constructor.
  - cbn. lia.
  - exists (zeros k0). reflexivity.
  - exists (zeros k0). reflexivity.
  - constructor.
Qed.

Lemma fs_ok_step st o : fs_ok (fstep st o) = true -> fs_ok st = true.
Proof.
  unfold fstep. destruct (do_fop (fs_w st) o) as [[r w'] acts].
  destruct (do_op (fs_w st) (fst o)) as [[r1 w1] acts1].
  destruct acts as [|a0 ar]; [cbn; auto|].
  destruct r; try destruct (snd o); cbn [fs_ok]; intros H; apply andb_true_iff in H; tauto.
Qed.

Lemma fs_ok_run ops : forall st, fs_ok (frun_from st ops) = true -> fs_ok st = true.
Proof.
  induction ops as [|o r IH]; intros st H; [exact H|]. cbn [frun_from fold_left] in H.
  apply fs_ok_step with o. apply IH. exact H.
Qed.

Lemma chain_wf_snoc info bs b :
  chain_wf info c0 bs -> bwf info (cstate info bs) b -> chain_wf info c0 (bs ++ [b]).
Proof. intros H1 H2. apply chain_wf_app. split; [exact H1|]. cbn [chain_wf]. auto. Qed.

Lemma filter_len_le {A} (f : A -> bool) l : (length (filter f l) <= length l)%nat.
Proof. induction l as [|x l IH]; [reflexivity|]. cbn. destruct (f x); cbn; lia. Qed.

Lemma fault_eq_dec (a b : wfault) : {a = b} + {a <> b}.
Proof. decide equality. Qed.

Lemma finv_step info st op flt :
  finv info st -> op_wf op -> fs_ok (fstep st (op, flt)) = true -> finv info (fstep st (op, flt)).
Proof.
  intros I Hwf Hok. destruct I as [Iw Iwf Ipend Ilast Il1 (R & Ifile) (R0 & Isync) Ipw].
  set (s := cstate info (fs_bs st)) in *.
  unfold fstep in Hok |- *. change (fst (op, flt)) with op in Hok |- *. change (snd (op, flt)) with flt in Hok |- *.
  destruct (do_op (fs_w st) op) as [[r1 w1] acts1] eqn:Eop.
  assert (Efop : do_fop (fs_w st) (op, flt) =
                 match flt with
                 | FNone => (r1, w1, acts1)
                 | _ => match acts1 with
                        | [] => (r1, w1, [])
                        | _ => (WErrIO, fs_w st,
                                match flt with FSync => acts1 | FWriteShort => short_acts acts1 | _ => [] end)
                        end
                 end).
  { destruct flt; [rewrite do_fop_none; exact Eop| | |];
      (rewrite (do_fop_fault _ _ _ _ _ _ Eop) by discriminate; reflexivity). }
  destruct (do_op_acts _ _ _ _ _ Eop) as [[-> ->]|(-> & off & buf & ->)].
  - (* nothing happens, whatever the fault *)
    assert (E : do_fop (fs_w st) (op, flt) = (r1, fs_w st, [])) by (rewrite Efop; destruct flt; reflexivity).
    rewrite E in *.
    constructor; cbn [fs_w fs_file fs_sync fs_pw fs_bs fs_pend fs_last]; fold s;
      [exact Iw|exact Iwf|exact Ipend|exact Ilast|exact Il1|exists R; exact Ifile|exists R0; exact Isync|exact Ipw].
  - (* the operation writes one batch b *)
    destruct (fault_eq_dec flt FWrite) as [->|Hnw].
    { (* the write fails outright: nothing reaches the file, the writer is rolled back *)
      rewrite Efop.
      constructor; cbn [fs_w fs_file fs_sync fs_pw fs_bs fs_pend fs_last]; fold s;
        [exact Iw|exact Iwf|exact Ipend|exact Ilast|exact Il1|exists R; exact Ifile|exists R0; exact Isync|exact Ipw]. }
    rewrite Iw in Eop. destruct (op_batch_single _ _ _ _ _ Eop) as [b Hb].
    rewrite Iw in Hok, Efop |- *. rewrite Hb in *. cbn [wst w_info] in Hok |- *.
    assert (Hbwf : Forall wf_bytes (fst b)).
    { pose proof (op_batch_wf (wst info s) w1 op Hwf) as H. rewrite Hb in H. inversion H; assumption. }
    assert (Hfit : len (c_img (cstep info s b)) < two32).
    { destruct flt; [| congruence | |]; rewrite Efop in Hok; cbn [short_acts fs_ok] in Hok;
        apply andb_true_iff in Hok as [_ Hok];
        unfold batch_fits, image in Hok; rewrite cstate_snoc in Hok; fold s in Hok; lia. }
    destruct (do_op_wst info s op w1 off buf b Eop Hb Hfit) as (-> & -> & ->).
    assert (Hfile : forall x, exists R', apply_wactions (fs_file st) [WWrite (len (c_img s)) x; WSync]
                               = c_img s ++ x ++ R' /\
                               apply_wactions (fs_file st) [WWrite (len (c_img s)) x] = c_img s ++ x ++ R').
    { intros x. unfold apply_wactions. cbn [fold_left apply_waction]. rewrite Ifile, to_nat_len, overwrite_app.
      eexists. split; reflexivity. }
    destruct flt; [| congruence | |]; rewrite Efop; clear Efop.
    + (* success *)
      destruct (Hfile (batch_write info s b)) as (R' & HR' & _).
      constructor; cbn [fs_w fs_file fs_sync fs_pw fs_bs fs_pend fs_last]; rewrite ?cstate_snoc; fold s.
      * reflexivity.
      * apply chain_wf_snoc; [exact Iwf|]. split; assumption.
      * constructor.
      * constructor.
      * cbn. lia.
      * exists R'. rewrite HR'. cbn [cstep c_img]. rewrite <- app_assoc. reflexivity.
      * exists R'. rewrite HR'. cbn [cstep c_img]. rewrite <- app_assoc. reflexivity.
      * constructor.
    + (* short write: the first half of the bytes is in the file, the writer is rolled back *)
      cbn [short_acts]. set (half := firstn (length (batch_write info s b) / 2) (batch_write info s b)).
      destruct (Hfile half) as (R' & _ & HR').
      constructor; cbn [fs_w fs_file fs_sync fs_pw fs_bs fs_pend fs_last writes_of]; fold s.
      * reflexivity.
      * exact Iwf.
      * exact Ipend.
      * apply Forall_forall. intros d Hd. apply filter_In in Hd as [Hd _].
        rewrite Forall_forall in Ilast. apply Ilast. exact Hd.
      * etransitivity; [apply filter_len_le|exact Il1].
      * rewrite HR'. unfold image. fold s.
        destruct (filter _ (fs_last st)) as [|d l] eqn:Efl.
        -- eexists. reflexivity.
        -- assert (Hin : In d (filter (fun d0 => on_diskb (c_img s ++ half ++ R') (len (c_img s)) (batch_write info s d0))
                                      (fs_last st))) by (rewrite Efl; left; reflexivity).
           apply filter_In in Hin as [_ Hon]. apply on_diskb_spec in Hon.
           unfold on_disk, sub in Hon. rewrite to_nat_len, skipn_app_exact in Hon.
           exists (skipn (length (batch_write info s d)) (half ++ R')). f_equal.
           rewrite <- Hon at 1. symmetry. apply firstn_skipn.
      * exists R0. exact Isync.
      * apply Forall_app. split; [exact Ipw|]. constructor; [reflexivity|constructor].
    + (* the fsync fails: the bytes are in the file, the writer is rolled back *)
      destruct (Hfile (batch_write info s b)) as (R' & HR' & _).
      constructor; cbn [fs_w fs_file fs_sync fs_pw fs_bs fs_pend fs_last writes_of]; fold s.
      * reflexivity.
      * exact Iwf.
      * apply Forall_app. split; [exact Ipend|]. constructor; [split; assumption|constructor].
      * constructor; [split; assumption|constructor].
      * cbn. lia.
      * exists R'. rewrite HR'. reflexivity.
      * exists R0. exact Isync.
      * apply Forall_app. split; [exact Ipw|]. constructor; [reflexivity|constructor].
Qed.

Definition fops_wf (ops : list fop) : Prop := Forall (fun o => op_wf (fst o)) ops.

Lemma finv_run info ops : forall st,
  finv info st -> fops_wf ops -> fs_ok (frun_from st ops) = true -> finv info (frun_from st ops).
Proof.
  induction ops as [|[op flt] r IH]; intros st I Hwf Hok; [exact I|].
  inversion Hwf as [|? ? Hop Hr]; subst. cbn [frun_from fold_left] in *.
  apply IH; [|exact Hr|exact Hok]. apply finv_step; [exact I|exact Hop|].
  apply fs_ok_run with r. exact Hok.
Qed.

(* recovery of a file of such a run *)
Lemma finv_recover info st :
  hdr_wf info -> finv info st ->
  let bs' := fs_bs st ++ fs_last st in
  no_stale_commit (fs_file st) (len (image info bs')) ->
  recover_state info (fs_file st) = Some (wst info (cstate info bs')).
Proof.
  intros Hhw [Iw Iwf Ipend Ilast Il1 (R & Ifile) _ _] bs' Hns.
  assert (Hl : fs_last st = [] \/ exists d, fs_last st = [d]).
  { destruct (fs_last st) as [|d [|d' l]]; [left; reflexivity|right; exists d; reflexivity|cbn in Il1; lia]. }
  assert (Hwf' : chain_wf info c0 bs').
  { unfold bs'. destruct Hl as [->|[d Hd]]; [rewrite app_nil_r; exact Iwf|]. rewrite Hd in *.
    apply chain_wf_snoc; [exact Iwf|]. inversion Ilast; assumption. }
  assert (Ef : fs_file st = c_img (cstate info bs') ++ R).
  { rewrite Ifile. unfold bs'. destruct Hl as [->|[d ->]]; [rewrite app_nil_r; reflexivity|].
    rewrite cstate_snoc. cbn [cstep c_img]. rewrite <- app_assoc. reflexivity. }
  rewrite Ef in Hns |- *. apply recover_behind; assumption.
Qed.

(* THE THEOREM (restart without power loss).  After EVERY history of appends and
   force-seals, each succeeding, refused, or failing in its write or its fsync,
   on a file that was all zeros: the running writer is the writer of the
   acknowledged batches bs, and recovery of the file returns exactly
     - the writer of bs, or
     - the writer of bs ++ [d], where d = fs_last is the batch of the LAST
       COMPLETE write whose fsync failed after the last success, provided no
       later short write damaged its bytes (they are then completely in the file),
   all fields.  A batch of which a short write left only the first half in the
   file is never recovered: it is leftovers like any other.  So recovery never returns an entry of a failed batch that was
   followed by another write, never a part of a batch, never a mix of two. *)
Theorem fail_recover info k0 ops :
  hdr_wf info -> fops_wf ops ->
  let st := frun info k0 ops in
  fs_ok st = true ->
  let bs' := fs_bs st ++ fs_last st in
  fs_w st = wst info (cstate info (fs_bs st)) /\
  (no_stale_commit (fs_file st) (len (image info bs')) ->
   recover_state info (fs_file st) = Some (wst info (cstate info bs'))).
Proof.
  intros Hhw Hwf st Hok bs'.
  assert (I : finv info st) by (apply finv_run; [apply finv_start|exact Hwf|exact Hok]).
  split; [apply (fi_w _ _ I)|]. apply finv_recover; assumption.
Qed.

(* the same from any state of such a run (e.g. after a recovery: the file is
   then "image, then zeros", Seg/ChainFacts.v) *)
Theorem fail_recover_from info st0 ops :
  hdr_wf info -> finv info st0 -> fops_wf ops ->
  let st := frun_from st0 ops in
  fs_ok st = true ->
  let bs' := fs_bs st ++ fs_last st in
  fs_w st = wst info (cstate info (fs_bs st)) /\
  (no_stale_commit (fs_file st) (len (image info bs')) ->
   recover_state info (fs_file st) = Some (wst info (cstate info bs'))).
Proof.
  intros Hhw I0 Hwf st Hok bs'.
  assert (I : finv info st) by (apply finv_run; assumption).
  split; [apply (fi_w _ _ I)|]. apply finv_recover; assumption.
Qed.

(* when no failed batch is complete in the file -- in particular right after an
   ACKNOWLEDGED write (fstep_ok_last), whatever failed before -- a restart is
   invisible: recovery returns the running writer itself *)
Corollary fail_recover_acked info k0 ops :
  hdr_wf info -> fops_wf ops ->
  let st := frun info k0 ops in
  fs_ok st = true -> fs_last st = [] ->
  no_stale_commit (fs_file st) (len (image info (fs_bs st))) ->
  recover_state info (fs_file st) = Some (fs_w st).
Proof.
  intros Hhw Hwf st Hok Hp Hns.
  destruct (fail_recover info k0 ops Hhw Hwf Hok) as [Ew Hr]. fold st in Ew, Hr.
  rewrite Hp in Hr. rewrite app_nil_r in Hr. rewrite Ew. apply Hr. exact Hns.
Qed.

(* an operation that succeeds leaves no candidate behind *)
Lemma fstep_ok_last st o :
  fst (fst (do_fop (fs_w st) o)) = WOk -> snd (do_fop (fs_w st) o) <> [] -> fs_last (fstep st o) = [].
Proof.
  unfold fstep. destruct (do_fop (fs_w st) o) as [[r w'] acts]. cbn [fst snd]. intros -> Hne.
  destruct (do_op (fs_w st) (fst o)) as [[r1 w1] acts1]. destruct acts; [congruence|reflexivity].
Qed.

(* a clean file -- the image of a chain followed by zeros, all of it durable,
   as Create leaves it (bs = []) and as every RecoverTail leaves it
   (RecoverFacts.seg_recover_round) -- is a state of such a run *)
Definition fclean (info : seginfo) (bs : list batch) (k : nat) : fstate :=
  {| fs_w := wst info (cstate info bs); fs_file := image info bs ++ zeros k;
     fs_sync := image info bs ++ zeros k; fs_pw := []; fs_bs := bs; fs_pend := []; fs_last := []; fs_ok := true |}.

Lemma finv_clean info bs k : chain_wf info c0 bs -> finv info (fclean info bs k).
Proof.
  intros H. constructor; cbn [fclean fs_w fs_file fs_sync fs_pw fs_bs fs_pend fs_last].
  - reflexivity.
  - exact H.
  - constructor.
  - constructor.
  - cbn. lia.
  - exists (zeros k). reflexivity.
  - exists (zeros k). reflexivity.
  - constructor.
Qed.

(* ------------------------------------------------------------------ *)
(* power loss                                                           *)
(* a torn write whose length need not be a multiple of 8 (a short write stops
   anywhere): whole chunks as torn_over, then the last partial chunk new or old *)
Inductive torn_part : bytes -> bytes -> bytes -> Prop :=
| tp_full old new T : torn_over old new T -> torn_part old new T
| tp_tail o1 n1 t1 o2 n2 t2 :
    torn_over o1 n1 t1 -> length o2 = length n2 -> (length n2 < 8)%nat -> t2 = n2 \/ t2 = o2 ->
    torn_part (o1 ++ o2) (n1 ++ n2) (t1 ++ t2).

(* the unsynced writes reach the durable image one after the other, each torn
   per 8-byte chunk over what is there (Disk.torn_apply without its collision
   clause: here the collision condition is no_stale_commit on the image) *)
Inductive torn_writes : bytes -> list (N * bytes) -> bytes -> Prop :=
| tw_nil s : torn_writes s [] s
| tw_cons s off new T r s' :
    torn_part (region s (N.to_nat off) (length new)) new T ->
    torn_writes (overwrite s (N.to_nat off) T) r s' ->
    torn_writes s ((off, new) :: r) s'.

Lemma torn_writes_prefix a pw : forall R0 T,
  Forall (fun w => fst w = len a) pw -> torn_writes (a ++ R0) pw T -> exists R', T = a ++ R'.
Proof.
  induction pw as [|[off new] r IH]; intros R0 T Hoff H.
  - inversion H; subst. exists R0. reflexivity.
  - inversion Hoff as [|? ? Ho Hr]; subst. cbn [fst] in Ho. subst off.
    inversion H as [|? ? ? T1 ? ? Ht Hrest]; subst.
    rewrite to_nat_len, overwrite_app in Hrest. eapply IH; [exact Hr|exact Hrest].
Qed.

(* all chunks / no chunk / the first k1 chunks of a write reach the disk *)
Lemma torn_over_app o1 n1 t1 o2 n2 t2 :
  torn_over o1 n1 t1 -> torn_over o2 n2 t2 -> torn_over (o1 ++ o2) (n1 ++ n2) (t1 ++ t2).
Proof.
  induction 1 as [|co cn old new T Hco Hcn _ IH|co cn old new T Hco Hcn _ IH]; intros H2; [exact H2| |];
    rewrite <- !app_assoc; [apply tov_new|apply tov_old]; auto.
Qed.

Lemma torn_over_all_new k : forall old new,
  length old = (8 * k)%nat -> length new = (8 * k)%nat -> torn_over old new new.
Proof.
  induction k as [|k IH]; intros old new Ho Hn.
  - destruct old; [|cbn in Ho; lia]. destruct new; [constructor|cbn in Hn; lia].
  - rewrite <- (firstn_skipn 8 old), <- (firstn_skipn 8 new).
    apply tov_new; [rewrite firstn_length; lia|rewrite firstn_length; lia|].
    apply IH; rewrite skipn_length; lia.
Qed.

Lemma torn_over_all_old k : forall old new,
  length old = (8 * k)%nat -> length new = (8 * k)%nat -> torn_over old new old.
Proof.
  induction k as [|k IH]; intros old new Ho Hn.
  - destruct old; [|cbn in Ho; lia]. destruct new; [constructor|cbn in Hn; lia].
  - rewrite <- (firstn_skipn 8 old), <- (firstn_skipn 8 new).
    apply tov_old; [rewrite firstn_length; lia|rewrite firstn_length; lia|].
    apply IH; rewrite skipn_length; lia.
Qed.

Lemma torn_over_first k1 k2 old new :
  length old = (8 * (k1 + k2))%nat -> length new = (8 * (k1 + k2))%nat ->
  torn_over old new (firstn (8 * k1) new ++ skipn (8 * k1) old).
Proof.
  intros Ho Hn.
  rewrite <- (firstn_skipn (8 * k1) old) at 1. rewrite <- (firstn_skipn (8 * k1) new) at 1.
  apply torn_over_app.
  - apply (torn_over_all_new k1); rewrite firstn_length; lia.
  - apply (torn_over_all_old k2); rewrite skipn_length; lia.
Qed.

Lemma tw_nil_eq s s' : s = s' -> torn_writes s [] s'.
Proof. intros ->. constructor. Qed.

Lemma finv_recover_crash info st T :
  hdr_wf info -> finv info st -> torn_writes (fs_sync st) (fs_pw st) T ->
  let s := cstate info (fs_bs st) in
  let p := len (c_img s) in
  (no_stale_commit T p -> recover_state info T = Some (wst info s)) /\
  (forall d, In d (fs_pend st) -> on_disk T p (batch_write info s d) ->
     no_stale_commit T (p + len (batch_write info s d)) ->
     recover_state info T = Some (wst info (cstate info (fs_bs st ++ [d])))).
Proof.
  intros Hhw [Iw Iwf Ipend _ _ _ (R0 & Isync) Hoffs] HT s p. fold s in Ipend, Isync, Hoffs.
  rewrite Isync in HT. destruct (torn_writes_prefix _ _ _ _ Hoffs HT) as [R' ET].
  split.
  - intros Hns. rewrite ET in Hns |- *. apply recover_behind; assumption.
  - intros d Hd Hon Hns.
    assert (Hwf' : chain_wf info c0 (fs_bs st ++ [d])).
    { apply chain_wf_snoc; [exact Iwf|]. rewrite Forall_forall in Ipend. apply Ipend. exact Hd. }
    unfold on_disk, sub, p in Hon. rewrite ET, to_nat_len, skipn_app_exact in Hon.
    assert (ER : R' = batch_write info s d ++ skipn (length (batch_write info s d)) R').
    { rewrite <- Hon at 1. symmetry. apply firstn_skipn. }
    assert (ET' : T = c_img (cstate info (fs_bs st ++ [d])) ++ skipn (length (batch_write info s d)) R').
    { rewrite cstate_snoc. fold s. cbn [cstep c_img]. rewrite <- app_assoc, <- ER. exact ET. }
    assert (Ep : p + len (batch_write info s d) = len (c_img (cstate info (fs_bs st ++ [d])))).
    { rewrite cstate_snoc. fold s. cbn [cstep c_img]. rewrite len_app. reflexivity. }
    rewrite Ep in Hns. rewrite ET' in Hns |- *. apply recover_behind; assumption.
Qed.

(* THE THEOREM (power loss).  After every such history the power fails: the
   durable image T is the image of the last successful fsync with every write
   issued since torn per 8-byte chunk.  Recovery of T returns the writer of
   the acknowledged batches bs, or of bs ++ [d] for a batch d whose write
   failed after the last successful fsync and whose bytes are COMPLETELY on
   the disk -- nothing of any batch that failed before the last successful
   fsync, no part of a batch, no mix.  (d need not be the last failed write: a
   power loss can keep an earlier unsynced write and lose a later one.) *)
Theorem fail_recover_crash info k0 ops T :
  hdr_wf info -> fops_wf ops ->
  let st := frun info k0 ops in
  fs_ok st = true -> torn_writes (fs_sync st) (fs_pw st) T ->
  let s := cstate info (fs_bs st) in
  let p := len (c_img s) in
  (no_stale_commit T p -> recover_state info T = Some (wst info s)) /\
  (forall d, In d (fs_pend st) -> on_disk T p (batch_write info s d) ->
     no_stale_commit T (p + len (batch_write info s d)) ->
     recover_state info T = Some (wst info (cstate info (fs_bs st ++ [d])))).
Proof.
  intros Hhw Hwf st Hok HT.
  apply finv_recover_crash; [exact Hhw| |exact HT].
  apply finv_run; [apply finv_start|exact Hwf|exact Hok].
Qed.

Theorem fail_recover_crash_from info st0 ops T :
  hdr_wf info -> finv info st0 -> fops_wf ops ->
  let st := frun_from st0 ops in
  fs_ok st = true -> torn_writes (fs_sync st) (fs_pw st) T ->
  let s := cstate info (fs_bs st) in
  let p := len (c_img s) in
  (no_stale_commit T p -> recover_state info T = Some (wst info s)) /\
  (forall d, In d (fs_pend st) -> on_disk T p (batch_write info s d) ->
     no_stale_commit T (p + len (batch_write info s d)) ->
     recover_state info T = Some (wst info (cstate info (fs_bs st ++ [d])))).
Proof.
  intros Hhw I0 Hwf st Hok HT.
  apply finv_recover_crash; [exact Hhw| |exact HT]. apply finv_run; assumption.
Qed.

(* one decidable hypothesis, one conclusion by cases *)
Definition crash_okb (info : seginfo) (st : fstate) (T : bytes) : bool :=
  let s := cstate info (fs_bs st) in
  let p := len (c_img s) in
  no_stale_commitb T p ||
  existsb (fun d => on_diskb T p (batch_write info s d) &&
                    no_stale_commitb T (p + len (batch_write info s d))) (fs_pend st).

Corollary fail_recover_crash_cases info k0 ops T :
  hdr_wf info -> fops_wf ops ->
  let st := frun info k0 ops in
  fs_ok st = true -> torn_writes (fs_sync st) (fs_pw st) T ->
  crash_okb info st T = true ->
  recover_state info T = Some (wst info (cstate info (fs_bs st))) \/
  exists d, In d (fs_pend st) /\
            on_disk T (len (image info (fs_bs st))) (batch_write info (cstate info (fs_bs st)) d) /\
            recover_state info T = Some (wst info (cstate info (fs_bs st ++ [d]))).
Proof.
  intros Hhw Hwf st Hok HT Hc.
  destruct (fail_recover_crash info k0 ops T Hhw Hwf Hok HT) as [H1 H2]. fold st in H1, H2.
  unfold crash_okb in Hc. apply orb_true_iff in Hc as [Hc|Hc].
  - left. apply H1. apply no_stale_commitb_spec. exact Hc.
  - right. apply existsb_exists in Hc as (d & Hd & Hc). apply andb_true_iff in Hc as [Hon Hns].
    exists d. split; [exact Hd|]. apply on_diskb_spec in Hon. split; [exact Hon|].
    apply H2; [exact Hd|exact Hon|]. apply no_stale_commitb_spec. exact Hns.
Qed.

(* a write that is completely on the disk is found by recovery: the first case
   of the theorem and the second exclude each other *)
Lemma on_disk_commit_verifies info st T d :
  hdr_wf info -> finv info st -> torn_writes (fs_sync st) (fs_pw st) T ->
  In d (fs_pend st) ->
  on_disk T (len (image info (fs_bs st))) (batch_write info (cstate info (fs_bs st)) d) ->
  no_stale_commit T (len (image info (fs_bs st)) + len (batch_write info (cstate info (fs_bs st)) d)) ->
  ~ no_stale_commit T (len (image info (fs_bs st))).
Proof.
  intros Hhw I HT Hd Hon Hns Hns0.
  destruct (finv_recover_crash info st T Hhw I HT) as [H1 H2].
  specialize (H1 Hns0). specialize (H2 d Hd Hon Hns). rewrite H1 in H2.
  apply (f_equal (fun o => match o with Some w => w_off w | None => 0 end)) in H2.
  rewrite cstate_snoc in H2. cbn [wst w_off cstep c_img] in H2. rewrite len_app in H2.
  pose proof (len_batch_write info (cstate info (fs_bs st)) d). lia.
Qed.

(* ------------------------------------------------------------------ *)
(* the history of the finding, and the refutation of the old algorithm  *)
(* batch 1 = [e1] succeeds; a = [a2; a3; a4] -- fsync fails; b = [b2; b3] --
   fsync fails; c = [c2] succeeds.  Sizes (payload bytes): a 16,16,8; b 16,8;
   c 8: c's commit frame ends where b's second frame begins, and b's commit
   frame ends where a's third frame begins, so behind the commit of c lie
   [b3][commit b][a4][commit a], all on frame boundaries. *)
Definition fx_info : seginfo :=
  {| si_id := 7; si_base := 1; si_min := 1; si_max := 0; si_codec := 1;
     si_index_start := 0; si_sealed := false; si_size_limit := 4096 |}.
Definition fx_e1 : bytes := [1; 1; 1; 1; 1; 1; 1; 1].
Definition fx_a2 : bytes := repeat 162 16.
Definition fx_a3 : bytes := repeat 163 16.
Definition fx_a4 : bytes := repeat 164 8.
Definition fx_b2 : bytes := repeat 178 16.
Definition fx_b3 : bytes := repeat 179 8.
Definition fx_c2 : bytes := repeat 194 8.
Definition fx_ops : list fop :=
  [ (OpAppend [(1, fx_e1)], FNone);
    (OpAppend [(2, fx_a2); (3, fx_a3); (4, fx_a4)], FSync);
    (OpAppend [(2, fx_b2); (3, fx_b3)], FSync);
    (OpAppend [(2, fx_c2)], FNone) ].
Definition fx_st : fstate := frun fx_info 256 fx_ops.

Lemma fx_hyps : hdr_wf fx_info /\ fops_wf fx_ops.
Proof.
  split; [unfold hdr_wf; repeat split; reflexivity|].
  unfold fops_wf, fx_ops.
  repeat (apply Forall_cons; [cbn [fst op_wf]; repeat (apply Forall_cons; [apply wf_bytesb_spec; reflexivity|]); apply Forall_nil|]).
  apply Forall_nil.
Qed.

(* the hypotheses of fail_recover hold, the acknowledged batches are 1 and c,
   nothing is pending, and the new recovery returns exactly the running writer
   (2 entries: e1, c2) *)
Lemma fx_new :
  fs_ok fx_st = true /\
  fs_bs fx_st = [([fx_e1], false); ([fx_c2], false)] /\ fs_pend fx_st = [] /\ fs_last fx_st = [] /\
  no_stale_commitb (fs_file fx_st) (len (image fx_info (fs_bs fx_st))) = true /\
  recover_state fx_info (fs_file fx_st) = Some (fs_w fx_st) /\
  length (w_offsets (fs_w fx_st)) = 2%nat /\
  tail_get (fs_w fx_st) (fs_file fx_st) 2 = ROk fx_c2 /\
  tail_get (fs_w fx_st) (fs_file fx_st) 3 = RNotFound.
Proof. vm_compute. repeat split; reflexivity. Qed.

(* THE DEFECT.  On the same file the algorithm before the repair returns a
   writer with 3 entries whose third entry is b3 -- the second entry of batch
   b, a batch that failed, was rolled back and was overwritten by c. *)
Lemma recover_old_refuted :
  exists w, recover_state_old fx_info (fs_file fx_st) = Some w /\
            length (w_offsets w) = 3%nat /\ w_commit_idx w = 3 /\
            tail_get w (fs_file fx_st) 2 = ROk fx_c2 /\
            tail_get w (fs_file fx_st) 3 = ROk fx_b3 /\
            recover_state_old fx_info (fs_file fx_st) <> recover_state fx_info (fs_file fx_st).
Proof.
  eexists. split; [vm_compute; reflexivity|]. vm_compute. repeat split; try reflexivity. discriminate.
Qed.

(* power loss after the two failed fsyncs (history 1, a, b; nothing of a or b is
   durable).  Three durable images:
     T_b    both writes complete           -> recovery returns 1, b (the last failed write)
     T_a    a complete, nothing of b       -> recovery returns 1, a (an earlier unsynced write, whole)
     T_mix  b's first two chunks over a    -> recovery returns 1 only: no mix of a and b *)
Definition fx_st3 : fstate := frun fx_info 256 (firstn 3 fx_ops).
Definition fx_p : N := len (image fx_info (fs_bs fx_st3)).
Definition fx_wa : bytes := match fs_pw fx_st3 with (_, w) :: _ => w | _ => [] end.
Definition fx_wb : bytes := match fs_pw fx_st3 with _ :: (_, w) :: _ => w | _ => [] end.
Definition fx_T_b : bytes := fs_file fx_st3.
Definition fx_T_a : bytes := overwrite (fs_sync fx_st3) (N.to_nat fx_p) fx_wa.
Definition fx_T_mix : bytes := overwrite fx_T_a (N.to_nat fx_p) (firstn 16 fx_wb).

Lemma fx_crash_values :
  fs_ok fx_st3 = true /\ fs_bs fx_st3 = [([fx_e1], false)] /\
  fs_pend fx_st3 = [([fx_a2; fx_a3; fx_a4], false); ([fx_b2; fx_b3], false)] /\
  crash_okb fx_info fx_st3 fx_T_b = true /\ crash_okb fx_info fx_st3 fx_T_a = true /\
  crash_okb fx_info fx_st3 fx_T_mix = true /\
  recover_state fx_info fx_T_b = Some (wst fx_info (cstate fx_info [([fx_e1], false); ([fx_b2; fx_b3], false)])) /\
  recover_state fx_info fx_T_a = Some (wst fx_info (cstate fx_info [([fx_e1], false); ([fx_a2; fx_a3; fx_a4], false)])) /\
  recover_state fx_info fx_T_mix = Some (wst fx_info (cstate fx_info [([fx_e1], false)])).
Proof. vm_compute. repeat split; reflexivity. Qed.

(* ... and they are images a power loss can leave *)
Lemma fx_crash_torn :
  torn_writes (fs_sync fx_st3) (fs_pw fx_st3) fx_T_b /\
  torn_writes (fs_sync fx_st3) (fs_pw fx_st3) fx_T_a /\
  torn_writes (fs_sync fx_st3) (fs_pw fx_st3) fx_T_mix.
Proof.
  assert (Epw : fs_pw fx_st3 = [(fx_p, fx_wa); (fx_p, fx_wb)]) by (vm_compute; reflexivity).
  rewrite Epw. split; [|split].
  - eapply tw_cons; [apply tp_full, (torn_over_all_new 9); reflexivity|].
    eapply tw_cons; [apply tp_full, (torn_over_all_new 6); reflexivity|].
    apply tw_nil_eq. vm_compute. reflexivity.
  - eapply tw_cons; [apply tp_full, (torn_over_all_new 9); reflexivity|].
    eapply tw_cons; [apply tp_full, (torn_over_all_old 6); reflexivity|].
    apply tw_nil_eq. vm_compute. reflexivity.
  - eapply tw_cons; [apply tp_full, (torn_over_all_new 9); reflexivity|].
    eapply tw_cons; [apply tp_full, (torn_over_first 2 4); reflexivity|].
    apply tw_nil_eq. vm_compute. reflexivity.
Qed.

(* SHORT WRITES.  History 1, a (fsync fails: complete in the file), then
     fx_ops_pb   b fails with a short write: its first half (24 of 48 bytes = the
                 frame of b2) replaces the frame of a2: a is no longer complete,
                 nothing of b can be; recovery returns 1 alone;
     fx_ops_pa   the retry of a itself fails with a short write: the half written
                 equals what is there, a is still complete; recovery returns 1, a;
     fx_ops_pc   after the short write of b, c succeeds over it: recovery returns
                 1, c -- the running writer. *)
Definition fx_ops_pb : list fop := firstn 2 fx_ops ++ [(OpAppend [(2, fx_b2); (3, fx_b3)], FWriteShort)].
Definition fx_ops_pa : list fop := firstn 2 fx_ops ++ [(OpAppend [(2, fx_a2); (3, fx_a3); (4, fx_a4)], FWriteShort)].
Definition fx_ops_pc : list fop := fx_ops_pb ++ [(OpAppend [(2, fx_c2)], FNone)].

Lemma fx_short_hyps : fops_wf fx_ops_pb /\ fops_wf fx_ops_pa /\ fops_wf fx_ops_pc.
Proof.
  unfold fops_wf, fx_ops_pb, fx_ops_pa, fx_ops_pc, fx_ops. cbn [firstn app].
  repeat split;
    repeat (apply Forall_cons; [cbn [fst op_wf]; repeat (apply Forall_cons; [apply wf_bytesb_spec; reflexivity|]); apply Forall_nil|]);
    apply Forall_nil.
Qed.

Lemma fx_short :
  let sb := frun fx_info 256 fx_ops_pb in
  let sa := frun fx_info 256 fx_ops_pa in
  let sc := frun fx_info 256 fx_ops_pc in
  (fs_ok sb, fs_bs sb, fs_pend sb, fs_last sb) =
    (true, [([fx_e1], false)], [([fx_a2; fx_a3; fx_a4], false)], []) /\
  length (fs_pw sb) = 2%nat /\
  no_stale_commitb (fs_file sb) (len (image fx_info (fs_bs sb))) = true /\
  recover_state fx_info (fs_file sb) = Some (fs_w sb) /\
  (fs_ok sa, fs_bs sa, fs_last sa) = (true, [([fx_e1], false)], [([fx_a2; fx_a3; fx_a4], false)]) /\
  no_stale_commitb (fs_file sa) (len (image fx_info (fs_bs sa ++ fs_last sa))) = true /\
  recover_state fx_info (fs_file sa) = Some (wst fx_info (cstate fx_info (fs_bs sa ++ fs_last sa))) /\
  (fs_ok sc, fs_bs sc, fs_last sc) = (true, [([fx_e1], false); ([fx_c2], false)], []) /\
  no_stale_commitb (fs_file sc) (len (image fx_info (fs_bs sc))) = true /\
  recover_state fx_info (fs_file sc) = Some (fs_w sc).
Proof. vm_compute. repeat split; reflexivity. Qed.
