(* ReaderFacts.v -- readers get back what the writer committed (C15), and
   read_frame's allocation is bounded whatever the file holds (C11). *)
From RW Require Import Base.Bytes Base.BytesFacts Base.Crc32c Fmt.Frame Fmt.FrameFacts
     Seg.Writer Seg.Recover Seg.Reader Seg.SegAbs Seg.WriterFacts Seg.ScanFacts Gen.Constants.
From Coq Require Import ZifyN ZifyNat ZifyBool.
Open Scope N_scope.

(* ---------------- read_frame on a well-formed entry frame ---------------- *)
(* any payload length up to MaxEntrySize: one read when the frame fits in the
   64 KiB first read, otherwise the second, exact-size read *)
Lemma firstn_entry_frame M p r : (8 + length p <= M)%nat ->
  exists t, firstn M (enc_frame FrameEntry p ++ r) = frame_header FrameEntry (len p) ++ p ++ t.
Proof.
  intros HMp. unfold enc_frame. rewrite <- !app_assoc.
  rewrite (firstn_app_ge M (frame_header FrameEntry (len p))) by (rewrite frame_header_length; lia).
  rewrite frame_header_length.
  rewrite (firstn_app_ge (M - 8) p) by lia. eexists. reflexivity.
Qed.

Lemma first_read_fits (M : nat) (p x buf : bytes) :
  N.of_nat M = 65536 -> len buf = N.min 65536 (len x) -> 8 + len p <= len buf -> (8 + length p <= M)%nat.
Proof. intros HM Lbuf E1. unfold len in *. lia. Qed.

Lemma read_frame_entry a p r :
  len p <= MaxEntrySize ->
  fst (read_frame (a ++ enc_frame FrameEntry p ++ r) (len a)) = ROk p.
Proof.
  intros Hp. unfold read_frame. rewrite read_at_app.
  remember (N.to_nat min_buf_size) as M eqn:EM.
  assert (HM : N.of_nat M = 65536) by (unfold min_buf_size in EM; lia). clear EM.
  remember (enc_frame FrameEntry p ++ r) as x eqn:Ex.
  remember (firstn M x) as buf eqn:Eb.
  assert (Lx : 8 <= len x) by (rewrite Ex, len_app, len_enc_frame; unfold enc_frame_size; lia).
  assert (Lbuf : len buf = N.min 65536 (len x)).
  { rewrite Eb. unfold len. rewrite firstn_length. lia. }
  assert (L8 : 8 <= len buf) by lia.
  replace (len buf <? 8) with false by (symmetry; apply N.ltb_ge; exact L8).
  assert (Eh : read_frame_header buf = FH FrameEntry (len p)).
  { rewrite <- read_frame_header_firstn8 by exact L8. rewrite Eb, firstn_firstn.
    replace (Nat.min 8 M) with 8%nat by lia.
    rewrite Ex. unfold enc_frame. rewrite <- !app_assoc.
    change 8%nat with (length (frame_header FrameEntry (len p))). rewrite firstn_app_exact.
    rewrite <- (app_nil_r (frame_header _ _)). apply read_frame_header_hdr; [auto|].
    unfold MaxEntrySize, two32 in *. lia. }
  rewrite Eh. unfold fh_len. replace (FrameEntry =? FrameCommit) with false by reflexivity.
  destruct (8 + len p <=? len buf) eqn:E1.
  - apply N.leb_le in E1. cbn [fst]. f_equal.
    pose proof (first_read_fits M p x buf HM Lbuf E1) as HMp.
    destruct (firstn_entry_frame M p r HMp) as [t Et]. rewrite <- Ex, <- Eb in Et.
    rewrite Et. unfold sub.
    change 8%nat with (length (frame_header FrameEntry (len p))). rewrite skipn_app_exact.
    rewrite to_nat_len. apply firstn_app_exact.
  - replace (MaxEntrySize <? len p) with false by (symmetry; apply N.ltb_ge; exact Hp).
    rewrite Ex. unfold enc_frame. rewrite <- !app_assoc.
    replace (len a + 8) with (len (a ++ frame_header FrameEntry (len p))) by (rewrite len_app; reflexivity).
    rewrite (app_assoc a). rewrite read_at_app. rewrite to_nat_len, firstn_app_exact.
    rewrite N.ltb_irrefl. reflexivity.
Qed.

(* ---------------- allocation (C11) ---------------- *)
(* the only allocation beyond the pooled 64 KiB buffer is the second read: at
   most MaxEntrySize bytes, and only when the frame does not fit into what the
   first read returned *)
Theorem read_frame_alloc_bound f off :
  let buf := read_at f off min_buf_size in
  let alloc := snd (read_frame f off) in
  alloc <= MaxEntrySize /\ (alloc <> 0 -> len buf < 8 + alloc).
Proof.
  cbn zeta. unfold read_frame.
  destruct (len (read_at f off min_buf_size) <? 8); [cbn; split; [unfold MaxEntrySize|]; lia|].
  destruct (read_frame_header (read_at f off min_buf_size)) as [typ v| | |];
    try (cbn; split; [unfold MaxEntrySize|]; lia).
  destruct (8 + fh_len typ v <=? len (read_at f off min_buf_size)) eqn:E1;
    [cbn; split; [unfold MaxEntrySize|]; lia|].
  apply N.leb_gt in E1.
  destruct (MaxEntrySize <? fh_len typ v) eqn:E2; [cbn; split; [unfold MaxEntrySize|]; lia|].
  apply N.ltb_ge in E2.
  destruct (len (read_at f (off + 8) (fh_len typ v)) <? fh_len typ v); cbn [snd]; split; lia.
Qed.

(* ---------------- Filer.Open of a sealed segment ---------------- *)
Lemma open_sealed_short info f : len f < 32 -> open_sealed info f = false.
Proof. intros H. unfold open_sealed. replace (len f <? 32) with true; [reflexivity|]. symmetry. apply N.ltb_lt. exact H. Qed.

Lemma open_sealed_bad_magic info f : rd64 f <> magic -> open_sealed info f = false.
Proof.
  intros H. unfold open_sealed. destruct (len f <? 32) eqn:E; [reflexivity|]. apply N.ltb_ge in E.
  unfold read_file_header.
  assert (R : rd64 (firstn 32 f) = rd64 f).
  { unfold len in E. do 8 (destruct f as [|? f]; [cbn [length] in E; lia|]). reflexivity. }
  rewrite R. destruct (len (firstn 32 f) <? file_header_len); [reflexivity|].
  replace (rd64 f =? magic) with false by (symmetry; apply N.eqb_neq; exact H). reflexivity.
Qed.

(* a damaged magic or version byte changes the 64-bit word the reader compares *)
Lemma open_sealed_header_mismatch info f b i c :
  open_sealed info f = true -> read_file_header (firstn 32 f) = Some (b, i, c) ->
  b = si_base info /\ i = si_id info /\ c = si_codec info.
Proof.
  intros H E. unfold open_sealed in H. destruct (len f <? 32); [discriminate|].
  rewrite E in H. unfold validate_file_header in H.
  apply andb_true_iff in H as [H H3]. apply andb_true_iff in H as [H1 H2].
  apply N.eqb_eq in H1, H2, H3. auto.
Qed.

Theorem open_detects_bad_sealed info f :
  open_sealed info f = true ->
  32 <= len f /\ rd64 f = magic /\
  rd64 (skipn 8 f) = si_base info /\ rd64 (skipn 16 f) = si_id info /\ rd64 (skipn 24 f) = si_codec info.
Proof.
  intros H.
  assert (L : 32 <= len f).
  { destruct (N.lt_ge_cases (len f) 32) as [Hl|Hl]; [|exact Hl]. rewrite open_sealed_short in H by exact Hl. discriminate. }
  assert (Hm : rd64 f = magic).
  { destruct (N.eq_dec (rd64 f) magic) as [E|E]; [exact E|]. rewrite open_sealed_bad_magic in H by exact E. discriminate. }
  split; [exact L|]. split; [exact Hm|].
  assert (R : forall n, (n <= 24)%nat -> rd64 (skipn n (firstn 32 f)) = rd64 (skipn n f)).
  { intros n Hn. unfold len in L.
    do 32 (destruct f as [|? f]; [cbn [length] in L; lia|]).
    do 25 (destruct n as [|n]; [reflexivity|]). lia. }
  destruct (read_file_header (firstn 32 f)) as [[[b i] c]|] eqn:E.
  - destruct (open_sealed_header_mismatch info f b i c H E) as (-> & -> & ->).
    unfold read_file_header in E.
    destruct (len (firstn 32 f) <? file_header_len); [discriminate|].
    destruct (negb (rd64 (firstn 32 f) =? magic)); [discriminate|].
    inversion E as [[E1 E2 E3]]. rewrite <- !R by lia. auto.
  - unfold open_sealed in H. destruct (len f <? 32); [discriminate|]. rewrite E in H. discriminate.
Qed.

(* ---------------- where the entries are in the image ---------------- *)
Definition payloads (bs : list batch) : list bytes := flat_map fst bs.

Lemma payloads_snoc bs b : payloads (bs ++ [b]) = payloads bs ++ fst b.
Proof. unfold payloads. rewrite flat_map_app. cbn. rewrite app_nil_r. reflexivity. Qed.

Lemma entries_nth ps : forall pos j off p,
  nth_error (entry_offsets pos ps) j = Some off -> nth_error ps j = Some p ->
  exists a' r', entries_bytes ps = a' ++ enc_frame FrameEntry p ++ r' /\ pos + len a' = off.
Proof.
  induction ps as [|q ps IH]; intros pos j off p Ho Hp; [destruct j; discriminate|].
  destruct j as [|j]; cbn [entry_offsets nth_error] in Ho, Hp.
  - inversion Ho; inversion Hp; subst. exists [], (entries_bytes ps). split; [reflexivity|]. cbn. lia.
  - destruct (IH _ _ _ _ Ho Hp) as (a' & r' & E & L).
    exists (enc_frame FrameEntry q ++ a'), r'. split.
    + unfold entries_bytes in *. cbn [flat_map]. rewrite E, <- app_assoc. reflexivity.
    + rewrite len_app, len_enc_frame. lia.
Qed.

Lemma c_offs_length info bs : length (c_offs (cstate info bs)) = length (payloads bs).
Proof.
  induction bs as [|b bs IH] using rev_ind; [reflexivity|].
  rewrite cstate_snoc, payloads_snoc. cbn [cstep c_offs]. unfold c_offs'.
  rewrite !app_length, entry_offsets_length, IH. reflexivity.
Qed.

Lemma image_entry info bs : forall i off p,
  nth_error (c_offs (cstate info bs)) i = Some off -> nth_error (payloads bs) i = Some p ->
  exists a r, image info bs = a ++ enc_frame FrameEntry p ++ r /\ len a = off.
Proof.
  unfold image. induction bs as [|b bs IH] using rev_ind; intros i off p Ho Hp; [destruct i; discriminate|].
  rewrite cstate_snoc in *. rewrite payloads_snoc in Hp. cbn [cstep c_offs c_img] in *.
  unfold c_offs' in Ho. pose proof (c_offs_length info bs) as L.
  destruct (Nat.lt_ge_cases i (length (payloads bs))) as [Hi|Hi].
  - rewrite nth_error_app1 in Ho by lia. rewrite nth_error_app1 in Hp by lia.
    destruct (IH _ _ _ Ho Hp) as (a & r & E & La).
    exists a, (r ++ batch_write info (cstate info bs) b). split; [|exact La].
    rewrite E, <- !app_assoc. reflexivity.
  - rewrite nth_error_app2 in Ho by lia. rewrite nth_error_app2 in Hp by lia. rewrite L in Ho.
    destruct (entries_nth _ _ _ _ _ Ho Hp) as (a' & r' & E & La).
    set (s := cstate info bs) in *.
    exists (c_img s ++ c_pend info s ++ a'). eexists. split.
    + unfold batch_write, batch_body. rewrite E, <- !app_assoc. reflexivity.
    + rewrite !len_app. unfold c_pos in La. lia.
Qed.

Lemma index_payload_nth offs : forall i o,
  nth_error offs i = Some o ->
  exists x y, index_payload offs = x ++ le32 o ++ y /\ len x = 4 * N.of_nat i.
Proof.
  induction offs as [|q offs IH]; intros i o H; [destruct i; discriminate|].
  destruct i as [|i]; cbn [nth_error] in H.
  - inversion H; subst. exists [], (index_payload offs). split; reflexivity.
  - destruct (IH _ _ H) as (x & y & E & L). exists (le32 q ++ x), y. split.
    + unfold index_payload in *. cbn [flat_map]. rewrite E, <- app_assoc. reflexivity.
    + rewrite len_app, len_le32, L. lia.
Qed.

Lemma image_index info bs :
  c_istart (cstate info bs) <> 0 ->
  exists a r, image info bs = a ++ index_payload (c_offs (cstate info bs)) ++ r /\
              len a = c_istart (cstate info bs).
Proof.
  unfold image. destruct bs as [|b bs] using rev_ind; [cbn; congruence|]. clear IHbs.
  rewrite cstate_snoc. set (s := cstate info bs). cbn [cstep c_istart c_offs c_img].
  destruct (snd b) eqn:Eb; [|congruence]. intros _.
  exists (c_img s ++ c_pend info s ++ entries_bytes (fst b) ++ frame_header FrameIndex (4 * len (c_offs' info s b))).
  eexists. split.
  - unfold batch_write, batch_body. rewrite Eb. unfold index_frame. rewrite <- !app_assoc. reflexivity.
  - rewrite !len_app, len_frame_header. unfold c_pos. lia.
Qed.

(* ---------------- what the writer accepts ---------------- *)
Lemma too_big_false es : too_big es = false -> Forall (fun e => len (snd e) <= MaxEntrySize) es.
Proof.
  unfold too_big. induction es as [|e r IH]; intros H; [constructor|].
  cbn [existsb] in H. apply orb_false_iff in H as [H1 H2]. constructor; [|auto].
  apply N.ltb_ge in H1. exact H1.
Qed.

Lemma append_ok_not_too_big w es f w' acts :
  append w es f = (WOk, w', acts) -> too_big es = false.
Proof.
  unfold append. destruct es as [|e r]; [reflexivity|]. intros H.
  destruct (0 <? w_index_start w); [discriminate|].
  destruct (too_big (e :: r)); [discriminate|reflexivity].
Qed.

Lemma wrun_payload_bound ops : forall w w' acts bs,
  wrun w ops = Some (w', acts, bs) -> Forall (fun p => len p <= MaxEntrySize) (payloads bs).
Proof.
  induction ops as [|op r IH]; intros w w' acts bs H.
  - cbn in H. inversion H; subst. constructor.
  - cbn [wrun] in H. destruct (do_op w op) as [[res w1] acts0] eqn:Eop. destruct res; try discriminate.
    destruct (wrun w1 r) as [[[w2 acts2] bs2]|] eqn:E; [|discriminate].
    inversion H; subst. unfold payloads. rewrite flat_map_app. apply Forall_app; split; [|eapply IH; eassumption].
    destruct op as [es|]; cbn [op_batch do_op] in *.
    + destruct es as [|e0 r0]; [constructor|]. cbn [flat_map fst]. rewrite app_nil_r.
      apply append_ok_not_too_big in Eop. apply too_big_false in Eop.
      rewrite Forall_map. exact Eop.
    + destruct (sealed w); constructor.
Qed.

(* C15, tail form: every entry of every acknowledged batch is returned by the
   tail reader from the file obtained by applying the writer's actions to any
   initial content -- any payload length the writer accepted, any position in
   its batch, any size limit (also when the append sealed the segment) *)
Theorem accepted_is_readable_tail info ops w acts bs f0 i p :
  wrun (init_empty info) ops = Some (w, acts, bs) -> len (image info bs) < two32 ->
  si_min info <= si_base info ->
  nth_error (payloads bs) i = Some p ->
  tail_get w (apply_wactions f0 acts) (si_base info + N.of_nat i) = ROk p.
Proof.
  intros Hrun Hlen Hmin Hp.
  destruct (wrun_image info ops w acts bs Hrun Hlen) as (Ew & Hc & Ei).
  pose proof (wrun_payload_bound _ _ _ _ _ Hrun) as Hb.
  rewrite apply_wactions_from0 by exact Hc. rewrite Ei.
  set (s := cstate info bs) in *.
  assert (Hi : (i < length (c_offs s))%nat).
  { unfold s. rewrite c_offs_length. apply nth_error_Some. congruence. }
  destruct (nth_error (c_offs s) i) as [off|] eqn:Eo; [|apply nth_error_None in Eo; lia].
  destruct (image_entry info bs i off p Eo Hp) as (a & r & E & La).
  assert (Hpl : len p <= MaxEntrySize).
  { rewrite Forall_forall in Hb. apply Hb. eapply nth_error_In. exact Hp. }
  unfold tail_get, tail_offset. subst w. cbn [wst w_info w_commit_idx w_offsets].
  unfold commit_idx_of. cbn [w_offsets w_info].
  destruct (c_offs s) as [|o0 or0] eqn:Ec; [cbn in Hi; lia|]. rewrite <- Ec in *.
  replace (si_base info + N.of_nat i <? si_base info) with false by (symmetry; apply N.ltb_ge; lia).
  replace (si_base info + N.of_nat i <? si_min info) with false by (symmetry; apply N.ltb_ge; lia).
  replace (si_base info + len (c_offs s) - 1 <? si_base info + N.of_nat i) with false
    by (symmetry; apply N.ltb_ge; unfold len; lia).
  cbn [orb]. replace (N.to_nat (si_base info + N.of_nat i - si_base info)) with i by lia.
  rewrite Eo. rewrite E, <- !app_assoc, <- La. apply read_frame_entry. exact Hpl.
Qed.

(* C15, sealed form: after the segment is sealed (by size or by force_seal) the
   sealed reader, given the index start the writer reports, returns it too *)
Theorem accepted_is_readable_sealed info ops w acts bs f0 i p info' :
  wrun (init_empty info) ops = Some (w, acts, bs) -> len (image info bs) < two32 ->
  sealed w = true ->
  si_base info' = si_base info -> si_index_start info' = w_index_start w ->
  si_min info' <= si_base info + N.of_nat i ->
  (si_max info' = 0 \/ si_base info + N.of_nat i <= si_max info') ->
  nth_error (payloads bs) i = Some p ->
  sealed_get info' (apply_wactions f0 acts) (si_base info + N.of_nat i) = ROk p.
Proof.
  intros Hrun Hlen Hs Hbase His Hmin Hmax Hp.
  destruct (wrun_image info ops w acts bs Hrun Hlen) as (Ew & Hc & Ei).
  pose proof (wrun_payload_bound _ _ _ _ _ Hrun) as Hb.
  rewrite apply_wactions_from0 by exact Hc. rewrite Ei.
  set (s := cstate info bs) in *.
  assert (Hi : (i < length (c_offs s))%nat).
  { unfold s. rewrite c_offs_length. apply nth_error_Some. congruence. }
  destruct (nth_error (c_offs s) i) as [off|] eqn:Eo; [|apply nth_error_None in Eo; lia].
  destruct (image_entry info bs i off p Eo Hp) as (a & r & E & La).
  assert (Hpl : len p <= MaxEntrySize).
  { rewrite Forall_forall in Hb. apply Hb. eapply nth_error_In. exact Hp. }
  subst w. unfold sealed in Hs. cbn [wst w_index_start] in Hs, His. apply N.ltb_lt in Hs.
  destruct (image_index info bs ltac:(fold s; lia)) as (ia & ir & Eidx & Lia). fold s in Eidx, Lia.
  destruct (index_payload_nth _ _ _ Eo) as (x & y & Ex & Lx).
  assert (Hoff : off < two32).
  { rewrite <- La. rewrite E in Hlen. rewrite !len_app in Hlen. lia. }
  assert (Hist : c_istart s + 4 * N.of_nat i + 4 <= len (image info bs)).
  { rewrite Eidx, Ex, !len_app, len_le32. lia. }
  unfold sealed_get. rewrite His, Hbase.
  replace (c_istart s =? 0) with false by (symmetry; apply N.eqb_neq; lia).
  replace (si_base info + N.of_nat i <? si_min info') with false by (symmetry; apply N.ltb_ge; lia).
  replace ((0 <? si_max info') && (si_max info' <? si_base info + N.of_nat i)) with false.
  2:{ symmetry. apply andb_false_iff. destruct Hmax as [Hm|Hm]; [left; rewrite Hm; reflexivity|right; apply N.ltb_ge; exact Hm]. }
  cbn [orb].
  replace (si_base info + N.of_nat i - si_base info) with (N.of_nat i) by lia.
  replace ((c_istart s + N.of_nat i mod two64 * 4) mod two64) with (len (ia ++ x)).
  2:{ rewrite len_app, Lia, Lx. unfold two32, two64 in *. lia. }
  assert (Ef : image info bs ++ skipn (length (image info bs)) f0 =
               (ia ++ x) ++ le32 off ++ (y ++ ir ++ skipn (length (image info bs)) f0)).
  { rewrite Eidx, Ex, <- !app_assoc. reflexivity. }
  assert (Eread : read_at (image info bs ++ skipn (length (image info bs)) f0) (len (ia ++ x)) 4 = le32 off).
  { rewrite Ef. rewrite read_at_app. change (N.to_nat 4) with (length (le32 off)). apply firstn_app_exact. }
  rewrite Eread.
  replace (len (le32 off) <? 4) with false by reflexivity.
  rewrite rd32_le32 by (unfold two32 in Hoff; exact Hoff).
  rewrite E, <- !app_assoc, <- La. apply read_frame_entry. exact Hpl.
Qed.

(* an entry the reader could not read back is refused, and nothing changes *)
Theorem too_big_refused w es f :
  too_big es = true ->
  exists r, append w es f = (r, w, []) /\ (r = WErrTooBig \/ r = WErrSealed) /\
            (w_index_start w = 0 -> r = WErrTooBig).
Proof.
  intros H. unfold append. destruct es as [|e r]; [discriminate|].
  destruct (0 <? w_index_start w) eqn:E.
  - exists WErrSealed. repeat split; auto. intros Hz. rewrite Hz in E. discriminate.
  - rewrite H. exists WErrTooBig. repeat split; auto.
Qed.

(* no size up to MaxEntrySize is refused: an unsealed writer accepts every batch
   of consecutive indexes whose entries are all <= MaxEntrySize *)
Theorem up_to_max_accepted w es :
  w_index_start w = 0 -> idx_ok (si_base (w_info w) + len (w_offsets w)) es ->
  Forall (fun e => len (snd e) <= MaxEntrySize) es ->
  exists w' acts, append w es FNone = (WOk, w', acts).
Proof.
  intros Hz Hi Hb. unfold append. destruct es as [|e r] eqn:Ees; [eexists; eexists; reflexivity|].
  rewrite <- Ees in *. rewrite Hz. cbn [N.ltb N.compare].
  assert (Hnb : too_big es = false).
  { unfold too_big. clear -Hb. induction Hb as [|x l Hx _ IH]; [reflexivity|].
    cbn [existsb]. rewrite IH. replace (MaxEntrySize <? len (snd x)) with false; [reflexivity|].
    symmetry. apply N.ltb_ge. exact Hx. }
  rewrite Hnb. destruct (append_entries_ok es w Hi) as [w1 Hw1]. rewrite Hw1.
  destruct (append_entries_char _ _ _ Hw1) as [_ Ew1].
  assert (Hnn : w_offsets w1 <> []).
  { rewrite Ew1. cbn [set_buf w_offsets]. rewrite Ees. cbn [map entry_offsets].
    intros H. apply app_eq_nil in H as [_ H]. discriminate. }
  destruct (needs_seal w1).
  - unfold append_index. destruct (w_offsets w1); [congruence|]. unfold append_commit.
    eexists; eexists; reflexivity.
  - unfold append_commit. eexists; eexists; reflexivity.
Qed.
