(* RecoverFacts.v -- the L1 recovery law: recover_state on a file that holds n
   committed batches followed by a torn image of one more batch returns exactly
   the writer state after n (torn) or n+1 (complete) batches; zeroStaleTail
   re-establishes the "zeros behind the write offset" shape, so the law holds
   over chains of crash / recover / append rounds. *)
From RW Require Import Base.Bytes Base.BytesFacts Base.Crc32c Base.Crc32cFacts Fmt.Frame Fmt.FrameFacts
     Seg.Writer Seg.Recover Seg.SegAbs Seg.WriterFacts Seg.ScanFacts Gen.Constants.
From Coq Require Import ZifyN ZifyNat ZifyBool.
Open Scope N_scope.

(* ---------------- frames of one batch ---------------- *)
Definition body_shapes (info : seginfo) (s : cst) (b : batch) : list fshape :=
  map sh_entry (fst b) ++ (if snd b then [sh_index (c_offs' info s b)] else []).

Definition batch_crc (info : seginfo) (s : cst) (b : batch) : N :=
  crc32c (c_pend info s ++ batch_body info s b).

Definition batch_shapes (info : seginfo) (s : cst) (b : batch) : list fshape :=
  body_shapes info s b ++ [sh_commit (batch_crc info s b)].

Lemma frames_bytes_body info s b : frames_bytes (body_shapes info s b) = batch_body info s b.
Proof.
  unfold body_shapes, batch_body. rewrite frames_bytes_app, frames_bytes_entries.
  destruct (snd b); [|reflexivity]. unfold frames_bytes. cbn [flat_map]. rewrite app_nil_r. reflexivity.
Qed.

Lemma batch_write_shapes info s b :
  batch_write info s b = c_pend info s ++ frames_bytes (batch_shapes info s b).
Proof.
  unfold batch_write, batch_shapes. rewrite frames_bytes_app, frames_bytes_body.
  unfold frames_bytes. cbn [flat_map]. rewrite app_nil_r, <- app_assoc. reflexivity.
Qed.

(* well-formed batch at a chain state: payload bytes are bytes, no 32-bit wrap *)
Definition bwf (info : seginfo) (s : cst) (b : batch) : Prop :=
  Forall wf_bytes (fst b) /\ len (c_img (cstep info s b)) < two32.

Definition hdr_wf (info : seginfo) : Prop :=
  si_base info < two64 /\ si_id info < two64 /\ si_codec info < two64.

Lemma wf_c_pend info s : wf_bytes (c_pend info s).
Proof. unfold c_pend. destruct (c_img s); [apply wf_file_header|constructor]. Qed.

Lemma wf_entries_bytes ps : Forall wf_bytes ps -> wf_bytes (entries_bytes ps).
Proof.
  induction 1 as [|p r Hp _ IH]; [constructor|].
  unfold entries_bytes. cbn [flat_map]. apply wf_bytes_app; split; [|exact IH].
  apply wf_enc_frame; [reflexivity|exact Hp].
Qed.

Lemma wf_batch_body info s b : Forall wf_bytes (fst b) -> wf_bytes (batch_body info s b).
Proof.
  intros H. unfold batch_body. apply wf_bytes_app; split; [apply wf_entries_bytes; exact H|].
  destruct (snd b); [apply wf_index_frame|constructor].
Qed.

Lemma batch_crc_lt info s b : Forall wf_bytes (fst b) -> batch_crc info s b < two32.
Proof.
  intros H. apply crc32c_lt. apply wf_bytes_app; split; [apply wf_c_pend|apply wf_batch_body; exact H].
Qed.

Lemma entries_len_bound ps :
  Forall (fun p => 8 + len p <= len (entries_bytes ps)) ps.
Proof.
  induction ps as [|p r IH]; constructor.
  - rewrite len_entries_bytes_cons. unfold enc_frame_size. lia.
  - eapply Forall_impl; [|exact IH]. intros q Hq. cbn beta in Hq. rewrite len_entries_bytes_cons. lia.
Qed.

Lemma batch_shapes_ok info s b : bwf info s b -> Forall fs_ok (batch_shapes info s b).
Proof.
  intros [Hw Hlen]. rewrite len_img_cstep, len_batch_body in Hlen.
  unfold batch_shapes, body_shapes. apply Forall_app; split; [apply Forall_app; split|].
  - apply Forall_forall. intros x Hx. apply in_map_iff in Hx as (p & <- & Hp).
    apply fs_ok_entry. pose proof (entries_len_bound (fst b)) as Hb.
    rewrite Forall_forall in Hb. specialize (Hb p Hp). lia.
  - destruct (snd b); constructor; [|constructor]. apply fs_ok_index. unfold enc_frame_size in Hlen. lia.
  - constructor; [|constructor]. apply fs_ok_commit. apply batch_crc_lt. exact Hw.
Qed.

(* ---------------- rec_fold over the events of a batch ---------------- *)
Definition mod32 (o : N) : N := o mod two32.

Lemma rec_step_entry a off v :
  rec_step a {| fe_typ := FrameEntry; fe_val := v; fe_off := off |} =
  {| ra_offsets := ra_offsets a ++ [off mod two32]; ra_pending := ra_pending a;
     ra_commits := ra_commits a |}.
Proof. reflexivity. Qed.

Lemma fold_entry_events ps : forall pos a,
  fold_left rec_step (fs_events pos (map sh_entry ps)) a =
  {| ra_offsets := ra_offsets a ++ map mod32 (entry_offsets pos ps);
     ra_pending := ra_pending a; ra_commits := ra_commits a |}.
Proof.
  induction ps as [|p r IH]; intros pos a.
  - cbn. rewrite app_nil_r. destruct a; reflexivity.
  - cbn [map fs_events fold_left]. rewrite IH.
    change (fs_typ (sh_entry p)) with FrameEntry. rewrite rec_step_entry.
    cbn [ra_offsets ra_pending ra_commits entry_offsets map].
    rewrite <- app_assoc. cbn [app]. unfold mod32 at 2.
    replace (pos + 8 + len (fs_body (sh_entry p))) with (pos + enc_frame_size (len p)).
    + reflexivity.
    + cbn [sh_entry fs_body]. rewrite len_app, len_zeros. unfold enc_frame_size. lia.
Qed.

Lemma rec_step_index a off v :
  rec_step a {| fe_typ := FrameIndex; fe_val := v; fe_off := off |} =
  {| ra_offsets := ra_offsets a; ra_pending := off + 8; ra_commits := ra_commits a |}.
Proof. reflexivity. Qed.

Lemma rec_step_commit a off v :
  rec_step a {| fe_typ := FrameCommit; fe_val := v; fe_off := off |} =
  {| ra_offsets := ra_offsets a; ra_pending := 0;
     ra_commits := {| c_crc := v; c_off := off;
                      c_crc_start := match ra_commits a with p :: _ => c_off p + 8 | [] => 0 end;
                      c_offsets_len := length (ra_offsets a);
                      c_index_start := ra_pending a |} :: ra_commits a |}.
Proof. reflexivity. Qed.

Lemma fold_body_events info s b a :
  fold_left rec_step (fs_events (c_pos info s) (body_shapes info s b)) a =
  {| ra_offsets := ra_offsets a ++ map mod32 (entry_offsets (c_pos info s) (fst b));
     ra_pending := if snd b then c_pos info s + len (entries_bytes (fst b)) + 8 else ra_pending a;
     ra_commits := ra_commits a |}.
Proof.
  unfold body_shapes. rewrite fs_events_app, fold_left_app, fold_entry_events.
  destruct (snd b); [|reflexivity].
  cbn [fs_events fold_left sh_index fs_typ fs_val]. rewrite rec_step_index.
  cbn [ra_offsets ra_pending ra_commits]. rewrite frames_bytes_entries. reflexivity.
Qed.

Lemma fold_batch_events info s b a crc :
  fold_left rec_step (fs_events (c_pos info s) (body_shapes info s b ++ [sh_commit crc])) a =
  let offs := ra_offsets a ++ map mod32 (entry_offsets (c_pos info s) (fst b)) in
  {| ra_offsets := offs; ra_pending := 0;
     ra_commits := {| c_crc := crc; c_off := c_pos info s + len (batch_body info s b);
                      c_crc_start := match ra_commits a with p :: _ => c_off p + 8 | [] => 0 end;
                      c_offsets_len := length offs;
                      c_index_start := if snd b then c_pos info s + len (entries_bytes (fst b)) + 8
                                       else ra_pending a |} :: ra_commits a |}.
Proof.
  rewrite fs_events_app, fold_left_app, fold_body_events.
  cbn [fs_events fold_left sh_commit fs_typ fs_val]. rewrite rec_step_commit.
  cbn [ra_offsets ra_pending ra_commits]. rewrite frames_bytes_body. reflexivity.
Qed.

(* events carrying no commit frame leave the commit bookkeeping alone and can
   only add offsets *)
Lemma fold_no_commit evs : forall a,
  Forall (fun e => fe_typ e = FrameEntry \/ fe_typ e = FrameIndex) evs ->
  let a' := fold_left rec_step evs a in
  ra_commits a' = ra_commits a /\
  exists extra, ra_offsets a' = ra_offsets a ++ extra.
Proof.
  induction evs as [|e r IH]; intros a H.
  - cbn. repeat split; try reflexivity. exists []. rewrite app_nil_r. reflexivity.
  - inversion H as [|? ? He Hr]; subst. cbn [fold_left].
    destruct (IH (rec_step a e) Hr) as (F & extra & O). cbn zeta.
    rewrite F, O. unfold rec_step.
    destruct He as [He|He]; rewrite He.
    + replace (FrameEntry =? FrameEntry) with true by reflexivity.
      cbn [ra_commits ra_offsets]. repeat split; try reflexivity.
      eexists. rewrite <- app_assoc. reflexivity.
    + replace (FrameIndex =? FrameEntry) with false by reflexivity.
      replace (FrameIndex =? FrameIndex) with true by reflexivity.
      cbn [ra_commits ra_offsets]. repeat split; try reflexivity.
      exists extra. reflexivity.
Qed.

(* any events: the commit frames found are put in front of those already known,
   each at the offset of one of the events, and offsets can only be added *)
Lemma fold_any evs : forall a,
  let a' := fold_left rec_step evs a in
  (exists new, ra_commits a' = new ++ ra_commits a /\
               Forall (fun c => exists e, In e evs /\ c_off c = fe_off e) new) /\
  exists extra, ra_offsets a' = ra_offsets a ++ extra.
Proof.
  induction evs as [|e r IH]; intros a.
  - cbn. split; [exists []; split; [reflexivity|constructor]|exists []; rewrite app_nil_r; reflexivity].
  - cbn [fold_left]. destruct (IH (rec_step a e)) as ((new & C & Hnew) & extra & O). cbn zeta.
    assert (Hnew' : Forall (fun c => exists e0, In e0 (e :: r) /\ c_off c = fe_off e0) new).
    { eapply Forall_impl; [|exact Hnew]. intros c (e0 & Hin & Hc). exists e0. split; [right; exact Hin|exact Hc]. }
    rewrite C, O. unfold rec_step.
    destruct (fe_typ e =? FrameEntry); [|destruct (fe_typ e =? FrameIndex)]; cbn [ra_commits ra_offsets].
    + split; [exists new; split; [reflexivity|exact Hnew']|]. eexists. rewrite <- app_assoc. reflexivity.
    + split; [exists new; split; [reflexivity|exact Hnew']|]. exists extra. reflexivity.
    + split; [|exists extra; reflexivity].
      eexists (new ++ [_]). split; [rewrite <- app_assoc; reflexivity|].
      apply Forall_app; split; [exact Hnew'|]. constructor; [|constructor].
      exists e. split; [left; reflexivity|reflexivity].
Qed.

(* walking back over commit frames that do not verify *)
Lemma find_good_skip f new old :
  Forall (fun c => commit_good f c = false) new -> find_good f (new ++ old) = find_good f old.
Proof.
  induction 1 as [|c r Hc _ IH]; [reflexivity|]. cbn [app find_good]. rewrite Hc. exact IH.
Qed.

(* ---------------- the accumulator after a chain of committed batches ---------------- *)
Definition acc_inv (info : seginfo) (s : cst) (a : rec_acc) : Prop :=
  ra_offsets a = c_offs s /\ ra_pending a = 0 /\
  match ra_commits a with
  | [] => s = c0
  | fc :: _ =>
      c_img s <> [] /\ c_off fc + 8 = len (c_img s) /\
      c_offsets_len fc = length (c_offs s) /\ c_index_start fc = c_istart s /\
      forall r, crc32c (read_at (c_img s ++ r) (c_crc_start fc) (c_off fc - c_crc_start fc)) = c_crc fc
  end.

Lemma c_offs'_small info s b :
  len (c_img (cstep info s b)) < two32 ->
  map mod32 (entry_offsets (c_pos info s) (fst b)) = entry_offsets (c_pos info s) (fst b).
Proof.
  intros H. rewrite len_img_cstep, len_batch_body in H.
  apply map_mod_small. eapply Forall_impl; [|apply entry_offsets_bound].
  intros o [_ Ho]. cbn beta in Ho. lia.
Qed.

Lemma acc_step info s b a :
  acc_inv info s a -> bwf info s b ->
  let a' := fold_left rec_step (fs_events (c_pos info s) (batch_shapes info s b)) a in
  acc_inv info (cstep info s b) a' /\ (exists fc, ra_commits a' = fc :: ra_commits a).
Proof.
  intros (Ho & Hp & Hf) [Hw Hlen]. cbn zeta. unfold batch_shapes. rewrite fold_batch_events. cbn zeta.
  split; [|eexists; reflexivity].
  unfold acc_inv. cbn [ra_offsets ra_pending ra_commits c_off c_offsets_len c_index_start c_crc_start c_crc].
  rewrite (c_offs'_small info s b Hlen), Ho. cbn [cstep c_offs c_istart]. fold (c_offs' info s b).
  split; [reflexivity|]. split; [reflexivity|].
  split; [apply c_img_cstep_nonnil|]. split; [rewrite len_img_cstep; reflexivity|].
  split; [reflexivity|]. split; [rewrite Hp; reflexivity|].
  intros r.
  assert (Es : match ra_commits a with p :: _ => c_off p + 8 | [] => 0 end = len (c_img s)).
  { destruct (ra_commits a) as [|fc ?]; [subst s; reflexivity|]. destruct Hf as (_ & H & _); exact H. }
  rewrite Es. cbn [c_img cstep]. unfold batch_write. rewrite <- !app_assoc.
  rewrite read_at_app. unfold c_pos.
  replace (len (c_img s) + len (c_pend info s) + len (batch_body info s b) - len (c_img s))
    with (len (c_pend info s ++ batch_body info s b)) by (rewrite len_app; lia).
  rewrite to_nat_len. rewrite app_assoc. rewrite firstn_app_exact. reflexivity.
Qed.

Definition hdr_inv (info : seginfo) (s : cst) : Prop :=
  exists r, c_img s ++ c_pend info s = file_header info ++ r.

Lemma hdr_inv_c0 info : hdr_inv info c0.
Proof. exists []. unfold c_pend. cbn [c0 c_img app]. rewrite app_nil_r. reflexivity. Qed.

Lemma hdr_inv_step info s b : hdr_inv info s -> hdr_inv info (cstep info s b).
Proof.
  intros [r H]. unfold hdr_inv. rewrite c_pend_cstep, app_nil_r. cbn [cstep c_img].
  unfold batch_write. rewrite <- app_assoc, app_assoc, H, <- app_assoc. eexists. reflexivity.
Qed.

(* chains of well-formed batches *)
Fixpoint chain_wf (info : seginfo) (s : cst) (bs : list batch) : Prop :=
  match bs with
  | [] => True
  | b :: r => bwf info s b /\ chain_wf info (cstep info s b) r
  end.

Lemma chain_wf_app info a : forall s b,
  chain_wf info s (a ++ b) <-> chain_wf info s a /\ chain_wf info (fold_left (cstep info) a s) b.
Proof.
  induction a as [|x a IH]; intros s b; cbn [app chain_wf fold_left]; [tauto|].
  rewrite IH. tauto.
Qed.

(* scanning the image of a chain: its events, then on from the end of the image.
   P stands for the pending header bytes of an empty file (any 32 bytes: the
   scan starts behind them). *)
Lemma chain_scan info bs :
  chain_wf info c0 bs ->
  let s := cstate info bs in
  hdr_inv info s /\
  exists evs,
    acc_inv info s (rec_fold evs) /\
    forall P r, len P = len (c_pend info s) ->
      scanF (c_img s ++ P ++ r) 32 = evs ++ scanF (c_img s ++ P ++ r) (c_pos info s).
Proof.
  induction bs as [|b bs IH] using rev_ind; intros Hwf; cbn zeta.
  - split; [apply hdr_inv_c0|]. exists []. split.
    + unfold acc_inv, rec_fold. cbn. auto.
    + intros P r HP. cbn [app]. reflexivity.
  - apply chain_wf_app in Hwf as [Hwf1 Hwf2]. cbn [chain_wf] in Hwf2. destruct Hwf2 as [Hb _].
    fold (cstate info bs) in Hb. specialize (IH Hwf1). cbn zeta in IH.
    destruct IH as (Hh & evs & Hacc & Hscan). rewrite cstate_snoc.
    set (s := cstate info bs) in *.
    split; [apply hdr_inv_step; exact Hh|].
    exists (evs ++ fs_events (c_pos info s) (batch_shapes info s b)). split.
    + unfold rec_fold. rewrite fold_left_app. apply acc_step; assumption.
    + intros P r HP. rewrite c_pend_cstep in HP. destruct P; [|rewrite len_cons in HP; change (len []) with 0 in HP; lia].
      cbn [app]. rewrite c_pos_cstep. cbn [cstep c_img]. rewrite batch_write_shapes.
      rewrite <- !app_assoc. rewrite (Hscan (c_pend info s)) by reflexivity.
      f_equal.
      replace (c_pos info s) with (len (c_img s ++ c_pend info s)) by (rewrite len_app; reflexivity).
      rewrite (app_assoc (c_img s)).
      rewrite scanF_frames by (apply batch_shapes_ok; exact Hb).
      f_equal. f_equal. rewrite !len_app. lia.
Qed.

(* ---------------- recover_state from the scan ---------------- *)
Lemma scanned_header_hdr info r :
  hdr_wf info -> validate_file_header (scanned_header (file_header info ++ r)) info = true.
Proof.
  intros (Hb & Hi & Hc). unfold scanned_header.
  rewrite <- app_assoc.
  change 32%nat with (length (file_header info)). rewrite firstn_app_exact.
  rewrite <- (app_nil_r (file_header info)).
  rewrite read_file_header_hdr by assumption. apply validate_file_header_refl.
Qed.

Lemma recovered_wst info s :
  c_img s <> [] -> len (c_img s) < two32 ->
  recovered info (len (c_img s)) (c_istart s) (c_offs s) = wst info s.
Proof.
  intros Hn Hl. unfold recovered, wst.
  cbn [w_info w_buf w_crc w_off w_index_start w_offsets w_commit_idx].
  assert (Hp : c_pend info s = []) by (unfold c_pend; destruct (c_img s); congruence).
  rewrite Hp. change (crc32c []) with 0. rewrite N.mod_small by exact Hl.
  f_equal.
Qed.

(* behind the chain the scan found only commit frames that do not verify (new):
   recovery walks back over them to the last commit frame of the chain, which
   verifies whatever follows the chain, and the chain survives as is *)
Lemma recover_stale info s r a evs2 new (f := c_img s ++ r) :
  hdr_wf info -> hdr_inv info s -> len (c_img s) < two32 ->
  acc_inv info s a ->
  rec_fold (scan f) = fold_left rec_step evs2 a ->
  ra_commits (fold_left rec_step evs2 a) = new ++ ra_commits a ->
  Forall (fun c => commit_good f c = false) new ->
  recover_state info f = Some (wst info s).
Proof.
  intros Hhw [hr Hh] Hl (Ho & Hp & Hf) Hfold Hc Hbad. assert (Ef : f = c_img s ++ r) by reflexivity. clearbody f.
  destruct (fold_any evs2 a) as (_ & extra & O). cbn zeta in O.
  unfold recover_state. rewrite Hfold, Hc, (find_good_skip f new _ Hbad).
  destruct (ra_commits a) as [|fc rest] eqn:Efc.
  - cbn [find_good]. rewrite Hf, wst_c0. reflexivity.
  - destruct Hf as (Hn & Hoff & Hol & His & Hcrc).
    assert (Hg : commit_good f fc = true) by (unfold commit_good; rewrite Ef, Hcrc; apply N.eqb_refl).
    cbn [find_good]. rewrite Hg.
    assert (Hpend : c_pend info s = []) by (unfold c_pend; destruct (c_img s); congruence).
    rewrite Hpend, app_nil_r in Hh.
    assert (Hhdr : validate_file_header (scanned_header f) info = true).
    { rewrite Ef, Hh, <- app_assoc. apply scanned_header_hdr. exact Hhw. }
    rewrite Hhdr, O, Ho, Hol, firstn_app_exact.
    replace (c_off fc + 8) with (len (c_img s)) by lia. rewrite His.
    rewrite recovered_wst by assumption. reflexivity.
Qed.

(* the tail behind the chain produced no commit frame: the chain survives as is *)
Lemma recover_no_commit info s r a evs2 (f := c_img s ++ r) :
  hdr_wf info -> hdr_inv info s -> len (c_img s) < two32 ->
  acc_inv info s a ->
  Forall (fun e => fe_typ e = FrameEntry \/ fe_typ e = FrameIndex) evs2 ->
  rec_fold (scan f) = fold_left rec_step evs2 a ->
  recover_state info f = Some (wst info s).
Proof.
  intros Hhw Hh Hl Hacc Hev Hfold.
  destruct (fold_no_commit evs2 a Hev) as (F & _). cbn zeta in F.
  apply (recover_stale info s r a evs2 []); try assumption. constructor.
Qed.

(* ---------------- torn images ---------------- *)
(* A torn image of [new] written over zeros: per 8-byte chunk either the new
   bytes or the old (zero) bytes -- chunk for chunk what RunSeg.crash_mix
   builds (lemma crash_mix_torn in Run/RunSegFacts.v). *)
Inductive torn : bytes -> bytes -> Prop :=
| torn_nil : torn [] []
| torn_keep c new img : length c = 8%nat -> torn new img -> torn (c ++ new) (c ++ img)
| torn_zero c new img : length c = 8%nat -> torn new img -> torn (c ++ new) (zeros 8 ++ img).

Lemma torn_length new img : torn new img -> length img = length new.
Proof.
  induction 1 as [|c new img Hc _ IH|c new img Hc _ IH]; [reflexivity| |];
    rewrite !app_length, IH; [reflexivity|]. rewrite zeros_length, Hc. reflexivity.
Qed.

Lemma torn_nil_inv T : torn [] T -> T = [].
Proof.
  intros H. remember [] as x eqn:E. destruct H as [|c new img Hc _|c new img Hc _]; [reflexivity| |];
    destruct c; cbn in Hc; try lia; discriminate.
Qed.

Lemma torn_app_inv k : forall a b T,
  length a = (8 * k)%nat -> torn (a ++ b) T ->
  exists Ta Tb, T = Ta ++ Tb /\ torn a Ta /\ torn b Tb.
Proof.
  induction k as [|k IH]; intros a b T Hl H.
  - destruct a; [|cbn in Hl; lia]. exists [], T. cbn in H. repeat split; [constructor|exact H].
  - set (c := firstn 8 a). set (a' := skipn 8 a).
    assert (Ea : a = c ++ a') by (symmetry; apply firstn_skipn).
    assert (Lc : length c = 8%nat) by (unfold c; rewrite firstn_length; lia).
    assert (La : length a' = (8 * k)%nat) by (unfold a'; rewrite skipn_length; lia).
    rewrite Ea, <- app_assoc in H. remember (c ++ a' ++ b) as x eqn:Ex.
    destruct H as [|c0 new img Hc0 Ht|c0 new img Hc0 Ht].
    + destruct c; cbn in Lc; [lia|discriminate].
    + apply app_eq_len in Ex as [-> ->]; [|lia].
      destruct (IH a' b img La Ht) as (Ta & Tb & -> & H1 & H2).
      exists (c ++ Ta), Tb. rewrite <- app_assoc. repeat split; [|exact H2].
      rewrite Ea. apply torn_keep; assumption.
    + apply app_eq_len in Ex as [-> ->]; [|lia].
      destruct (IH a' b img La Ht) as (Ta & Tb & -> & H1 & H2).
      exists (zeros 8 ++ Ta), Tb. rewrite <- app_assoc. repeat split; [|exact H2].
      rewrite Ea. apply torn_zero; assumption.
Qed.

Lemma torn_hdr_inv h body T :
  length h = 8%nat -> torn (h ++ body) T ->
  exists Tb, torn body Tb /\ (T = h ++ Tb \/ T = zeros 8 ++ Tb).
Proof.
  intros Lh H. remember (h ++ body) as x eqn:Ex.
  destruct H as [|c0 new img Hc0 Ht|c0 new img Hc0 Ht].
  - destruct h; cbn in Lh; [lia|discriminate].
  - apply app_eq_len in Ex as [-> ->]; [|lia]. exists img. auto.
  - apply app_eq_len in Ex as [-> ->]; [|lia]. exists img. auto.
Qed.

Lemma torn_refl k : forall a, length a = (8 * k)%nat -> torn a a.
Proof.
  induction k as [|k IH]; intros a Hl.
  - destruct a; [constructor|cbn in Hl; lia].
  - rewrite <- (firstn_skipn 8 a). apply torn_keep; [rewrite firstn_length; lia|].
    apply IH. rewrite skipn_length. lia.
Qed.

Lemma torn_all_zero k : forall a, length a = (8 * k)%nat -> torn a (zeros (length a)).
Proof.
  induction k as [|k IH]; intros a Hl.
  - destruct a; [constructor|cbn in Hl; lia].
  - rewrite <- (firstn_skipn 8 a) at 1.
    replace (length a) with (8 + length (skipn 8 a))%nat by (rewrite skipn_length; lia).
    rewrite zeros_app. apply torn_zero; [rewrite firstn_length; lia|].
    apply IH. rewrite skipn_length. lia.
Qed.

(* a torn write of [new] over the old content [old] of the same range: per
   8-byte chunk the new or the old bytes *)
Inductive torn_over : bytes -> bytes -> bytes -> Prop :=
| tov_nil : torn_over [] [] []
| tov_new co cn old new T : length co = 8%nat -> length cn = 8%nat -> torn_over old new T ->
                            torn_over (co ++ old) (cn ++ new) (cn ++ T)
| tov_old co cn old new T : length co = 8%nat -> length cn = 8%nat -> torn_over old new T ->
                            torn_over (co ++ old) (cn ++ new) (co ++ T).

(* the n bytes at off (zeros beyond the end: a write there extends the file) *)
Definition region (s : bytes) (off n : nat) : bytes := firstn n (skipn off s ++ zeros n).

(* frames under tearing: headers are single chunks, so each is intact or zero *)
Definition hdr_eq (x y : fshape) : Prop :=
  fs_typ x = fs_typ y /\ fs_val x = fs_val y /\ length (fs_body x) = length (fs_body y).

Lemma fs_ok_hdr_eq x y : hdr_eq x y -> fs_ok x -> fs_ok y.
Proof.
  intros (Ht & Hv & Hb) (A & B & C). unfold fs_ok. rewrite <- Ht, <- Hv.
  split; [exact A|]. split; [exact B|]. unfold len in *. rewrite <- Hb. exact C.
Qed.

Lemma Forall_fs_ok_hdr_eq l l' : Forall2 hdr_eq l l' -> Forall fs_ok l -> Forall fs_ok l'.
Proof.
  induction 1 as [|x y l l' Hxy _ IH]; intros H; [constructor|].
  inversion H; subst. constructor; [eapply fs_ok_hdr_eq; eassumption|auto].
Qed.

Lemma fs_events_hdr_eq l l' : Forall2 hdr_eq l l' -> forall off, fs_events off l = fs_events off l'.
Proof.
  induction 1 as [|x y l l' (Ht & Hv & Hb) _ IH]; intros off; [reflexivity|].
  cbn [fs_events]. rewrite Ht, Hv. unfold len. rewrite Hb. f_equal. apply IH.
Qed.

Lemma len_frames_hdr_eq l l' : Forall2 hdr_eq l l' -> len (frames_bytes l) = len (frames_bytes l').
Proof.
  induction 1 as [|x y l l' (Ht & Hv & Hb) _ IH]; [reflexivity|].
  unfold frames_bytes. cbn [flat_map]. rewrite !len_app, !len_fs_bytes.
  fold (frames_bytes l). fold (frames_bytes l'). unfold len in *. lia.
Qed.

Lemma Forall2_hdr_eq_refl l : Forall2 hdr_eq l l.
Proof. induction l; constructor; [unfold hdr_eq; auto|assumption]. Qed.

Lemma fs_bytes_len8 s : fs_ok s -> exists k, length (fs_bytes s) = (8 * k)%nat.
Proof.
  intros (_ & _ & H). pose proof (enc_frame_size_aligned (fh_len (fs_typ s) (fs_val s))) as A.
  pose proof (len_fs_bytes s) as L. unfold len in *.
  exists (length (fs_bytes s) / 8)%nat.
  pose proof (Nat.div_mod (length (fs_bytes s)) 8 ltac:(lia)).
  assert ((length (fs_bytes s) mod 8 = 0)%nat); [|lia].
  rewrite <- H in A. rewrite <- L in A. lia.
Qed.

Lemma torn_frames l :
  Forall fs_ok l -> forall T, torn (frames_bytes l) T ->
  (exists l', Forall2 hdr_eq l l' /\ T = frames_bytes l') \/
  (exists l1 l1' l2 rest, l = l1 ++ l2 /\ l2 <> [] /\ Forall2 hdr_eq l1 l1' /\
                          T = frames_bytes l1' ++ zeros 8 ++ rest).
Proof.
  induction l as [|s l IH]; intros Hok T HT.
  - cbn in HT. apply torn_nil_inv in HT. subst. left. exists []. split; [constructor|reflexivity].
  - inversion Hok as [|? ? Hs Hl]; subst.
    destruct (fs_bytes_len8 s Hs) as [k Hk].
    unfold frames_bytes in HT. cbn [flat_map] in HT. fold (frames_bytes l) in HT.
    destruct (torn_app_inv k _ _ _ Hk HT) as (Ts & Tl & -> & H1 & H2).
    unfold fs_bytes in H1. apply torn_hdr_inv in H1 as (Tb & HTb & [-> | ->]); [| |reflexivity].
    + set (s' := {| fs_typ := fs_typ s; fs_val := fs_val s; fs_body := Tb |}).
      assert (Hss' : hdr_eq s s').
      { unfold hdr_eq, s'. cbn. repeat split. symmetry. apply torn_length. exact HTb. }
      destruct (IH Hl Tl H2) as [(l' & Hl' & ->)|(l1 & l1' & l2 & rest & -> & Hne & Hl1 & ->)].
      * left. exists (s' :: l'). split; [constructor; assumption|].
        unfold frames_bytes. cbn [flat_map]. reflexivity.
      * right. exists (s :: l1), (s' :: l1'), l2, rest. repeat split; try assumption.
        -- constructor; assumption.
        -- unfold frames_bytes. cbn [flat_map]. unfold fs_bytes at 1. cbn [s' fs_typ fs_val fs_body].
           rewrite <- !app_assoc. reflexivity.
    + right. exists [], [], (s :: l), (Tb ++ Tl).
      split; [reflexivity|]. split; [discriminate|]. split; [constructor|].
      cbn [frames_bytes flat_map app]. rewrite <- app_assoc. reflexivity.
Qed.

(* ---------------- the batch behind the chain ---------------- *)
Lemma body_shapes_types info s b :
  Forall (fun sh => fs_typ sh = FrameEntry \/ fs_typ sh = FrameIndex) (body_shapes info s b).
Proof.
  unfold body_shapes. apply Forall_app; split.
  - apply Forall_forall. intros x Hx. apply in_map_iff in Hx as (p & <- & _). left. reflexivity.
  - destruct (snd b); [|constructor]. constructor; [right; reflexivity|constructor].
Qed.

Lemma fs_events_types l : forall off,
  Forall (fun sh => fs_typ sh = FrameEntry \/ fs_typ sh = FrameIndex) l ->
  Forall (fun e => fe_typ e = FrameEntry \/ fe_typ e = FrameIndex) (fs_events off l).
Proof.
  induction l as [|x l IH]; intros off H; [constructor|].
  inversion H; subst. cbn [fs_events]. constructor; [assumption|apply IH; assumption].
Qed.

Lemma prefix_of_snoc {A} (l1 l2 X : list A) c :
  l1 ++ l2 = X ++ [c] -> l2 <> [] -> exists l2', X = l1 ++ l2'.
Proof.
  intros E Hne. destruct (exists_last Hne) as (l2' & c' & ->).
  rewrite app_assoc in E. apply app_inj_tail in E as [E _]. exists l2'. symmetry. exact E.
Qed.

Lemma Forall2_sing_l {A B} (R : A -> B -> Prop) a l : Forall2 R [a] l -> exists c, l = [c] /\ R a c.
Proof.
  intros H. inversion H as [|x c lx ly Hc Hnil]; subst. inversion Hnil; subst. exists c. auto.
Qed.

Definition hdr_okb (info : seginfo) (f : bytes) : bool := validate_file_header (scanned_header f) info.

(* all frame headers of the batch are on disk (bodies possibly torn): the commit
   frame is reached and its CRC decides *)
Lemma recover_commit_reached info bs b Tp lb' k :
  hdr_wf info -> chain_wf info c0 (bs ++ [b]) ->
  let s := cstate info bs in
  len Tp = len (c_pend info s) -> Forall2 hdr_eq (body_shapes info s b) lb' ->
  let f := c_img s ++ Tp ++ frames_bytes lb' ++ commit_frame (batch_crc info s b) ++ zeros k in
  recover_state info f =
    if crc32c (Tp ++ frames_bytes lb') =? batch_crc info s b
    then (if hdr_okb info f then Some (wst info (cstep info s b)) else None)
    else Some (wst info s).
Proof.
  intros Hhw Hwf s HTp Hlb f.
  apply chain_wf_app in Hwf as [Hwf1 Hwf2]. cbn [chain_wf] in Hwf2. destruct Hwf2 as [Hb _].
  fold (cstate info bs) in Hb. fold s in Hb.
  destruct (chain_scan info bs Hwf1) as (Hh & evs & Hacc & Hscan). fold s in Hh, Hacc, Hscan.
  pose proof Hb as [Hbw Hblen].
  pose proof (len_img_cstep info s b) as Limg.
  assert (Lsmall : len (c_img s) < two32) by (unfold c_pos in Limg; lia).
  set (crc := batch_crc info s b) in *.
  set (l' := lb' ++ [sh_commit crc]).
  assert (Hl' : Forall2 hdr_eq (batch_shapes info s b) l').
  { unfold batch_shapes, l'. apply Forall2_app; [exact Hlb|]. constructor; [|constructor].
    unfold hdr_eq; auto. }
  assert (Hok' : Forall fs_ok l') by (eapply Forall_fs_ok_hdr_eq; [exact Hl'|apply batch_shapes_ok; exact Hb]).
  assert (Ef : f = (c_img s ++ Tp) ++ frames_bytes l' ++ zeros k).
  { unfold f, l'. rewrite frames_bytes_app. unfold frames_bytes at 3. cbn [flat_map].
    rewrite fs_bytes_commit, app_nil_r, <- !app_assoc. reflexivity. }
  assert (Escan : scan f = evs ++ fs_events (c_pos info s) (batch_shapes info s b)).
  { rewrite scan_is_scanF. unfold f. rewrite (Hscan Tp) by exact HTp. f_equal.
    fold f. rewrite Ef.
    replace (c_pos info s) with (len (c_img s ++ Tp)) by (rewrite len_app, HTp; reflexivity).
    rewrite scanF_frames by exact Hok'.
    rewrite (fs_events_hdr_eq _ _ Hl'). rewrite <- (app_nil_r (fs_events _ l')) at 2. f_equal.
    rewrite app_assoc.
    replace (len (c_img s ++ Tp) + len (frames_bytes l')) with (len ((c_img s ++ Tp) ++ frames_bytes l'))
      by (rewrite !len_app; reflexivity).
    apply scanF_stop_zeros. }
  set (a := rec_fold evs) in *.
  assert (Efold : rec_fold (scan f) =
                  fold_left rec_step (fs_events (c_pos info s) (body_shapes info s b ++ [sh_commit crc])) a).
  { rewrite Escan. unfold rec_fold. rewrite fold_left_app. reflexivity. }
  rewrite fold_batch_events in Efold. cbn zeta in Efold.
  destruct Hacc as (Ho & Hp & Hf).
  rewrite (c_offs'_small info s b Hblen), Ho, Hp in Efold. fold (c_offs' info s b) in Efold.
  assert (Es : match ra_commits a with p :: _ => c_off p + 8 | [] => 0 end = len (c_img s)).
  { destruct (ra_commits a) as [|fc ?]; [rewrite Hf; reflexivity|]. destruct Hf as (_ & H & _); exact H. }
  rewrite Es in Efold.
  unfold recover_state. fold (hdr_okb info f). rewrite Efold.
  cbn [ra_commits ra_offsets find_good]. unfold commit_good at 1.
  cbn [c_offsets_len c_off c_crc_start c_crc c_index_start].
  assert (Lb : len (batch_body info s b) = len (frames_bytes lb')).
  { rewrite <- frames_bytes_body. apply len_frames_hdr_eq. exact Hlb. }
  assert (Eread : read_at f (len (c_img s)) (c_pos info s + len (batch_body info s b) - len (c_img s))
                  = Tp ++ frames_bytes lb').
  { unfold f. rewrite read_at_app. unfold c_pos.
    replace (len (c_img s) + len (c_pend info s) + len (batch_body info s b) - len (c_img s))
      with (len (Tp ++ frames_bytes lb')) by (rewrite len_app, HTp, Lb; lia).
    rewrite to_nat_len. rewrite app_assoc. apply firstn_app_exact. }
  rewrite Eread. fold crc.
  destruct (crc32c (Tp ++ frames_bytes lb') =? crc) eqn:Ecrc.
  - cbn [c_offsets_len c_off c_index_start].
    destruct (hdr_okb info f); [|reflexivity]. f_equal. rewrite firstn_all.
    rewrite <- (recovered_wst info (cstep info s b)); [|apply c_img_cstep_nonnil|exact Hblen].
    rewrite Limg. cbn [cstep c_istart c_offs]. reflexivity.
  - destruct (ra_commits a) as [|fc rest] eqn:Efc.
    + cbn [find_good]. rewrite Hf, wst_c0. reflexivity.
    + destruct Hf as (Hn & Hoff & Hol & His & Hcrc).
      assert (Hg : commit_good f fc = true) by (unfold commit_good, f; rewrite Hcrc; apply N.eqb_refl).
      cbn [find_good]. rewrite Hg.
      assert (Hpend : c_pend info s = []) by (unfold c_pend; destruct (c_img s); congruence).
      destruct Hh as [hr Hh]. rewrite Hpend, app_nil_r in Hh.
      assert (Hhdr : hdr_okb info f = true).
      { unfold hdr_okb, f. rewrite Hh, <- app_assoc. apply scanned_header_hdr. exact Hhw. }
      rewrite Hhdr. f_equal. rewrite Hol. unfold c_offs'. rewrite firstn_app_exact.
      replace (c_off fc + 8) with (len (c_img s)) by lia. rewrite His.
      apply recovered_wst; assumption.
Qed.

(* torn-write collisions: an incomplete image whose commit chunk is on disk and
   whose remaining bytes happen to have the CRC of the intended bytes *)
Definition torn_body (x : bytes) : bytes := firstn (length x - 8) x.
Definition torn_tail (x : bytes) : bytes := skipn (length x - 8) x.

Definition no_torn_collision (new T : bytes) : Prop :=
  T = new \/ torn_tail T <> torn_tail new \/ crc32c (torn_body T) <> crc32c (torn_body new).

Definition no_torn_collisionb (new T : bytes) : bool :=
  beq_bytes T new || negb (beq_bytes (torn_tail T) (torn_tail new))
  || negb (crc32c (torn_body T) =? crc32c (torn_body new)).

Lemma no_torn_collisionb_spec new T : no_torn_collisionb new T = true <-> no_torn_collision new T.
Proof.
  unfold no_torn_collisionb, no_torn_collision. rewrite !orb_true_iff, !negb_true_iff.
  rewrite beq_bytes_eq.
  assert (A : beq_bytes (torn_tail T) (torn_tail new) = false <-> torn_tail T <> torn_tail new).
  { rewrite <- beq_bytes_eq. destruct (beq_bytes (torn_tail T) (torn_tail new)); split; congruence. }
  rewrite A, N.eqb_neq. tauto.
Qed.

(* THE L1 LAW.  s = chain of n committed batches (n >= 0); b = one more batch;
   T = any torn image of the bytes the writer writes for b; behind it zeros. *)
Theorem seg_recover_torn info bs b T k :
  hdr_wf info -> chain_wf info c0 (bs ++ [b]) ->
  let s := cstate info bs in
  let new := batch_write info s b in
  torn new T -> no_torn_collision new T ->
  recover_state info (c_img s ++ T ++ zeros k) =
    Some (if beq_bytes T new then wst info (cstep info s b) else wst info s).
Proof.
  intros Hhw Hwf s new HT Hnc.
  pose proof Hwf as Hwf0.
  apply chain_wf_app in Hwf as [Hwf1 Hwf2]. cbn [chain_wf] in Hwf2. destruct Hwf2 as [Hb _].
  fold (cstate info bs) in Hb. fold s in Hb.
  assert (Enew : new = c_pend info s ++ frames_bytes (batch_shapes info s b)) by apply batch_write_shapes.
  assert (Hpk : exists kp, length (c_pend info s) = (8 * kp)%nat).
  { unfold c_pend. destruct (c_img s); [exists 4%nat|exists 0%nat]; reflexivity. }
  destruct Hpk as [kp Hkp]. rewrite Enew in HT.
  destruct (torn_app_inv kp _ _ _ Hkp HT) as (Tp & Tf & ET & HTp & HTf).
  assert (LTp : len Tp = len (c_pend info s)) by (unfold len; rewrite (torn_length _ _ HTp); reflexivity).
  pose proof (batch_shapes_ok info s b Hb) as Hok.
  destruct (torn_frames _ Hok Tf HTf) as [(l' & Hl' & ETf)|(l1 & l1' & l2 & rest & El & Hne & Hl1 & ETf)].
  - (* every header intact *)
    unfold batch_shapes in Hl'. apply Forall2_app_inv_l in Hl' as (lb' & lc & Hlb & Hlc & ->).
    apply Forall2_sing_l in Hlc as (c' & -> & Hc).
    destruct Hc as (Ht & Hv & Hbl). cbn [sh_commit fs_typ fs_val fs_body length] in Ht, Hv, Hbl.
    assert (Ec : fs_bytes c' = commit_frame (batch_crc info s b)).
    { unfold fs_bytes. rewrite <- Ht, <- Hv. destruct (fs_body c'); [|cbn in Hbl; lia]. reflexivity. }
    assert (EF : c_img s ++ T ++ zeros k =
                 c_img s ++ Tp ++ frames_bytes lb' ++ commit_frame (batch_crc info s b) ++ zeros k).
    { rewrite ET, ETf, frames_bytes_app. unfold frames_bytes at 2. cbn [flat_map].
      rewrite Ec, app_nil_r, <- !app_assoc. reflexivity. }
    rewrite EF. pose proof (recover_commit_reached info bs b Tp lb' k Hhw Hwf0 LTp Hlb) as Hrc.
    cbn zeta in Hrc. fold s in Hrc. rewrite Hrc. clear Hrc.
    assert (ETT : T = (Tp ++ frames_bytes lb') ++ commit_frame (batch_crc info s b)).
    { rewrite ET, ETf, frames_bytes_app. unfold frames_bytes at 2. cbn [flat_map].
      rewrite Ec, app_nil_r, <- !app_assoc. reflexivity. }
    assert (ENN : new = (c_pend info s ++ batch_body info s b) ++ commit_frame (batch_crc info s b)) by reflexivity.
    assert (Lsame : length (Tp ++ frames_bytes lb') = length (c_pend info s ++ batch_body info s b)).
    { pose proof (len_frames_hdr_eq _ _ Hlb) as L. rewrite frames_bytes_body in L.
      unfold len in *. rewrite !app_length. lia. }
    destruct (beq_bytes T new) eqn:Eb.
    + apply beq_bytes_eq in Eb. rewrite ETT, ENN in Eb.
      apply app_eq_len in Eb as [Eb _]; [|exact Lsame].
      rewrite Eb. change (crc32c (c_pend info s ++ batch_body info s b)) with (batch_crc info s b).
      rewrite N.eqb_refl.
      assert (Hhdr : hdr_okb info (c_img s ++ Tp ++ frames_bytes lb' ++
                                   commit_frame (batch_crc info s b) ++ zeros k) = true).
      { destruct (chain_scan info bs Hwf1) as ([hr Hh] & _). fold s in Hh.
        unfold hdr_okb. rewrite (app_assoc Tp), Eb, <- (app_assoc (c_pend info s)), (app_assoc (c_img s)), Hh.
        rewrite <- app_assoc. apply scanned_header_hdr. exact Hhw. }
      rewrite Hhdr. reflexivity.
    + assert (Hneq : T <> new) by (intros E; rewrite E, beq_bytes_refl in Eb; discriminate).
      assert (Hbody : forall x c, length c = 8%nat -> torn_body (x ++ c) = x /\ torn_tail (x ++ c) = c).
      { intros x c Lc. unfold torn_body, torn_tail. rewrite app_length, Lc.
        replace (length x + 8 - 8)%nat with (length x) by lia.
        split; [apply firstn_app_exact|apply skipn_app_exact]. }
      destruct (Hbody (Tp ++ frames_bytes lb') (commit_frame (batch_crc info s b)) eq_refl) as [B1 T1].
      destruct (Hbody (c_pend info s ++ batch_body info s b) (commit_frame (batch_crc info s b)) eq_refl) as [B2 T2].
      rewrite <- ETT in B1, T1. rewrite <- ENN in B2, T2.
      destruct Hnc as [Hnc|[Hnc|Hnc]]; [congruence|congruence|].
      rewrite B1, B2 in Hnc. fold (batch_crc info s b) in Hnc.
      apply N.eqb_neq in Hnc. rewrite Hnc. reflexivity.
  - (* a frame header chunk is missing: the scan stops in front of it *)
    assert (Hbeq : beq_bytes T new = false).
    { destruct (beq_bytes T new) eqn:Eb; [|reflexivity]. exfalso.
      apply beq_bytes_eq in Eb. rewrite ET, Enew in Eb.
      apply app_eq_len in Eb as [_ Eb]; [|unfold len in LTp; lia].
      rewrite ETf, El, frames_bytes_app in Eb.
      apply app_eq_len in Eb as [_ Eb].
      2:{ pose proof (len_frames_hdr_eq _ _ Hl1) as L. unfold len in L. lia. }
      destruct l2 as [|x l2]; [congruence|].
      unfold frames_bytes in Eb. cbn [flat_map] in Eb. unfold fs_bytes at 1, frame_header in Eb.
      cbn [app zeros repeat] in Eb. inversion Eb as [[E0 _]].
      assert (Hx : fs_ok x).
      { rewrite El in Hok. apply Forall_app in Hok as [_ Hok]. inversion Hok; assumption. }
      destruct Hx as ([E|[E|E]] & _); rewrite E in E0; discriminate. }
    rewrite Hbeq.
    destruct (chain_scan info bs Hwf1) as (Hh & evs & Hacc & Hscan). fold s in Hh, Hacc, Hscan.
    pose proof Hb as [Hbw Hblen]. pose proof (len_img_cstep info s b) as Limg.
    assert (Lsmall : len (c_img s) < two32) by (unfold c_pos in Limg; lia).
    assert (El' : l1 ++ l2 = body_shapes info s b ++ [sh_commit (batch_crc info s b)]) by (symmetry; exact El).
    destruct (prefix_of_snoc _ _ _ _ El' Hne) as (l2' & Ebody).
    assert (Hok1 : Forall fs_ok l1').
    { eapply Forall_fs_ok_hdr_eq; [exact Hl1|]. rewrite El in Hok. apply Forall_app in Hok as [H _]. exact H. }
    apply (recover_no_commit info s (T ++ zeros k) (rec_fold evs) (fs_events (c_pos info s) l1)); try assumption.
    + apply fs_events_types. pose proof (body_shapes_types info s b) as Hty.
      rewrite Ebody in Hty. apply Forall_app in Hty as [H _]. exact H.
    + unfold rec_fold at 2. rewrite <- fold_left_app. unfold rec_fold. f_equal.
      rewrite scan_is_scanF. rewrite ET, <- app_assoc. rewrite (Hscan Tp) by exact LTp. f_equal.
      rewrite ETf, <- !app_assoc.
      replace (c_pos info s) with (len (c_img s ++ Tp)) by (rewrite len_app, LTp; reflexivity).
      rewrite (app_assoc (c_img s)).
      rewrite scanF_frames by exact Hok1.
      rewrite (fs_events_hdr_eq _ _ Hl1). rewrite <- (app_nil_r (fs_events _ l1')) at 2. f_equal.
      rewrite app_assoc.
      replace (len (c_img s ++ Tp) + len (frames_bytes l1')) with (len ((c_img s ++ Tp) ++ frames_bytes l1'))
        by (rewrite !len_app; reflexivity).
      apply scanF_stop_zero.
Qed.

(* ---------------- zeroStaleTail ---------------- *)
Lemma apply_wactions_app f a b : apply_wactions f (a ++ b) = apply_wactions (apply_wactions f a) b.
Proof. unfold apply_wactions. apply fold_left_app. Qed.

Lemma all_zero_eq_zeros c : all_zero c = true -> c = zeros (length c).
Proof. apply all_zero_spec. Qed.

Lemma scrub_chunks_apply fuel : forall a a' x,
  length a' = length a -> len x <= N.of_nat fuel * min_buf_size ->
  apply_wactions (a ++ x) (scrub_chunks fuel (a' ++ x) (len a')) = a ++ zeros (length x).
Proof.
  induction fuel as [|fuel IH]; intros a a' x Hl Hx.
  - destruct x; [|rewrite len_cons in Hx; lia]. reflexivity.
  - cbn [scrub_chunks]. rewrite read_at_app.
    remember (N.to_nat min_buf_size) as M eqn:EM.
    assert (HM : N.of_nat M = min_buf_size /\ (0 < M)%nat) by (unfold min_buf_size in *; lia).
    clear EM. destruct HM as [HM HM0]. set (c := firstn M x).
    assert (Hxx : x = [] \/ x <> []) by (destruct x; [left|right]; congruence).
    destruct Hxx as [Hx0|Hxn].
    { subst x c. rewrite firstn_nil. reflexivity. }
    assert (Hc : c <> []).
    { intros Ec. apply length_zero_iff_nil in Ec. unfold c in Ec. rewrite firstn_length in Ec.
      assert (length x <> 0%nat) by (rewrite length_zero_iff_nil; exact Hxn). lia. }
    assert (Hm : forall (A : Type) (u v : A), match c with [] => u | _ :: _ => v end = v)
      by (intros; destruct c; congruence).
    rewrite Hm. rewrite apply_wactions_app.
    assert (Exc : x = c ++ skipn (length c) x).
    { unfold c. rewrite firstn_length. destruct (Nat.le_ge_cases M (length x)) as [H|H].
      - rewrite Nat.min_l by exact H. symmetry. apply firstn_skipn.
      - rewrite Nat.min_r by exact H. rewrite firstn_all2, skipn_all, app_nil_r by lia. reflexivity. }
    assert (E1 : apply_wactions (a ++ x) (if all_zero c then [] else [WWrite (len a') (zeros (length c))])
                 = (a ++ zeros (length c)) ++ skipn (length c) x).
    { destruct (all_zero c) eqn:Ez.
      - cbn. rewrite <- app_assoc. f_equal. rewrite Exc at 1. f_equal. apply all_zero_eq_zeros. exact Ez.
      - unfold apply_wactions. cbn [fold_left apply_waction]. rewrite to_nat_len, Hl, overwrite_app.
        rewrite zeros_length, <- app_assoc. reflexivity. }
    rewrite E1.
    replace (a' ++ x) with ((a' ++ c) ++ skipn (length c) x) by (rewrite <- app_assoc, <- Exc; reflexivity).
    replace (len a' + len c) with (len (a' ++ c)) by (rewrite len_app; reflexivity).
    rewrite IH.
    + rewrite <- app_assoc. f_equal. rewrite <- zeros_app. f_equal.
      rewrite skipn_length. unfold c. rewrite firstn_length. lia.
    + rewrite !app_length, zeros_length. lia.
    + unfold len. rewrite skipn_length. unfold c. rewrite firstn_length. unfold len in Hx. lia.
Qed.

(* after recovery everything behind the recovered write offset is zero *)
Theorem recover_leaves_zero_tail a x :
  apply_wactions (a ++ x) (scrub_actions (a ++ x) (len a)) = a ++ zeros (length x).
Proof.
  unfold scrub_actions.
  set (ws := scrub_chunks (S (N.to_nat (len (a ++ x) / min_buf_size))) (a ++ x) (len a)).
  assert (H : apply_wactions (a ++ x) ws = a ++ zeros (length x)).
  { unfold ws. apply scrub_chunks_apply; [reflexivity|].
    rewrite len_app. unfold min_buf_size. lia. }
  destruct ws as [|w0 wr] eqn:E; [exact H|].
  rewrite apply_wactions_app, H. reflexivity.
Qed.

(* one crash / recover round on the byte level *)
Theorem seg_recover_round info bs b T k :
  hdr_wf info -> chain_wf info c0 (bs ++ [b]) ->
  let s := cstate info bs in
  let new := batch_write info s b in
  torn new T -> no_torn_collision new T ->
  let f := c_img s ++ T ++ zeros k in
  let s' := if beq_bytes T new then cstep info s b else s in
  exists acts, recover_tail info f = Some (wst info s', acts) /\
               apply_wactions f acts = c_img s' ++ zeros (length f - length (c_img s')).
Proof.
  intros Hhw Hwf s new HT Hnc f s'.
  pose proof (seg_recover_torn info bs b T k Hhw Hwf HT Hnc) as Hr. fold s new f in Hr.
  unfold recover_tail. rewrite Hr.
  replace (if beq_bytes T new then wst info (cstep info s b) else wst info s) with (wst info s')
    by (unfold s'; destruct (beq_bytes T new); reflexivity).
  eexists. split; [reflexivity|].
  change (w_off (wst info s')) with (len (c_img s')).
  assert (Ef : exists x, f = c_img s' ++ x).
  { unfold s', f. destruct (beq_bytes T new) eqn:Eb.
    - apply beq_bytes_eq in Eb. subst T. exists (zeros k). cbn [cstep c_img]. rewrite <- app_assoc. reflexivity.
    - eexists. reflexivity. }
  destruct Ef as [x Ef]. rewrite Ef. rewrite recover_leaves_zero_tail.
  rewrite app_length. f_equal. f_equal. lia.
Qed.
