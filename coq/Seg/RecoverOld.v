(* RecoverOld.v -- recoverTailState as it was BEFORE the repair "fix: recovery
   verifies every commit frame it falls back to" (kept only to state that the
   old algorithm is refuted by a concrete history, Seg/FailFacts.v
   recover_old_refuted; nothing else depends on this file).

   The old code remembered the last two commit frames of the scan.  It trusted
   the last one without any check when entry frames followed it; otherwise it
   verified the CRC of the last one and, when that failed, fell back to the
   one before it WITHOUT verifying that one. *)
From RW Require Import Base.Bytes Base.Crc32c Fmt.Frame Seg.Writer Seg.Recover Gen.Constants.
Open Scope N_scope.

Record rec_acc_old := { ro_offsets : list N; ro_pending : N;
                        ro_prev : option commit_info; ro_final : option commit_info }.

Definition rec_step_old (a : rec_acc_old) (e : frame_ev) : rec_acc_old :=
  if fe_typ e =? FrameEntry then
    {| ro_offsets := ro_offsets a ++ [fe_off e mod two32]; ro_pending := ro_pending a;
       ro_prev := ro_prev a; ro_final := ro_final a |}
  else if fe_typ e =? FrameIndex then
    {| ro_offsets := ro_offsets a; ro_pending := fe_off e + 8;
       ro_prev := ro_prev a; ro_final := ro_final a |}
  else (* commit *)
    {| ro_offsets := ro_offsets a; ro_pending := 0;
       ro_prev := ro_final a;
       ro_final := Some {| c_crc := fe_val e; c_off := fe_off e;
                           c_crc_start := match ro_final a with
                                          | Some p => c_off p + 8
                                          | None => 0
                                          end;
                           c_offsets_len := length (ro_offsets a);
                           c_index_start := ro_pending a |} |}.

Definition rec_fold_old (evs : list frame_ev) : rec_acc_old :=
  fold_left rec_step_old evs {| ro_offsets := []; ro_pending := 0; ro_prev := None; ro_final := None |}.

Definition recover_state_old (info : seginfo) (f : bytes) : option wstate :=
  let a := rec_fold_old (scan f) in
  let hdr_ok := validate_file_header (scanned_header f) info in
  match ro_final a with
  | None => Some (init_empty info)
  | Some fc =>
      if Nat.ltb (c_offsets_len fc) (length (ro_offsets a)) then
        if hdr_ok then Some (recovered info (c_off fc + 8) (c_index_start fc)
                                       (firstn (c_offsets_len fc) (ro_offsets a)))
        else None
      else
        let batch := read_at f (c_crc_start fc) (c_off fc - c_crc_start fc) in
        if crc32c batch =? c_crc fc then
          if hdr_ok then Some (recovered info (c_off fc + 8) (c_index_start fc) (ro_offsets a))
          else None
        else
          match ro_prev a with
          | None => Some (init_empty info)
          | Some pc =>
              if hdr_ok then Some (recovered info (c_off pc + 8) (c_index_start pc)
                                             (firstn (c_offsets_len pc) (ro_offsets a)))
              else None
          end
  end.
