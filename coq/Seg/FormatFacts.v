(* FormatFacts.v -- C09: what the writer model writes is, byte for byte, the
   layout the README describes (Fmt/ReadmeSpec.v), with aligned zero-padded
   frames, commit CRCs over exactly the bytes since the previous commit, and an
   index frame that addresses the entry frames. *)
From RW Require Import Base.Bytes Base.BytesFacts Base.Crc32c Base.Crc32cFacts Fmt.Frame Fmt.FrameFacts
     Fmt.ReadmeSpec Fmt.ReadmeSpecFacts
     Seg.Writer Seg.Recover Seg.Reader Seg.SegAbs Seg.WriterFacts Seg.ScanFacts Seg.ReaderFacts Gen.Constants.
From Coq Require Import ZifyN ZifyNat ZifyBool.
Open Scope N_scope.

Definition hdr_of (info : seginfo) : rs_header :=
  {| h_base := si_base info; h_id := si_id info; h_codec := si_codec info |}.

(* ---------------- the model's encoders are the README's ---------------- *)
Lemma file_header_readme info : file_header info = rs_file_header (hdr_of info).
Proof. reflexivity. Qed.
Lemma enc_frame_readme p : enc_frame FrameEntry p = rs_frame rs_t_entry p.
Proof. reflexivity. Qed.
Lemma commit_frame_readme c : commit_frame c = rs_commit c.
Proof. reflexivity. Qed.
Lemma index_frame_readme offs : index_frame offs = rs_index offs.
Proof. rewrite index_frame_is_frame. reflexivity. Qed.
Lemma entries_bytes_readme ps : entries_bytes ps = rs_entries ps.
Proof. reflexivity. Qed.
Lemma entry_offsets_readme ps : forall pos, entry_offsets pos ps = rs_offsets pos ps.
Proof. induction ps as [|p r IH]; intros pos; [reflexivity|]. cbn [entry_offsets rs_offsets]. rewrite IH. reflexivity. Qed.

Lemma fold_image_readme info bs : forall s,
  c_img (fold_left (cstep info) bs s) =
  c_img s ++ match bs with
             | [] => []
             | _ => c_pend info s ++ rs_batches (c_pos info s) (c_pend info s) (c_offs s) bs
             end.
Proof.
  induction bs as [|[ps seal] bs IH]; intros s; [cbn; rewrite app_nil_r; reflexivity|].
  cbn [fold_left]. rewrite IH. cbn [rs_batches].
  set (b := (ps, seal)).
  assert (M : match bs with
              | [] => []
              | _ :: _ => c_pend info (cstep info s b) ++
                          rs_batches (c_pos info (cstep info s b)) (c_pend info (cstep info s b))
                                     (c_offs (cstep info s b)) bs
              end = rs_batches (c_pos info (cstep info s b)) [] (c_offs (cstep info s b)) bs).
  { rewrite c_pend_cstep. destruct bs; reflexivity. }
  rewrite M. clear M. rewrite c_pos_cstep. cbn [cstep c_img c_offs].
  unfold batch_write, batch_body, c_offs'. cbn [b fst snd].
  rewrite entries_bytes_readme, entry_offsets_readme, commit_frame_readme.
  rewrite !index_frame_readme.
  set (body := rs_entries ps ++ (if seal then rs_index (c_offs s ++ rs_offsets (c_pos info s) ps) else [])).
  replace (len (c_img s ++ (c_pend info s ++ body) ++ rs_commit (crc32c (c_pend info s ++ body))))
    with (c_pos info s + len body + 8)
    by (unfold c_pos; rewrite !len_app; change (len (rs_commit (crc32c (c_pend info s ++ body)))) with 8; lia).
  rewrite <- !app_assoc. reflexivity.
Qed.

Theorem image_is_layout info bs : image info bs = layout (hdr_of info) bs.
Proof.
  unfold image, cstate. rewrite fold_image_readme. cbn [c0 c_img app]. unfold layout.
  destruct bs; reflexivity.
Qed.

(* ---------------- C09_writer_matches_readme ---------------- *)
Theorem writer_matches_readme info ops w acts bs :
  wrun (init_empty info) ops = Some (w, acts, bs) ->
  len (layout (hdr_of info) bs) < two32 ->
  writes_contiguous 0 acts /\ writes_concat acts = layout (hdr_of info) bs.
Proof.
  intros H Hl. rewrite <- image_is_layout in *.
  destruct (wrun_image info ops w acts bs H Hl) as (_ & A & B). auto.
Qed.

(* ---------------- C09_frames_aligned ---------------- *)
Lemma cstate_aligned info bs :
  len (c_img (cstate info bs)) mod 8 = 0 /\ Forall (fun o => o mod 8 = 0) (c_offs (cstate info bs)).
Proof.
  induction bs as [|b bs IH] using rev_ind; [split; [reflexivity|constructor]|].
  destruct IH as [Hi Ho]. rewrite cstate_snoc. set (s := cstate info bs) in *.
  assert (Hpos : c_pos info s mod 8 = 0).
  { unfold c_pos. rewrite len_c_pend. destruct (len (c_img s) =? 0) eqn:E; [apply N.eqb_eq in E|]; lia. }
  split.
  - rewrite len_img_cstep, len_batch_body.
    pose proof (len_entries_bytes_aligned (fst b)).
    destruct (snd b); [pose proof (enc_frame_size_aligned (4 * len (c_offs' info s b)))|]; lia.
  - cbn [cstep c_offs]. unfold c_offs'. apply Forall_app; split; [exact Ho|].
    apply entry_offsets_aligned. exact Hpos.
Qed.

Theorem frames_aligned info ops w acts bs :
  wrun (init_empty info) ops = Some (w, acts, bs) -> len (layout (hdr_of info) bs) < two32 ->
  w_off w mod 8 = 0 /\ Forall (fun o => o mod 8 = 0) (w_offsets w) /\
  (* every entry frame sits at its recorded offset, payload followed by zero padding *)
  forall i off p, nth_error (w_offsets w) i = Some off -> nth_error (payloads bs) i = Some p ->
    exists a r, layout (hdr_of info) bs =
                a ++ frame_header FrameEntry (len p) ++ p ++ zeros (N.to_nat (pad_len (len p))) ++ r
                /\ len a = off /\ (len p + pad_len (len p)) mod 8 = 0.
Proof.
  intros H Hl. rewrite <- image_is_layout in *.
  destruct (wrun_image info ops w acts bs H Hl) as (-> & _ & _).
  destruct (cstate_aligned info bs) as [A B]. cbn [wst w_off w_offsets].
  split; [exact A|]. split; [exact B|].
  intros i off p Ho Hp. destruct (image_entry info bs i off p Ho Hp) as (a & r & E & L).
  exists a, r. split; [|split; [exact L|apply pad_len_aligned]].
  rewrite E. unfold enc_frame. rewrite <- !app_assoc. reflexivity.
Qed.

(* ---------------- C09_commit_crc_range ---------------- *)
(* the bytes a batch adds are X ++ commit frame, and the commit frame's CRC is
   the CRC-32C of exactly X: everything since the previous commit (for the first
   batch since offset 0, i.e. including the file header) *)
Theorem commit_crc_range info bs b :
  exists X, image info (bs ++ [b]) = image info bs ++ X ++ commit_frame (crc32c X) /\
            (bs <> [] -> X = batch_body info (cstate info bs) b) /\
            (bs = [] -> X = file_header info ++ batch_body info c0 b).
Proof.
  unfold image. rewrite cstate_snoc. cbn [cstep c_img]. unfold batch_write.
  exists (c_pend info (cstate info bs) ++ batch_body info (cstate info bs) b).
  rewrite <- !app_assoc. split; [reflexivity|]. split.
  - intros Hne. destruct bs as [|x l] using rev_ind; [congruence|].
    rewrite cstate_snoc, c_pend_cstep. reflexivity.
  - intros ->. reflexivity.
Qed.

(* committed bytes are never rewritten: the image of a prefix is a prefix *)
Theorem image_prefix info bs1 bs2 : exists r, image info (bs1 ++ bs2) = image info bs1 ++ r.
Proof.
  unfold image. rewrite cstate_app. generalize (cstate info bs1) as s.
  induction bs2 as [|b r IH]; intros s; [exists []; cbn; rewrite app_nil_r; reflexivity|].
  cbn [fold_left]. destruct (IH (cstep info s b)) as [x E]. rewrite E. cbn [cstep c_img].
  rewrite <- app_assoc. eexists. reflexivity.
Qed.

(* ---------------- C09_index_frame ---------------- *)
Theorem index_frame_ok info ops w acts bs :
  wrun (init_empty info) ops = Some (w, acts, bs) -> len (layout (hdr_of info) bs) < two32 ->
  sealed w = true ->
  (* IndexStart is the file offset of the index array, which is the le32 array
     of exactly the entry-frame offsets, preceded by an Index frame header *)
  (exists a r, layout (hdr_of info) bs =
               a ++ frame_header FrameIndex (4 * len (w_offsets w)) ++ flat_map le32 (w_offsets w) ++ r
               /\ len a + 8 = w_index_start w) /\
  length (w_offsets w) = length (payloads bs) /\
  (* and each offset is where the layout put that entry's frame *)
  forall i off p, nth_error (w_offsets w) i = Some off -> nth_error (payloads bs) i = Some p ->
    exists a r, layout (hdr_of info) bs = a ++ rs_frame rs_t_entry p ++ r /\ len a = off.
Proof.
  intros H Hl Hs. rewrite <- image_is_layout in *.
  destruct (wrun_image info ops w acts bs H Hl) as (-> & _ & _).
  unfold sealed in Hs. cbn [wst w_index_start w_offsets] in *. apply N.ltb_lt in Hs.
  split; [|split].
  - unfold image. destruct bs as [|b bs] using rev_ind; [cbn in Hs; lia|]. clear IHbs.
    rewrite cstate_snoc in *. set (s := cstate info bs) in *. cbn [cstep c_istart c_offs c_img] in *.
    destruct (snd b) eqn:Eb; [|lia].
    exists (c_img s ++ c_pend info s ++ entries_bytes (fst b)). eexists. split.
    + unfold batch_write, batch_body. rewrite Eb. unfold index_frame, index_payload.
      rewrite <- !app_assoc. reflexivity.
    + rewrite !len_app. unfold c_pos. lia.
  - apply c_offs_length.
  - intros i off p Ho Hp. rewrite <- enc_frame_readme. apply (image_entry info bs i off p Ho Hp).
Qed.

(* ---------------- C09_header_name_meta ---------------- *)
Lemma dec_digits_readme fuel : forall v acc, dec_digits fuel v acc = rs_digits 10 fuel v ++ acc.
Proof.
  induction fuel as [|f IH]; intros v acc; [reflexivity|].
  cbn [dec_digits rs_digits]. rewrite IH, <- app_assoc. cbn [app]. do 2 f_equal.
  unfold rs_digit. replace (v mod 10 <? 10) with true; [reflexivity|].
  symmetry. apply N.ltb_lt. apply N.mod_lt. lia.
Qed.

Lemma hex_digits_readme fuel : forall v acc, hex_digits fuel v acc = rs_digits 16 fuel v ++ acc.
Proof.
  induction fuel as [|f IH]; intros v acc; [reflexivity|].
  cbn [hex_digits rs_digits]. rewrite IH, <- app_assoc. cbn [app]. do 2 f_equal.
  unfold rs_digit, hexd. destruct (v mod 16 <? 10) eqn:E; [reflexivity|]. apply N.ltb_ge in E. lia.
Qed.

Theorem file_name_readme base id : file_name base id = rs_file_name base id.
Proof.
  unfold file_name, rs_file_name. rewrite dec_digits_readme, hex_digits_readme, !app_nil_r. reflexivity.
Qed.

Theorem header_name_meta info ops w acts bs k :
  wrun (init_empty info) ops = Some (w, acts, bs) -> len (layout (hdr_of info) bs) < two32 ->
  bs <> [] -> si_base info < two64 -> si_id info < two64 -> si_codec info < two64 ->
  (* the 32 header bytes carry exactly BaseIndex, ID and Codec of the metadata *)
  rs_parse_header (writes_concat acts ++ zeros k) = Some (hdr_of info) /\
  read_file_header (writes_concat acts ++ zeros k) = Some (si_base info, si_id info, si_codec info) /\
  file_name (si_base info) (si_id info) = rs_file_name (h_base (hdr_of info)) (h_id (hdr_of info)).
Proof.
  intros H Hl Hne Hb Hi Hc.
  destruct (writer_matches_readme info ops w acts bs H Hl) as [_ E]. rewrite E.
  unfold layout. destruct bs; [congruence|]. rewrite <- !app_assoc. split; [|split].
  - apply parse_header_layout. repeat split; assumption.
  - rewrite <- file_header_readme. apply read_file_header_hdr; assumption.
  - apply file_name_readme.
Qed.

(* ---------------- C09_spec_decodes ---------------- *)
Lemma wrun_batches_wf_readme ops : forall w w' acts bs,
  Forall (fun op => match op with OpAppend es => Forall (fun e => wf_bytes (snd e)) es | OpSeal => True end) ops ->
  wrun w ops = Some (w', acts, bs) -> Forall rs_batch_wf bs.
Proof.
  induction ops as [|op r IH]; intros w w' acts bs Hw H.
  - cbn in H. inversion H; subst. constructor.
  - inversion Hw as [|? ? Hop Hr]; subst. cbn [wrun] in H.
    destruct (do_op w op) as [[res w1] acts0] eqn:Eop. destruct res; try discriminate.
    destruct (wrun w1 r) as [[[w2 acts2] bs2]|] eqn:E; [|discriminate].
    inversion H; subst. apply Forall_app; split; [|eapply IH; eassumption].
    destruct op as [es|]; cbn [op_batch do_op] in *.
    + destruct es as [|e0 r0] eqn:Ees; [constructor|]. rewrite <- Ees in *.
      constructor; [|constructor]. unfold rs_batch_wf. cbn [fst]. rewrite Forall_map.
      apply append_ok_not_too_big in Eop. apply too_big_false in Eop.
      rewrite Forall_forall in *. intros e He. split; [apply Hop; exact He|].
      specialize (Eop e He). exact Eop.
    + destruct (sealed w); constructor; [constructor|constructor].
Qed.

(* the independent decoder reads back header and batches (payloads and seal
   flags) from everything the writer model writes *)
Theorem spec_decodes info ops w acts bs k :
  Forall (fun op => match op with OpAppend es => Forall (fun e => wf_bytes (snd e)) es | OpSeal => True end) ops ->
  wrun (init_empty info) ops = Some (w, acts, bs) -> len (layout (hdr_of info) bs) < two32 ->
  bs <> [] -> si_base info < two64 -> si_id info < two64 -> si_codec info < two64 ->
  parse (writes_concat acts ++ zeros k) = Some (hdr_of info, bs).
Proof.
  intros Hw H Hl Hne Hb Hi Hc.
  destruct (writer_matches_readme info ops w acts bs H Hl) as [_ E]. rewrite E.
  apply parse_layout; try assumption.
  - repeat split; assumption.
  - eapply wrun_batches_wf_readme; eassumption.
Qed.

(* ---------------- constants_match_readme ---------------- *)
(* Gen/Constants.v is regenerated from /repo on every check; magic,
   fileHeaderLen, frameHeaderLen are unexported in the code and live in
   Fmt/Frame.v, where the `format` stream observes them in every file. *)
Theorem constants_match_readme :
  MaxEntrySize = 67108864 /\ MaxEntrySize = rs_max_entry /\
  FrameInvalid = 0 /\ FrameEntry = 1 /\ FrameIndex = 2 /\ FrameCommit = 3 /\
  FrameInvalid = rs_t_invalid /\ FrameEntry = rs_t_entry /\ FrameIndex = rs_t_index /\ FrameCommit = rs_t_commit /\
  magic = 1491823373 /\ magic = rs_magic /\ file_header_len = 32 /\ frame_header_len = 8 /\
  FileNameProbe = rs_file_name 1234567 11259375.
Proof. repeat split; reflexivity. Qed.

(* ---------------- only the last batch can seal ---------------- *)
Fixpoint only_last_sealed (bs : list batch) : Prop :=
  match bs with
  | [] => True
  | b :: r => match r with [] => True | _ => snd b = false /\ only_last_sealed r end
  end.

Lemma wrun_after_sealed info ops : forall s w acts bs,
  c_istart s <> 0 -> wrun (wst info s) ops = Some (w, acts, bs) -> bs = [].
Proof.
  induction ops as [|op r IH]; intros s w acts bs Hs H.
  - cbn in H. inversion H. reflexivity.
  - cbn [wrun] in H.
    assert (Hsealed : (0 <? w_index_start (wst info s)) = true)
      by (cbn [wst w_index_start]; apply N.ltb_lt; lia).
    destruct op as [es|]; cbn [do_op] in H.
    + destruct es as [|e0 r0].
      * cbn [append] in H. destruct (wrun (wst info s) r) as [[[w2 a2] b2]|] eqn:E; [|discriminate].
        inversion H; subst. cbn [op_batch app]. eapply IH; eassumption.
      * unfold append in H. rewrite Hsealed in H. discriminate.
    + unfold force_seal in H. rewrite Hsealed in H.
      destruct (wrun (wst info s) r) as [[[w2 a2] b2]|] eqn:E; [|discriminate].
      inversion H; subst. cbn [op_batch]. unfold sealed. rewrite Hsealed. cbn [app]. eapply IH; eassumption.
Qed.

Lemma op_batch_shape w w' op : op_batch w w' op = [] \/ exists b, op_batch w w' op = [b].
Proof.
  destruct op as [es|]; cbn [op_batch].
  - destruct es; [left; reflexivity|right; eexists; reflexivity].
  - destruct (sealed w); [left; reflexivity|right; eexists; reflexivity].
Qed.

Lemma wrun_seal_shape info ops : forall s w acts bs,
  wrun (wst info s) ops = Some (w, acts, bs) ->
  len (c_img (fold_left (cstep info) bs s)) < two32 ->
  c_istart s = 0 -> only_last_sealed bs.
Proof.
  induction ops as [|op r IH]; intros s w acts bs H Hlen Hs.
  - cbn in H. inversion H. exact I.
  - pose proof H as H0. cbn [wrun] in H.
    destruct (do_op (wst info s) op) as [[res w'] acts0] eqn:Eop. destruct res; try discriminate.
    destruct (wrun w' r) as [[[w2 acts2] bs2]|] eqn:Er; [|discriminate].
    inversion H; subst w2 acts bs. clear H.
    set (bs1 := op_batch (wst info s) w' op) in *.
    assert (H1 : wrun (wst info s) [op] = Some (w', acts0 ++ [], bs1 ++ [])).
    { cbn [wrun]. rewrite Eop. reflexivity. }
    rewrite !app_nil_r in H1.
    assert (Hl1 : len (c_img (fold_left (cstep info) bs1 s)) < two32).
    { rewrite fold_left_app in Hlen.
      pose proof (len_img_fold_mono info bs2 (fold_left (cstep info) bs1 s)). lia. }
    destruct (wrun_char info [op] s w' acts0 bs1 H1 Hl1) as (Ew' & _ & _).
    rewrite Ew' in Er. rewrite fold_left_app in Hlen.
    destruct (op_batch_shape (wst info s) w' op) as [E|[b E]]; fold bs1 in E; rewrite E in *.
    + cbn [fold_left app] in *. eapply IH; eassumption.
    + cbn [fold_left app] in *. destruct (snd b) eqn:Eb.
      * assert (Hne : c_istart (cstep info s b) <> 0).
        { cbn [cstep c_istart]. rewrite Eb. lia. }
        rewrite (wrun_after_sealed info r _ _ _ _ Hne Er). exact I.
      * assert (Hz : c_istart (cstep info s b) = 0) by (cbn [cstep c_istart]; rewrite Eb; reflexivity).
        specialize (IH _ _ _ _ Er Hlen Hz). cbn [only_last_sealed].
        destruct bs2; [exact I|]. split; assumption.
Qed.

Lemma istart_readme info bs : forall s,
  only_last_sealed bs -> bs <> [] ->
  c_istart (fold_left (cstep info) bs s) = rs_index_start_from (c_pos info s) bs.
Proof.
  induction bs as [|[ps seal] bs IH]; intros s Ho Hne; [congruence|].
  cbn [fold_left rs_index_start_from]. destruct bs as [|b2 bs'].
  - cbn [fold_left cstep c_istart fst snd]. destruct seal; reflexivity.
  - cbn [only_last_sealed] in Ho. destruct Ho as [Hs Ho]. cbn [snd] in Hs. subst seal.
    rewrite IH by (assumption || discriminate).
    rewrite c_pos_cstep, len_img_cstep, len_batch_body. cbn [fst snd].
    rewrite entries_bytes_readme. f_equal. lia.
Qed.

(* the IndexStart the writer reports is the README's: the offset of the index
   array of the (only, last) sealing batch, 0 when unsealed *)
Theorem index_start_readme info ops w acts bs :
  wrun (init_empty info) ops = Some (w, acts, bs) -> len (layout (hdr_of info) bs) < two32 ->
  only_last_sealed bs /\ w_index_start w = rs_index_start bs.
Proof.
  intros H Hl. rewrite <- image_is_layout in Hl.
  destruct (wrun_image info ops w acts bs H Hl) as (Ew & _ & _).
  rewrite <- wst_c0 in H.
  pose proof (wrun_seal_shape info ops c0 w acts bs H Hl eq_refl) as Hshape.
  split; [exact Hshape|]. subst w. cbn [wst w_index_start]. unfold rs_index_start.
  destruct bs as [|b0 bs0] eqn:Eb; [reflexivity|]. rewrite <- Eb in *.
  unfold cstate. rewrite istart_readme by (assumption || (rewrite Eb; discriminate)). reflexivity.
Qed.
