(* SegAbs.v -- the byte image of a segment file as a function of the batches
   committed to it (definitions only; used by the *Facts files to state what
   the writer produces and what recovery / readers get back).  Built from the
   model's own encoders (Fmt/Frame.v); ReadmeSpec.v is the independent twin. *)
From RW Require Import Base.Bytes Base.Crc32c Fmt.Frame Seg.Writer Gen.Constants.
Open Scope N_scope.

(* a committed batch: entry payloads, and whether this batch sealed the file *)
Definition batch := (list bytes * bool)%type.

Fixpoint entry_offsets (pos : N) (ps : list bytes) : list N :=
  match ps with
  | [] => []
  | p :: r => pos :: entry_offsets (pos + enc_frame_size (len p)) r
  end.

Definition entries_bytes (ps : list bytes) : bytes := flat_map (enc_frame FrameEntry) ps.

(* chain state: file image up to the last commit, offsets of all entry frames,
   index start (0 = unsealed) *)
Record cst := { c_img : bytes; c_offs : list N; c_istart : N }.

Definition c0 : cst := {| c_img := []; c_offs := []; c_istart := 0 |}.

(* bytes buffered but not yet written: the file header before the first commit *)
Definition c_pend (info : seginfo) (s : cst) : bytes :=
  match c_img s with [] => file_header info | _ => [] end.

(* offset of the first frame of the next batch *)
Definition c_pos (info : seginfo) (s : cst) : N := len (c_img s) + len (c_pend info s).

Definition c_offs' (info : seginfo) (s : cst) (b : batch) : list N :=
  c_offs s ++ entry_offsets (c_pos info s) (fst b).

Definition batch_body (info : seginfo) (s : cst) (b : batch) : bytes :=
  entries_bytes (fst b) ++ (if snd b then index_frame (c_offs' info s b) else []).

(* what one append (or force-seal: no entries, seal flag) writes at len (c_img s) *)
Definition batch_write (info : seginfo) (s : cst) (b : batch) : bytes :=
  let pb := c_pend info s ++ batch_body info s b in
  pb ++ commit_frame (crc32c pb).

Definition cstep (info : seginfo) (s : cst) (b : batch) : cst :=
  {| c_img := c_img s ++ batch_write info s b;
     c_offs := c_offs' info s b;
     c_istart := if snd b then c_pos info s + len (entries_bytes (fst b)) + 8 else 0 |}.

Definition cstate (info : seginfo) (bs : list batch) : cst := fold_left (cstep info) bs c0.
Definition image (info : seginfo) (bs : list batch) : bytes := c_img (cstate info bs).

(* the writer state after committing exactly the batches summarised by s *)
Definition wst (info : seginfo) (s : cst) : wstate :=
  let w := {| w_info := info; w_buf := c_pend info s; w_crc := crc32c (c_pend info s);
              w_off := len (c_img s); w_index_start := c_istart s; w_offsets := c_offs s;
              w_commit_idx := 0 |} in
  {| w_info := info; w_buf := w_buf w; w_crc := w_crc w; w_off := w_off w;
     w_index_start := w_index_start w; w_offsets := w_offsets w;
     w_commit_idx := commit_idx_of w |}.

(* operations of the write path and their traces *)
Inductive wop := OpAppend (es : list entry) | OpSeal.

Definition do_op (w : wstate) (op : wop) : wres * wstate * list waction :=
  match op with
  | OpAppend es => append w es FNone
  | OpSeal => force_seal w FNone
  end.

(* the batch an operation commits, with the seal flag the writer chose *)
Definition op_batch (w w' : wstate) (op : wop) : list batch :=
  match op with
  | OpAppend [] => []
  | OpAppend es => [(map snd es, sealed w')]
  | OpSeal => if sealed w then [] else [([], true)]
  end.

(* run a sequence of operations, all of which must succeed *)
Fixpoint wrun (w : wstate) (ops : list wop) : option (wstate * list waction * list batch) :=
  match ops with
  | [] => Some (w, [], [])
  | op :: r =>
      match do_op w op with
      | (WOk, w', acts) =>
          match wrun w' r with
          | Some (w'', acts', bs) => Some (w'', acts ++ acts', op_batch w w' op ++ bs)
          | None => None
          end
      | _ => None
      end
  end.

(* concatenation of the written byte strings, and "each write starts where the
   previous one ended" *)
Fixpoint writes_concat (acts : list waction) : bytes :=
  match acts with
  | [] => []
  | WWrite _ bs :: r => bs ++ writes_concat r
  | WSync :: r => writes_concat r
  end.

Fixpoint writes_contiguous (pos : N) (acts : list waction) : Prop :=
  match acts with
  | [] => True
  | WWrite off bs :: r => off = pos /\ writes_contiguous (pos + len bs) r
  | WSync :: r => writes_contiguous pos r
  end.
