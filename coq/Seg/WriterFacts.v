(* WriterFacts.v -- what Seg/Writer.v writes: every successful append /
   force-seal from init_empty extends the file image by exactly one batch of
   SegAbs.image, and the writer state is a function (SegAbs.wst) of the batches
   committed so far. *)
From RW Require Import Base.Bytes Base.BytesFacts Base.Crc32c Base.Crc32cFacts
     Fmt.Frame Fmt.FrameFacts Seg.Writer Seg.SegAbs Gen.Constants.
From Coq Require Import ZifyN ZifyNat ZifyBool.
Open Scope N_scope.

(* ---------------- entries ---------------- *)
Fixpoint idx_ok (start : N) (es : list entry) : Prop :=
  match es with
  | [] => True
  | e :: r => fst e = start /\ idx_ok (start + 1) r
  end.

Lemma len_entries_bytes_cons p ps :
  len (entries_bytes (p :: ps)) = enc_frame_size (len p) + len (entries_bytes ps).
Proof. unfold entries_bytes. cbn [flat_map]. rewrite len_app, len_enc_frame. reflexivity. Qed.

Lemma entries_bytes_app a b : entries_bytes (a ++ b) = entries_bytes a ++ entries_bytes b.
Proof. unfold entries_bytes. apply flat_map_app. Qed.

Lemma entry_offsets_app pos a b :
  entry_offsets pos (a ++ b) = entry_offsets pos a ++ entry_offsets (pos + len (entries_bytes a)) b.
Proof.
  revert pos; induction a as [|p a IH]; intros pos.
  - cbn. rewrite N.add_0_r. reflexivity.
  - cbn [app entry_offsets]. rewrite IH, len_entries_bytes_cons. f_equal. f_equal. f_equal. lia.
Qed.

Lemma entry_offsets_length pos ps : length (entry_offsets pos ps) = length ps.
Proof. revert pos; induction ps as [|p r IH]; intros pos; cbn; [reflexivity|]. rewrite IH. reflexivity. Qed.

Lemma entry_offsets_bound pos ps :
  Forall (fun o => pos <= o /\ o + 8 <= pos + len (entries_bytes ps)) (entry_offsets pos ps).
Proof.
  revert pos; induction ps as [|p r IH]; intros pos; cbn [entry_offsets]; constructor.
  - rewrite len_entries_bytes_cons. pose proof (enc_frame_size_ge (len p)). lia.
  - rewrite len_entries_bytes_cons. eapply Forall_impl; [|apply IH].
    intros o [H1 H2]. pose proof (enc_frame_size_ge (len p)). lia.
Qed.

Lemma entry_offsets_aligned pos ps :
  pos mod 8 = 0 -> Forall (fun o => o mod 8 = 0) (entry_offsets pos ps).
Proof.
  revert pos; induction ps as [|p r IH]; intros pos H; cbn [entry_offsets]; constructor; [exact H|].
  apply IH. pose proof (enc_frame_size_aligned (len p)). lia.
Qed.

Lemma len_entries_bytes_aligned ps : len (entries_bytes ps) mod 8 = 0.
Proof.
  induction ps as [|p r IH]; [reflexivity|].
  rewrite len_entries_bytes_cons. pose proof (enc_frame_size_aligned (len p)). lia.
Qed.

Lemma map_mod_small (l : list N) b :
  Forall (fun o => o < b) l -> map (fun o => o mod b) l = l.
Proof.
  induction 1 as [|x l H _ IH]; [reflexivity|]. cbn. rewrite IH, N.mod_small by exact H. reflexivity.
Qed.

(* append_entries: buffer, crc and offsets after a run of entries *)
Lemma append_entries_char es : forall w w1,
  append_entries w es = Some w1 ->
  idx_ok (si_base (w_info w) + len (w_offsets w)) es /\
  w1 = set_buf w (w_buf w ++ entries_bytes (map snd es))
             (crc_update (w_crc w) (entries_bytes (map snd es)))
             (w_offsets w ++ map (fun o => o mod two32)
                                 (entry_offsets (w_off w + len (w_buf w)) (map snd es))).
Proof.
  induction es as [|e r IH]; intros w w1 H.
  - cbn in H. inversion H; subst. split; [exact I|].
    cbn [map entries_bytes flat_map entry_offsets]. rewrite !app_nil_r, crc_update_nil.
    destruct w1; reflexivity.
  - cbn [append_entries] in H. unfold append_entry in H.
    destruct (fst e =? si_base (w_info w) + len (w_offsets w)) eqn:E; [|discriminate].
    apply N.eqb_eq in E. apply IH in H. destruct H as [Hi Hw]. split.
    + cbn [idx_ok]. split; [exact E|]. cbn [set_buf w_info w_offsets] in Hi.
      rewrite len_app in Hi. replace (len [(w_off w + len (w_buf w)) mod two32]) with 1 in Hi by reflexivity.
      rewrite <- N.add_assoc. exact Hi.
    + subst w1. unfold set_buf. cbn [w_info w_buf w_crc w_off w_index_start w_offsets w_commit_idx].
      cbn [map entries_bytes flat_map entry_offsets].
      fold (entries_bytes (map snd r)).
      rewrite <- !app_assoc. rewrite <- crc_update_app.
      rewrite len_app, len_enc_frame. cbn [app].
      rewrite N.add_assoc. reflexivity.
Qed.

Lemma append_entries_ok es : forall w,
  idx_ok (si_base (w_info w) + len (w_offsets w)) es ->
  exists w1, append_entries w es = Some w1.
Proof.
  induction es as [|e r IH]; intros w H; [eexists; reflexivity|].
  cbn [idx_ok] in H. destruct H as [H1 H2].
  cbn [append_entries]. unfold append_entry. rewrite H1, N.eqb_refl.
  apply IH. cbn [set_buf w_info w_offsets]. rewrite len_app.
  replace (len [(w_off w + len (w_buf w)) mod two32]) with 1 by reflexivity.
  rewrite N.add_assoc. exact H2.
Qed.

(* ---------------- chain state ---------------- *)
Lemma c_img_cstep_nonnil info s b : c_img (cstep info s b) <> [].
Proof.
  cbn [cstep c_img]. unfold batch_write, commit_frame, frame_header. intros H.
  apply app_eq_nil in H as [_ H]. apply app_eq_nil in H as [_ H]. discriminate.
Qed.

Lemma c_pend_cstep info s b : c_pend info (cstep info s b) = [].
Proof.
  unfold c_pend. pose proof (c_img_cstep_nonnil info s b) as H.
  destruct (c_img (cstep info s b)); [congruence|reflexivity].
Qed.

Lemma c_pos_cstep info s b : c_pos info (cstep info s b) = len (c_img (cstep info s b)).
Proof. unfold c_pos. rewrite c_pend_cstep. cbn. lia. Qed.

Lemma len_c_pend info s : len (c_pend info s) = if len (c_img s) =? 0 then 32 else 0.
Proof.
  unfold c_pend. destruct (c_img s) as [|x r]; [reflexivity|].
  rewrite len_cons. replace (1 + len r =? 0) with false by (symmetry; apply N.eqb_neq; lia). reflexivity.
Qed.

Lemma len_batch_write info s b :
  len (batch_write info s b) = len (c_pend info s) + len (batch_body info s b) + 8.
Proof. unfold batch_write. rewrite len_app, len_commit_frame, len_app. reflexivity. Qed.

Lemma len_img_cstep info s b :
  len (c_img (cstep info s b)) = c_pos info s + len (batch_body info s b) + 8.
Proof. cbn [cstep c_img]. rewrite len_app, len_batch_write. unfold c_pos. lia. Qed.

Lemma len_batch_body info s b :
  len (batch_body info s b) =
  len (entries_bytes (fst b)) + (if snd b then enc_frame_size (4 * len (c_offs' info s b)) else 0).
Proof.
  unfold batch_body. rewrite len_app. destruct (snd b); [rewrite len_index_frame|]; reflexivity.
Qed.

Lemma cstate_snoc info bs b : cstate info (bs ++ [b]) = cstep info (cstate info bs) b.
Proof. unfold cstate. rewrite fold_left_app. reflexivity. Qed.

Lemma cstate_app info a b : cstate info (a ++ b) = fold_left (cstep info) b (cstate info a).
Proof. unfold cstate. apply fold_left_app. Qed.

(* ---------------- one append ---------------- *)
Lemma wst_c0 info : wst info c0 = init_empty info.
Proof. reflexivity. Qed.

Lemma sealed_wst info s : sealed (wst info s) = (0 <? c_istart s).
Proof. reflexivity. Qed.

Lemma commit_idx_of_ext w w' :
  w_info w = w_info w' -> w_offsets w = w_offsets w' -> commit_idx_of w = commit_idx_of w'.
Proof. intros H1 H2. unfold commit_idx_of. rewrite H1, H2. reflexivity. Qed.

Lemma append_wst info s es w1 :
  es <> [] -> c_istart s = 0 -> too_big es = false ->
  append_entries (wst info s) es = Some w1 ->
  len (c_img (cstep info s (map snd es, needs_seal w1))) < two32 ->
  append (wst info s) es FNone =
    (WOk, wst info (cstep info s (map snd es, needs_seal w1)),
     [WWrite (len (c_img s)) (batch_write info s (map snd es, needs_seal w1)); WSync]).
Proof.
  intros Hne Hseal Hbig Hent Hlen.
  set (b := (map snd es, needs_seal w1)) in *.
  destruct (append_entries_char _ _ _ Hent) as [_ Hw1].
  pose proof (len_img_cstep info s b) as Limg.
  pose proof (len_batch_body info s b) as Lbody.
  pose proof (entry_offsets_bound (c_pos info s) (fst b)) as Hbnd.
  assert (Hoffs : w_offsets w1 = c_offs' info s b).
  { rewrite Hw1. cbn [set_buf w_offsets wst w_off w_buf]. unfold c_offs'. f_equal.
    fold (c_pos info s). apply map_mod_small.
    eapply Forall_impl; [|exact Hbnd]. intros o [_ Ho]. cbn [fst b] in *.
    destruct (snd b); lia. }
  assert (Hnn : w_offsets w1 <> []).
  { rewrite Hoffs. unfold c_offs'. destruct es as [|e r]; [congruence|].
    cbn [b fst map entry_offsets]. intros H. apply app_eq_nil in H as [_ H]. discriminate. }
  assert (Hm : forall (A : Type) (x y : A), match es with [] => x | _ :: _ => y end = y)
    by (intros; destruct es; congruence).
  unfold append. rewrite Hm.
  replace (0 <? w_index_start (wst info s)) with false
    by (cbn [wst w_index_start]; rewrite Hseal; reflexivity).
  rewrite Hbig, Hent.
  assert (Hbuf1 : w_buf w1 = c_pend info s ++ entries_bytes (map snd es)) by (rewrite Hw1; reflexivity).
  assert (Hcrc1 : w_crc w1 = crc32c (c_pend info s ++ entries_bytes (map snd es))).
  { rewrite Hw1. cbn [set_buf w_crc wst]. rewrite crc32c_app. reflexivity. }
  assert (Hoff1 : w_off w1 = len (c_img s)) by (rewrite Hw1; reflexivity).
  assert (Hinfo1 : w_info w1 = info) by (rewrite Hw1; reflexivity).
  assert (Hist1 : w_index_start w1 = 0) by (rewrite Hw1; cbn [set_buf w_index_start wst]; exact Hseal).
  destruct (needs_seal w1) eqn:Eseal.
  - (* sealing append *)
    unfold append_index. destruct (w_offsets w1) as [|o1 or1] eqn:Eo; [congruence|]. rewrite <- Eo in *.
    unfold append_commit.
    cbn [w_info w_buf w_crc w_off w_index_start w_offsets w_commit_idx].
    f_equal; [f_equal|].
    + (* state *)
      unfold wst. cbn [w_info w_buf w_crc w_off w_index_start w_offsets w_commit_idx].
      rewrite c_pend_cstep. change (crc32c []) with 0.
      assert (Eoff : (w_off w1 + len ((w_buf w1 ++ index_frame (w_offsets w1)) ++
                        commit_frame (crc_update (w_crc w1) (index_frame (w_offsets w1))))) mod two32
                     = len (c_img (cstep info s b))).
      { rewrite Hoff1, Hbuf1, Hoffs. rewrite !len_app, len_commit_frame.
        rewrite N.mod_small.
        - rewrite Limg, Lbody. unfold c_pos. cbn [b fst snd]. rewrite len_index_frame. lia.
        - rewrite Limg, Lbody in Hlen. unfold c_pos in Hlen. cbn [b fst snd] in Hlen.
          rewrite len_index_frame. lia. }
      rewrite Eoff. cbn [cstep c_offs c_istart b snd fst].
      rewrite Hinfo1, Hoffs, Hoff1, Hbuf1.
      f_equal; try (unfold c_pos; rewrite len_app; lia); try (apply commit_idx_of_ext; reflexivity).
    + (* bytes written *)
      rewrite Hoff1. f_equal. unfold batch_write, batch_body. cbn [b fst snd].
      rewrite Hbuf1, Hcrc1, Hoffs. rewrite <- crc32c_app. rewrite <- !app_assoc. reflexivity.
  - (* plain append *)
    unfold append_commit.
    cbn [w_info w_buf w_crc w_off w_index_start w_offsets w_commit_idx].
    f_equal; [f_equal|].
    + unfold wst. cbn [w_info w_buf w_crc w_off w_index_start w_offsets w_commit_idx].
      rewrite c_pend_cstep. change (crc32c []) with 0.
      assert (Eoff : (w_off w1 + len (w_buf w1 ++ commit_frame (w_crc w1))) mod two32
                     = len (c_img (cstep info s b))).
      { rewrite Hoff1, Hbuf1. rewrite !len_app, len_commit_frame.
        rewrite N.mod_small.
        - rewrite Limg, Lbody. unfold c_pos. cbn [b fst snd]. lia.
        - rewrite Limg, Lbody in Hlen. unfold c_pos in Hlen. cbn [b fst snd] in Hlen. lia. }
      rewrite Eoff. cbn [cstep c_offs c_istart b snd fst].
      rewrite Hinfo1, Hoffs, Hist1.
      f_equal; try (apply commit_idx_of_ext; reflexivity).
    + rewrite Hoff1. f_equal. unfold batch_write, batch_body. cbn [b fst snd].
      rewrite Hbuf1, Hcrc1. rewrite app_nil_r. reflexivity.
Qed.

(* the seal flag the writer chose is visible in the resulting state *)
Lemma append_sealed_flag w es w1 w' acts :
  es <> [] -> append_entries w es = Some w1 -> w_index_start w = 0 ->
  append w es FNone = (WOk, w', acts) -> sealed w' = needs_seal w1.
Proof.
  intros Hne Hent Hz H.
  assert (Hm : forall (A : Type) (x y : A), match es with [] => x | _ :: _ => y end = y)
    by (intros; destruct es; congruence).
  unfold append in H. rewrite Hm in H.
  destruct (0 <? w_index_start w); [discriminate|].
  destruct (too_big es); [discriminate|]. rewrite Hent in H.
  destruct (append_entries_char _ _ _ Hent) as [_ Hw1].
  assert (Hi1 : w_index_start w1 = 0) by (rewrite Hw1; exact Hz).
  destruct (needs_seal w1).
  - unfold append_index in H. destruct (w_offsets w1); [discriminate|].
    unfold append_commit in H. inversion H; subst. unfold sealed. cbn [w_index_start].
    apply N.ltb_lt. lia.
  - unfold append_commit in H. inversion H; subst. unfold sealed. cbn [w_index_start].
    rewrite Hi1. reflexivity.
Qed.

Lemma force_seal_wst info s :
  c_istart s = 0 -> c_offs s <> [] ->
  len (c_img (cstep info s ([], true))) < two32 ->
  force_seal (wst info s) FNone =
    (WOk, wst info (cstep info s ([], true)),
     [WWrite (len (c_img s)) (batch_write info s ([], true)); WSync]).
Proof.
  intros Hz Hnn Hlen. set (b := (@nil bytes, true)) in *.
  pose proof (len_img_cstep info s b) as Limg.
  pose proof (len_batch_body info s b) as Lbody.
  assert (Hoffs : c_offs' info s b = c_offs s) by (unfold c_offs'; cbn; apply app_nil_r).
  unfold force_seal.
  replace (0 <? w_index_start (wst info s)) with false
    by (cbn [wst w_index_start]; rewrite Hz; reflexivity).
  unfold append_index. cbn [wst w_offsets w_info w_buf w_crc w_off w_index_start w_commit_idx].
  destruct (c_offs s) as [|o1 or1] eqn:Eo; [congruence|]. rewrite <- Eo in *.
  unfold append_commit.
  cbn [w_info w_buf w_crc w_off w_index_start w_offsets w_commit_idx].
  f_equal; [f_equal|].
  - unfold wst. cbn [w_info w_buf w_crc w_off w_index_start w_offsets w_commit_idx].
    rewrite c_pend_cstep. change (crc32c []) with 0.
    assert (Eoff : (len (c_img s) + len ((c_pend info s ++ index_frame (c_offs s)) ++
                      commit_frame (crc_update (crc32c (c_pend info s)) (index_frame (c_offs s))))) mod two32
                   = len (c_img (cstep info s b))).
    { rewrite !len_app, len_commit_frame. rewrite N.mod_small.
      - rewrite Limg, Lbody, Hoffs. unfold c_pos. cbn [b fst snd]. rewrite len_index_frame.
        change (len (entries_bytes [])) with 0. lia.
      - rewrite Limg, Lbody, Hoffs in Hlen. unfold c_pos in Hlen. cbn [b fst snd] in Hlen.
        change (len (entries_bytes [])) with 0 in Hlen. rewrite len_index_frame. lia. }
    rewrite Eoff. cbn [cstep c_offs c_istart b snd fst]. rewrite Hoffs.
    f_equal; try (unfold c_pos; change (len (entries_bytes [])) with 0; lia);
      try (apply commit_idx_of_ext; reflexivity).
  - f_equal. unfold batch_write, batch_body. cbn [b fst snd]. rewrite Hoffs.
    rewrite <- crc32c_app. cbn [entries_bytes flat_map app]. reflexivity.
Qed.

Lemma len_img_fold_mono info bs : forall s,
  len (c_img s) <= len (c_img (fold_left (cstep info) bs s)).
Proof.
  induction bs as [|b r IH]; intros s; [cbn; lia|].
  cbn [fold_left]. specialize (IH (cstep info s b)).
  pose proof (len_img_cstep info s b). unfold c_pos in *. lia.
Qed.

(* ---------------- whole runs ---------------- *)
Lemma wrun_char info ops : forall s w acts bs,
  wrun (wst info s) ops = Some (w, acts, bs) ->
  len (c_img (fold_left (cstep info) bs s)) < two32 ->
  w = wst info (fold_left (cstep info) bs s) /\
  writes_contiguous (len (c_img s)) acts /\
  c_img s ++ writes_concat acts = c_img (fold_left (cstep info) bs s).
Proof.
  induction ops as [|op r IH]; intros s w acts bs H Hlen.
  - cbn in H. inversion H; subst. cbn. rewrite app_nil_r. auto.
  - cbn [wrun] in H.
    destruct (do_op (wst info s) op) as [[res w'] acts0] eqn:Eop.
    destruct res; try discriminate.
    destruct (wrun w' r) as [[[w'' acts'] bs']|] eqn:Er; [|discriminate].
    inversion H; subst w'' acts bs. clear H.
    destruct op as [es|]; cbn [do_op] in Eop.
    + destruct es as [|e0 r0] eqn:Ees.
      * cbn in Eop. inversion Eop; subst w' acts0. cbn [op_batch app] in *.
        apply IH; assumption.
      * rewrite <- Ees in *. assert (Hne : es <> []) by (rewrite Ees; discriminate).
        assert (Hm : forall (A : Type) (x y : A), match es with [] => x | _ :: _ => y end = y)
          by (intros; destruct es; congruence).
        pose proof Eop as Eop'. unfold append in Eop'. rewrite Hm in Eop'.
        destruct (0 <? w_index_start (wst info s)) eqn:Es; [discriminate|].
        destruct (too_big es) eqn:Eb; [discriminate|].
        destruct (append_entries (wst info s) es) as [w1|] eqn:Ee; [|discriminate].
        clear Eop'.
        assert (Hz : c_istart s = 0) by (cbn [wst w_index_start] in Es; apply N.ltb_ge in Es; lia).
        pose proof (append_sealed_flag _ _ _ _ _ Hne Ee Hz Eop) as Hfl.
        assert (Hob : op_batch (wst info s) w' (OpAppend es) = [(map snd es, needs_seal w1)]).
        { cbn [op_batch]. rewrite Ees. rewrite <- Ees. rewrite Hfl. reflexivity. }
        rewrite Hob in *. cbn [app fold_left] in Hlen |- *.
        set (b := (map snd es, needs_seal w1)) in *.
        pose proof (len_img_fold_mono info bs' (cstep info s b)) as Hmono.
        rewrite (append_wst info s es w1 Hne Hz Eb Ee) in Eop by (fold b; lia).
        fold b in Eop. inversion Eop; subst w' acts0. clear Eop.
        destruct (IH _ _ _ _ Er Hlen) as (Hw & Hc & Hi).
        split; [exact Hw|]. split.
        -- cbn [app writes_contiguous]. split; [reflexivity|].
           replace (len (c_img s) + len (batch_write info s b)) with (len (c_img (cstep info s b)))
             by (cbn [cstep c_img]; rewrite len_app; reflexivity).
           exact Hc.
        -- cbn [app writes_concat]. rewrite <- Hi. cbn [cstep c_img]. rewrite <- app_assoc. reflexivity.
    + unfold force_seal in Eop.
      destruct (0 <? w_index_start (wst info s)) eqn:Es.
      * inversion Eop; subst w' acts0. cbn [op_batch] in *.
        replace (sealed (wst info s)) with true in * by (unfold sealed; rewrite Es; reflexivity).
        cbn [app] in *. apply IH; assumption.
      * assert (Hz : c_istart s = 0) by (cbn [wst w_index_start] in Es; apply N.ltb_ge in Es; lia).
        assert (Hnn : c_offs s <> []).
        { intros E. unfold append_index in Eop. cbn [wst w_offsets] in Eop. rewrite E in Eop. discriminate. }
        assert (Hob : op_batch (wst info s) w' OpSeal = [([], true)]).
        { cbn [op_batch]. unfold sealed. rewrite Es. reflexivity. }
        rewrite Hob in *. cbn [app fold_left] in Hlen |- *.
        set (b := (@nil bytes, true)) in *.
        pose proof (len_img_fold_mono info bs' (cstep info s b)) as Hmono.
        pose proof (force_seal_wst info s Hz Hnn) as Hfs. fold b in Hfs.
        unfold force_seal in Hfs. rewrite Es in Hfs. rewrite Hfs in Eop by lia.
        inversion Eop; subst w' acts0. clear Eop.
        destruct (IH _ _ _ _ Er Hlen) as (Hw & Hc & Hi).
        split; [exact Hw|]. split.
        -- cbn [app writes_contiguous]. split; [reflexivity|].
           replace (len (c_img s) + len (batch_write info s b)) with (len (c_img (cstep info s b)))
             by (cbn [cstep c_img]; rewrite len_app; reflexivity).
           exact Hc.
        -- cbn [app writes_concat]. rewrite <- Hi. cbn [cstep c_img]. rewrite <- app_assoc. reflexivity.
Qed.

Theorem wrun_image info ops w acts bs :
  wrun (init_empty info) ops = Some (w, acts, bs) ->
  len (image info bs) < two32 ->
  w = wst info (cstate info bs) /\ writes_contiguous 0 acts /\ writes_concat acts = image info bs.
Proof.
  intros H Hlen. rewrite <- wst_c0 in H.
  destruct (wrun_char info ops c0 w acts bs H Hlen) as (A & B & C). auto.
Qed.

(* applying contiguous writes to any initial file content *)
Lemma apply_wactions_contiguous acts : forall a x,
  writes_contiguous (len a) acts ->
  apply_wactions (a ++ x) acts =
  a ++ writes_concat acts ++ skipn (length (writes_concat acts)) x.
Proof.
  induction acts as [|[off bs|] r IH]; intros a x H.
  - cbn. reflexivity.
  - cbn [writes_contiguous] in H. destruct H as [-> H].
    unfold apply_wactions. cbn [fold_left apply_waction]. rewrite to_nat_len, overwrite_app.
    fold (apply_wactions (a ++ bs ++ skipn (length bs) x) r).
    rewrite app_assoc. rewrite IH by (rewrite len_app; exact H).
    cbn [writes_concat]. rewrite <- !app_assoc. do 3 f_equal.
    rewrite skipn_skipn', app_length. reflexivity.
  - cbn [writes_contiguous] in H. unfold apply_wactions. cbn [fold_left apply_waction].
    apply IH. exact H.
Qed.

Lemma apply_wactions_from0 acts x :
  writes_contiguous 0 acts ->
  apply_wactions x acts = writes_concat acts ++ skipn (length (writes_concat acts)) x.
Proof. intros H. apply (apply_wactions_contiguous acts [] x). exact H. Qed.
