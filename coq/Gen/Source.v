(* GENERATED from /repo's source by `wh translate` (go/parser + go/types) on every check run -- do not edit. *)
From Coq Require Import ZArith NArith List Bool. Import ListNotations. Open Scope Z_scope.

(* ---- package segment (segment) ---- *)
Definition segment_segmentFileSuffix : list N := [46; 119; 97; 108]%N. (* ".wal" *)
Definition segment_segmentFileNamePattern : list N := [37; 48; 50; 48; 100; 45; 37; 48; 49; 54; 120; 46; 119; 97; 108]%N. (* "%020d-%016x.wal" *)
Definition segment_MaxEntrySize : Z := 67108864.
Definition segment_minBufSize : Z := 65536.
Definition segment_fileHeaderLen : Z := 32.
Definition segment_version : Z := 0.
Definition segment_magic : Z := 1491823373.
Definition segment_frameHeaderLen : Z := 8.
Definition segment_FrameInvalid : Z := 0.
Definition segment_FrameEntry : Z := 1.
Definition segment_FrameIndex : Z := 2.
Definition segment_FrameCommit : Z := 3.
(* format.go:208 func padLen *)
Definition segment_fn_padLen (n_ : Z) : Z := (Z.land (Z.sub segment_frameHeaderLen (Z.rem n_ segment_frameHeaderLen)) (7)).
(* format.go:218 func encodedFrameSize *)
Definition segment_fn_encodedFrameSize (payloadLen_ : Z) : Z := (Z.add (Z.add segment_frameHeaderLen payloadLen_) (segment_fn_padLen payloadLen_)).
(* format.go:222 func indexFrameSize *)
Definition segment_fn_indexFrameSize (numEntries_ : Z) : Z := (if (Z.eqb numEntries_ (0)) then (0) else (segment_fn_encodedFrameSize (Z.mul numEntries_ (4)))).

(* ---- package wal (.) ---- *)
Definition wal_FirstExternalCodecID : Z := 65536.
Definition wal_CodecBinaryV1 : Z := 1.
Definition wal_retired : Z := 1073741824.
Definition wal_var_DefaultSegmentSize : Z := 67108864. (* initial value of a package variable *)

(* ---- package verifier (verifier) ---- *)
Definition verifier_ExtensionMagicPrefix : Z := 12669181924348175619.

(* ---- package metadb (metadb) ---- *)
Definition metadb_FileName : list N := [119; 97; 108; 45; 109; 101; 116; 97; 46; 100; 98]%N. (* "wal-meta.db" *)
Definition metadb_MetaBucket : list N := [119; 97; 108; 45; 109; 101; 116; 97]%N. (* "wal-meta" *)
Definition metadb_StableBucket : list N := [115; 116; 97; 98; 108; 101]%N. (* "stable" *)
Definition metadb_MetaKey : list N := [109]%N. (* "m" *)

(* ---- package migrate (migrate) ---- *)

(* ---- package types (types) ---- *)

(* ---- package fs (fs) ---- *)

(* integer functions not translated (body outside the straight-line fragment):  *)
