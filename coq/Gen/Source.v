(* GENERATED from /repo's source by `wh translate` (go/parser + go/types) on every check run -- do not edit. *)
From Coq Require Import ZArith NArith List Bool. Import ListNotations. Open Scope Z_scope.

(* ---- package segment (segment) ---- *)
Definition segment_segmentFileSuffix : list N := [46; 119; 97; 108]%N. (* ".wal" *)
Definition segment_segmentFileNamePattern : list N := [37; 48; 50; 48; 100; 45; 37; 48; 49; 54; 120; 46; 119; 97; 108]%N. (* "%020d-%016x.wal" *)
Definition segment_MaxEntrySize : Z := 67108864.
Definition segment_minBufSize : Z := 65536.
Definition segment_fileHeaderLen : Z := 32.
Definition segment_version : Z := 0.
Definition segment_magic : Z := 1491823373.
Definition segment_frameHeaderLen : Z := 8.
Definition segment_FrameInvalid : Z := 0.
Definition segment_FrameEntry : Z := 1.
Definition segment_FrameIndex : Z := 2.
Definition segment_FrameCommit : Z := 3.
(* format.go:208 func padLen *)
Definition segment_fn_padLen (n_ : Z) : Z := (Z.land (Z.sub segment_frameHeaderLen (Z.rem n_ segment_frameHeaderLen)) (7)).
(* format.go:218 func encodedFrameSize *)
Definition segment_fn_encodedFrameSize (payloadLen_ : Z) : Z := (Z.add (Z.add segment_frameHeaderLen payloadLen_) (segment_fn_padLen payloadLen_)).
(* format.go:222 func indexFrameSize *)
Definition segment_fn_indexFrameSize (numEntries_ : Z) : Z := (if (Z.eqb numEntries_ (0)) then (0) else (segment_fn_encodedFrameSize (Z.mul numEntries_ (4)))).

(* ---- package wal (.) ---- *)
Definition wal_FirstExternalCodecID : Z := 65536.
Definition wal_CodecBinaryV1 : Z := 1.
Definition wal_retired : Z := 1073741824.
Definition wal_var_DefaultSegmentSize : Z := 67108864. (* initial value of a package variable *)

(* ---- package verifier (verifier) ---- *)
Definition verifier_ExtensionMagicPrefix : Z := 12669181924348175619.

(* ---- package metadb (metadb) ---- *)
Definition metadb_FileName : list N := [119; 97; 108; 45; 109; 101; 116; 97; 46; 100; 98]%N. (* "wal-meta.db" *)
Definition metadb_MetaBucket : list N := [119; 97; 108; 45; 109; 101; 116; 97]%N. (* "wal-meta" *)
Definition metadb_StableBucket : list N := [115; 116; 97; 98; 108; 101]%N. (* "stable" *)
Definition metadb_MetaKey : list N := [109]%N. (* "m" *)

(* ---- package migrate (migrate) ---- *)

(* ---- package types (types) ---- *)

(* ---- package fs (fs) ---- *)

(* ---- schedule points (verifPoint call sites; name, enclosing function) ---- *)
Definition hook_points : list (list N * list N) :=
  [ ([65; 112; 112; 101; 110; 100; 46; 98; 117; 102; 102; 101; 114; 101; 100]%N, [65; 112; 112; 101; 110; 100]%N); (* Append.buffered in Append *)
    ([67; 108; 111; 115; 101; 46; 102; 108; 97; 103; 83; 101; 116]%N, [67; 108; 111; 115; 101]%N); (* Close.flagSet in Close *)
    ([67; 108; 111; 115; 101; 46; 108; 111; 99; 107; 101; 100]%N, [67; 108; 111; 115; 101]%N); (* Close.locked in Close *)
    ([67; 108; 111; 115; 101; 46; 115; 116; 97; 116; 101; 83; 119; 97; 112; 112; 101; 100]%N, [67; 108; 111; 115; 101]%N); (* Close.stateSwapped in Close *)
    ([68; 101; 108; 101; 116; 101; 82; 97; 110; 103; 101; 46; 99; 104; 101; 99; 107; 101; 100]%N, [68; 101; 108; 101; 116; 101; 82; 97; 110; 103; 101]%N); (* DeleteRange.checked in DeleteRange *)
    ([68; 101; 108; 101; 116; 101; 82; 97; 110; 103; 101; 46; 108; 111; 99; 107; 101; 100]%N, [68; 101; 108; 101; 116; 101; 82; 97; 110; 103; 101]%N); (* DeleteRange.locked in DeleteRange *)
    ([70; 105; 114; 115; 116; 73; 110; 100; 101; 120; 46; 99; 104; 101; 99; 107; 101; 100]%N, [70; 105; 114; 115; 116; 73; 110; 100; 101; 120]%N); (* FirstIndex.checked in FirstIndex *)
    ([71; 101; 116; 46; 99; 104; 101; 99; 107; 101; 100]%N, [71; 101; 116]%N); (* Get.checked in Get *)
    ([71; 101; 116; 76; 111; 103; 46; 99; 104; 101; 99; 107; 101; 100]%N, [71; 101; 116; 76; 111; 103]%N); (* GetLog.checked in GetLog *)
    ([76; 97; 115; 116; 73; 110; 100; 101; 120; 46; 99; 104; 101; 99; 107; 101; 100]%N, [76; 97; 115; 116; 73; 110; 100; 101; 120]%N); (* LastIndex.checked in LastIndex *)
    ([79; 102; 102; 115; 101; 116; 70; 111; 114; 70; 114; 97; 109; 101; 46; 99; 104; 101; 99; 107; 101; 100]%N, [79; 102; 102; 115; 101; 116; 70; 111; 114; 70; 114; 97; 109; 101]%N); (* OffsetForFrame.checked in OffsetForFrame *)
    ([83; 101; 116; 46; 99; 104; 101; 99; 107; 101; 100]%N, [83; 101; 116]%N); (* Set.checked in Set *)
    ([83; 116; 111; 114; 101; 76; 111; 103; 115; 46; 99; 104; 101; 99; 107; 101; 100]%N, [83; 116; 111; 114; 101; 76; 111; 103; 115]%N); (* StoreLogs.checked in StoreLogs *)
    ([83; 116; 111; 114; 101; 76; 111; 103; 115; 46; 108; 111; 99; 107; 101; 100]%N, [83; 116; 111; 114; 101; 76; 111; 103; 115]%N); (* StoreLogs.locked in StoreLogs *)
    ([97; 99; 113; 117; 105; 114; 101; 83; 116; 97; 116; 101; 46; 108; 111; 97; 100; 101; 100]%N, [97; 99; 113; 117; 105; 114; 101; 83; 116; 97; 116; 101]%N); (* acquireState.loaded in acquireState *)
    ([97; 119; 97; 105; 116; 82; 111; 116; 97; 116; 105; 111; 110; 46; 119; 97; 105; 116; 105; 110; 103]%N, [97; 119; 97; 105; 116; 82; 111; 116; 97; 116; 105; 111; 110; 76; 111; 99; 107; 101; 100]%N); (* awaitRotation.waiting in awaitRotationLocked *)
    ([109; 117; 116; 97; 116; 101; 83; 116; 97; 116; 101; 46; 99; 111; 109; 109; 105; 116; 116; 101; 100]%N, [109; 117; 116; 97; 116; 101; 83; 116; 97; 116; 101; 76; 111; 99; 107; 101; 100]%N); (* mutateState.committed in mutateStateLocked *)
    ([109; 117; 116; 97; 116; 101; 83; 116; 97; 116; 101; 46; 112; 117; 98; 108; 105; 115; 104; 101; 100]%N, [109; 117; 116; 97; 116; 101; 83; 116; 97; 116; 101; 76; 111; 99; 107; 101; 100]%N); (* mutateState.published in mutateStateLocked *)
    ([114; 101; 108; 101; 97; 115; 101; 46; 108; 97; 115; 116; 82; 101; 102]%N, [114; 101; 108; 101; 97; 115; 101]%N); (* release.lastRef in release *)
    ([114; 117; 110; 82; 111; 116; 97; 116; 101; 46; 108; 111; 99; 107; 101; 100]%N, [114; 117; 110; 82; 111; 116; 97; 116; 101]%N); (* runRotate.locked in runRotate *)
    ([114; 117; 110; 82; 111; 116; 97; 116; 101; 46; 114; 101; 99; 101; 105; 118; 101; 100]%N, [114; 117; 110; 82; 111; 116; 97; 116; 101]%N); (* runRotate.received in runRotate *)
    ([115; 121; 110; 99; 46; 100; 117; 114; 97; 98; 108; 101]%N, [115; 121; 110; 99]%N) (* sync.durable in sync *)
  ].

(* integer functions not translated (body outside the straight-line fragment):  *)
