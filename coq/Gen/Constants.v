(* GENERATED from /repo by `wh translate` on every check run -- do not edit. *)
From Coq Require Import NArith List. Import ListNotations. Open Scope N_scope.
Definition MaxEntrySize : N := 67108864.
Definition FrameInvalid : N := 0.
Definition FrameEntry : N := 1.
Definition FrameIndex : N := 2.
Definition FrameCommit : N := 3.
Definition FirstExternalCodecID : N := 65536.
Definition CodecBinaryV1 : N := 1.
Definition BinaryCodecID : N := 1.
Definition DefaultSegmentSize : N := 67108864.
Definition ExtensionMagicPrefix : N := 12669181924348175619.
Definition MetaFileName : list N := [119; 97; 108; 45; 109; 101; 116; 97; 46; 100; 98]. (* "wal-meta.db" *)
Definition MetaBucket : list N := [119; 97; 108; 45; 109; 101; 116; 97]. (* "wal-meta" *)
Definition StableBucket : list N := [115; 116; 97; 98; 108; 101]. (* "stable" *)
Definition MetaKey : list N := [109]. (* "m" *)
Definition FileNameProbe : list N := [48; 48; 48; 48; 48; 48; 48; 48; 48; 48; 48; 48; 48; 49; 50; 51; 52; 53; 54; 55; 45; 48; 48; 48; 48; 48; 48; 48; 48; 48; 48; 97; 98; 99; 100; 101; 102; 46; 119; 97; 108]. (* "00000000000001234567-0000000000abcdef.wal" for BaseIndex=1234567 ID=0xabcdef *)
