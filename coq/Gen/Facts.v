(* GENERATED from /repo by `wh translate` on every check run -- do not edit. *)
From Coq Require Import NArith List Bool. Import ListNotations. Open Scope N_scope.
(* an emitting call site: Lit is_counter name | NonLit (name is not a string literal) *)
Inductive site := Lit (is_counter : bool) (name : list N) | NonLit.
Definition wal_sites : list site :=
  [Lit true [108; 111; 103; 95; 101; 110; 116; 114; 105; 101; 115; 95; 114; 101; 97; 100] (* wal.go:445 log_entries_read *);
   Lit true [108; 111; 103; 95; 101; 110; 116; 114; 121; 95; 98; 121; 116; 101; 115; 95; 114; 101; 97; 100] (* wal.go:451 log_entry_bytes_read *);
   Lit true [108; 111; 103; 95; 97; 112; 112; 101; 110; 100; 115] (* wal.go:549 log_appends *);
   Lit true [108; 111; 103; 95; 101; 110; 116; 114; 105; 101; 115; 95; 119; 114; 105; 116; 116; 101; 110] (* wal.go:550 log_entries_written *);
   Lit true [108; 111; 103; 95; 101; 110; 116; 114; 121; 95; 98; 121; 116; 101; 115; 95; 119; 114; 105; 116; 116; 101; 110] (* wal.go:551 log_entry_bytes_written *);
   Lit true [115; 116; 97; 98; 108; 101; 95; 115; 101; 116; 115] (* wal.go:657 stable_sets *);
   Lit true [115; 116; 97; 98; 108; 101; 95; 103; 101; 116; 115] (* wal.go:680 stable_gets *);
   Lit false [108; 97; 115; 116; 95; 115; 101; 103; 109; 101; 110; 116; 95; 97; 103; 101; 95; 115; 101; 99; 111; 110; 100; 115] (* wal.go:774 last_segment_age_seconds *);
   Lit true [115; 101; 103; 109; 101; 110; 116; 95; 114; 111; 116; 97; 116; 105; 111; 110; 115] (* wal.go:782 segment_rotations *);
   Lit true [104; 101; 97; 100; 95; 116; 114; 117; 110; 99; 97; 116; 105; 111; 110; 115] (* wal.go:939 head_truncations *);
   Lit true [116; 97; 105; 108; 95; 116; 114; 117; 110; 99; 97; 116; 105; 111; 110; 115] (* wal.go:1011 tail_truncations *)].
Definition vfy_sites : list site :=
  [Lit true [99; 104; 101; 99; 107; 112; 111; 105; 110; 116; 115; 95; 119; 114; 105; 116; 116; 101; 110] (* store.go:205 checkpoints_written *);
   Lit true [100; 114; 111; 112; 112; 101; 100; 95; 114; 101; 112; 111; 114; 116; 115] (* store.go:222 dropped_reports *);
   Lit true [114; 97; 110; 103; 101; 115; 95; 118; 101; 114; 105; 102; 105; 101; 100] (* verifier.go:157 ranges_verified *);
   Lit true [119; 114; 105; 116; 101; 95; 99; 104; 101; 99; 107; 115; 117; 109; 95; 102; 97; 105; 108; 117; 114; 101; 115] (* verifier.go:169 write_checksum_failures *);
   Lit true [114; 101; 97; 100; 95; 99; 104; 101; 99; 107; 115; 117; 109; 95; 102; 97; 105; 108; 117; 114; 101; 115] (* verifier.go:204 read_checksum_failures *)].
Definition wal_counters : list (list N) :=
  [[108; 111; 103; 95; 101; 110; 116; 114; 121; 95; 98; 121; 116; 101; 115; 95; 119; 114; 105; 116; 116; 101; 110] (* log_entry_bytes_written *);
   [108; 111; 103; 95; 101; 110; 116; 114; 105; 101; 115; 95; 119; 114; 105; 116; 116; 101; 110] (* log_entries_written *);
   [108; 111; 103; 95; 97; 112; 112; 101; 110; 100; 115] (* log_appends *);
   [108; 111; 103; 95; 101; 110; 116; 114; 121; 95; 98; 121; 116; 101; 115; 95; 114; 101; 97; 100] (* log_entry_bytes_read *);
   [108; 111; 103; 95; 101; 110; 116; 114; 105; 101; 115; 95; 114; 101; 97; 100] (* log_entries_read *);
   [115; 101; 103; 109; 101; 110; 116; 95; 114; 111; 116; 97; 116; 105; 111; 110; 115] (* segment_rotations *);
   [104; 101; 97; 100; 95; 116; 114; 117; 110; 99; 97; 116; 105; 111; 110; 115] (* head_truncations *);
   [116; 97; 105; 108; 95; 116; 114; 117; 110; 99; 97; 116; 105; 111; 110; 115] (* tail_truncations *);
   [115; 116; 97; 98; 108; 101; 95; 103; 101; 116; 115] (* stable_gets *);
   [115; 116; 97; 98; 108; 101; 95; 115; 101; 116; 115] (* stable_sets *)].
Definition wal_gauges : list (list N) :=
  [[108; 97; 115; 116; 95; 115; 101; 103; 109; 101; 110; 116; 95; 97; 103; 101; 95; 115; 101; 99; 111; 110; 100; 115] (* last_segment_age_seconds *)].
Definition vfy_counters : list (list N) :=
  [[99; 104; 101; 99; 107; 112; 111; 105; 110; 116; 115; 95; 119; 114; 105; 116; 116; 101; 110] (* checkpoints_written *);
   [114; 97; 110; 103; 101; 115; 95; 118; 101; 114; 105; 102; 105; 101; 100] (* ranges_verified *);
   [114; 101; 97; 100; 95; 99; 104; 101; 99; 107; 115; 117; 109; 95; 102; 97; 105; 108; 117; 114; 101; 115] (* read_checksum_failures *);
   [119; 114; 105; 116; 101; 95; 99; 104; 101; 99; 107; 115; 117; 109; 95; 102; 97; 105; 108; 117; 114; 101; 115] (* write_checksum_failures *);
   [100; 114; 111; 112; 112; 101; 100; 95; 114; 101; 112; 111; 114; 116; 115] (* dropped_reports *)].
Definition vfy_gauges : list (list N) :=
  [].
