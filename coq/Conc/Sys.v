(* Sys.v -- generic schedule-driven small-step framework (L3).
   A system is a state type with a partial step function per thread id; a
   schedule is a list of thread ids; a blocked/finished thread's turn is a
   no-op.  Theorems about a model quantify over `list tid` (all schedules of
   any length); the same `run` is what the line runner executes. *)
From Coq Require Import List Arith Bool Lia.
Import ListNotations.

Definition tid := nat.

Section Sys.
  Variable sys : Type.
  Variable step : sys -> tid -> option sys.

  Definition exec (s : sys) (t : tid) : sys :=
    match step s t with Some s' => s' | None => s end.

  Fixpoint run (s : sys) (sch : list tid) : sys :=
    match sch with
    | [] => s
    | t :: r => run (exec s t) r
    end.

  Definition enabled (s : sys) (t : tid) : bool :=
    match step s t with Some _ => true | None => false end.

  Definition reachable (s0 s : sys) : Prop := exists sch, s = run s0 sch.

  (* ---- macro schedules: the harness releases a thread from one hook point to
     the next; `parked s t` says t sits at a hook point (or has not started, or
     is finished), `skip s t` is the runner's rule for elements that are
     ignored.  `macro` turns a macro schedule into a micro schedule. ---- *)
  Variable parked : sys -> tid -> bool.
  Variable skip : sys -> tid -> bool.
  Variable nthreads : sys -> nat.

  (* run t until it parks again, blocks or the fuel ends; tr = reversed trace *)
  Fixpoint go (fuel : nat) (s : sys) (t : tid) (tr : list tid) : sys * list tid :=
    match fuel with
    | O => (s, tr)
    | S f => match step s t with
             | None => (s, tr)
             | Some s' => if parked s' t then (s', t :: tr) else go f s' t (t :: tr)
             end
    end.

  Definition autonomous (s : sys) (t : tid) : bool := negb (parked s t) && enabled s t.

  (* every thread that is neither parked nor blocked runs on, lowest id first *)
  Fixpoint settle (fuel : nat) (s : sys) (tr : list tid) : sys * list tid :=
    match fuel with
    | O => (s, tr)
    | S f => match find (autonomous s) (seq 0 (nthreads s)) with
             | None => (s, tr)
             | Some t => let '(s', tr') := go fuel s t tr in settle f s' tr'
             end
    end.

  Definition macro1 (fuel : nat) (s : sys) (t : tid) (tr : list tid) : sys * list tid :=
    if parked s t && enabled s t && negb (skip s t) then
      let '(s', tr') := go fuel s t tr in settle fuel s' tr'
    else (s, tr).

  Fixpoint macro (fuel : nat) (s : sys) (sch : list tid) (tr : list tid) : sys * list tid :=
    match sch with
    | [] => (s, tr)
    | t :: r => let '(s', tr') := macro1 fuel s t tr in macro fuel s' r tr'
    end.
End Sys.

Arguments exec {sys}. Arguments run {sys}. Arguments enabled {sys}. Arguments reachable {sys}.
Arguments go {sys}. Arguments settle {sys}. Arguments macro1 {sys}. Arguments macro {sys}.
Arguments autonomous {sys}.
