(* CloseReach2.v -- part 2 of the invariant (reference counts, retired bit, finalizers,
   ownership of file handles, allowed outcomes) holds in every reachable state of a
   single-writer system *)
From Coq Require Import List Arith Bool Lia.
From RW Require Import Conc.Sys Conc.SysFacts Conc.Close Conc.ListX Conc.CloseInv Conc.CloseInv2 Conc.CloseFacts
     Conc.CloseK Conc.CloseSafe Conc.CloseSafeStep Conc.CloseStep1 Conc.CloseReach Conc.CloseStep2
     Conc.CloseStep3 Conc.CloseStep4 Conc.CloseStep5.
Import ListNotations.

Definition Full2 (w r : tid) (orig : list (list op)) (s : sys) : Prop := Full w r s /\ Inv2 orig s.

Lemma inv2_step w r orig s t s' : Full w r s -> Inv2 orig s -> step s t = Some s' -> Inv2 orig s'.
Proof.
  intros F0 J H.
  destruct (ref_step w r orig s t s' F0 J H) as [R1 R2].
  pose proof (own_step w r orig s t s' F0 J H) as OW.
  destruct (fin_step w r orig s t s' F0 J H) as (N1 & N2 & N3).
  destruct (step_decomp _ _ _ H) as (th & g' & th' & E & F & Q). subst s'. cbn [sh ths] in *.
  assert (Lt : t < length (ths s)) by (eapply nth_error_Some_lt; eauto).
  constructor; cbn [sh ths]; auto.
  - intros x hs sc Lx Qf. exact (N3 x Lx hs sc Qf).
  - (* history *)
    intros u thu Eu Ru. destruct (nth_error_upd_inv _ _ _ _ _ Eu) as [(-> & -> & _)|(Nu & Eu')].
    + assert (Rf : t_rot th = false).
      { destruct F0 as [SA I]. destruct (Bool.bool_dec (t_rot th) false) as [Q|Q]; [exact Q|].
        apply not_false_is_true in Q. exfalso.
        (* the role of a thread never changes *)
        unfold step_thread in F. crack F; try (destruct (pm3_tx _ _ _ _) eqn:?); inversion F; subst;
          try (match goal with H : context [continue _ _ ?k0] |- _ => destruct k0 end); cbn in Ru; congruence. }
      destruct (j_hist _ _ J _ _ E Rf) as (ops & Qo & Fa).
      destruct (hist_step w r orig s t th g' th' F0 J E F Rf) as [(Qp & Qu & _)|(o & res & Qp & Qu & _ & Al)].
      * exists ops. rewrite Qp, Qu. auto.
      * exists (ops ++ [o]). rewrite Qu, <- app_assoc. cbn. rewrite <- Qp. split; [exact Qo|].
        apply Forall2_app; [exact Fa | constructor; [exact Al | constructor]].
    + apply (j_hist _ _ J _ _ Eu' Ru).
  - (* per-thread facts *)
    intros u thu Eu. destruct (nth_error_upd_inv _ _ _ _ _ Eu) as [(-> & -> & _)|(Nu & Eu')].
    + apply (thr2_own w r orig s t th g' th' F0 J E F).
    + apply (thr2_other w r orig s t th g' th' u thu F0 J E F Eu' Nu).
Qed.

Lemma full2_step w r orig s t s' : Full2 w r orig s -> step s t = Some s' -> Full2 w r orig s'.
Proof. intros [F0 J] H. split; [eapply full_step; eauto | eapply inv2_step; eauto]. Qed.

Lemma inv2_init progs extra : Inv2 (progs ++ [] :: extra) (init progs extra).
Proof.
  assert (PC : forall t th, nth_error (ths (init progs extra)) t = Some th -> t_pc th = PIdle \/ t_pc th = PRIdle).
  { intros t th E. destruct (init_threads _ _ _ _ E) as [(p & _ & -> & _)|(_ & ->)]; cbn; auto. }
  assert (PCi : forall th, In th (ths (init progs extra)) -> t_pc th = PIdle \/ t_pc th = PRIdle).
  { intros th Hi. apply In_nth_error in Hi. destruct Hi as (t & E). eauto. }
  assert (Hr : forall x, sum (fun th => href th x) (ths (init progs extra)) = 0).
  { intros x. apply sum_zero. intros th Hi. unfold href. destruct (PCi th Hi) as [-> | ->]; reflexivity. }
  assert (Hp : forall h, sum (fun th => hpend (sh (init progs extra)) th h) (ths (init progs extra)) = 0).
  { intros h. apply sum_zero. intros th Hi. unfold hpend. destruct (PCi th Hi) as [-> | ->]; reflexivity. }
  constructor.
  - intros x Lx. rewrite Hr. cbn in Lx. assert (x = 0) by lia. subst x. reflexivity.
  - intros x Lx. split; [apply Hr|]. cbn. reflexivity.
  - intros h. unfold owners. rewrite Hp. cbn. unfold live, cnt. cbn.
    destruct h as [|h]; cbn; split; intros; lia.
  - intros x hs sc Lx Q. cbn in Lx. assert (x = 0) by lia. subst x. discriminate Q.
  - intros [|[|x]] Q; cbn in *; try discriminate; reflexivity.
  - intros x Lx Q. cbn in Lx. assert (x = 0) by lia. subst x. discriminate Q.
  - intros t th E Rf. exists []. split; [|].
    + destruct (init_threads _ _ _ _ E) as [(p & Ep & -> & _)|(_ & ->)]; [exact Ep | discriminate Rf].
    + destruct (init_threads _ _ _ _ E) as [(p & Ep & -> & _)|(_ & ->)]; constructor.
  - intros t th E. unfold th_facts2. destruct (PC t th E) as [-> | ->]; exact Logic.I.
Qed.

Theorem full2_reach w progs extra s :
  single_writer w progs extra -> reachable step (init progs extra) s ->
  Full2 w (length progs) (progs ++ [] :: extra) s.
Proof.
  intros SW R.
  apply (reachable_inv sys step (Full2 w (length progs) (progs ++ [] :: extra)) (init progs extra)); auto.
  - split; [split; [apply safe_init | now apply inv1_init] | apply inv2_init].
  - intros s0 t s1. apply full2_step.
Qed.
