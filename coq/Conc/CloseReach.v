(* CloseReach.v -- the protocol invariant holds in every reachable state of a system
   with a single writer thread: Full = CloseSafe.Safe /\ CloseInv.Inv1 *)
From Coq Require Import List Arith Bool Lia.
From RW Require Import Conc.Sys Conc.SysFacts Conc.Close Conc.ListX Conc.CloseInv Conc.CloseFacts
     Conc.CloseK Conc.CloseSafe Conc.CloseSafeStep Conc.CloseStep1 Conc.CloseFrames Conc.CloseStepInv
     Conc.CloseStepThr Conc.CloseStepOwn.
Import ListNotations.

Definition Full (w r : tid) (s : sys) : Prop := Safe s /\ Inv1 w r s.

Lemma full_step w r s t s' : Full w r s -> step s t = Some s' -> Full w r s'.
Proof.
  intros [SA I] H. destruct (step_decomp _ _ _ H) as (th & g' & th' & E & F & Q).
  pose proof (no_panic w r _ _ _ _ _ SA I E F) as NP.
  assert (SA' : Safe s') by (subst s'; eapply safe_step_np; eauto).
  split; [exact SA'|].
  destruct (close_step w r s t s' SA I H) as (N1 & N0 & Tc & Me & Op & A3).
  destruct (chan_step w r s t s' SA I H) as (C1 & C2 & C3 & C4 & C5).
  destruct (rot_prog_step _ _ _ _ _ F) as [Rr Pp].
  assert (L : t < length (ths s)) by (eapply nth_error_Some_lt; eauto).
  split; auto.
  - apply (a_wf _ SA').
  - subst s'. cbn. destruct (i_rot _ _ _ I) as (thr & Er & Rt). destruct (Nat.eq_dec r t) as [Qr|Nr].
    + exists th'. rewrite Qr, nth_error_upd_eq by exact L. split; [reflexivity|]. rewrite Qr in Er. congruence.
    + exists thr. rewrite nth_error_upd_neq by congruence. auto.
  - subst s'. cbn. intros u thu Eu N. destruct (nth_error_upd_inv _ _ _ _ _ Eu) as [(-> & -> & _)|(N' & Eu')].
    + rewrite Rr. eapply i_nrot; eauto.
    + eapply i_nrot; eauto.
  - subst s'. cbn. intros u thu Eu N. destruct (nth_error_upd_inv _ _ _ _ _ Eu) as [(-> & -> & _)|(N' & Eu')].
    + pose proof (i_sw _ _ _ I _ _ E N) as Qs. destruct Pp as [->| ->]; [exact Qs|].
      destruct (t_prog th); cbn in *; [reflexivity|]. now apply andb_true_iff in Qs.
    + eapply i_sw; eauto.
  - apply (a_mu1 _ SA').
  - apply (a_mu2 _ SA').
  - apply (a_last _ SA').
  - subst s'. cbn [sh ths]. intros u thu Eu.
    destruct (nth_error_upd_inv _ _ _ _ _ Eu) as [(-> & -> & _)|(N' & Eu')].
    + apply (thr_own w r s t th g' th' SA I E F).
    + apply (thr_other w r s t th g' th' u thu SA I E F Eu' N').
Qed.

(* the initial state: callers progs (thread ids 0..), the rotation goroutine (id length progs),
   further callers extra; w is the only thread whose program may contain locking calls *)
Definition single_writer (w : tid) (progs extra : list (list op)) : Prop :=
  forall t p, nth_error (progs ++ [] :: extra) t = Some p -> t <> w ->
              forallb (fun o => negb (is_locking o)) p = true.

Lemma sum_zero_all {A} (f : A -> nat) l : (forall a, In a l -> f a = 0) -> sum f l = 0.
Proof. apply sum_zero. Qed.

Lemma init_threads progs extra t th :
  nth_error (ths (init progs extra)) t = Some th ->
  (exists p, nth_error (progs ++ [] :: extra) t = Some p /\ th = caller p /\ t <> length progs) \/
  (t = length progs /\ th = rotator).
Proof.
  cbn. intros E.
  destruct (Nat.lt_ge_cases t (length progs)) as [L|L].
  - rewrite nth_error_app1 in E by (now rewrite map_length). rewrite nth_error_map in E.
    destruct (nth_error progs t) as [p|] eqn:Ep; [|discriminate]. inversion E; subst.
    left. exists p. rewrite nth_error_app1 by exact L. split; [exact Ep|]. split; [reflexivity | lia].
  - rewrite nth_error_app2 in E by (rewrite map_length; exact L). rewrite map_length in E.
    destruct (t - length progs) as [|k] eqn:D.
    + right. inversion E; subst. split; [lia | reflexivity].
    + cbn in E. rewrite nth_error_map in E. destruct (nth_error extra k) as [p|] eqn:Ep; [|discriminate].
      inversion E; subst. left. exists p. rewrite nth_error_app2 by exact L. rewrite D. cbn.
      split; [exact Ep|]. split; [reflexivity | lia].
Qed.

Lemma inv1_init w progs extra :
  single_writer w progs extra -> Inv1 w (length progs) (init progs extra).
Proof.
  intros SW.
  assert (Z : forall th, In th (ths (init progs extra)) -> cstage th = 0).
  { intros th Hi. apply In_nth_error in Hi. destruct Hi as (t & E).
    destruct (init_threads _ _ _ _ E) as [(p & _ & -> & _)|(_ & ->)]; reflexivity. }
  assert (NA : nact (ths (init progs extra)) = 0).
  { unfold nact. apply sum_zero. intros th Hi. now rewrite (Z th Hi). }
  assert (K0 : K (sh (init progs extra)) (ths (init progs extra)) = 0) by reflexivity.
  assert (RP : rot_pc (ths (init progs extra)) (length progs) = PRIdle).
  { unfold rot_pc. cbn. rewrite nth_error_app2 by (now rewrite map_length).
    rewrite map_length, Nat.sub_diag. reflexivity. }
  split; rewrite ?K0, ?RP, ?NA.
  - intros t th E. destruct (init_threads _ _ _ _ E) as [(p & _ & -> & _)|(_ & ->)]; reflexivity.
  - exists rotator. split; [|reflexivity]. cbn. rewrite nth_error_app2 by (now rewrite map_length).
    now rewrite map_length, Nat.sub_diag.
  - intros t th E N. destruct (init_threads _ _ _ _ E) as [(p & _ & -> & _)|(Q & ->)]; [reflexivity | congruence].
  - intros t th E N. destruct (init_threads _ _ _ _ E) as [(p & Ep & -> & _)|(Q & ->)]; [|reflexivity].
    cbn. apply (SW t p Ep N).
  - intros t th E Hm. destruct (init_threads _ _ _ _ E) as [(p & _ & -> & _)|(_ & ->)]; discriminate.
  - cbn. discriminate.
  - reflexivity.
  - lia.
  - reflexivity.
  - reflexivity.
  - reflexivity.
  - reflexivity.
  - lia.
  - cbn. discriminate.
  - intros c [Lc _]. cbn in Lc. lia.
  - cbn. intros _ [Q|Q]; discriminate.
  - cbn. discriminate.
  - cbn. discriminate.
  - intros t th E. destruct (init_threads _ _ _ _ E) as [(p & _ & -> & _)|(_ & ->)]; exact Logic.I.
Qed.

Theorem full_reach w progs extra s :
  single_writer w progs extra -> reachable step (init progs extra) s -> Full w (length progs) s.
Proof.
  intros SW R. apply (reachable_inv sys step (Full w (length progs)) (init progs extra)); auto.
  - split; [apply safe_init | now apply inv1_init].
  - intros s0 t s1. apply full_step.
Qed.
