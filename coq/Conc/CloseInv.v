(* CloseInv.v -- invariant of the L3 model, part 1 (definitions only): writeMu,
   closed flag / progress of Close, triggerRotate / awaitRotate channels, the
   rotation goroutine, state-pointer facts of lock holders.  The per-file durability
   chain and the readers' position facts are in CloseSafe.Safe; the refcount /
   finalizer scheme is part 2.
   Parameters: w = the single writer thread (the only thread whose program
   contains StoreLogs/DeleteRange), r = the rotation goroutine. *)
From Coq Require Import List Arith Bool Lia.
From RW Require Import Conc.Sys Conc.Close Conc.ListX.
Import ListNotations.

Definition is_read (o : op) : bool := match o with OFirst | OLast | OGet _ => true | _ => false end.
Definition is_close (o : op) : bool := match o with OClose => true | _ => false end.
Definition op_locking (th : thread) : bool := match cur_op th with Some o => is_locking o | None => false end.
Definition op_close (th : thread) : bool := match cur_op th with Some o => is_close o | None => false end.

(* ---- program counters are consistent with role and current call ------------- *)
Definition pc_ok (th : thread) : bool :=
  if t_rot th then
    match t_prog th with
    | [] =>
        match t_pc th with
        | PRIdle | PRRecv | PRLock | PRLocked | PRExit | PRT3 | PRT4 _ | PRT5 _ | PRDone => true
        | PM0 KRot | PM1 _ KRot | PM2 _ KRot | PM3 _ KRot | PM4 _ _ KRot
        | PRel _ _ KRot | PLast _ _ KRot | PRun _ _ _ KRot => true
        | _ => false
        end
    | _ => false
    end
  else
    match t_pc th with
    | PIdle => true
    | PChecked => match cur_op th with Some o => negb (is_close o) | None => false end
    | PStErr => match cur_op th with Some OSet | Some OGetS => true | _ => false end
    | PLock | PLocked | PWaiting _ | PRecvAwait _ | PRelock => op_locking th
    | PLoad | PLoaded _ | PAcq _ | PBody _ =>
        match cur_op th with Some o => is_locking o || is_read o | None => false end
    | PGetRead _ _ => match cur_op th with Some (OGet _) => true | _ => false end
    | PApp1 _ | PApp2 _ | PApp3 _ | PTrig _ | PSend _ =>
        match cur_op th with Some (OStore _ _ _) => true | _ => false end
    | PM0 (KOuter _) | PM1 _ (KOuter _) | PM2 _ (KOuter _) | PM3 _ (KOuter _) | PM4 _ _ (KOuter _) =>
        match cur_op th with Some (ODelete _) | Some (OTrunc _) => true | _ => false end
    | PRel _ _ k | PLast _ _ k | PRun _ _ _ k =>
        match k, cur_op th with
        | KRet, Some o => is_read o
        | KUnlock, Some o => is_locking o || is_close o
        | KOuter _, Some (ODelete _) | KOuter _, Some (OTrunc _) => true
        | KRetry, Some o => is_locking o || is_read o
        | _, _ => false
        end
    | PUnl _ => match cur_op th with Some o => is_locking o || is_close o | None => false end
    | PCFlag | PCLock | PCLocked | PC3 | PC4 | PC5 _ | PC6 _ | PCSwapped _ _ | PC8 _ => op_close th
    | _ => false
    end.

(* ---- who holds writeMu -------------------------------------------------------- *)
Definition holds_mu (th : thread) : bool :=
  match t_pc th with
  | PLocked | PApp1 _ | PApp2 _ | PApp3 _ | PTrig _ | PSend _
  | PM0 _ | PM1 _ _ | PM2 _ _ | PM3 _ _ | PM4 _ _ _ | PUnl _ => true
  | PLoad | PLoaded _ | PAcq _ | PBody _ => op_locking th
  | PRel _ _ k | PLast _ _ k | PRun _ _ _ k =>
      match k with KRet => false | KRetry => op_locking th | _ => true end
  | PCLocked | PC3 | PC4 | PC5 _ | PC6 _ | PCSwapped _ _ | PC8 _ => true
  | PRLocked | PRExit | PRT3 | PRT4 _ => true
  | _ => false
  end.

(* ---- progress of the (unique) Close call that won the flag ----------------------- *)
Definition cstage (th : thread) : nat :=
  match t_pc th with
  | PCFlag | PCLock => 1
  | PCLocked => 2 | PC3 => 3 | PC4 => 4 | PC5 _ => 5 | PC6 _ => 6 | PCSwapped _ _ => 7 | PC8 _ => 8
  | PRel _ _ _ | PLast _ _ _ | PRun _ _ _ _ | PUnl _ => if op_close th then 9 else 0
  | _ => 0
  end.
Definition nact (T : list thread) : nat := sum (fun th => b2n (0 <? cstage th)) T.
Definition gstage (T : list thread) : nat := sum cstage T.
(* 0 = Close not called; 1..9 = stage of the running Close; 10 = Close returned *)
Definition K (g : shared) (T : list thread) : nat :=
  if g_closed g then (if nact T =? 0 then 10 else gstage T) else 0.

(* ---- rotation goroutine ------------------------------------------------------------ *)
Definition rot_cs (p : pc) : bool :=
  match p with
  | PM0 _ | PM1 _ _ | PM2 _ _ | PM3 _ _ | PM4 _ _ _ | PRel _ _ _ | PLast _ _ _ | PRun _ _ _ _ | PRT3 => true
  | _ => false
  end.
Definition rot_pend (p : pc) : bool :=
  match p with PRRecv | PRLock | PRLocked => true | _ => rot_cs p end.
Definition rot_has (p : pc) (c : nat) : bool :=
  match p with PRT4 (Some c') | PRT5 (Some c') => c' =? c | _ => false end.
Definition at_send (th : thread) : bool := match t_pc th with PSend _ => true | _ => false end.

Definition chan_open (g : shared) (c : nat) : Prop := c < length (g_chans g) /\ nth c (g_chans g) false = false.

Definition rot_pc (T : list thread) (r : tid) : pc :=
  match nth_error T r with Some th => t_pc th | None => PRDone end.

(* durability chain of one file: visible <= synced <= written <= offsets published *)
Definition h_chain (h : hnd) : Prop :=
  h_cnt h <= h_syn h /\ h_syn h <= h_wr h /\ h_wr h <= length (h_ents h).

Definition tailh (g : shared) (x : nat) : hnd := geth g (tail_of (getst g x)).

Definition krot_f (g : shared) (T : list thread) (k : kont) : Prop :=
  match k with KRot => K g T <= 1 /\ g_await g <> None | _ => True end.

(* ---- facts about one thread in the shared state g (rp = pc of the rotator) --------- *)
Definition th_facts1 (g : shared) (T : list thread) (rp : pc) (th : thread) : Prop :=
  match t_pc th with
  | PLoad => op_locking th = true -> g_await g = None
  | PLoaded x | PAcq x => op_locking th = true -> x = g_cur g /\ g_await g = None
  | PBody x => s_open (getst g x) = true /\ (op_locking th = true -> x = g_cur g /\ g_await g = None)
  | PApp1 x | PApp2 x | PApp3 x => x = g_cur g /\ s_open (getst g x) = true /\ g_await g = None
  | PTrig x => x = g_cur g /\ s_open (getst g x) = true /\ g_await g = None
  | PSend x => x = g_cur g /\ s_open (getst g x) = true /\ g_trig g = false /\ g_await g <> None /\
               rot_pend rp = false
  | PWaiting c | PRecvAwait c => c < length (g_chans g) /\ (g_await g = Some c \/ g_await g = None)
  | PRelock => g_await g = None
  | PM0 k => s_open (getst g (g_cur g)) = true /\ krot_f g T k
  | PM1 y k | PM2 y k | PM3 y k => y = g_cur g /\ s_open (getst g y) = true /\ krot_f g T k
  | PM4 y f k => S y = g_cur g /\ krot_f g T k
  | PRel _ _ k | PLast _ _ k | PRun _ _ _ k =>
      krot_f g T k /\ (k = KRetry -> op_locking th = true -> g_await g = None)
  | PC5 x | PC6 x => x = g_cur g
  | PCSwapped x e => S x = g_cur g /\ e = g_cur g /\ s_open (getst g x) = true
  | PRT3 => K g T <= 1 /\ g_await g <> None
  | PRT4 d | PRT5 d => exists c, d = Some c /\ chan_open g c /\ g_await g <> Some c
  | PRExit | PRDone => g_closed g = true
  | PPanic => False
  | _ => True
  end.

Record Inv1 (w r : tid) (s : sys) : Prop := {
  i_wf : forall t th, nth_error (ths s) t = Some th -> pc_ok th = true;
  i_rot : exists thr, nth_error (ths s) r = Some thr /\ t_rot thr = true;
  i_nrot : forall t th, nth_error (ths s) t = Some th -> t <> r -> t_rot th = false;
  i_sw : forall t th, nth_error (ths s) t = Some th -> t <> w ->
                      forallb (fun o => negb (is_locking o)) (t_prog th) = true;
  i_mu1 : forall t th, nth_error (ths s) t = Some th -> holds_mu th = true -> g_mu (sh s) = Some t;
  i_mu2 : forall t, g_mu (sh s) = Some t -> exists th, nth_error (ths s) t = Some th /\ holds_mu th = true;
  i_last : S (g_cur (sh s)) = length (g_states (sh s));
  (* Close *)
  i_nact : nact (ths s) <= 1;
  i_nact0 : g_closed (sh s) = false -> nact (ths s) = 0;
  i_tc : g_trig_closed (sh s) = (4 <=? K (sh s) (ths s));
  i_meta : g_meta_closes (sh s) = b2n (9 <=? K (sh s) (ths s));
  i_open : s_open (getst (sh s) (g_cur (sh s))) = (K (sh s) (ths s) <? 7);
  i_aw3 : 3 <= K (sh s) (ths s) -> g_await (sh s) = None;
  (* channels *)
  i_ch1 : forall c, g_await (sh s) = Some c -> chan_open (sh s) c;
  i_ch2 : forall c, chan_open (sh s) c -> g_await (sh s) = Some c \/ rot_has (rot_pc (ths s) r) c = true;
  i_pend : K (sh s) (ths s) = 0 -> g_trig (sh s) = true \/ rot_pend (rot_pc (ths s) r) = true ->
           g_await (sh s) <> None;
  i_aw : forall c, g_await (sh s) = Some c ->
                   g_trig (sh s) = true \/ rot_pend (rot_pc (ths s) r) = true \/
                   (exists t th, nth_error (ths s) t = Some th /\ at_send th = true) \/
                   (1 <= K (sh s) (ths s) <= 2);
  i_trig : rot_pend (rot_pc (ths s) r) = true -> K (sh s) (ths s) <= 1 -> g_trig (sh s) = false;
  (* per thread *)
  i_thr : forall t th, nth_error (ths s) t = Some th -> th_facts1 (sh s) (ths s) (rot_pc (ths s) r) th
}.
