(* SysFacts.v -- facts about the generic schedule framework *)
From Coq Require Import List Arith Bool Lia.
From RW Require Import Conc.Sys.
Import ListNotations.

Section Facts.
  Variable sys : Type.
  Variable step : sys -> tid -> option sys.

  Lemma run_app : forall a b s, run step s (a ++ b) = run step (run step s a) b.
  Proof. induction a as [|t a IH]; intros b s; cbn; [reflexivity | apply IH]. Qed.

  (* an invariant of single steps holds along every schedule *)
  Theorem run_inv (P : sys -> Prop) :
    (forall s t s', P s -> step s t = Some s' -> P s') ->
    forall sch s, P s -> P (run step s sch).
  Proof.
    intros Hstep. induction sch as [|t r IH]; intros s Hs; cbn; [exact Hs|].
    apply IH. unfold exec. destruct (step s t) eqn:E; [eapply Hstep; eauto | exact Hs].
  Qed.

  Theorem reachable_inv (P : sys -> Prop) s0 :
    P s0 -> (forall s t s', P s -> step s t = Some s' -> P s') ->
    forall s, reachable step s0 s -> P s.
  Proof. intros H0 Hs s [sch ->]. apply run_inv; assumption. Qed.

  Lemma reachable_step s0 s t s' : reachable step s0 s -> step s t = Some s' -> reachable step s0 s'.
  Proof.
    intros [sch ->] E. exists (sch ++ [t]). rewrite run_app. cbn. unfold exec. rewrite E. reflexivity.
  Qed.

  Lemma reachable_run s0 s sch : reachable step s0 s -> reachable step s0 (run step s sch).
  Proof. intros [a ->]. exists (a ++ sch). now rewrite run_app. Qed.

  (* ---- the macro runner only ever produces `run` of some micro schedule ---- *)
  Variable parked : sys -> tid -> bool.
  Variable skip : sys -> tid -> bool.
  Variable nthreads : sys -> nat.

  Definition traces (s : sys) (tr : list tid) (r : sys * list tid) : Prop :=
    exists d, snd r = d ++ tr /\ fst r = run step s (rev d).

  Lemma traces_refl s tr : traces s tr (s, tr).
  Proof. exists []. split; reflexivity. Qed.

  Lemma traces_trans s tr s1 tr1 r :
    traces s tr (s1, tr1) -> traces s1 tr1 r -> traces s tr r.
  Proof.
    intros [d [E1 E2]] [d' [E3 E4]]. cbn in *. subst.
    exists (d' ++ d). split; [now rewrite E3, app_assoc|].
    rewrite E4, rev_app_distr, run_app. reflexivity.
  Qed.

  Lemma go_traces : forall fuel s t tr, traces s tr (go step parked fuel s t tr).
  Proof.
    induction fuel as [|f IH]; intros s t tr; cbn; [apply traces_refl|].
    destruct (step s t) as [s'|] eqn:E; [|apply traces_refl].
    assert (T1 : traces s tr (s', t :: tr)).
    { exists [t]. split; [reflexivity|]. cbn. unfold exec. now rewrite E. }
    destruct (parked s' t); [exact T1|].
    eapply traces_trans; [exact T1 | apply IH].
  Qed.

  Lemma settle_traces : forall fuel s tr, traces s tr (settle step parked nthreads fuel s tr).
  Proof.
    induction fuel as [|f IH]; intros s tr; [apply traces_refl|].
    cbn [settle].
    destruct (find (autonomous step parked s) (seq 0 (nthreads s))) as [t|]; [|apply traces_refl].
    pose proof (go_traces (S f) s t tr) as G.
    destruct (go step parked (S f) s t tr) as [s' tr'].
    eapply traces_trans; [exact G | apply IH].
  Qed.

  Lemma macro1_traces fuel s t tr : traces s tr (macro1 step parked skip nthreads fuel s t tr).
  Proof.
    unfold macro1. destruct (parked s t && enabled step s t && negb (skip s t)); [|apply traces_refl].
    pose proof (go_traces fuel s t tr) as G.
    destruct (go step parked fuel s t tr) as [s' tr'].
    eapply traces_trans; [exact G | apply settle_traces].
  Qed.

  Lemma macro_traces fuel : forall sch s tr, traces s tr (macro step parked skip nthreads fuel s sch tr).
  Proof.
    induction sch as [|t r IH]; intros s tr; cbn; [apply traces_refl|].
    pose proof (macro1_traces fuel s t tr) as G.
    destruct (macro1 step parked skip nthreads fuel s t tr) as [s' tr'].
    eapply traces_trans; [exact G | apply IH].
  Qed.
End Facts.
