(* CloseCount.v -- counting facts: what a transaction does to the handle lists, close_all *)
From Coq Require Import List Arith Bool Lia.
From RW Require Import Conc.Sys Conc.Close Conc.ListX Conc.CloseFacts Conc.CloseSafe.
Import ListNotations.

Lemma split_head_app g newMin li : forall segs rm keep,
  split_head g newMin li segs = (rm, keep) -> rm ++ keep = segs.
Proof.
  induction segs as [|h r IH]; intros rm keep H; cbn in H.
  - inversion H; reflexivity.
  - destruct r as [|h2 r'].
    + destruct (newMin <=? li); inversion H; reflexivity.
    + destruct (newMin <=? h_base (geth g h2) - 1); [inversion H; reflexivity|].
      destruct (split_head g newMin li (h2 :: r')) as [a b] eqn:Q. inversion H; subst.
      cbn. f_equal. now apply IH.
Qed.

Lemma split_tail_app g newMax : forall segs keep rm,
  split_tail g newMax segs = (keep, rm) -> keep ++ rm = segs.
Proof.
  induction segs as [|h r IH]; intros keep rm H; cbn in H.
  - inversion H; reflexivity.
  - destruct (h_base (geth g h) <=? newMax).
    + destruct (split_tail g newMax r) as [a b] eqn:Q. inversion H; subst. cbn. f_equal. now apply IH.
    + inversion H; reflexivity.
Qed.

(* the handle lists before and after a transaction: every old handle is either kept or
   handed to the finalizer, and at most one new handle (the next free id) is added *)
Definition tx_count (g : shared) (y : nat) (r : shared * list nat) : Prop :=
  exists segs mn nh,
    fst r = publish (set_hnds g (g_hnds g ++ nh)) (mk_state segs mn) /\
    ((nh = [] /\ forall h, cnt h segs + cnt h (snd r) = cnt h (s_segs (getst g y))) \/
     (exists b, nh = [new_hnd b] /\
                forall h, cnt h segs + cnt h (snd r) = cnt h (s_segs (getst g y)) + b2n (length (g_hnds g) =? h))).

Lemma count_same g y segs mn :
  segs = s_segs (getst g y) -> tx_count g y (publish g (mk_state segs mn), []).
Proof.
  intros ->. exists (s_segs (getst g y)), mn, []. split.
  - cbn. rewrite app_nil_r. destruct g; reflexivity.
  - left. split; [reflexivity|]. intros h. cbn. unfold cnt. cbn. lia.
Qed.

Lemma pm3_count g o y k : tx_count g y (pm3_tx g o y k).
Proof.
  assert (R : tx_count g y (do_rotate g y)).
  { unfold do_rotate. do 3 eexists. split; [cbn; reflexivity|]. right. eexists. split; [reflexivity|].
    intros h. cbn [snd]. rewrite cnt_app, cnt_single. unfold cnt at 2. cbn. lia. }
  assert (Hd : forall m, tx_count g y (do_trunc_head g y m)).
  { intros m. unfold do_trunc_head. destruct (split_head g m (last_index g (getst g y)) (s_segs (getst g y))) as [rm keep] eqn:Q.
    pose proof (split_head_app _ _ _ _ _ _ Q) as App. destruct keep as [|k0 keep].
    - do 3 eexists. split; [cbn; reflexivity|]. right. eexists. split; [reflexivity|].
      intros h. cbn [snd]. rewrite <- App, app_nil_r, cnt_single. lia.
    - exists (k0 :: keep), m, []. split.
      + cbn. rewrite app_nil_r. destruct g; reflexivity.
      + left. split; [reflexivity|]. intros h. cbn [snd]. rewrite <- App, cnt_app. lia. }
  assert (Tl : forall m, tx_count g y (do_trunc_tail g y m)).
  { intros m. unfold do_trunc_tail. destruct (split_tail g m (s_segs (getst g y))) as [keep rm] eqn:Q.
    pose proof (split_tail_app _ _ _ _ _ Q) as App.
    do 3 eexists. split; [cbn; reflexivity|]. right. eexists. split; [reflexivity|].
    intros h. cbn [snd]. rewrite <- App, !cnt_app, cnt_single. lia. }
  unfold pm3_tx. destruct k; auto; (destruct o as [o|]; [destruct (classify g (getst g y) o)|]; auto using count_same).
Qed.

Lemma close_all_closes : forall hs l h,
  h < length l -> h_closes (nth h (close_all l hs) dh) = h_closes (nth h l dh) + cnt h hs.
Proof.
  induction hs as [|a hs IH]; intros l h L; cbn [close_all].
  - unfold cnt. cbn. lia.
  - rewrite IH by (now rewrite upd_length). unfold cnt. cbn [count_occ].
    destruct (Nat.eq_dec a h) as [->|N].
    + rewrite nth_upd_eq by exact L. cbn. lia.
    + rewrite nth_upd_neq by exact N. lia.
Qed.

Lemma cnt_In h l : 0 < cnt h l <-> In h l.
Proof. unfold cnt. split; intros H; [apply (count_occ_In Nat.eq_dec); lia | apply (count_occ_In Nat.eq_dec) in H; lia]. Qed.
