(* CloseFrames2.v -- frame lemma for the reference / finalizer / handle bookkeeping: steps from
   all but ten program counters leave states, close counts and the thread's holdings alone *)
From Coq Require Import List Arith Bool Lia.
From RW Require Import Conc.Sys Conc.Close Conc.ListX Conc.CloseInv Conc.CloseInv2 Conc.CloseFacts
     Conc.CloseSafe Conc.CloseFrames.
Import ListNotations.

Definition special2 (p : pc) : bool :=
  match p with
  | PLoaded _ | PM1 _ _ | PC5 _ | PRel _ _ _ | PM3 _ _ | PC6 _ | PM4 _ _ _ | PCSwapped _ _
  | PLast _ _ _ | PRun _ _ _ _ => true
  | _ => false
  end.

Record same2 (g g' : shared) (th th' : thread) : Prop := {
  s2_states : g_states g' = g_states g;
  s2_cur : g_cur g' = g_cur g;
  s2_hlen : length (g_hnds g') = length (g_hnds g);
  s2_closes : forall h, h_closes (geth g' h) = h_closes (geth g h);
  s2_href : forall x, href th' x = href th x;
  s2_nlast : forall x, nlast th' x = 0 /\ nlast th x = 0;
  s2_hpend : forall h, hpend g' th' h = 0 /\ hpend g th h = 0
}.

Lemma geth_upd_closes g t v h :
  h_closes v = h_closes (geth g t) -> h_closes (geth (upd_h g t v) h) = h_closes (geth g h).
Proof.
  intros Q. rewrite geth_upd_h. destruct ((t =? h) && (t <? length (g_hnds g))) eqn:B; [|reflexivity].
  apply andb_true_iff in B. destruct B as [B _]. apply Nat.eqb_eq in B. now subst.
Qed.

Lemma frame2_plain g t th g' th' :
  step_thread g t th = Some (g', th') -> t_pc th' <> PPanic -> special2 (t_pc th) = false ->
  same2 g g' th th'.
Proof.
  intros F NP S. unfold step_thread in F.
  destruct (t_pc th) eqn:P; try discriminate S; crack F; inversion F; subst g' th'; clear F.
  all: try (exfalso; apply NP; reflexivity).
  all: split; cbn [g_states g_cur g_hnds upd_h set_hnds set_mu set_closed set_trig set_await set_meta];
    try reflexivity; try (now rewrite upd_length).
  all: try (intros h0; apply geth_upd_closes; reflexivity).
  all: try (intros x0; unfold href; cbn [t_pc setpc finish]; rewrite P; cbn [kouter]; try reflexivity; try lia).
  all: try (intros x0; unfold nlast; cbn [t_pc setpc finish]; rewrite P; split; reflexivity).
  all: try (intros h0; unfold hpend; cbn [t_pc setpc finish]; rewrite P; split; reflexivity).
Qed.
