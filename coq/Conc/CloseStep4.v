(* CloseStep4.v -- the per-thread facts of CloseInv2 under steps of other threads *)
From Coq Require Import List Arith Bool Lia.
From RW Require Import Conc.Sys Conc.SysFacts Conc.Close Conc.ListX Conc.CloseInv Conc.CloseInv2 Conc.CloseFacts
     Conc.CloseK Conc.CloseSafe Conc.CloseSafeStep Conc.CloseStep1 Conc.CloseFrames Conc.CloseFrames2
     Conc.CloseStepInv Conc.CloseStepThr Conc.CloseStepOwn Conc.CloseReach Conc.CloseCount Conc.CloseStep2
     Conc.CloseStep3.
Import ListNotations.

(* what a step can do to the finalizer and retired bit of an existing state *)
Lemma frame_finret g t th g' th' x :
  step_thread g t th = Some (g', th') -> t_pc th' <> PPanic -> x < length (g_states g) ->
  (s_fin (getst g' x) = s_fin (getst g x) /\ s_ret (getst g' x) = s_ret (getst g x)) \/
  (exists res k, t_pc th = PLast x res k /\ s_fin (getst g' x) = FNil /\ s_ret (getst g' x) = s_ret (getst g x)) \/
  (holds_mu th = true /\ s_ret (getst g' x) = true /\
   ((exists f k, t_pc th = PM4 x f k /\ s_fin (getst g' x) = f) \/
    (exists e, t_pc th = PCSwapped x e /\ s_fin (getst g' x) = FSet (s_segs (getst g x)) e))).
Proof.
  intros F NP L.
  destruct (special2 (t_pc th)) eqn:Sp.
  2: { destruct (frame2_plain _ _ _ _ _ F NP Sp) as [Qs _ _ _ _ _ _]. left. unfold getst. rewrite Qs. auto. }
  destruct (t_pc th) eqn:P; try discriminate Sp;
    unfold step_thread in F; rewrite P in F; crack F;
    try (match goal with Q : pm3_tx ?g ?o ?y ?k = (?a, ?b) |- _ =>
           destruct (pm3_shape g o y k) as (segs & mn & nh & Q1 & Q2); rewrite Q in Q1; cbn [fst] in Q1; subst a end);
    inversion F; subst g' th'; clear F.
  all: try (exfalso; apply NP; reflexivity).
  all: try (left; rewrite getst_upd_st; destruct ((_ =? x) && _) eqn:B; [|auto];
            apply andb_true_iff in B; destruct B as [B _]; apply Nat.eqb_eq in B; subst; auto; fail).
  all: try (left; destruct (publish_shape g nh (mk_state segs mn)) as (_ & Hg & _); rewrite Hg by exact L; auto; fail).
  all: try (left; unfold getst, publish; cbn; rewrite app_nth1 by exact L; auto; fail).
  all: try (left; auto; fail).
  all: try (match goal with P : t_pc _ = PLast ?x0 _ _ |- _ =>
              destruct (Nat.eq_dec x0 x) as [->|N];
              [ right; left; do 2 eexists; rewrite getst_upd_same by exact L; cbn; auto
              | left; rewrite getst_upd_other by exact N; auto ] end).
  all: try (match goal with P : t_pc _ = PM4 ?y _ _ |- _ =>
              destruct (Nat.eq_dec y x) as [->|N];
              [ right; right; rewrite getst_upd_same by exact L; cbn;
                split; [unfold holds_mu; rewrite P; reflexivity|]; split; [reflexivity|]; left; eauto
              | left; rewrite getst_upd_other by exact N; auto ] end).
  all: try (match goal with P : t_pc _ = PCSwapped ?y _ |- _ =>
              destruct (Nat.eq_dec y x) as [->|N];
              [ right; right; rewrite getst_upd_same by exact L; cbn;
                split; [unfold holds_mu; rewrite P; reflexivity|]; split; [reflexivity|]; right; eauto
              | left; rewrite getst_upd_other by exact N; auto ] end).
Qed.

Lemma vhold_step g t th g' th' z :
  step_thread g t th = Some (g', th') -> vhold th' = Some z -> vhold th = Some z \/ z = g_cur g.
Proof.
  intros F V. unfold step_thread in F. crack F;
    try (destruct (pm3_tx _ _ _ _) eqn:?); inversion F; subst g' th'; clear F.
  all: try (cbn in V; discriminate V).
  all: try (match goal with H : context [continue _ _ ?k] |- _ => destruct k; cbn in V; discriminate V end).
  all: unfold vhold in *; cbn [t_pc setpc] in V;
    repeat match goal with H : t_pc _ = _ |- _ => rewrite H end; auto.
  (* PAcq -> PBody: the state was re-validated as current *)
  right. inversion V; subst. match goal with H : negb (_ =? _) = false |- _ => apply negb_false_iff, Nat.eqb_eq in H; auto end.
Qed.

Section P4.
  Variables (w r : tid) (orig : list (list op)).

  Lemma unrun_step s t th g' th' y hs :
    Full w r s -> Inv2 orig s -> nth_error (ths s) t = Some th -> step_thread (sh s) t th = Some (g', th') ->
    y < length (g_states (sh s)) -> unrun (sh s) (ths s) y hs ->
    (forall res k, t_pc th <> PLast y res k) -> unrun g' (upd (ths s) t th') y hs.
  Proof.
    intros [SA I] J E F Ly U NL.
    pose proof (no_panic w r _ _ _ _ _ SA I E F) as NP.
    destruct (core_step s t th g' th' SA E F NP) as (Fr & _).
    pose proof (j_thr _ _ J _ _ E) as TJ. unfold th_facts2 in TJ.
    assert (Lt : t < length (ths s)) by (eapply nth_error_Some_lt; eauto).
    destruct (frame_finret _ _ _ _ _ y F NP Ly) as [(Qf & _)|[(res & k & P & _)|(Hm & _ & [(f & k & P & Qf)|(e & P & Qf)])]].
    - (* finalizer field of y untouched *)
      destruct U as [(sc & Q)|[(v & thv & Ev & Q)|(v & thv & e & Ev & Pv & Q)]].
      + left. exists sc. congruence.
      + destruct (Nat.eq_dec v t) as [->|N].
        * exfalso. assert (thv = th) by congruence. subst thv. unfold fin_pending in Q.
          destruct (t_pc th) eqn:P; try discriminate. destruct f; try discriminate.
          destruct (Nat.eqb_spec y0 y) as [->|]; [|discriminate].
          (* t is at PM4 y: its step stores the finalizer, which changes the field *)
          destruct TJ as (hs' & Qh & Nf & _). unfold step_thread in F. rewrite P in F. inversion F; subst.
          rewrite getst_upd_same in Qf by exact Ly. cbn in Qf. rewrite <- Qf in Nf. discriminate.
        * right; left. exists v, thv. split; [now rewrite nth_error_upd_neq by congruence | exact Q].
      + destruct (Nat.eq_dec v t) as [->|N].
        * exfalso. assert (thv = th) by congruence. subst thv.
          rewrite Pv in TJ. destruct TJ as (Nf & _). unfold step_thread in F. rewrite Pv in F.
          destruct (negb (s_open (getst (sh s) y))); [inversion F; subst; apply NP; reflexivity|].
          inversion F; subst. rewrite getst_upd_same in Qf by exact Ly. cbn in Qf. rewrite <- Qf in Nf. discriminate.
        * right; right. exists v, thv, e. split; [now rewrite nth_error_upd_neq by congruence|]. split; [exact Pv|].
          rewrite (f_segs _ _ Fr y Ly). exact Q.
    - exfalso. apply (NL res k P).
    - (* t stores the finalizer it carried *)
      left. rewrite P in TJ. destruct TJ as (hs' & Qh & Nf & _). subst f.
      assert (hs = hs').
      { destruct U as [(sc & Q)|[(v & thv & Ev & Q)|(v & thv & e & Ev & Pv & Q)]].
        - rewrite Q in Nf. discriminate.
        - destruct (Nat.eq_dec v t) as [->|N].
          + assert (thv = th) by congruence. subst thv. unfold fin_pending in Q. rewrite P, Nat.eqb_refl in Q. congruence.
          + exfalso. pose proof (a_mu1 _ SA _ _ E Hm) as M1.
            assert (Hv : holds_mu thv = true).
            { unfold fin_pending in Q. unfold holds_mu. destruct (t_pc thv); try discriminate; reflexivity. }
            pose proof (a_mu1 _ SA _ _ Ev Hv). congruence.
        - destruct (Nat.eq_dec v t) as [->|N]; [congruence|].
          exfalso. pose proof (a_mu1 _ SA _ _ E Hm) as M1.
          assert (Hv : holds_mu thv = true) by (unfold holds_mu; now rewrite Pv).
          pose proof (a_mu1 _ SA _ _ Ev Hv). congruence. }
      subst hs'. exists (S y). exact Qf.
    - (* Close retires y *)
      left. rewrite P in TJ. destruct TJ as (Nf & _).
      assert (hs = s_segs (getst (sh s) y)).
      { destruct U as [(sc & Q)|[(v & thv & Ev & Q)|(v & thv & e' & Ev & Pv & Q)]].
        - rewrite Q in Nf. discriminate.
        - destruct (Nat.eq_dec v t) as [->|N].
          + assert (thv = th) by congruence. subst thv. unfold fin_pending in Q. rewrite P in Q. discriminate.
          + exfalso. pose proof (a_mu1 _ SA _ _ E Hm) as M1.
            assert (Hv : holds_mu thv = true).
            { unfold fin_pending in Q. unfold holds_mu. destruct (t_pc thv); try discriminate; reflexivity. }
            pose proof (a_mu1 _ SA _ _ Ev Hv). congruence.
        - exact Q. }
      subst hs. exists e. exact Qf.
  Qed.

  Definition prot (g : shared) (T : list thread) (x : nat) : Prop :=
    forall y, x <= y -> y < g_cur g -> exists hs, unrun g T y hs.

  (* the protection of a validated holder (thread u, state x) survives every step *)
  Lemma prot_step s t th g' th' u thu x :
    Full w r s -> Inv2 orig s -> nth_error (ths s) t = Some th -> step_thread (sh s) t th = Some (g', th') ->
    nth_error (ths s) u = Some thu -> vhold thu = Some x -> prot (sh s) (ths s) x ->
    prot g' (upd (ths s) t th') x.
  Proof.
    intros F0 J E F Eu Vu Pr y Lxy Lyc. destruct F0 as [SA I].
    pose proof (no_panic w r _ _ _ _ _ SA I E F) as NP.
    pose proof (a_last _ SA) as La.
    assert (Lt : t < length (ths s)) by (eapply nth_error_Some_lt; eauto).
    destruct (Nat.lt_ge_cases y (g_cur (sh s))) as [Lo|Lo].
    - destruct (Pr y Lxy Lo) as (hs & U). exists hs.
      apply (unrun_step s t th g' th' y hs (conj SA I) J E F ltac:(lia) U).
      intros res k P. pose proof (j_thr _ _ J _ _ E) as TJ. unfold th_facts2 in TJ. rewrite P in TJ.
      destruct TJ as (_ & _ & _ & W). specialize (W u thu x Eu Vu). lia.
    - (* the state pointer moved: y is the state that has just been replaced *)
      destruct (frame_cur _ _ _ _ _ F) as [(Qc & _)|[(y0 & k & st0 & P & _ & Qc & Qs)|(x0 & P & Qc & Qs & Qt)]]; [lia| |].
      + assert (y = g_cur (sh s)) by lia. subst y.
        pose proof (i_thr _ _ _ I _ _ E) as TF. unfold th_facts1 in TF. rewrite P in TF. destruct TF as (Yc & _). subst y0.
        unfold step_thread in F. rewrite P in F. destruct (pm3_tx (sh s) (cur_op th) (g_cur (sh s)) k) as [g1 hs1] eqn:Q.
        inversion F; subst. exists hs1. right; left. exists t, (setpc th (PM4 (g_cur (sh s)) (FSet hs1 (g_cur g')) k)).
        split; [now apply nth_error_upd_eq|]. unfold fin_pending. cbn. now rewrite Nat.eqb_refl.
      + assert (y = g_cur (sh s)) by lia. subst y.
        pose proof (i_thr _ _ _ I _ _ E) as TF. unfold th_facts1 in TF. rewrite P in TF. subst x0.
        exists (s_segs (getst g' (g_cur (sh s)))). right; right.
        exists t, th', (length (g_states (sh s))). split; [now apply nth_error_upd_eq|]. subst th'. split; reflexivity.
  Qed.

  Lemma states_len g t th g' th' :
    step_thread g t th = Some (g', th') -> length (g_states g) <= length (g_states g').
  Proof.
    intros F. destruct (frame_cur _ _ _ _ _ F) as [(_ & Q & _)|[(y0 & k & st0 & _ & _ & _ & Q)|(x0 & _ & _ & Q & _)]];
      rewrite ?Q, ?app_length; cbn; lia.
  Qed.

  Lemma thr2_other s t th g' th' u thu :
    Full w r s -> Inv2 orig s -> nth_error (ths s) t = Some th -> step_thread (sh s) t th = Some (g', th') ->
    nth_error (ths s) u = Some thu -> u <> t -> th_facts2 g' (upd (ths s) t th') thu.
  Proof.
    intros F0 J E F Eu N. pose proof F0 as [SA I].
    pose proof (no_panic w r _ _ _ _ _ SA I E F) as NP.
    pose proof (j_thr _ _ J _ _ Eu) as TJu. pose proof (i_thr _ _ _ I _ _ Eu) as TFu.
    destruct (core_step s t th g' th' SA E F NP) as (Fr & _).
    pose proof (states_len _ _ _ _ _ F) as SL. pose proof (a_last _ SA) as La.
    assert (G6 : g_closed (sh s) = true -> g_closed g' = true)
      by (intros C; destruct (frame_closed _ _ _ _ _ F) as [Q|(_ & _ & Q & _)]; congruence).
    (* finalizer field / retired bit of a state whose holder of the mutex is u *)
    assert (HF : forall x, x < length (g_states (sh s)) -> holds_mu thu = true ->
                 (is_fset (s_fin (getst (sh s) x)) = false -> is_fset (s_fin (getst g' x)) = false) /\
                 s_ret (getst g' x) = s_ret (getst (sh s) x)).
    { intros x Lx Hu.
      destruct (frame_finret _ _ _ _ _ x F NP Lx) as [(Qf & Qr)|[(res & k & P & Qf & Qr)|(Hm & _)]].
      - rewrite Qf, Qr. auto.
      - rewrite Qf, Qr. auto.
      - exfalso. apply N. pose proof (a_mu1 _ SA _ _ E Hm). pose proof (a_mu1 _ SA _ _ Eu Hu). congruence. }
    unfold th_facts2 in *. unfold th_facts1 in TFu.
    destruct (t_pc thu) eqn:Pu; try exact Logic.I.
    - (* PStErr *) auto.
    - (* PBody *) apply (prot_step s t th g' th' u thu x F0 J E F Eu); [unfold vhold; now rewrite Pu | exact TJu].
    - (* PGetRead *) destruct TJu as [Hi Pr]. split.
      + assert (Lx : x < length (g_states (sh s))).
        { pose proof (a_thr _ SA _ _ Eu) as FB. unfold factsB in FB. rewrite Pu in FB.
          apply (held_lt orig s u thu x J Eu). unfold href. rewrite Pu, Nat.eqb_refl. cbn. lia. }
        rewrite (f_segs _ _ Fr x Lx). exact Hi.
      + apply (prot_step s t th g' th' u thu x F0 J E F Eu); [unfold vhold; now rewrite Pu | exact Pr].
    - (* PM2 *) lia.
    - (* PM3 *) lia.
    - (* PM4 *)
      destruct TJu as (hs & Qf & Nf & Nr & Inc). destruct TFu as (Yc & _).
      assert (Hu : holds_mu thu = true) by (unfold holds_mu; now rewrite Pu).
      assert (Ly : y < length (g_states (sh s))) by lia.
      destruct (HF y Ly Hu) as [Hf Hr]. exists hs. split; [exact Qf|]. split; [auto|]. split; [congruence|].
      intros h Hi. rewrite (f_segs _ _ Fr y Ly) in Hi. rewrite (f_segs _ _ Fr (S y) ltac:(lia)). auto.
    - (* PRel *) destruct TJu as [Lx Ro]. split; [lia | exact Ro].
    - (* PLast *)
      destruct TJu as (Rt & Lx & Ro & W). split; [|split; [lia|split; [exact Ro|]]].
      + destruct (frame_finret _ _ _ _ _ x F NP Lx) as [(_ & Qr)|[(res & k0 & _ & _ & Qr)|(_ & Qr & _)]]; congruence.
      + intros v thv z Ev Vz. destruct (nth_error_upd_inv _ _ _ _ _ Ev) as [(-> & -> & _)|(Nv & Ev')].
        * destruct (vhold_step _ _ _ _ _ z F Vz) as [Vo| ->]; [apply (W t th z E Vo)|].
          apply (j_ret _ _ J x Lx Rt).
        * apply (W v thv z Ev' Vz).
    - (* PRun *) destruct TJu as [Ls Ro]. split; [lia | exact Ro].
    - (* PUnl *) exact TJu.
    - (* PC6 *) lia.
    - (* PCSwapped *)
      destruct TJu as (Nf & Nr & Se). destruct TFu as (Xc & Ec & _).
      assert (Hu : holds_mu thu = true) by (unfold holds_mu; now rewrite Pu).
      assert (Lx : x < length (g_states (sh s))) by lia.
      destruct (HF x Lx Hu) as [Hf Hr]. split; [auto|]. split; [congruence|].
      rewrite (f_segs _ _ Fr e ltac:(lia)). exact Se.
    - (* PC8 *) lia.
  Qed.
End P4.
