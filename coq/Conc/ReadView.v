(* ReadView.v -- what a reader sees through a version x it holds (`view`), and when that
   changes: only when the writer publishes commitIdx of a tail file that x shares with the
   current version, and then the new view is the view through the current version. *)
From Coq Require Import List Arith Bool Lia.
From RW Require Import Conc.Sys Conc.Close Conc.ListX Conc.CloseFacts Conc.CloseSafe Conc.ReadInv Conc.Readers.
Import ListNotations.

Definition view (g : shared) (x : nat) (o : op) : outcome :=
  let s := getst g x in
  match o with
  | OFirst => Ok (first_index g s)
  | OLast => Ok (last_index g s)
  | OGet i => match find_log g s i with
              | Some h => Ok (nth (i - h_base (geth g h)) (h_ents (geth g h)) 0)
              | None => NotFound
              end
  | _ => Panic
  end.

Lemma spec_view g o : s_open (cur_st g) = true -> is_read_op o = true -> spec_read g o = Some (view g (g_cur g) o).
Proof. intros O R. unfold spec_read. rewrite O. destruct o; try discriminate R; reflexivity. Qed.

(* ---- the lookups as functions of (length, first index, base, commit counter) ---------- *)
Definition fiF (len m c : nat) : nat := if (len =? 1) && (c =? 0) then 0 else m.
Definition liF (len B c : nat) : nat := if 0 <? c then B + c - 1 else if 2 <=? len then B - 1 else 0.

Lemma fi_eq g x : first_index g (getst g x) = fiF (length (sg g x)) (mn g x) (hc g (tl_of g x)).
Proof. reflexivity. Qed.
Lemma li_eq g x : last_index g (getst g x) = liF (length (sg g x)) (hb g (tl_of g x)) (hc g (tl_of g x)).
Proof. reflexivity. Qed.

Lemma seg_for_ext g g' i : forall segs acc,
  (forall h, In h segs -> hb g' h = hb g h) -> seg_for g' segs i acc = seg_for g segs i acc.
Proof.
  induction segs as [|a segs IH]; intros acc Hb; [reflexivity|]. cbn [seg_for].
  change (h_base (geth g' a)) with (hb g' a). change (h_base (geth g a)) with (hb g a).
  rewrite (Hb a (or_introl eq_refl)). destruct (_ <=? _); [|reflexivity]. apply IH. intros h Hi. apply Hb. now right.
Qed.

Lemma seg_for_some g i : forall segs acc h,
  seg_for g segs i acc = Some h -> (In h segs /\ hb g h <= i) \/ acc = Some h.
Proof.
  induction segs as [|a segs IH]; intros acc h Q; cbn in Q; [now right|].
  destruct (Nat.leb_spec (h_base (geth g a)) i); [|now right].
  destruct (IH _ _ Q) as [[Hi L]|Hq]; [left; split; [now right | exact L]|]. inversion Hq; subst. left. split; [now left | exact H].
Qed.

Lemma seg_for_all g i : forall segs acc,
  (forall h, In h segs -> hb g h <= i) -> segs <> [] -> seg_for g segs i acc = Some (last segs 0).
Proof.
  induction segs as [|a segs IH]; intros acc Hb Ne; [congruence|]. cbn [seg_for].
  pose proof (Hb a (or_introl eq_refl)) as La. apply Nat.leb_le in La. unfold hb in La. rewrite La.
  destruct segs as [|b segs]; [reflexivity|]. rewrite IH; [reflexivity | | discriminate]. intros h Hi. apply Hb. now right.
Qed.

(* ---- the view depends only on the files of x -------------------------------------------- *)
Lemma view_ext g g' x o :
  sg g' x = sg g x -> mn g' x = mn g x -> sg g x <> [] ->
  (forall h, In h (sg g x) -> hb g' h = hb g h /\ hc g' h = hc g h /\
             forall pos, pos < hc g h -> nth pos (h_ents (geth g' h)) 0 = nth pos (h_ents (geth g h)) 0) ->
  view g' x o = view g x o.
Proof.
  intros Es Em Ne Hh.
  assert (Ti : In (tl_of g x) (sg g x)) by (apply last_In; exact Ne).
  assert (Et : tl_of g' x = tl_of g x) by (unfold tl_of; now rewrite Es).
  destruct (Hh _ Ti) as (Bt & Ct & _).
  assert (Ef : first_index g' (getst g' x) = first_index g (getst g x)) by (rewrite !fi_eq, Es, Em, Et, Ct; reflexivity).
  assert (El : last_index g' (getst g' x) = last_index g (getst g x)) by (rewrite !li_eq, Es, Et, Ct, Bt; reflexivity).
  unfold view. destruct o; try reflexivity; cbn zeta.
  - now rewrite Ef.
  - now rewrite El.
  - unfold find_log. rewrite Ef, El. destruct (_ && _); [|reflexivity].
    fold (sg g' x). fold (sg g x). rewrite Es. rewrite (seg_for_ext g g' i (sg g x) None) by (intros h Hi; apply (Hh h Hi)).
    destruct (seg_for g (sg g x) i None) as [h|] eqn:Q; [|reflexivity].
    destruct (seg_for_some _ _ _ _ _ Q) as [[Hi Lb]|Hq]; [|discriminate].
    destruct (Hh h Hi) as (Bh & Ch & Eh). fold (hb g' h) (hb g h) (hc g' h) (hc g h). rewrite Bh, Ch.
    destruct (Nat.ltb_spec (i - hb g h) (hc g h)) as [Lp|Lp]; [|reflexivity].
    fold (hb g' h) (hb g h). rewrite Bh. now rewrite (Eh _ Lp).
Qed.

(* ---- a same-tail chain of versions ------------------------------------------------------- *)
Lemma chain g x : Inv3 g -> S (g_cur g) = ns g -> forall d y, y = d + x -> y <= g_cur g -> op_ g y = true ->
  In (tl_of g y) (sg g x) ->
  tl_of g x = tl_of g y /\ (exists rm, sg g x = rm ++ sg g y) /\ mn g x <= mn g y /\
  (length (sg g x) = 1 -> hc g (tl_of g x) = 0 -> mn g y = mn g x).
Proof.
  intros K La. induction d as [|d IH]; intros y Ey Ly Oy Hi.
  - cbn in Ey. subst y. split; [reflexivity|]. split; [exists []; reflexivity|]. split; [lia | auto].
  - remember (d + x) as z eqn:Ez. assert (Ey' : y = S z) by lia. clear Ey. subst y.
    assert (Oz : op_ g z = true) by (apply (k_open _ K); lia).
    assert (Lz : z < ns g) by lia.
    pose proof (k_ord _ K x z _ ltac:(lia) Lz Oz Hi) as O1.
    pose proof (k_ord _ K z (S z) (tl_of g z) ltac:(lia) ltac:(lia) Oy (last_In _ 0 (k_nonempty _ K z Lz Oz))) as O2.
    assert (Tz : tl_of g (S z) = tl_of g z) by lia.
    destruct (k_rel _ K z ltac:(lia) Oy Tz) as ((rm1 & R1) & R2 & R3).
    rewrite Tz in Hi. destruct (IH z eq_refl ltac:(lia) Oz Hi) as (I1 & (rm & I2) & I3 & I4).
    split; [congruence|]. split; [exists (rm ++ rm1); rewrite I2, R1; now rewrite app_assoc|]. split; [lia|].
    intros L1 C0. specialize (I4 L1 C0).
    assert (Nz : sg g z <> []) by (apply (k_nonempty _ K z Lz Oz)).
    assert (rm = []).
    { destruct rm as [|a rm]; [reflexivity|]. rewrite I2 in L1. cbn in L1. rewrite app_length in L1.
      destruct (sg g z); [congruence | cbn in L1; lia]. }
    subst rm. cbn in I2. rewrite <- I2 in R3. rewrite <- I1 in R3. lia.
Qed.

Lemma find_log_eq g x i :
  find_log g (getst g x) i =
  if (0 <? fiF (length (sg g x)) (mn g x) (hc g (tl_of g x))) && (fiF (length (sg g x)) (mn g x) (hc g (tl_of g x)) <=? i) &&
     (i <=? liF (length (sg g x)) (hb g (tl_of g x)) (hc g (tl_of g x)))
  then match seg_for g (sg g x) i None with
       | Some h => if i - hb g h <? hc g h then Some h else None
       | None => None
       end
  else None.
Proof. reflexivity. Qed.

Lemma view_get g x i :
  view g x (OGet i) = match find_log g (getst g x) i with
                      | Some h => Ok (nth (i - hb g h) (h_ents (geth g h)) 0)
                      | None => NotFound
                      end.
Proof. reflexivity. Qed.

(* ---- the commit of a batch: the only step that changes a view --------------------------- *)
Section Commit.
  Variables (g g' : shared) (x ht : nat).
  Hypotheses
    (K : Inv3 g) (La : S (g_cur g) = ns g) (Oy : op_ g (g_cur g) = true) (Lx : x <= g_cur g) (Ox : op_ g x = true)
    (Ht : ht = tl_of g (g_cur g))
    (Es : forall z, sg g' z = sg g z) (Em : forall z, mn g' z = mn g z)
    (Eb : forall h, hb g' h = hb g h) (Ee : forall h, h_ents (geth g' h) = h_ents (geth g h))
    (Ec : forall h, h <> ht -> hc g' h = hc g h) (Cg : hc g ht <= hc g' ht).

  Lemma commit_view o : is_read_op o = true -> view g' x o = view g x o \/ view g' x o = view g' (g_cur g) o.
  Proof.
    intros Ro. set (y := g_cur g) in *.
    assert (Lxn : x < ns g) by lia.
    assert (Nx : sg g x <> []) by (apply (k_nonempty _ K x Lxn Ox)).
    assert (Ny : sg g y <> []) by (apply (k_nonempty _ K y ltac:(lia) Oy)).
    destruct (in_dec Nat.eq_dec ht (sg g x)) as [Hi|Hn].
    2: { left. apply view_ext; auto. intros h Hh. split; [apply Eb|]. split; [apply Ec; congruence|]. intros pos _. now rewrite Ee. }
    destruct (Nat.eq_dec (hc g' ht) (hc g ht)) as [Ce|Cn].
    { left. apply view_ext; auto. intros h Hh. split; [apply Eb|]. split.
      - destruct (Nat.eq_dec h ht) as [->|N]; [exact Ce | now apply Ec].
      - intros pos _. now rewrite Ee. }
    rewrite Ht in Hi.
    destruct (chain g x K La (y - x) y ltac:(lia) ltac:(lia) Oy Hi) as (T1 & (rm & Sx) & M1 & Cd).
    rewrite <- Ht in T1.
    pose proof (k_m _ K Oy) as Mk. fold y in Mk. rewrite <- Ht in Mk.
    pose proof (k_min _ K x Lxn Ox) as Px. pose proof (k_min _ K y ltac:(lia) Oy) as Py.
    assert (Tx' : tl_of g' x = ht) by (unfold tl_of; rewrite Es; exact T1).
    assert (Ty' : tl_of g' y = ht) by (unfold tl_of; rewrite Es; symmetry; exact Ht).
    set (B := hb g ht) in *. set (c := hc g ht) in *. set (c' := hc g' ht) in *.
    assert (C1 : 0 < c') by lia.
    assert (Bx : forall h, In h (sg g x) -> hb g h <= B).
    { intros h Hh. pose proof (k_base _ K x h Lxn Hh) as Q. rewrite T1 in Q. exact Q. }
    assert (By_ : forall h, In h (sg g y) -> hb g h <= B).
    { intros h Hh. pose proof (k_base _ K y h ltac:(lia) Hh) as Q. rewrite <- Ht in Q. exact Q. }
    destruct o; try discriminate Ro.
    - (* FirstIndex *)
      unfold view. cbn zeta. rewrite !fi_eq, Tx', Ty', T1, !Es, !Em. fold c c'.
      assert (Q : forall len m, fiF len m c' = m).
      { intros len m. unfold fiF. destruct (c' =? 0) eqn:Z; [apply Nat.eqb_eq in Z; lia|]. now rewrite andb_false_r. }
      rewrite !Q. unfold fiF. destruct (Nat.eqb_spec (length (sg g x)) 1) as [L1|L1]; [|now left].
      destruct (Nat.eqb_spec c 0) as [Z|Z]; [|now left]. right. cbn [andb]. rewrite (Cd L1 ltac:(rewrite T1; exact Z)). reflexivity.
    - (* LastIndex *)
      right. unfold view. cbn zeta. rewrite !li_eq, Tx', Ty', !Es, !Eb. fold B c'.
      unfold liF. apply Nat.ltb_lt in C1. rewrite C1. reflexivity.
    - (* GetLog *)
      rewrite !view_get, !find_log_eq, Tx', Ty', T1, !Es, !Em, !Eb. fold B c c'.
      rewrite (seg_for_ext g g' i (sg g x) None) by (intros; apply Eb).
      rewrite (seg_for_ext g g' i (sg g y) None) by (intros; apply Eb).
      assert (Q : forall len m, fiF len m c' = m).
      { intros len m. unfold fiF. destruct (c' =? 0) eqn:Z; [apply Nat.eqb_eq in Z; lia|]. now rewrite andb_false_r. }
      assert (Ql : forall len, liF len B c' = B + c' - 1).
      { intros len. unfold liF. apply Nat.ltb_lt in C1. now rewrite C1. }
      rewrite !Q, !Ql.
      destruct (Nat.lt_ge_cases i (B + c)) as [Lo|Lo].
      + (* an index committed before: nothing changes *)
        left.
        destruct ((length (sg g x) =? 1) && (c =? 0)) eqn:E0.
        * apply andb_true_iff in E0. destruct E0 as [L1 Z]. apply Nat.eqb_eq in L1, Z.
          unfold fiF. rewrite L1, Z. cbn [Nat.eqb andb Nat.ltb Nat.leb].
          assert (Sx1 : sg g x = [ht]).
          { destruct (sg g x) as [|a [|b l]] eqn:Sq; cbn in L1; try lia. unfold tl_of in T1. rewrite Sq in T1. cbn in T1. now subst. }
          rewrite Sx1. cbn [seg_for]. fold (hb g ht). fold B.
          destruct (Nat.leb_spec B i); [lia|]. destruct (_ && _); reflexivity.
        * assert (Ff : fiF (length (sg g x)) (mn g x) c = mn g x) by (unfold fiF; now rewrite E0). rewrite Ff.
          assert (Ll : i <= liF (length (sg g x)) B c).
          { unfold liF. destruct (Nat.ltb_spec 0 c); [lia|]. assert (c = 0) by lia. subst c.
            destruct (Nat.leb_spec 2 (length (sg g x))) as [L2|L2]; [lia|].
            apply andb_false_iff in E0. destruct E0 as [E0|E0]; apply Nat.eqb_neq in E0; [|lia].
            destruct (sg g x); [congruence | cbn in *; lia]. }
          assert (R1 : (i <=? liF (length (sg g x)) B c) = true) by (now apply Nat.leb_le).
          assert (R2 : (i <=? B + c' - 1) = true) by (apply Nat.leb_le; lia).
          rewrite R1, R2, !andb_true_r. destruct ((0 <? mn g x) && (mn g x <=? i)); [|reflexivity].
          destruct (seg_for g (sg g x) i None) as [h|] eqn:Sq; [|reflexivity].
          destruct (seg_for_some _ _ _ _ _ Sq) as [[Hh Lb]|Hq]; [|discriminate].
          rewrite ?Eb.
          destruct (Nat.eq_dec h ht) as [->|Nh].
          -- fold B c c'. fold B in Lb. destruct (Nat.ltb_spec (i - B) c); [|lia]. destruct (Nat.ltb_spec (i - B) c'); [|lia].
             now rewrite ?Eb, Ee.
          -- rewrite (Ec h Nh). destruct (_ <? _); [now rewrite ?Eb, Ee | reflexivity].
      + destruct (Nat.lt_ge_cases i (B + c')) as [Hi'|Hi'].
        * (* an index of the batch just committed: both views find it in the shared tail *)
          right.
          assert (Sx' : seg_for g (sg g x) i None = Some ht).
          { rewrite (seg_for_all g i (sg g x) None); [now rewrite <- T1 | | exact Nx]. intros h Hh. pose proof (Bx h Hh). lia. }
          assert (Sy' : seg_for g (sg g y) i None = Some ht).
          { rewrite (seg_for_all g i (sg g y) None); [now rewrite Ht | | exact Ny]. intros h Hh. pose proof (By_ h Hh). lia. }
          rewrite Sx', Sy'. rewrite !Eb. fold B c'.
          assert (T : (i - B <? c') = true) by (apply Nat.ltb_lt; lia). rewrite T.
          assert (R2 : (i <=? B + c' - 1) = true) by (apply Nat.leb_le; lia). rewrite R2.
          assert (A1 : (0 <? mn g x) = true) by (apply Nat.ltb_lt; lia).
          assert (A2 : (mn g x <=? i) = true) by (apply Nat.leb_le; lia).
          assert (A3 : (0 <? mn g y) = true) by (apply Nat.ltb_lt; lia).
          assert (A4 : (mn g y <=? i) = true) by (apply Nat.leb_le; lia).
          rewrite A1, A2, A3, A4. reflexivity.
        * (* beyond the end in both *)
          left.
          assert (R2 : (i <=? B + c' - 1) = false) by (apply Nat.leb_gt; lia).
          assert (R1 : (i <=? liF (length (sg g x)) B c) = false).
          { apply Nat.leb_gt. unfold liF. destruct (0 <? c); [lia|]. destruct (2 <=? _); lia. }
          rewrite R1, R2, !andb_false_r. reflexivity.
  Qed.
End Commit.
