(* CloseThm4.v -- C13 with concurrent readers pinning old states (L3):
   whenever every call has returned (all callers are between calls -- "in-flight reads have
   finished") and the rotation goroutine is outside its critical section, no reference, no
   finalizer and no pending release is left anywhere: every file handle that does not belong
   to the CURRENT state has been closed exactly once (the finalizer that closes a handle is
   the one that deletes its file, state.go), and the handles of the current state are open.
   Holds in every reachable state of a single-writer system, closed or not, for every
   schedule: however long readers delayed the finalizers, nothing is left over once they
   are done. *)
From Coq Require Import List Arith Bool Lia.
From RW Require Import Conc.Sys Conc.SysFacts Conc.Close Conc.ListX Conc.CloseInv Conc.CloseInv2 Conc.CloseFacts
     Conc.CloseK Conc.CloseSafe Conc.CloseSafeStep Conc.CloseStep1 Conc.CloseReach Conc.CloseThm Conc.CloseStep2 Conc.CloseStep3 Conc.CloseOpen
     Conc.CloseReach2 Conc.CloseCount.
Import ListNotations.

(* every caller is between calls and the rotation goroutine (thread nw) is outside its
   critical section *)
Definition quiescent (nw : nat) (s : sys) : Prop :=
  (forall t th, nth_error (ths s) t = Some th -> t <> nw -> t_pc th = PIdle) /\
  (forall thr, nth_error (ths s) nw = Some thr -> rot_cs (t_pc thr) = false).

Lemma quiescent_no_refs w progs extra s :
  single_writer w progs extra -> reach progs extra s -> quiescent (length progs) s ->
  (forall th, In th (ths s) -> (forall x, href th x = 0) /\ (forall x, nlast th x = 0) /\
                               (forall h, hpend (sh s) th h = 0)) /\
  (forall x, x < length (g_states (sh s)) -> is_fset (s_fin (getst (sh s) x)) = false).
Proof.
  intros SW R [Idle RP].
  destruct (full2_reach w progs extra s SW R) as [[SA I] J].
  destruct (i_rot _ _ _ I) as (thr & Er & Rr).
  specialize (RP thr Er).
  assert (Z : forall th, In th (ths s) -> (forall x, href th x = 0) /\ (forall x, nlast th x = 0) /\
                                           (forall h, hpend (sh s) th h = 0)).
  { intros th Hi. apply In_nth_error in Hi. destruct Hi as (t & E).
    destruct (Nat.eq_dec t (length progs)) as [->|N].
    - assert (th = thr) by congruence. subst th. pose proof (i_wf _ _ _ I _ _ E) as WF. unfold pc_ok in WF. rewrite Rr in WF.
      destruct (t_prog thr); [|discriminate]. unfold href, nlast, hpend.
      destruct (t_pc thr); try discriminate WF; try discriminate RP; repeat split; reflexivity.
    - unfold href, nlast, hpend. rewrite (Idle t th E N). repeat split; reflexivity. }
  split; [exact Z|].
  assert (NF : forall n x, x < n -> x < length (g_states (sh s)) -> is_fset (s_fin (getst (sh s) x)) = false).
  { induction n as [|n IH]; intros x Ln Lx; [lia|].
    destruct (s_fin (getst (sh s) x)) as [| |hs sc] eqn:Q; try reflexivity. exfalso.
    destruct (j_fin _ _ J x hs sc Lx Q) as (_ & _ & _ & R1 & _).
    rewrite (sum_zero (fun th => nlast th x)) in R1 by (intros th Hi; apply (Z th Hi)).
    rewrite (j_ref _ _ J x Lx) in R1.
    rewrite (sum_zero (fun th => href th x)) in R1 by (intros th Hi; apply (Z th Hi)).
    destruct (sum_pos_ex (fun st0 => fsucc (s_fin st0) x) (g_states (sh s)) ltac:(lia)) as (y & sty & Ey & Py).
    assert (Ly : y < length (g_states (sh s))) by (eapply nth_error_Some_lt; eauto).
    rewrite <- (getst_nth _ _ _ Ey) in Py. unfold fsucc in Py.
    destruct (s_fin (getst (sh s) y)) as [| |hs' sc'] eqn:Qy; try (cbn in Py; lia).
    destruct (Nat.eqb_spec sc' x) as [->|]; [|cbn in Py; lia].
    destruct (j_fin _ _ J y hs' x Ly Qy) as (Sx & _).
    pose proof (IH y ltac:(lia) Ly) as Fy. rewrite Qy in Fy. discriminate. }
  intros x Lx. exact (NF (S x) x ltac:(lia) Lx).
Qed.

(* the handle accounting of a quiescent state: current handles open, all others closed once *)
Theorem quiescent_reclaimed : forall w progs extra s,
  single_writer w progs extra -> reach progs extra s -> quiescent (length progs) s ->
  forall h, h < length (g_hnds (sh s)) ->
    live (sh s) h + h_closes (geth (sh s) h) = 1.
Proof.
  intros w progs extra s SW R Q h Lh.
  destruct (quiescent_no_refs w progs extra s SW R Q) as [Z NF].
  destruct (full2_reach w progs extra s SW R) as [[SA I] J].
  destruct (j_own _ _ J h) as [W1 _]. specialize (W1 Lh).
  unfold owners in W1.
  rewrite (sum_zero (fun th => hpend (sh s) th h)) in W1 by (intros th Hi; apply (Z th Hi)).
  rewrite (sum_zero (fun s0 => fin_cnt (s_fin s0) h)) in W1.
  - lia.
  - intros st0 Hi. apply In_nth_error in Hi. destruct Hi as (x & Ex).
    assert (Lx : x < length (g_states (sh s))) by (eapply nth_error_Some_lt; eauto).
    pose proof (NF x Lx) as Fx. rewrite (getst_nth _ _ _ Ex) in Fx.
    unfold fin_cnt. destruct (s_fin st0); try reflexivity. discriminate.
Qed.

(* in words: a handle outside the current state is closed (exactly once); a handle of the
   current open state is open and listed once *)
Corollary quiescent_dropped_closed : forall w progs extra s,
  single_writer w progs extra -> reach progs extra s -> quiescent (length progs) s ->
  forall h, h < length (g_hnds (sh s)) ->
    (~ In h (s_segs (getst (sh s) (g_cur (sh s)))) -> h_closes (geth (sh s) h) = 1) /\
    (s_open (getst (sh s) (g_cur (sh s))) = true -> In h (s_segs (getst (sh s) (g_cur (sh s)))) ->
       h_closes (geth (sh s) h) = 0).
Proof.
  intros w progs extra s SW R Q h Lh.
  pose proof (quiescent_reclaimed w progs extra s SW R Q h Lh) as E. unfold live in E.
  split.
  - intros Ni. destruct (s_open (getst (sh s) (g_cur (sh s)))); [|lia].
    destruct (Nat.eq_dec (cnt h (s_segs (getst (sh s) (g_cur (sh s))))) 0) as [Z0|Z0]; [lia|].
    exfalso. apply Ni. apply cnt_In. lia.
  - intros O Hi. rewrite O in E. apply cnt_In in Hi. lia.
Qed.
