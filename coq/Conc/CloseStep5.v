(* CloseStep5.v -- the per-thread facts of CloseInv2 for the stepping thread, and the
   history clause (every recorded outcome is an allowed one) *)
From Coq Require Import List Arith Bool Lia.
From RW Require Import Conc.Sys Conc.SysFacts Conc.Close Conc.ListX Conc.CloseInv Conc.CloseInv2 Conc.CloseFacts
     Conc.CloseK Conc.CloseSafe Conc.CloseSafeStep Conc.CloseStep1 Conc.CloseFrames Conc.CloseFrames2
     Conc.CloseStepInv Conc.CloseStepThr Conc.CloseStepOwn Conc.CloseReach Conc.CloseCount Conc.CloseStep2
     Conc.CloseStep3 Conc.CloseOpen Conc.CloseStep4.
Import ListNotations.

Ltac len_tac :=
  match goal with HL : forall x, 0 < _ -> x < length ?L, SL : length ?L <= _ |- ?x < length _ =>
    first [ lia | assert (x < length L) by (apply HL; cbn [kouter]; rewrite ?Nat.eqb_refl; cbn; lia); lia ] end.

(* an outcome produced at this step is allowed for the current call *)
Ltac resok_tac :=
  match goal with WF : pc_ok ?th = true |- res_ok _ _ =>
    unfold res_ok; change (t_rot (setpc th _)) with (t_rot th); change (cur_op (setpc th _)) with (cur_op th);
    let Rf := fresh "Rf" in intros Rf; unfold pc_ok in WF; rewrite Rf in WF;
    repeat match goal with H : t_pc th = _ |- _ => rewrite H in WF end;
    repeat match goal with H : cur_op th = _ |- _ => rewrite H in WF |- * end;
    try (destruct (cur_op th) as [[]|]; try discriminate WF);
    try (match goal with |- context [allowed ?o _] => is_var o; destruct o end);
    try reflexivity; try discriminate WF
  end.

Lemma read_log_cases g h i : read_log g h i = Panic \/ (read_log g h i = IOErr /\ 0 < h_closes (geth g h)) \/
                             exists v, read_log g h i = Ok v.
Proof.
  unfold read_log. destruct (_ <=? _); [now left|]. destruct (Nat.ltb_spec 0 (h_closes (geth g h))); [right; left; auto|].
  right; right; eauto.
Qed.

Lemma seg_for_In g i : forall segs acc h, seg_for g segs i acc = Some h -> In h segs \/ acc = Some h.
Proof.
  induction segs as [|a segs IH]; intros acc h Q; cbn in Q; [now right|].
  destruct (_ <=? _); [|now right]. destruct (IH _ _ Q) as [Hi|Hq]; [left; now right|]. inversion Hq. left; now left.
Qed.

Lemma find_log_In g st0 i h : find_log g st0 i = Some h -> In h (s_segs st0).
Proof.
  unfold find_log. destruct (_ && _); [|discriminate]. destruct (seg_for g (s_segs st0) i None) eqn:Q; [|discriminate].
  destruct (_ <? _); [|discriminate]. intros Hq. inversion Hq; subst.
  destruct (seg_for_In _ _ _ _ _ Q) as [Hi|Hn]; [exact Hi | discriminate].
Qed.

Section P5.
  Variables (w r : tid) (orig : list (list op)).

  (* the current state is not retired and has no finalizer yet *)
  Lemma cur_fresh s : Full w r s -> Inv2 orig s ->
    s_ret (getst (sh s) (g_cur (sh s))) = false /\ is_fset (s_fin (getst (sh s) (g_cur (sh s)))) = false.
  Proof.
    intros [SA I] J. pose proof (a_last _ SA) as La.
    assert (R : s_ret (getst (sh s) (g_cur (sh s))) = false).
    { destruct (s_ret _) eqn:Q; [|reflexivity]. pose proof (j_ret _ _ J (g_cur (sh s)) ltac:(lia) Q). lia. }
    split; [exact R|]. destruct (s_fin _) eqn:Q; try reflexivity.
    destruct (j_fin _ _ J (g_cur (sh s)) _ _ ltac:(lia) Q) as (_ & _ & R' & _). congruence.
  Qed.

  Lemma thr2_own s t th g' th' :
    Full w r s -> Inv2 orig s -> nth_error (ths s) t = Some th -> step_thread (sh s) t th = Some (g', th') ->
    th_facts2 g' (upd (ths s) t th') th'.
  Proof.
    intros F0 J E F. pose proof F0 as [SA I].
    pose proof (no_panic w r _ _ _ _ _ SA I E F) as NP. pose proof (i_wf _ _ _ I _ _ E) as WF.
    pose proof (i_thr _ _ _ I _ _ E) as TF. unfold th_facts1 in TF.
    pose proof (j_thr _ _ J _ _ E) as TJ. unfold th_facts2 in TJ.
    pose proof (a_last _ SA) as La.
    pose proof (states_len _ _ _ _ _ F) as SL. pose proof F as F1.
    pose proof (i_meta _ _ _ I) as Im. pose proof (cur_fresh s F0 J) as [Cr Cf].
    assert (HL : forall x, 0 < href th x -> x < length (g_states (sh s))) by (intros x; apply (held_lt orig s t th x J E)).
    unfold th_facts2.
    unfold step_thread in F; crack F;
      try (match goal with Q : pm3_tx ?g ?o ?y ?k = (?a, ?b) |- _ =>
             destruct (pm3_shape g o y k) as (segs & mn & nh & Q1 & Q2); rewrite Q in Q1; cbn [fst] in Q1; subst a end);
      inversion F; subst g' th'; clear F.
    all: try (exfalso; apply NP; reflexivity).
    all: repeat match goal with H : t_pc _ = _ |- _ => rewrite H in TF, TJ, WF end.
    all: unfold href in HL; repeat match goal with H : t_pc _ = _ |- _ => rewrite H in HL end.
    all: cbn [t_pc setpc finish] in *.
    all: try exact Logic.I.
    all: try (split; [len_tac|]).
    all: try len_tac.
    all: try (match goal with |- res_ok _ _ => first [ exact TJ | exact (proj2 TJ) | resok_tac ] end; fail).
    (* readFrame returns an entry or an I/O error *)
    all: try (exfalso; match goal with H : read_log ?g ?h ?i = _ |- _ =>
                destruct (read_log_cases g h i) as [Q|[[Q _]|[v Q]]]; rewrite Q in H; discriminate H end).
    (* CommitState cannot fail: the meta store is closed only after the empty state was published *)
    all: try (exfalso; destruct TF as (Yc & Oy & _); pose proof (i_open _ _ _ I) as Io;
              rewrite Yc, Io in Oy; apply Nat.ltb_lt in Oy;
              match goal with H : (0 <? g_meta_closes _) = true |- _ => rewrite Im in H; apply Nat.ltb_lt in H;
                destruct (Nat.leb_spec 9 (K (sh s) (ths s))); cbn in H; lia end).
    (* continuations *)
    all: try (match goal with |- context [continue _ _ ?k0] => destruct k0 end;
              cbn [continue t_pc setpc finish]; try exact Logic.I;
              try (split; [len_tac|]);
              try (first [ exact TJ | exact (proj2 TJ) | exact (proj1 (proj2 (proj2 TJ))) ])).
    - (* Set: metaDB closed, so the flag is set *)
      apply Nat.ltb_lt in Heqb. rewrite Im in Heqb. unfold K in Heqb. destruct (g_closed (sh s)); [reflexivity|]. cbn in Heqb. lia.
    - apply Nat.ltb_lt in Heqb. rewrite Im in Heqb. unfold K in Heqb. destruct (g_closed (sh s)); [reflexivity|]. cbn in Heqb. lia.
    - (* validated: x is the current state *)
      apply negb_false_iff, Nat.eqb_eq in Heqb. intros y L1 L2. lia.
    - (* GetLog: segment found *)
      split; [match goal with H : find_log _ _ _ = Some _ |- _ => apply (find_log_In _ _ _ _ H) end|].
      apply (prot_step w r orig s t th _ _ t th x F0 J E F1 E); [unfold vhold; now rewrite Heqp | exact TJ].
    - (* readFrame: the handle is open *)
      exfalso. destruct TJ as [Hi Pr].
      destruct (read_log_cases (sh s) h i) as [Q|[[_ Q]|[v Q]]]; [congruence | | congruence].
      assert (Lx : x < length (g_states (sh s))) by (apply HL; rewrite Nat.eqb_refl; cbn; lia).
      pose proof (held_handle_open w r orig s x h F0 J Pr ltac:(lia) Hi). lia.
    - (* the transaction published the successor; the finalizer is built *)
      destruct TF as (Yc & Oy & _).
      destruct (pm3_count (sh s) (cur_op th) y k) as (segs' & mn' & nh' & Q1' & Cn). rewrite Heqp0 in Q1', Cn.
      cbn [fst snd] in Q1', Cn.
      assert (Qs : segs = segs').
      { apply (f_equal g_states) in Q1'. cbn in Q1'. apply app_inv_head in Q1'. inversion Q1'. reflexivity. }
      subst segs'. clear Q1'.
      assert (Ly : y < length (g_states (sh s))) by lia.
      assert (G1 : getst (publish (set_hnds (sh s) (g_hnds (sh s) ++ nh)) (mk_state segs mn)) y = getst (sh s) y)
        by (unfold getst, publish; cbn; now rewrite app_nth1).
      assert (G2 : getst (publish (set_hnds (sh s) (g_hnds (sh s) ++ nh)) (mk_state segs mn)) (S y) = mk_state segs mn)
        by (unfold getst, publish; cbn; rewrite Yc, La; apply nth_middle).
      exists l. rewrite G1, G2. subst y. split; [now rewrite La|]. split; [exact Cf|]. split; [exact Cr|].
      intros h Hi. apply cnt_In in Hi. cbn [s_segs mk_state].
      assert (0 < cnt h segs + cnt h l) by (destruct Cn as [[_ Cn]|(b & _ & Cn)]; specialize (Cn h); lia).
      destruct (Nat.eq_dec (cnt h segs) 0); [right|left]; apply cnt_In; lia.
    - (* the last reference of a retired state *)
      apply andb_true_iff in Heqb. destruct Heqb as [R1 Rt]. apply Nat.eqb_eq in R1.
      destruct TJ as [Lx Ro].
      split; [rewrite getst_upd_same by exact Lx; exact Rt|]. split; [cbn; rewrite upd_length; exact Lx|].
      split; [exact Ro|].
      intros u thu z Eu Vz. destruct (nth_error_upd_inv _ _ _ _ _ Eu) as [(-> & -> & _)|(Nu & Eu')]; [discriminate Vz|].
      destruct (Nat.lt_ge_cases x z) as [Lz|Lz]; [exact Lz|exfalso].
      pose proof (j_ref _ _ J x Lx) as Rq. rewrite R1 in Rq.
      assert (Ht : 1 <= href th x) by (unfold href; rewrite Heqp, Nat.eqb_refl; cbn; lia).
      assert (Pz : prot (sh s) (ths s) z).
      { pose proof (j_thr _ _ J _ _ Eu') as Tu. unfold th_facts2 in Tu. unfold vhold in Vz.
        destruct (t_pc thu); try discriminate Vz; inversion Vz; subst; [exact Tu | exact (proj2 Tu)]. }
      destruct (Nat.eq_dec z x) as [->|Nz].
      + assert (Hu : 1 <= href thu x).
        { unfold vhold in Vz. unfold href. destruct (t_pc thu); try discriminate Vz; inversion Vz; subst;
            rewrite Nat.eqb_refl; cbn; lia. }
        pose proof (sum_ge_two (fun th0 => href th0 x) (ths s) t u th thu ltac:(congruence) E Eu'). cbn beta in H. lia.
      + pose proof (j_ret _ _ J x Lx Rt) as Lc.
        destruct (Pz (x - 1) ltac:(lia) ltac:(lia)) as (hs & [(sc & Q)|[(v & thv & Ev & Q)|(v & thv & e & Ev & Pv & Q)]]).
        * destruct (j_fin _ _ J (x - 1) hs sc ltac:(lia) Q) as (Sc & _).
          pose proof (sum_ge_nth (fun st0 => fsucc (s_fin st0) x) (g_states (sh s)) (x - 1) _
                        (nth_error_getst (sh s) (x - 1) ltac:(lia))) as G. cbn beta in G. rewrite Q in G. cbn in G.
          replace (sc =? x) with true in G by (symmetry; apply Nat.eqb_eq; lia). cbn in G.
          pose proof (sum_ge_nth (fun th0 => href th0 x) (ths s) t th E). cbn beta in H. lia.
        * pose proof (j_thr _ _ J _ _ Ev) as Tv. unfold th_facts2 in Tv. unfold fin_pending in Q.
          destruct (t_pc thv) eqn:Pv; try discriminate Q. destruct f; try discriminate Q.
          destruct (Nat.eqb_spec y (x - 1)) as [->|]; [|discriminate Q].
          destruct Tv as (hs' & Qf & _). inversion Qf; subst.
          assert (Hv : 1 <= href thv x).
          { unfold href. rewrite Pv. unfold fsucc. replace (S (x - 1) =? x) with true by (symmetry; apply Nat.eqb_eq; lia).
            change (b2n true) with 1. lia. }
          assert (v <> t) by (intros ->; congruence).
          pose proof (sum_ge_two (fun th0 => href th0 x) (ths s) t v th thv ltac:(congruence) E Ev). cbn beta in H0. lia.
        * pose proof (i_thr _ _ _ I _ _ Ev) as Tv. unfold th_facts1 in Tv. rewrite Pv in Tv. lia.
    - (* the finalizer is taken: its successor index is valid *)
      destruct TJ as (Rt & Lx & Ro & _).
      match goal with H : s_fin (getst (sh s) x) = FSet _ _ |- _ =>
        destruct (j_fin _ _ J x _ _ Lx H) as (_ & Ls & _) end.
      split; [cbn; rewrite upd_length; exact Ls | exact Ro].
    - (* Close published the empty state *)
      assert (Lx : x < length (g_states (sh s))) by lia.
      assert (G1 : getst (publish (sh s) empty_state) x = getst (sh s) x)
        by (unfold getst, publish; cbn; now rewrite app_nth1).
      rewrite G1, TF. split; [exact Cf|]. split; [exact Cr|].
      unfold getst, publish; cbn. now rewrite nth_middle.
  Qed.

  (* every outcome a call records is an allowed one *)
  Lemma hist_step s t th g' th' :
    Full w r s -> Inv2 orig s -> nth_error (ths s) t = Some th -> step_thread (sh s) t th = Some (g', th') ->
    t_rot th = false ->
    (t_prog th' = t_prog th /\ t_outs th' = t_outs th /\ t_rot th' = false) \/
    (exists o res, t_prog th = o :: t_prog th' /\ t_outs th' = t_outs th ++ [res] /\ t_rot th' = false /\
                   allowed o res = true).
  Proof.
    intros F0 J E F Rf. pose proof F0 as [SA I].
    pose proof (no_panic w r _ _ _ _ _ SA I E F) as NP. pose proof (i_wf _ _ _ I _ _ E) as WF.
    pose proof (j_thr _ _ J _ _ E) as TJ. unfold th_facts2 in TJ.
    unfold step_thread in F; crack F;
      try (destruct (pm3_tx _ _ _ _) eqn:?); inversion F; subst g' th'; clear F.
    all: try (exfalso; apply NP; reflexivity).
    all: try (left; cbn; auto; fail).
    all: repeat match goal with H : t_pc _ = _ |- _ => rewrite H in TJ end.
    all: try (match goal with |- context [continue _ _ ?k0] => destruct k0 end; cbn [continue]; try (left; cbn; auto; fail)).
    all: right; unfold pc_ok in WF; rewrite Rf in WF;
      repeat match goal with H : t_pc _ = _ |- _ => rewrite H in WF end;
      unfold cur_op in *; destruct (t_prog th) as [|oo p] eqn:Pq; cbn [hd_error] in *; try discriminate.
    all: match goal with |- context [finish _ ?res] => exists oo, res end; cbn [finish t_prog t_outs t_rot]; rewrite ?Pq; cbn [tl].
    all: split; [reflexivity|]; split; [reflexivity|]; split; [exact Rf|].
    all: try (match goal with H : Some _ = Some _ |- _ => inversion H; subst end).
    all: try reflexivity.
    all: try (destruct oo; try discriminate; reflexivity).
    all: assert (Ro : res_ok th r0) by (first [ exact TJ | exact (proj2 TJ) | exact (proj1 (proj2 (proj2 TJ))) ]);
      unfold res_ok, cur_op in Ro; rewrite Pq in Ro; exact (Ro Rf).
  Qed.
End P5.
