(* ReadFrame.v -- file contents are append-only and bases never change *)
From Coq Require Import List Arith Bool Lia.
From RW Require Import Conc.Sys Conc.Close Conc.ListX Conc.CloseInv Conc.CloseFacts Conc.CloseSafe Conc.ReadInv.
Import ListNotations.

Lemma ents_step g t th g' th' h :
  step_thread g t th = Some (g', th') -> t_pc th' <> PPanic -> h < nh_ g ->
  hb g' h = hb g h /\ exists e, h_ents (geth g' h) = h_ents (geth g h) ++ e.
Proof.
  intros F NP L.
  assert (R : forall g0, geth g0 h = geth g h -> hb g0 h = hb g h /\ exists e, h_ents (geth g0 h) = h_ents (geth g h) ++ e).
  { intros g0 Q. unfold hb. rewrite Q. split; [reflexivity|]. exists []. now rewrite app_nil_r. }
  assert (U : forall t0 v, h_base v = h_base (geth g t0) -> (exists e, h_ents v = h_ents (geth g t0) ++ e) ->
                hb (upd_h g t0 v) h = hb g h /\ exists e, h_ents (geth (upd_h g t0 v) h) = h_ents (geth g h) ++ e).
  { intros t0 v B Ev. unfold hb. rewrite geth_upd_h. destruct ((t0 =? h) && _) eqn:Q; [|apply R; reflexivity].
    apply andb_true_iff in Q. destruct Q as [Q _]. apply Nat.eqb_eq in Q. subst. auto. }
  unfold step_thread in F; crack F;
    try (match goal with Q : pm3_tx ?g ?o ?y ?k = (?a, ?b) |- _ =>
           destruct (pm3_shape g o y k) as (segs & mn0 & nhl & Q1 & Q2); rewrite Q in Q1; cbn [fst] in Q1; subst a end);
    inversion F; subst g' th'; clear F.
  all: try (exfalso; apply NP; reflexivity).
  all: try (apply R; reflexivity).
  all: try (apply U; [reflexivity | cbn; eauto; exists []; now rewrite app_nil_r]; fail).
  - apply R. unfold geth, publish; cbn. now rewrite app_nth1.
  - (* finalizer closes files *)
    unfold hb, geth; cbn. match goal with |- context [close_all _ ?l] => pose proof (close_all_io l (g_hnds g) h) as Q end.
    unfold io in Q. inversion Q. split; [congruence|]. exists []. rewrite app_nil_r. congruence.
Qed.
