(* Readers.v -- C06 layer on top of the L3 model (Conc.Close): the abstract log
   readers are compared with, the history of a schedule, the linearizability
   statement, and an executable per-read checker (used in Examples and mirrored
   by the Go history checker of the harness).

   The writer is a caller thread whose program consists of OStore/ODelete/OTrunc
   calls (appends with rotation by the rotation goroutine, head truncation, tail
   truncation + re-append of other content); readers are caller threads running
   OFirst/OLast/OGet.  Base-index resets are not in the model (the harness runs
   them as implementation-only cases judged by the Go checker). *)
From Coq Require Import List Arith Bool Lia.
From RW Require Import Conc.Sys Conc.Close.
Import ListNotations.

(* ---- the abstract log of a system state: what the current state object shows ---- *)
Definition cur_st (g : shared) : st := getst g (g_cur g).
Definition abs_first (g : shared) : nat := first_index g (cur_st g).
Definition abs_last (g : shared) : nat := last_index g (cur_st g).
Definition abs_get (g : shared) (i : nat) : outcome :=
  match find_log g (cur_st g) i with
  | Some h => Ok (nth (i - h_base (geth g h)) (h_ents (geth g h)) 0)
  | None => NotFound
  end.

Definition spec_read (g : shared) (o : op) : option outcome :=
  if s_open (cur_st g) then
    match o with
    | OFirst => Some (Ok (abs_first g))
    | OLast => Some (Ok (abs_last g))
    | OGet i => Some (abs_get g i)
    | _ => None
    end
  else Some ErrClosed.

(* ---- history of a schedule: the states after 0, 1, 2, ... steps --------------------- *)
Fixpoint states_along (s : sys) (sch : list tid) : list sys :=
  s :: match sch with [] => [] | t :: r => states_along (exec step s t) r end.

Definition is_read_op (o : op) : bool := match o with OFirst | OLast | OGet _ => true | _ => false end.

(* a read of thread t: invoked at time a (the step that performs the closed check),
   returned res at time b *)
Record read_ev := { r_tid : tid; r_op : op; r_inv : nat; r_ret : nat; r_res : outcome }.

Definition outcome_eqb (a b : outcome) : bool :=
  match a, b with
  | Ok x, Ok y => x =? y
  | NotFound, NotFound | ErrClosed, ErrClosed | ErrSealed, ErrSealed
  | IOErr, IOErr | MetaErr, MetaErr | Panic, Panic => true
  | _, _ => false
  end.

(* C06, first clause, for one read against a history hs (hs[k] = state after k steps):
   its result is the abstract result in some state current between invoke and return.
   A read that overlaps Close may also return ErrClosed from the moment Close has set the
   closed flag (Close takes effect somewhere between its invoke and its return; the state
   object is swapped later than the flag is set, see Props/C06.v, C06_ex_close_window). *)
Definition lin_at (g : shared) (o : op) (res : outcome) : Prop :=
  spec_read g o = Some res \/ (res = ErrClosed /\ g_closed g = true).

Definition lin_read (hs : list sys) (e : read_ev) : Prop :=
  exists k, r_inv e <= k <= r_ret e /\
            exists s, nth_error hs k = Some s /\ lin_at (sh s) (r_op e) (r_res e).

Definition lin_at_b (g : shared) (o : op) (res : outcome) : bool :=
  match spec_read g o with
  | Some r => outcome_eqb r res
  | None => false
  end || (outcome_eqb res ErrClosed && g_closed g).

Definition lin_read_b (hs : list sys) (e : read_ev) : bool :=
  existsb (fun k => match nth_error hs k with
                    | Some s => lin_at_b (sh s) (r_op e) (r_res e)
                    | None => false
                    end) (seq (r_inv e) (S (r_ret e - r_inv e))).

(* extract the read events of a run: thread t starts a call when it leaves PIdle with
   an empty result slot, and returns when its outcome list grows *)
Fixpoint events_aux (s : sys) (sch : list tid) (now : nat) (open_ : list (tid * nat)) : list read_ev :=
  match sch with
  | [] => []
  | t :: r =>
      match step s t, nth_error (ths s) t with
      | Some s', Some th =>
          let th' := nth t (ths s') th in
          let started := match t_pc th with PIdle => true | _ => false end in
          let open1 := if started then (t, now) :: filter (fun p => negb (fst p =? t)) open_ else open_ in
          let finished := length (t_outs th) <? length (t_outs th') in
          let ev := if finished then
                      match cur_op th, find (fun p => fst p =? t) open1, last (t_outs th') Panic with
                      | Some o, Some (_, a), res =>
                          if is_read_op o then [{| r_tid := t; r_op := o; r_inv := a; r_ret := S now; r_res := res |}] else []
                      | _, _, _ => []
                      end
                    else [] in
          ev ++ events_aux s' r (S now) open1
      | _, _ => events_aux s r (S now) open_
      end
  end.
Definition events (s : sys) (sch : list tid) : list read_ev := events_aux s sch 0 [].

Definition lin_check (s : sys) (sch : list tid) : bool :=
  let hs := states_along s sch in forallb (lin_read_b hs) (events s sch).

(* ---- the C06 statements (proved in Conc/ReadLin2.v and Conc/CloseThm2.v, exported by
   Props/C06.v) ------------------------------------------------------------------------------
   single writer: only thread w issues StoreLogs / DeleteRange *)
Definition one_writer (w : tid) (progs extra : list (list op)) : Prop :=
  forall t p, nth_error (progs ++ [] :: extra) t = Some p -> t <> w ->
              forallb (fun o => negb (match o with OStore _ _ _ | ODelete _ | OTrunc _ => true | _ => false end)) p = true.

(* every completed read of every schedule is linearizable against the writer *)
Definition reads_linearizable_statement : Prop :=
  forall w progs extra sch e, one_writer w progs extra ->
    In e (events (init progs extra) sch) -> lin_read (states_along (init progs extra) sch) e.

(* no read ever goes through a closed file handle *)
Definition stable_entry_intact_statement : Prop :=
  forall w progs extra sch t th, one_writer w progs extra ->
    nth_error (ths (run step (init progs extra) sch)) t = Some th -> ~ In IOErr (t_outs th).
