(* CloseLive.v -- consequences of CloseInv.Inv1 for a single state: if some caller
   has not returned, some thread can take a step (no deadlock); once Close has
   been called the system cannot come to rest with the rotation goroutine alive. *)
From Coq Require Import List Arith Bool Lia.
From RW Require Import Conc.Sys Conc.SysFacts Conc.Close Conc.ListX Conc.CloseInv Conc.CloseFacts
     Conc.CloseK Conc.CloseStep1.
Import ListNotations.

(* the only ways a thread can be unable to step *)
Definition blocked_kind (g : shared) (th : thread) : Prop :=
  match t_pc th with
  | PIdle => t_prog th = []
  | PLock | PRelock | PCLock | PRLock => g_mu g <> None
  | PRecvAwait c => nth c (g_chans g) false = false
  | PSend _ => g_trig g = true
  | PRIdle => g_trig g = false /\ g_trig_closed g = false
  | PRDone | PPanic => True
  | _ => False
  end.

Lemma not_blocked_enabled g t th :
  pc_ok th = true -> ~ blocked_kind g th -> step_thread g t th <> None.
Proof.
  intros WF NB. destruct th as [rot prog outs p]. unfold blocked_kind in NB. cbn [t_pc t_prog] in NB.
  unfold step_thread. cbn [t_pc].
  unfold pc_ok, op_locking, op_close, cur_op in WF. cbn [t_rot t_prog t_pc] in WF.
  destruct p; cbn; unfold cur_op; cbn [t_prog];
    repeat match goal with
           | |- context [match hd_error ?p with _ => _ end] =>
               destruct p as [|[] ?]; cbn in *; try discriminate; try congruence
           | |- context [if ?b then _ else _] => destruct b eqn:?; cbn in *; try discriminate; try congruence
           | |- context [match ?x with _ => _ end] => destruct x eqn:?; cbn in *; try discriminate; try congruence
           end; try discriminate; try congruence; try tauto.
  all: try (destruct rot; cbn in *; try discriminate; try congruence).
  all: try (exfalso; apply NB; auto; fail).
  all: try (exfalso; apply NB; discriminate).
  all: try (destruct prog; discriminate).
  all: try (exfalso; apply NB; split; assumption).
Qed.

Lemma rot_cases g thr :
  pc_ok thr = true -> t_rot thr = true ->
  ~ blocked_kind g thr \/ (t_pc thr = PRIdle /\ g_trig g = false /\ g_trig_closed g = false) \/
  (t_pc thr = PRLock /\ g_mu g <> None) \/ t_pc thr = PRDone.
Proof.
  intros WF R. unfold pc_ok in WF. rewrite R in WF. unfold blocked_kind.
  destruct (t_prog thr); [|discriminate].
  destruct (t_pc thr); try discriminate; try (left; tauto); try (destruct k; try discriminate; left; tauto).
  - destruct (g_trig g) eqn:T; [left; intros [? ?]; congruence|].
    destruct (g_trig_closed g) eqn:C; [left; intros [? ?]; congruence|]. right; left; auto.
  - destruct (g_mu g) eqn:M; [right; right; left; split; [reflexivity | congruence] | left; tauto].
  - right; right; right; reflexivity.
Qed.

Section Live.
  Variables (w r : tid).

  Lemma holder_enabled s t th :
    Inv1 w r s -> nth_error (ths s) t = Some th -> holds_mu th = true -> enabled step s t = true.
  Proof.
    intros I E Hm. unfold enabled, step. rewrite E.
    destruct (step_thread (sh s) t th) as [[g' th']|] eqn:F; [reflexivity|]. exfalso.
    apply (not_blocked_enabled (sh s) t th (i_wf _ _ _ I _ _ E)); [|exact F].
    pose proof (i_thr _ _ _ I _ _ E) as TF. unfold th_facts1 in TF.
    unfold blocked_kind, holds_mu in *. destruct (t_pc th); try discriminate; try tauto.
    destruct TF as (_ & _ & Tr & _). congruence.
  Qed.

  Lemma free_enabled s t th :
    Inv1 w r s -> nth_error (ths s) t = Some th -> g_mu (sh s) = None ->
    ~ blocked_kind (sh s) th -> enabled step s t = true.
  Proof.
    intros I E M NB. unfold enabled, step. rewrite E.
    destruct (step_thread (sh s) t th) as [[g' th']|] eqn:F; [reflexivity|]. exfalso.
    apply (not_blocked_enabled (sh s) t th (i_wf _ _ _ I _ _ E) NB F).
  Qed.

  (* a thread whose stage of Close is between 1 and 9 can always step when the mutex is free *)
  Lemma closer_enabled s u thu :
    Inv1 w r s -> nth_error (ths s) u = Some thu -> 0 < cstage thu -> g_mu (sh s) = None ->
    enabled step s u = true.
  Proof.
    intros I E A M. apply (free_enabled s u thu I E M).
    unfold blocked_kind, cstage in *. destruct (t_pc thu); try lia; try tauto; congruence.
  Qed.

  Theorem no_deadlock_state s :
    Inv1 w r s ->
    (exists t th, nth_error (ths s) t = Some th /\ t_rot th = false /\ th_done th = false) ->
    exists t, enabled step s t = true.
  Proof.
    intros I (t & th & E & R & D).
    destruct (g_mu (sh s)) as [h|] eqn:M.
    { destruct (i_mu2 _ _ _ I _ M) as (thh & Eh & Hh). exists h. eapply holder_enabled; eauto. }
    destruct (i_rot _ _ _ I) as (thr & Er & Rr).
    assert (RP : rot_pc (ths s) r = t_pc thr) by (unfold rot_pc; now rewrite Er).
    (* is the unfinished caller itself able to move? *)
    pose proof (i_wf _ _ _ I _ _ E) as WF. pose proof (i_thr _ _ _ I _ _ E) as TF.
    destruct (t_pc th) eqn:P;
      try (exists t; apply (free_enabled s t th I E M); unfold blocked_kind; rewrite P; tauto; fail).
    - (* PIdle: not done means a call is left *)
      exists t. apply (free_enabled s t th I E M). unfold blocked_kind. rewrite P.
      unfold th_done in D. rewrite P in D. destruct (t_prog th); [discriminate | discriminate].
    - (* PRecvAwait c *)
      unfold th_facts1 in TF. rewrite P in TF. destruct TF as (Lc & Aw).
      destruct (nth c (g_chans (sh s)) false) eqn:Cc.
      { exists t. apply (free_enabled s t th I E M). unfold blocked_kind. rewrite P. congruence. }
      assert (CO : chan_open (sh s) c) by (split; assumption).
      assert (Rot_en : ~ blocked_kind (sh s) thr -> exists t0, enabled step s t0 = true).
      { intros NB. exists r. apply (free_enabled s r thr I Er M NB). }
      destruct Aw as [Aw|Aw].
      + (* rotation pending *)
        destruct (i_aw _ _ _ I c Aw) as [Tr|[Pe|[(u & thu & Eu & Su)|HK]]].
        * (* trigger in the channel *)
          destruct (rot_cases (sh s) thr (i_wf _ _ _ I _ _ Er) Rr) as [NB|[(Pr & T1 & _)|[(Pr & M1)|Pr]]];
            [now apply Rot_en | congruence | congruence |].
          (* the rotator has returned: Close was called, so Close is under way and can move *)
          pose proof (i_thr _ _ _ I _ _ Er) as TFr. unfold th_facts1 in TFr. rewrite Pr in TFr.
          assert (HK : 1 <= K (sh s) (ths s) <= 9 \/ K (sh s) (ths s) = 10).
          { unfold K. rewrite TFr. destruct (nact (ths s) =? 0) eqn:Z; [now right|left].
            apply Nat.eqb_neq in Z. pose proof (i_nact _ _ _ I).
            destruct (sum_pos_ex (fun th => b2n (0 <? cstage th)) (ths s)) as (u & thu & Eu & Pu).
            { fold (nact (ths s)). lia. }
            destruct (Nat.ltb_spec 0 (cstage thu)) as [L|L]; cbn in Pu; [|lia].
            destruct (K_active w r s u thu I Eu L) as [_ Kq]. unfold K in Kq. rewrite TFr in Kq.
            apply Nat.eqb_neq in Z. rewrite Z in Kq. rewrite Kq.
            unfold cstage in *. destruct (t_pc thu); try lia; destruct (op_close thu); lia. }
          destruct HK as [HK|HK].
          -- destruct (closer_of w r s I HK) as (u & thu & Eu & Cu). exists u.
             apply (closer_enabled s u thu I Eu); [lia | exact M].
          -- pose proof (i_aw3 _ _ _ I) as A3. rewrite Aw in A3. discriminate A3. lia.
        * (* the rotator is on its way *)
          rewrite RP in Pe. apply Rot_en. unfold blocked_kind.
          destruct (t_pc thr); cbn in Pe; try discriminate; try tauto; congruence.
        * (* somebody at PSend holds the mutex *)
          assert (Hu : holds_mu thu = true) by (unfold holds_mu, at_send in *; destruct (t_pc thu); try discriminate; reflexivity).
          pose proof (i_mu1 _ _ _ I _ _ Eu Hu). congruence.
        * destruct (closer_of w r s I) as (u & thu & Eu & Cu); [lia|]. exists u.
          apply (closer_enabled s u thu I Eu); [lia | exact M].
      + (* the channel is no longer the awaited one: the rotator is about to close it *)
        destruct (i_ch2 _ _ _ I c CO) as [Q|Q]; [congruence|]. rewrite RP in Q.
        apply Rot_en. unfold blocked_kind, rot_has in *. destruct (t_pc thr); try discriminate; tauto.
    - (* PSend holds the mutex *)
      assert (Hu : holds_mu th = true) by (unfold holds_mu; now rewrite P).
      pose proof (i_mu1 _ _ _ I _ _ E Hu). congruence.
    - (* PRIdle: not a caller *)
      pose proof (i_wf _ _ _ I _ _ E) as W2. unfold pc_ok in W2. rewrite R, P in W2. discriminate.
    - (* PRDone *) unfold th_done in D. now rewrite P in D.
    - (* PPanic *) unfold th_done in D. now rewrite P in D.
  Qed.

  (* once Close has been called the system cannot come to rest while the rotation
     goroutine is still alive *)
  Theorem rotator_exits_state s :
    Inv1 w r s -> g_closed (sh s) = true ->
    (exists thr, nth_error (ths s) r = Some thr /\ t_pc thr = PRDone) \/ exists t, enabled step s t = true.
  Proof.
    intros I C.
    destruct (g_mu (sh s)) as [h|] eqn:M.
    { right. destruct (i_mu2 _ _ _ I _ M) as (thh & Eh & Hh). exists h. eapply holder_enabled; eauto. }
    destruct (i_rot _ _ _ I) as (thr & Er & Rr).
    assert (HK : 1 <= K (sh s) (ths s) <= 9 \/ K (sh s) (ths s) = 10).
    { unfold K. rewrite C. destruct (nact (ths s) =? 0) eqn:Z; [now right|left].
      apply Nat.eqb_neq in Z. pose proof (i_nact _ _ _ I).
      destruct (sum_pos_ex (fun th => b2n (0 <? cstage th)) (ths s)) as (u & thu & Eu & Pu).
      { fold (nact (ths s)). lia. }
      destruct (Nat.ltb_spec 0 (cstage thu)) as [L|L]; cbn in Pu; [|lia].
      destruct (K_active w r s u thu I Eu L) as [_ Kq]. unfold K in Kq. rewrite C in Kq.
      apply Nat.eqb_neq in Z. rewrite Z in Kq. rewrite Kq.
      unfold cstage in *. destruct (t_pc thu); try lia; destruct (op_close thu); lia. }
    destruct HK as [HK|HK].
    - right. destruct (closer_of w r s I HK) as (u & thu & Eu & Cu). exists u.
      apply (closer_enabled s u thu I Eu); [lia | exact M].
    - pose proof (i_tc _ _ _ I) as Tc. rewrite HK in Tc. cbn in Tc.
      destruct (rot_cases (sh s) thr (i_wf _ _ _ I _ _ Er) Rr) as [NB|[(Pr & _ & T2)|[(Pr & M1)|Pr]]].
      + right. exists r. apply (free_enabled s r thr I Er M NB).
      + congruence.
      + congruence.
      + left. eauto.
  Qed.
End Live.
