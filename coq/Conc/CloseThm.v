(* CloseThm.v -- the statements Props/C14.v and Props/C06.v export *)
From Coq Require Import List Arith Bool Lia.
From RW Require Import Conc.Sys Conc.SysFacts Conc.Close Conc.ListX Conc.CloseInv Conc.CloseFacts
     Conc.CloseK Conc.CloseStep1 Conc.CloseLive Conc.CloseSafe Conc.CloseSafeStep Conc.CloseReach.
Import ListNotations.

Definition reach (progs extra : list (list op)) (s : sys) : Prop :=
  reachable step (init progs extra) s.

(* ---- C14 ------------------------------------------------------------------------------ *)
(* Once Close has set the closed flag (its first action; the flag is never reset):
   every call that starts returns ErrClosed without touching anything, a further
   Close returns nil without touching anything, and this stays so for ever. *)
Theorem after_close : forall progs extra s,
  reach progs extra s -> g_closed (sh s) = true ->
  (forall t th o, nth_error (ths s) t = Some th -> t_pc th = PIdle -> cur_op th = Some o ->
     step s t = Some {| sh := sh s;
                        ths := upd (ths s) t (finish th (if is_close o then Ok 0 else ErrClosed)) |}) /\
  (forall sch, g_closed (sh (run step s sch)) = true).
Proof.
  intros progs extra s _ C. split.
  - intros t th o E P O. now apply closed_call.
  - intros sch. now apply closed_run.
Qed.

(* writeMu: in every state reached without a panic the mutex is held by exactly the
   thread that is inside a critical section; two threads are never inside together *)
Theorem mutual_exclusion : forall progs extra s,
  reach progs extra s -> crashed s = false ->
  forall t1 t2 th1 th2,
    nth_error (ths s) t1 = Some th1 -> nth_error (ths s) t2 = Some th2 ->
    holds_mu th1 = true -> holds_mu th2 = true -> t1 = t2 /\ g_mu (sh s) = Some t1.
Proof.
  intros progs extra s [sch ->] C t1 t2 th1 th2 E1 E2 H1 H2.
  destruct (safe_run progs extra sch) as [C'|A]; [cbn zeta in C'; congruence|]. cbn zeta in A.
  pose proof (a_mu1 _ A _ _ E1 H1). pose proof (a_mu1 _ A _ _ E2 H2). split; congruence.
Qed.

(* in a state that satisfies part 1 of the invariant no thread can take a step that
   panics (nil state, closed/nil channel, offsets index) *)
Theorem no_panic_step : forall w r s t s',
  Safe s -> Inv1 w r s -> step s t = Some s' ->
  forall th', nth_error (ths s') t = Some th' -> t_pc th' <> PPanic.
Proof.
  intros w r s t s' SA I H th' E'. destruct (step_decomp _ _ _ H) as (th & g' & th'' & E & F & ->).
  cbn in E'. rewrite nth_error_upd_eq in E' by (eapply nth_error_Some_lt; eauto).
  inversion E'; subst. eapply no_panic; eauto.
Qed.

(* ---- reachable states of a single-writer system ----------------------------------------- *)
(* no thread ever panics: nil state dereference, close of a closed or nil channel, send on
   a closed channel, offsets index out of range are all unreachable *)
Theorem no_panic_reach : forall w progs extra s,
  single_writer w progs extra -> reach progs extra s -> crashed s = false.
Proof.
  intros w progs extra s SW R. destruct (full_reach w progs extra s SW R) as [_ I].
  unfold crashed. destruct (existsb is_panic (ths s)) eqn:X; [|reflexivity]. exfalso.
  apply existsb_exists in X. destruct X as (th & Hi & P). apply In_nth_error in Hi. destruct Hi as (t & E).
  pose proof (i_thr _ _ _ I _ _ E) as TF. unfold th_facts1 in TF. unfold is_panic in P.
  destruct (t_pc th); try discriminate. exact TF.
Qed.

Theorem no_deadlock_reach : forall w progs extra s,
  single_writer w progs extra -> reach progs extra s ->
  (exists t th, nth_error (ths s) t = Some th /\ t_rot th = false /\ th_done th = false) ->
  exists t, enabled step s t = true.
Proof.
  intros w progs extra s SW R. destruct (full_reach w progs extra s SW R) as [_ I].
  apply (no_deadlock_state w (length progs) s I).
Qed.

Theorem rotator_exits_reach : forall w progs extra s,
  single_writer w progs extra -> reach progs extra s -> g_closed (sh s) = true ->
  (exists thr, nth_error (ths s) (length progs) = Some thr /\ t_pc thr = PRDone) \/
  exists t, enabled step s t = true.
Proof.
  intros w progs extra s SW R. destruct (full_reach w progs extra s SW R) as [_ I].
  apply (rotator_exits_state w (length progs) s I).
Qed.

(* ---- C06 ------------------------------------------------------------------------------ *)
(* visibility: in every state reached without a panic, for every file the entries
   visible through commitIdx are covered by an fsync, and a reader that is about to
   read entry i of file h (it has passed the commitIdx check) reads below the synced
   prefix of that file *)
Theorem visible_only_durable : forall progs extra s,
  reach progs extra s -> crashed s = false ->
  (forall h, h_cnt (geth (sh s) h) <= h_syn (geth (sh s) h) /\
             h_syn (geth (sh s) h) <= h_wr (geth (sh s) h) /\
             h_wr (geth (sh s) h) <= length (h_ents (geth (sh s) h))) /\
  (forall t th x h i, nth_error (ths s) t = Some th -> t_pc th = PGetRead x h -> cur_op th = Some (OGet i) ->
     h_base (geth (sh s) h) <= i /\ i - h_base (geth (sh s) h) < h_syn (geth (sh s) h)).
Proof.
  intros progs extra s [sch ->] C.
  destruct (safe_run progs extra sch) as [C'|A]; [cbn zeta in C'; congruence|]. cbn zeta in A.
  split.
  - intros h. apply (a_chain _ A h).
  - intros t th x h i E P O. pose proof (a_thr _ A _ _ E) as Fa. unfold factsB in Fa. now rewrite P, O in Fa.
Qed.

(* model-level absence of conflicting accesses to file contents: the positions a
   pending WriteAt covers (from the written prefix on) lie above every position a
   concurrent reader of the same file reads; both threads cannot be anywhere else
   in conflict because all other shared locations are accessed atomically or under
   writeMu (see mutual_exclusion) *)
Theorem no_conflict_file : forall progs extra s,
  reach progs extra s -> crashed s = false ->
  forall t u th thu x y h i,
    nth_error (ths s) t = Some th -> t_pc th = PApp1 x ->          (* about to WriteAt *)
    nth_error (ths s) u = Some thu -> t_pc thu = PGetRead y h -> cur_op thu = Some (OGet i) ->
    h = tail_of (getst (sh s) x) ->
    i - h_base (geth (sh s) h) < h_wr (geth (sh s) h).             (* the read is below the write *)
Proof.
  intros progs extra s R C t u th thu x y h i E P Eu Pu Ou ->.
  destruct (visible_only_durable progs extra s R C) as [Ch Rd].
  destruct (Rd u thu y _ i Eu Pu Ou) as [_ L]. destruct (Ch (tail_of (getst (sh s) x))) as (_ & S2 & _). lia.
Qed.

(* ---- the runner executes `run` --------------------------------------------------------- *)
Theorem macro_is_run : forall fuel s sch tr,
  exists d, snd (macro step parked skip nthreads fuel s sch tr) = d ++ tr /\
            fst (macro step parked skip nthreads fuel s sch tr) = run step s (rev d).
Proof. intros. apply (macro_traces sys step parked skip nthreads fuel sch s tr). Qed.
