(* AwaitInv.v -- no mutating call goes on while a rotation is queued: for ANY number of
   mutating threads (no single-writer hypothesis), every schedule.

   `past_await th`: thread th is inside StoreLogs / DeleteRange, past awaitRotationLocked and
   not yet at the point where the call itself queues a rotation (triggerRotateLocked stores
   awaitRotate).  The invariant AW says that in such a state w.awaitRotate is nil.  Since
   awaitRotate is non-nil from the moment a sealing append queues a rotation until the rotation
   goroutine has performed it (PTrig .. PRT3), no other StoreLogs / DeleteRange touches the
   state in between: the rotation always finds the tail it was queued for.

   This is what the repair `fae88cb` of /repo established (awaitRotationLocked loops; model:
   the PRelock step re-checks g_await).  With the former step `PRelock -> PLoad` the invariant is
   false as soon as two threads mutate (see Props/C14Multi.v for the schedule, DESIGN.md section
   round4 for the run on the real code). *)
From Coq Require Import List Arith Bool Lia.
From RW Require Import Conc.Sys Conc.SysFacts Conc.Close Conc.ListX Conc.CloseInv Conc.CloseFacts
     Conc.CloseSafe Conc.CloseSafeStep.
Import ListNotations.

Definition kouter_b (k : kont) : bool := match k with KOuter _ => true | _ => false end.

Definition past_await (th : thread) : bool :=
  match t_pc th with
  | PLoad | PLoaded _ | PAcq _ | PBody _ => op_locking th
  | PApp1 _ | PApp2 _ | PApp3 _ | PTrig _ => true
  | PM0 k | PM1 _ k | PM2 _ k | PM3 _ k | PM4 _ _ k
  | PRel _ _ k | PLast _ _ k | PRun _ _ _ k =>
      match k with KOuter _ => true | KRetry => op_locking th | _ => false end
  | _ => false
  end.

Definition AW (s : sys) : Prop :=
  forall t th, nth_error (ths s) t = Some th -> past_await th = true -> g_await (sh s) = None.

Lemma past_await_holds th : past_await th = true -> holds_mu th = true.
Proof.
  unfold past_await, holds_mu. destruct (t_pc th); try discriminate; try (intros; reflexivity); try (intros H; exact H).
  all: destruct k; try discriminate; try (intros; reflexivity); try (intros H; exact H).
Qed.

(* what one step of any thread can do to awaitRotate: nothing, reset it, or (PTrig) set it *)
Lemma await_step g t th g' th' :
  step_thread g t th = Some (g', th') ->
  g_await g' = g_await g \/ g_await g' = None \/ exists x, t_pc th = PTrig x.
Proof.
  intros F. unfold step_thread in F. crack F.
  all: try (match goal with Q : pm3_tx ?g ?o ?y ?k = (?a, ?b) |- _ =>
              destruct (pm3_shape g o y k) as (segs & mn & nh & Q1 & Q2); rewrite Q in Q1; cbn [fst] in Q1; subst a end).
  all: inversion F; subst; clear F.
  all: cbn [g_await set_mu set_closed set_trig set_await set_cur set_meta set_hnds set_states publish upd_st upd_h] in *.
  all: try (left; congruence).
  all: try (right; left; congruence).
  all: try (right; right; eexists; reflexivity).
Qed.

(* the stepping thread itself: if it is past the check afterwards, it was before (and
   awaitRotate is unchanged), or it has just passed the check and found awaitRotate nil *)
Lemma region_own g t th g' th' :
  step_thread g t th = Some (g', th') -> past_await th' = true ->
  (past_await th = true /\ g_await g' = g_await g) \/ g_await g' = None.
Proof.
  intros F R. unfold step_thread in F. crack F.
  all: try (match goal with Q : pm3_tx ?g ?o ?y ?k = (?a, ?b) |- _ =>
              destruct (pm3_shape g o y k) as (segs & mn & nh & Q1 & Q2); rewrite Q in Q1; cbn [fst] in Q1; subst a end).
  all: inversion F; subst g' th'; clear F.
  all: cbn [g_await set_mu set_closed set_trig set_await set_cur set_meta set_hnds set_states publish upd_st upd_h] in *.
  all: unfold past_await, op_locking, cur_op, continue, finish, panic, setpc in *; cbn [t_pc t_prog] in *.
  all: try discriminate R.
  all: repeat match goal with H : t_pc ?th = _ |- _ => rewrite H in * end.
  all: try (left; split; [first [reflexivity | exact R] | reflexivity]).
  all: try (right; assumption).
  all: try (match goal with H : hd_error (t_prog ?th) = Some ?o |- _ => rewrite H in *; cbn in * end).
  all: try discriminate R.
  all: try (left; split; [first [reflexivity | exact R] | reflexivity]).
  all: try (right; assumption).
  all: try (match goal with k : kont |- _ => destruct k; cbn in *; try discriminate R end).
  all: try (left; split; [first [reflexivity | exact R | assumption] | reflexivity]).
  all: try (match goal with H : true = false |- _ => discriminate H | H : false = true |- _ => discriminate H end).
  all: try (cbn in *; congruence).
Qed.

Lemma aw_step s t s' : Safe s -> AW s -> step s t = Some s' -> AW s'.
Proof.
  intros A W H. destruct (step_decomp _ _ _ H) as (th & g' & th' & E & F & ->).
  intros u thu Eu Ru. cbn [sh ths] in *.
  destruct (nth_error_upd_inv _ _ _ _ _ Eu) as [(-> & -> & _)|(N & Eu')].
  - destruct (region_own _ _ _ _ _ F Ru) as [[Rt Q]|Q]; [|exact Q].
    rewrite Q. exact (W t th E Rt).
  - destruct (await_step _ _ _ _ _ F) as [Q|[Q|(x & P)]].
    + rewrite Q. exact (W u thu Eu' Ru).
    + exact Q.
    + (* the other thread stores awaitRotate: it holds writeMu, and so does thu *)
      exfalso. apply N.
      assert (Ht : holds_mu th = true) by (unfold holds_mu; now rewrite P).
      pose proof (a_mu1 _ A _ _ E Ht) as M1.
      pose proof (a_mu1 _ A _ _ Eu' (past_await_holds _ Ru)) as M2. congruence.
Qed.

Lemma aw_init progs extra : AW (init progs extra).
Proof. intros t th E R. reflexivity. Qed.

Theorem await_inv progs extra sch :
  let s := run step (init progs extra) sch in crashed s = true \/ (Safe s /\ AW s).
Proof.
  cbn zeta. apply (run_inv sys step (fun s => crashed s = true \/ (Safe s /\ AW s))).
  - intros s t s' [C|[A W]] H; [left; eapply crashed_mono; eauto|].
    destruct (safe_step _ _ _ A H) as [C|A']; [left; exact C|].
    right. split; [exact A' | exact (aw_step _ _ _ A W H)].
  - right. split; [apply safe_init | apply aw_init].
Qed.

(* every reachable state, any number of mutating threads: a StoreLogs / DeleteRange that is
   past its awaitRotation check runs with no rotation queued *)
Theorem no_call_overtakes_queued_rotation : forall progs extra sch t th,
  let s := run step (init progs extra) sch in
  crashed s = false -> nth_error (ths s) t = Some th -> past_await th = true -> g_await (sh s) = None.
Proof.
  intros progs extra sch t th s C E R. destruct (await_inv progs extra sch) as [C'|[_ W]].
  - fold s in C'. congruence.
  - exact (W t th E R).
Qed.

(* contrapositive: while a rotation is queued (from the sealing append's store of awaitRotate
   until the rotation goroutine has reset it) nobody is inside the body of a mutating call, so
   the state the rotation finds is the one it was queued for *)
Corollary queued_rotation_undisturbed : forall progs extra sch c,
  let s := run step (init progs extra) sch in
  crashed s = false -> g_await (sh s) = Some c ->
  forall t th, nth_error (ths s) t = Some th -> past_await th = false.
Proof.
  intros progs extra sch c s C Q t th E. destruct (past_await th) eqn:R; [|reflexivity].
  pose proof (no_call_overtakes_queued_rotation progs extra sch t th C E R) as Z. fold s in Z. congruence.
Qed.
