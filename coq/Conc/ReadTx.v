(* ReadTx.v -- every transaction of mutateStateLocked publishes a version of shape A (same
   tail, suffix of the file list, first index not lowered) or shape B (new tail file);
   Close publishes the empty version.  Hence ReadInv.Inv3 is preserved by publishing. *)
From Coq Require Import List Arith Bool Lia.
From RW Require Import Conc.Sys Conc.Close Conc.ListX Conc.CloseFacts Conc.CloseSafe Conc.CloseCount Conc.ReadInv.
Import ListNotations.

Lemma split_head_keep g m li : forall segs rm keep,
  split_head g m li segs = (rm, keep) -> keep <> [] ->
  m <= li \/ exists h2, In h2 segs /\ m <= h_base (geth g h2) - 1.
Proof.
  induction segs as [|h r IH]; intros rm keep H Ne; cbn in H.
  - inversion H; subst. congruence.
  - destruct r as [|h2 r'].
    + destruct (Nat.leb_spec m li); [now left|]. inversion H; subst. congruence.
    + destruct (Nat.leb_spec m (h_base (geth g h2) - 1)).
      * right. exists h2. split; [right; now left | assumption].
      * destruct (split_head g m li (h2 :: r')) as [a b] eqn:Q. inversion H; subst.
        destruct (IH _ _ eq_refl Ne) as [L|(h3 & Hi & L)]; [now left|]. right. exists h3. split; [now right | exact L].
Qed.

Lemma split_tail_keep g m : forall segs keep rm,
  split_tail g m segs = (keep, rm) -> forall h, In h keep -> h_base (geth g h) <= m.
Proof.
  induction segs as [|h r IH]; intros keep rm H h0 Hi; cbn in H.
  - inversion H; subst. destruct Hi.
  - destruct (Nat.leb_spec (h_base (geth g h)) m).
    + destruct (split_tail g m r) as [a b] eqn:Q. inversion H; subst. destruct Hi as [<-|Hi]; [assumption|].
      eapply IH; eauto.
    + inversion H; subst. destruct Hi.
Qed.

Section Tx.
  Variable g : shared.
  Hypothesis (La : S (g_cur g) = ns g) (Oc : op_ g (g_cur g) = true) (K : Inv3 g).
  Let y := g_cur g.
  Let t := tl_of g y.

  Lemma li_bound : last_index g (getst g y) <= hb g t + hc g t.
  Proof.
    unfold last_index. fold (geth g (tail_of (getst g y))). change (tail_of (getst g y)) with t.
    change (h_cnt (geth g t)) with (hc g t). change (h_base (geth g t)) with (hb g t).
    destruct (0 <? hc g t); [lia|]. destruct (2 <=? _); lia.
  Qed.

  Lemma li_pos : 1 <= last_index g (getst g y) -> 0 < hc g t \/ 2 <= length (sg g y).
  Proof.
    unfold last_index. change (tail_of (getst g y)) with t.
    change (h_cnt (geth g t)) with (hc g t). change (h_base (geth g t)) with (hb g t).
    destruct (Nat.ltb_spec 0 (hc g t)); [now left|]. fold (sg g y). destruct (Nat.leb_spec 2 (length (sg g y))); [now right | lia].
  Qed.

  Lemma fi_min : 1 <= last_index g (getst g y) -> first_index g (getst g y) = mn g y.
  Proof.
    intros L. destruct (li_pos L) as [C|C]; unfold first_index; change (tail_of (getst g y)) with t;
      change (h_cnt (geth g t)) with (hc g t); fold (sg g y).
    - destruct (hc g t =? 0) eqn:Q; [apply Nat.eqb_eq in Q; lia|]. now rewrite andb_false_r.
    - destruct (length (sg g y) =? 1) eqn:Q; [apply Nat.eqb_eq in Q; lia|]. reflexivity.
  Qed.

  Definition tx_ok (r : shared * list nat) : Prop :=
    exists segs' mn',
      (fst r = publish g (mk_state segs' mn') /\ shapeA g segs' mn') \/
      (exists b, fst r = publish (set_hnds g (g_hnds g ++ [new_hnd b])) (mk_state segs' mn') /\ shapeB g segs' mn' b).

  Lemma ok_same l : tx_ok (publish g (mk_state (s_segs (getst g y)) (s_min (getst g y))), l).
  Proof.
    exists (sg g y), (mn g y). left. split; [reflexivity|]. unfold shapeA. fold y. 
    split; [exists []; reflexivity|]. split; [apply (k_nonempty _ K); [unfold y; lia | exact Oc]|].
    split; [apply (k_min _ K); [unfold y; lia | exact Oc]|]. split; [lia|]. split; [now left|]. apply (k_m _ K Oc).
  Qed.

  Lemma ok_rotate : tx_ok (do_rotate g y).
  Proof.
    unfold do_rotate. exists (sg g y ++ [nh_ g]), (mn g y). right. exists (hb g t + hc g t). split; [reflexivity|].
    exists (sg g y). split; [reflexivity|]. split.
    - intros h Hi. split; [exact Hi|]. pose proof (k_base _ K y h ltac:(unfold y; lia) Hi). fold t in H. lia.
    - split; [apply (k_min _ K); [unfold y; lia | exact Oc] | apply (k_m _ K Oc)].
  Qed.

  (* head truncation: the new first index m, as classified *)
  Lemma ok_head m : 1 <= m -> mn g y <= m -> 1 <= last_index g (getst g y) ->
    tx_ok (do_trunc_head g y m).
  Proof.
    intros M1 M2 Lp. unfold do_trunc_head.
    destruct (split_head g m (last_index g (getst g y)) (s_segs (getst g y))) as [rm keep] eqn:Q.
    pose proof (split_head_app _ _ _ _ _ _ Q) as App. destruct keep as [|k0 keep].
    - exists [nh_ g], (last_index g (getst g y) + 1). right. exists (last_index g (getst g y) + 1). split; [reflexivity|].
      exists []. split; [reflexivity|]. split; [intros h []|]. lia.
    - exists (k0 :: keep), m. left. split; [reflexivity|]. unfold shapeA. fold y. fold t.
      split; [exists rm; symmetry; exact App|]. split; [discriminate|]. split; [exact M1|]. split; [exact M2|].
      split; [right; apply (li_pos Lp)|].
      destruct (split_head_keep _ _ _ _ _ _ Q ltac:(discriminate)) as [L|(h2 & Hi & L)].
      + pose proof li_bound. lia.
      + pose proof (k_base _ K y h2 ltac:(unfold y; lia) Hi) as B. fold t in B. unfold hb in *. lia.
  Qed.

  Lemma ok_tail m : mn g y <= S m -> tx_ok (do_trunc_tail g y m).
  Proof.
    intros M2. unfold do_trunc_tail. destruct (split_tail g m (s_segs (getst g y))) as [keep rm] eqn:Q.
    pose proof (split_tail_app _ _ _ _ _ Q) as App.
    exists (keep ++ [nh_ g]), (mn g y). right. exists (m + 1). split; [reflexivity|].
    exists keep. split; [reflexivity|]. split.
    - fold y. intros h Hi. split; [unfold sg; rewrite <- App; apply in_or_app; now left|].
      pose proof (split_tail_keep _ _ _ _ _ Q h Hi). unfold hb. lia.
    - split; [apply (k_min _ K); [unfold y; lia | exact Oc] | lia].
  Qed.

  Lemma ok_pm3 o k : tx_ok (pm3_tx g o y k).
  Proof.
    unfold pm3_tx. destruct k; try apply ok_rotate;
      (destruct o as [o|]; [|apply ok_same]; unfold classify;
       destruct o; try apply ok_same).
    all: try (destruct ((n <? first_index g (getst g y)) || (last_index g (getst g y) <? 1)) eqn:B; [apply ok_same|];
              apply orb_false_iff in B; destruct B as [B1 B2]; apply Nat.ltb_ge in B1, B2;
              rewrite (fi_min B2) in B1; apply ok_head; lia).
    all: destruct (Nat.leb_spec (last_index g (getst g y)) n) as [L1|L1]; [apply ok_same|];
      destruct (Nat.ltb_spec n (first_index g (getst g y))) as [L2|L2];
      [ apply ok_head; try lia; pose proof (k_m _ K Oc) as M; fold y in M; fold t in M;
        destruct (li_pos (ltac:(lia) : 1 <= last_index g (getst g y))) as [C|C]
      | apply ok_tail; rewrite (fi_min ltac:(lia)) in L2; lia ].
    all: unfold last_index; change (tail_of (getst g y)) with t; change (h_cnt (geth g t)) with (hc g t);
      change (h_base (geth g t)) with (hb g t); fold (sg g y).
    all: try (destruct (Nat.ltb_spec 0 (hc g t)); [lia|]; destruct (Nat.leb_spec 2 (length (sg g y))); lia).
  Qed.
End Tx.
