(* SealInv.v -- StoreLogs never finds the tail sealed: invariant about a sealed tail of the
   current open version (definitions + executable mirror, tested on pseudo-random schedules;
   the proof is in Conc/SealStep.v).

   If the tail of the current open version is sealed then
     A  awaitRotate is set (a rotation was triggered and has not finished), or
     B  Close is past the point where it closed the await channel (stage >= 3: it holds
        writeMu until the state is swapped), or
     C  the closed flag is set and no locking call is past its closed check (the writer saw
        the flag in triggerRotateLocked and will see it again at the start of every call), or
     W  the thread that sealed it is still between the seal and the trigger (PApp1..PTrig),
        or between the force-seal of a tail truncation and the commit (PM3, classified DTail);
   and while the rotation goroutine is between publishing the new version and resetting
   awaitRotate the tail is not sealed. *)
From Coq Require Import List Arith Bool Lia NArith.
From RW Require Import Conc.Sys Conc.Close Conc.ListX Conc.CloseInv Conc.CloseCheck.
Import ListNotations.

Definition sealed_cur (g : shared) : bool :=
  let s := getst g (g_cur g) in s_open s && h_sealed (geth g (tail_of s)).

Definition inW1 (th : thread) : bool :=
  match t_pc th with PApp1 _ | PApp2 _ | PApp3 _ | PTrig _ => true | _ => false end.
Definition inW2 (g : shared) (th : thread) : bool :=
  match t_pc th, cur_op th with
  | PM3 y (KOuter _), Some (OTrunc n) =>
      match classify g (getst g y) (OTrunc n) with DTail _ => true | _ => false end
  | _, _ => false
  end.
Definition inR (th : thread) : bool :=
  match t_pc th with
  | PM4 _ _ KRot | PRel _ _ KRot | PLast _ _ KRot | PRun _ _ _ KRot | PRT3 => true
  | _ => false
  end.
Definition quiet (th : thread) : bool :=
  negb (op_locking th) ||
  match t_pc th with
  | PIdle | PRel _ _ KUnlock | PLast _ _ KUnlock | PRun _ _ _ KUnlock | PUnl _ => true
  | _ => false
  end.

Definition res_ns (r : outcome) : bool := match r with ErrSealed => false | _ => true end.
Definition nosealed (th : thread) : bool :=
  match t_pc th with
  | PRel _ r _ | PLast _ r _ | PRun _ _ r _ | PUnl r => res_ns r
  | _ => true
  end && forallb res_ns (t_outs th).

Record Inv4 (s : sys) : Prop := {
  q_seal : sealed_cur (sh s) = true ->
           g_await (sh s) <> None \/ 3 <= K (sh s) (ths s) \/
           (g_closed (sh s) = true /\ forall t th, nth_error (ths s) t = Some th -> quiet th = true) \/
           (exists t th, nth_error (ths s) t = Some th /\ (inW1 th = true \/ inW2 (sh s) th = true));
  q_rot : forall t th, nth_error (ths s) t = Some th -> inR th = true -> sealed_cur (sh s) = false;
  q_res : forall t th, nth_error (ths s) t = Some th -> nosealed th = true
}.

(* ---- executable mirror ------------------------------------------------------------------- *)
Definition inv4_b (s : sys) : list nat :=
  let g := sh s in let T := ths s in
  let chk (n : nat) (b : bool) := if b then [] else [n] in
  chk 41 (negb (sealed_cur g) ||
          negb (match g_await g with None => true | _ => false end) || (3 <=? K g T) ||
          (g_closed g && forallb quiet T) || existsb (fun th => inW1 th || inW2 g th) T) ++
  chk 42 (negb (existsb inR T) || negb (sealed_cur g)) ++
  chk 43 (forallb nosealed T).

Definition seal_cfg1 : list (list op) :=
  [[OStore true 1 1; OStore false 2 2; ODelete 1; OStore true 3 1; OTrunc 2; OStore true 4 2; OStore true 5 1];
   [OGet 1; OFirst; OGet 2]; [OClose]; [OLast; OClose; OSet]; [OSet; OGetS; OGet 1]].
Definition seal_cfg2 : list (list op) :=
  [[OStore true 1 1; OStore true 2 1; ODelete 2; OStore true 3 3; OTrunc 3; OTrunc 2; OStore true 4 1; ODelete 9; OStore true 5 1];
   [OGet 1; OGet 2; OGet 3; OGet 4]; [OFirst; OLast; OGet 4; OGet 2]; [OGet 3; OClose]].
Definition seal_cfg3 : list (list op) :=
  [[OStore true 1 2; OTrunc 1; OStore true 2 1; OTrunc 1; OStore true 3 1; OStore true 4 1]; [OClose]; [OFirst]].
Definition test_inv4 (cfg : list (list op)) (len : nat) (seed : N) : list (nat * list nat) :=
  check_run inv4_b (init cfg []) (lcg_sched len seed (N.of_nat (S (length cfg)))) 0.
Example inv4_holds_on_samples :
  flat_map (test_inv4 seal_cfg1 500) (map N.of_nat (seq 1 80)) ++
  flat_map (test_inv4 seal_cfg2 700) (map N.of_nat (seq 1 80)) ++
  flat_map (test_inv4 seal_cfg3 300) (map N.of_nat (seq 1 120)) = [].
Proof. vm_compute. reflexivity. Qed.
