(* CloseCheck.v -- executable mirror of the invariant clauses of CloseInv.v, used
   to test candidate invariants on pseudo-random schedules (vm_compute) before
   proving them.  Not used by any theorem. *)
From Coq Require Import List Arith Bool Lia NArith.
From RW Require Import Conc.Sys Conc.Close Conc.ListX Conc.CloseInv.
Import ListNotations.

Definition opt_none {A} (o : option A) : bool := match o with None => true | _ => false end.
Definition opt_is (o : option nat) (c : nat) : bool := match o with Some c' => c' =? c | None => false end.
Definition chan_open_b (g : shared) (c : nat) : bool := (c <? length (g_chans g)) && negb (nth c (g_chans g) false).
Definition imp (a b : bool) : bool := negb a || b.

Definition krot_b (g : shared) (T : list thread) (k : kont) : bool :=
  match k with KRot => (K g T <=? 1) && negb (opt_none (g_await g)) | _ => true end.

Definition th_facts1_b (g : shared) (T : list thread) (rp : pc) (th : thread) : bool :=
  match t_pc th with
  | PLoad => imp (op_locking th) (opt_none (g_await g))
  | PLoaded x | PAcq x => imp (op_locking th) ((x =? g_cur g) && opt_none (g_await g))
  | PBody x => s_open (getst g x) && imp (op_locking th) ((x =? g_cur g) && opt_none (g_await g))
  | PApp1 x | PApp2 x | PApp3 x => (x =? g_cur g) && s_open (getst g x) && opt_none (g_await g)
  | PTrig x => (x =? g_cur g) && s_open (getst g x) && opt_none (g_await g)
  | PSend x => (x =? g_cur g) && s_open (getst g x) && negb (g_trig g) && negb (opt_none (g_await g)) && negb (rot_pend rp)
  | PWaiting c | PRecvAwait c => (c <? length (g_chans g)) && (opt_is (g_await g) c || opt_none (g_await g))
  | PRelock => opt_none (g_await g)
  | PM0 k => s_open (getst g (g_cur g)) && krot_b g T k
  | PM1 y k | PM2 y k | PM3 y k => (y =? g_cur g) && s_open (getst g y) && krot_b g T k
  | PM4 y f k => (S y =? g_cur g) && krot_b g T k
  | PRel _ _ k | PLast _ _ k | PRun _ _ _ k =>
      krot_b g T k && match k with KRetry => imp (op_locking th) (opt_none (g_await g)) | _ => true end
  | PC5 x | PC6 x => x =? g_cur g
  | PCSwapped x e => (S x =? g_cur g) && (e =? g_cur g) && s_open (getst g x)
  | PRT3 => (K g T <=? 1) && negb (opt_none (g_await g))
  | PRT4 d | PRT5 d => match d with Some c => chan_open_b g c && negb (opt_is (g_await g) c) | None => false end
  | PRExit | PRDone => g_closed g
  | PPanic => false
  | _ => true
  end.

Definition all_t (T : list thread) (f : tid -> thread -> bool) : bool :=
  forallb (fun t => match nth_error T t with Some th => f t th | None => true end) (seq 0 (length T)).

Definition h_chain_b (h : hnd) : bool := (h_cnt h <=? h_syn h) && (h_syn h <=? h_wr h) && (h_wr h <=? length (h_ents h)).

Definition inv1_b (w r : tid) (s : sys) : list nat :=
  let g := sh s in let T := ths s in let rp := rot_pc T r in let k := K g T in
  let chk (n : nat) (b : bool) := if b then [] else [n] in
  chk 1 (all_t T (fun _ th => pc_ok th)) ++
  chk 2 (match nth_error T r with Some th => t_rot th | None => false end) ++
  chk 3 (all_t T (fun t th => (t =? r) || negb (t_rot th))) ++
  chk 4 (all_t T (fun t th => (t =? w) || forallb (fun o => negb (is_locking o)) (t_prog th))) ++
  chk 5 (all_t T (fun t th => imp (holds_mu th) (opt_is (g_mu g) t))) ++
  chk 6 (match g_mu g with Some t => match nth_error T t with Some th => holds_mu th | None => false end | None => true end) ++
  chk 7 (S (g_cur g) =? length (g_states g)) ++
  chk 13 (nact T <=? 1) ++
  chk 14 (imp (negb (g_closed g)) (nact T =? 0)) ++
  chk 15 (Bool.eqb (g_trig_closed g) (4 <=? k)) ++
  chk 16 (g_meta_closes g =? b2n (9 <=? k)) ++
  chk 17 (Bool.eqb (s_open (getst g (g_cur g))) (k <? 7)) ++
  chk 18 (imp (3 <=? k) (opt_none (g_await g))) ++
  chk 19 (match g_await g with Some c => chan_open_b g c | None => true end) ++
  chk 20 (forallb (fun c => imp (chan_open_b g c) (opt_is (g_await g) c || rot_has rp c)) (seq 0 (length (g_chans g)))) ++
  chk 21 (imp ((k =? 0) && (g_trig g || rot_pend rp)) (negb (opt_none (g_await g)))) ++
  chk 22 (imp (negb (opt_none (g_await g)))
              (g_trig g || rot_pend rp || existsb at_send T || ((1 <=? k) && (k <=? 2)))) ++
  chk 23 (imp (rot_pend rp && (k <=? 1)) (negb (g_trig g))) ++
  chk 24 (all_t T (fun _ th => th_facts1_b g T rp th)).

(* check the invariant in every state along a schedule; returns the failing
   clause numbers together with the number of steps executed so far *)
Fixpoint check_run (inv : sys -> list nat) (s : sys) (sch : list tid) (n : nat) : list (nat * list nat) :=
  match inv s with
  | [] => match sch with
          | [] => []
          | t :: rest => check_run inv (exec step s t) rest (S n)
          end
  | bad => [(n, bad)]
  end.

(* pseudo-random schedules *)
Fixpoint lcg_sched (n : nat) (seed : N) (k : N) : list tid :=
  match n with
  | O => []
  | S m => let seed' := ((seed * 1103515245 + 12345) mod 2147483648)%N in
           N.to_nat ((seed' / 65536) mod k)%N :: lcg_sched m seed' k
  end.

(* a test, not a theorem: Inv1's executable mirror holds in every state along 80
   pseudo-random schedules of 400 steps (writer, two readers/stable callers, two closers) *)
Definition test_cfg : list (list op) :=
  [[OStore true 1 1; OStore false 2 2; ODelete 1; OStore true 3 1; OTrunc 2; OStore true 4 2];
   [OGet 1; OFirst; OGet 2]; [OClose]; [OLast; OClose; OSet]; [OSet; OGetS; OGet 1]].
Definition test_inv1 (seed : N) : list (nat * list nat) :=
  check_run (inv1_b 0 (length test_cfg)) (init test_cfg [])
            (lcg_sched 400 seed (N.of_nat (S (length test_cfg)))) 0.
Example inv1_holds_on_samples : flat_map test_inv1 (map N.of_nat (seq 1 80)) = [].
Proof. vm_compute. reflexivity. Qed.
