(* ReadStep.v -- ReadInv.Inv3 holds in every reachable state of a single-writer system *)
From Coq Require Import List Arith Bool Lia.
From RW Require Import Conc.Sys Conc.SysFacts Conc.Close Conc.ListX Conc.CloseInv Conc.CloseFacts Conc.CloseSafe
     Conc.CloseSafeStep Conc.CloseStep1 Conc.CloseReach Conc.CloseCount Conc.ReadInv Conc.ReadTx.
Import ListNotations.

(* a state update that keeps open / file list / first index *)
Lemma inv3_upd_st g x (f : st -> st) :
  (forall s0, s_segs (f s0) = s_segs s0) -> (forall s0, s_min (f s0) = s_min s0) -> (forall s0, s_open (f s0) = s_open s0) ->
  Inv3 g -> Inv3 (upd_st g x (f (getst g x))).
Proof.
  intros H1 H2 H3. 
  assert (G : forall z, s_segs (getst (upd_st g x (f (getst g x))) z) = s_segs (getst g z) /\
                        s_min (getst (upd_st g x (f (getst g x))) z) = s_min (getst g z) /\
                        s_open (getst (upd_st g x (f (getst g x))) z) = s_open (getst g z)).
  { intros z. rewrite getst_upd_st. destruct ((x =? z) && _) eqn:B; [|auto].
    apply andb_true_iff in B. destruct B as [B _]. apply Nat.eqb_eq in B. subst. auto. }
  apply inv3_ext.
  - unfold ns, upd_st; cbn. apply upd_length.
  - reflexivity.
  - reflexivity.
  - intros z. apply (G z).
  - intros z. apply (G z).
  - intros z. apply (G z).
  - reflexivity.
  - intros h. apply Nat.le_refl.
Qed.

(* a file update that keeps the base and does not lower the commit counter *)
Lemma inv3_upd_h g t v :
  h_base v = h_base (geth g t) -> h_cnt (geth g t) <= h_cnt v -> Inv3 g -> Inv3 (upd_h g t v).
Proof.
  intros B C. apply inv3_ext.
  - reflexivity.
  - reflexivity.
  - unfold nh_, upd_h; cbn. apply upd_length.
  - reflexivity.
  - reflexivity.
  - reflexivity.
  - intros h. unfold hb. rewrite geth_upd_h. destruct ((t =? h) && _) eqn:Q; [|reflexivity].
    apply andb_true_iff in Q. destruct Q as [Q _]. apply Nat.eqb_eq in Q. now subst.
  - intros h. unfold hc. rewrite geth_upd_h. destruct ((t =? h) && _) eqn:Q; [|apply Nat.le_refl].
    apply andb_true_iff in Q. destruct Q as [Q _]. apply Nat.eqb_eq in Q. now subst.
Qed.

Lemma close_all_length : forall hs l, length (close_all l hs) = length l.
Proof. induction hs as [|a hs IH]; intros l; cbn [close_all]; [reflexivity|]. now rewrite IH, upd_length. Qed.

Lemma inv3_close g hs : Inv3 g -> Inv3 (set_hnds g (close_all (g_hnds g) hs)).
Proof.
  apply inv3_ext.
  - reflexivity.
  - reflexivity.
  - unfold nh_; cbn. apply close_all_length.
  - reflexivity.
  - reflexivity.
  - reflexivity.
  - intros h. unfold hb, geth; cbn. pose proof (close_all_io hs (g_hnds g) h) as Q. unfold io in Q. now inversion Q.
  - intros h. unfold hc, geth; cbn. pose proof (close_all_io hs (g_hnds g) h) as Q. unfold io in Q. inversion Q. lia.
Qed.

(* Close publishes the empty version *)
Lemma inv3_pubE g : S (g_cur g) = ns g -> op_ g (g_cur g) = true -> Inv3 g -> Inv3 (publish g empty_state).
Proof.
  intros La Oc K. set (g' := publish g empty_state).
  assert (G : forall x, getst g' x = if x <? ns g then getst g x else if x =? ns g then empty_state else dst).
  { intros x. unfold getst, g', publish, ns; cbn [g_states set_cur]. destruct (Nat.ltb_spec x (length (g_states g))).
    - now rewrite app_nth1.
    - rewrite app_nth2 by lia. destruct (Nat.eqb_spec x (length (g_states g))) as [->|N].
      + now rewrite Nat.sub_diag.
      + destruct (x - length (g_states g)) as [|[|k]] eqn:D; try lia; reflexivity. }
  assert (N' : ns g' = S (ns g)) by (unfold ns, g'; cbn; rewrite app_length; cbn; lia).
  assert (C' : g_cur g' = ns g) by reflexivity.
  assert (Lo : forall x, x < ns g -> sg g' x = sg g x /\ mn g' x = mn g x /\ op_ g' x = op_ g x /\ tl_of g' x = tl_of g x).
  { intros x L. unfold tl_of, sg, mn, op_. rewrite G. apply Nat.ltb_lt in L. rewrite L. auto. }
  assert (Nw : sg g' (ns g) = [] /\ op_ g' (ns g) = false).
  { unfold sg, op_. rewrite G, Nat.ltb_irrefl, Nat.eqb_refl. auto. }
  destruct Nw as (Ns & No).
  constructor.
  - intros x L O. rewrite N' in L. destruct (Nat.eq_dec x (ns g)) as [->|Nx]; [congruence|].
    destruct (Lo x ltac:(lia)) as (E1 & E2 & E3 & E4). rewrite E3 in O. rewrite E2. apply (k_min _ K); [lia | exact O].
  - intros x L O. rewrite N' in L. destruct (Nat.eq_dec x (ns g)) as [->|Nx]; [congruence|].
    destruct (Lo x ltac:(lia)) as (E1 & E2 & E3 & E4). rewrite E3 in O. rewrite E1. apply (k_nonempty _ K); [lia | exact O].
  - intros x h L Hi. rewrite N' in L. destruct (Nat.eq_dec x (ns g)) as [->|Nx]; [rewrite Ns in Hi; destruct Hi|].
    destruct (Lo x ltac:(lia)) as (E1 & _). rewrite E1 in Hi. apply (k_hlt _ K x h ltac:(lia) Hi).
  - intros x L. rewrite C' in L. destruct (Lo x L) as (_ & _ & E3 & _). rewrite E3.
    destruct (Nat.eq_dec x (g_cur g)) as [->|Nx]; [exact Oc | apply (k_open _ K); lia].
  - intros x z h L1 L2 O Hi. rewrite N' in L2. destruct (Nat.eq_dec z (ns g)) as [->|Nz]; [congruence|].
    destruct (Lo z ltac:(lia)) as (_ & _ & E3 & E4). rewrite E3 in O. rewrite E4.
    assert (x <> ns g) by lia. destruct (Lo x ltac:(lia)) as (E1 & _). rewrite E1 in Hi.
    apply (k_ord _ K x z h L1 ltac:(lia) O Hi).
  - intros x h L Hi. rewrite N' in L. destruct (Nat.eq_dec x (ns g)) as [->|Nx]; [rewrite Ns in Hi; destruct Hi|].
    destruct (Lo x ltac:(lia)) as (E1 & _ & _ & E4). rewrite E1 in Hi. rewrite E4. apply (k_base _ K x h ltac:(lia) Hi).
  - intros x L O T. rewrite N' in L. destruct (Nat.eq_dec (S x) (ns g)) as [Q|Nx]; [rewrite Q in O; congruence|].
    destruct (Lo x ltac:(lia)) as (E1 & E2 & E3 & E4). destruct (Lo (S x) ltac:(lia)) as (F1 & F2 & F3 & F4).
    rewrite F3 in O. rewrite F4, E4 in T. rewrite E1, E2, E4, F1, F2. apply (k_rel _ K x ltac:(lia) O T).
  - rewrite C'. congruence.
Qed.

Lemma inv3_tx g o k :
  S (g_cur g) = ns g -> op_ g (g_cur g) = true -> Inv3 g -> Inv3 (fst (pm3_tx g o (g_cur g) k)).
Proof.
  intros La Oc K. destruct (ok_pm3 g La Oc K o k) as (segs' & mn' & [(Q & A)|(b & Q & B)]); rewrite Q.
  - now apply inv3_pubA.
  - now apply inv3_pubB.
Qed.

Lemma inv3_ctl g g' :
  g_states g' = g_states g -> g_cur g' = g_cur g -> g_hnds g' = g_hnds g -> Inv3 g -> Inv3 g'.
Proof.
  intros E1 E2 E3. apply inv3_ext; unfold ns, nh_, sg, mn, op_, hb, hc, getst, geth; rewrite ?E1, ?E2, ?E3; auto.
Qed.

Section RS.
  Variables (w r : tid).

  Lemma inv3_step s t s' : Full w r s -> Inv3 (sh s) -> step s t = Some s' -> Inv3 (sh s').
  Proof.
    intros [SA I] K H. destruct (step_decomp _ _ _ H) as (th & g' & th' & E & F & ->). cbn [sh].
    pose proof (no_panic w r _ _ _ _ _ SA I E F) as NP.
    pose proof (i_thr _ _ _ I _ _ E) as TF. unfold th_facts1 in TF. pose proof (a_last _ SA) as La.
    pose proof (a_chain _ SA) as Ch.
    unfold step_thread in F; crack F; inversion F; subst g' th'; clear F.
    all: try (exfalso; apply NP; reflexivity).
    all: try exact K.
    all: try (apply (inv3_upd_st (sh s) _ (fun s0 => st_ref s0 _)); auto; fail).
    all: try (apply (inv3_upd_st (sh s) _ (fun s0 => st_fin s0 _)); auto; fail).
    all: try (apply (inv3_upd_st (sh s) _ (fun s0 => st_retire s0 _)); auto; fail).
    all: try (apply inv3_upd_h; [reflexivity | cbn; try lia | exact K]; fail).
    all: try (apply inv3_close; exact K).
    all: try (apply (inv3_ctl (sh s)); [reflexivity | reflexivity | reflexivity | exact K]).
    - (* commitIdx store *)
      apply inv3_upd_h; [reflexivity | | exact K]. cbn. pose proof (Ch (tail_of (getst (sh s) x))) as C. unfold h_chain in C. lia.
    - apply inv3_upd_h; [reflexivity | | exact K]. cbn. pose proof (Ch (tail_of (getst (sh s) x))) as C. unfold h_chain in C. lia.
    - (* a transaction publishes the next version *)
      destruct TF as (-> & Oy & _).
      match goal with Q : pm3_tx ?g ?o _ ?k = _ |- _ => pose proof (inv3_tx g o k La Oy K) as R; rewrite Q in R; exact R end.
    - (* Close publishes the empty version *)
      subst x. apply inv3_pubE; [exact La | | exact K].
      pose proof (i_open _ _ _ I) as Io.
      destruct (K_active w r s t th I E ltac:(unfold cstage; rewrite Heqp; lia)) as [_ Kq].
      unfold cstage in Kq. rewrite Heqp in Kq. unfold op_. rewrite Io, Kq. reflexivity.
  Qed.

End RS.

Theorem inv3_reach w progs extra s :
  single_writer w progs extra -> reachable step (init progs extra) s -> Inv3 (sh s).
  Proof.
    intros SW R.
    assert (G : Full w (length progs) s /\ Inv3 (sh s)).
    { apply (reachable_inv sys step (fun s1 => Full w (length progs) s1 /\ Inv3 (sh s1)) (init progs extra)); [| |exact R].
      - split; [split; [apply safe_init | now apply inv1_init]|].
        assert (X0 : forall x, x < ns init_shared -> x = 0) by (unfold ns; cbn; lia).
        constructor.
        + intros x L O. rewrite (X0 x L). cbn. lia.
        + intros x L O. rewrite (X0 x L). cbn. discriminate.
        + intros x h L Hi. rewrite (X0 x L) in Hi. cbn in Hi. destruct Hi as [<-|[]]. cbn. lia.
        + cbn. intros x L. lia.
        + intros x y h L1 L2 O Hi. pose proof (X0 y L2). subst y. assert (x = 0) by lia. subst x.
          cbn in Hi. destruct Hi as [<-|[]]. cbn. lia.
        + intros x h L Hi. rewrite (X0 x L) in *. cbn in Hi. destruct Hi as [<-|[]]. cbn. lia.
        + intros x L. pose proof (X0 _ L). lia.
        + intros _. cbn. lia.
      - intros s0 t s1 [F0 K0] H. split; [eapply full_step; eauto | eapply inv3_step; eauto]. }
    exact (proj2 G).
  Qed.

