(* SealStep.v -- SealInv.Inv4 is inductive (together with Full = Safe /\ Inv1) *)
From Coq Require Import List Arith Bool Lia.
From RW Require Import Conc.Sys Conc.SysFacts Conc.Close Conc.ListX Conc.CloseInv Conc.CloseFacts Conc.CloseK
     Conc.CloseSafe Conc.CloseSafeStep Conc.CloseStep1 Conc.CloseFrames Conc.CloseStepInv Conc.CloseReach
     Conc.CloseStep5 Conc.CloseCount Conc.ReadInv Conc.SealInv Conc.SealFrames.
Import ListNotations.

Lemma inW_holds g th : inW1 th = true \/ inW2 g th = true -> holds_mu th = true.
Proof.
  unfold inW1, inW2, holds_mu. intros [Q|Q]; destruct (t_pc th); try discriminate Q; reflexivity.
Qed.

Lemma inR_holds th : inR th = true -> holds_mu th = true.
Proof. unfold inR, holds_mu. destruct (t_pc th); try discriminate; try reflexivity; destruct k; try discriminate; reflexivity. Qed.

(* publishing a version whose tail is a new file: not sealed *)
Lemma sealed_fresh g b pre mn0 :
  sealed_cur (publish (set_hnds g (g_hnds g ++ [new_hnd b])) (mk_state (pre ++ [length (g_hnds g)]) mn0)) = false.
Proof.
  unfold sealed_cur, publish, getst, geth, tail_of; cbn.
  rewrite app_nth2 by lia. rewrite Nat.sub_diag. cbn. rewrite last_last.
  rewrite app_nth2 by lia. rewrite Nat.sub_diag. reflexivity.
Qed.

(* publishing a version that keeps the tail *)
Lemma sealed_sametail g segs' mn0 :
  S (g_cur g) = length (g_states g) -> s_open (getst g (g_cur g)) = true ->
  last segs' 0 = last (s_segs (getst g (g_cur g))) 0 ->
  sealed_cur (publish g (mk_state segs' mn0)) = sealed_cur g.
Proof.
  intros La O T. unfold sealed_cur at 1. unfold publish, getst at 1 2, geth, tail_of; cbn.
  rewrite app_nth2 by lia. rewrite Nat.sub_diag. cbn. rewrite T.
  unfold sealed_cur. rewrite O. reflexivity.
Qed.

Lemma sealed_pubE g : sealed_cur (publish g empty_state) = false.
Proof. unfold sealed_cur, publish, getst; cbn. rewrite app_nth2 by lia. rewrite Nat.sub_diag. reflexivity. Qed.

Section SS.
  Variables (w r : tid).

  (* the writer about to append never finds the tail sealed *)
  Lemma seal_contra s t th x :
    Full w r s -> Inv4 s -> nth_error (ths s) t = Some th -> t_pc th = PBody x -> op_locking th = true ->
    h_sealed (geth (sh s) (tail_of (getst (sh s) x))) = true -> False.
  Proof.
    intros [SA I] Q E P L Sl.
    pose proof (i_thr _ _ _ I _ _ E) as TF. unfold th_facts1 in TF. rewrite P in TF. destruct TF as (Ox & TF).
    destruct (TF L) as (Xc & Aw). subst x.
    assert (Hm : holds_mu th = true) by (unfold holds_mu; rewrite P; exact L).
    assert (Sc : sealed_cur (sh s) = true) by (unfold sealed_cur; now rewrite Ox, Sl).
    destruct (q_seal _ Q Sc) as [A|[B|[(C & Qu)|(u & thu & Eu & W)]]].
    - congruence.
    - pose proof (lock_K w r s t th I E Hm ltac:(unfold cstage; now rewrite P) Ox). lia.
    - pose proof (Qu t th E) as Qt. unfold quiet in Qt. rewrite L, P in Qt. discriminate Qt.
    - pose proof (inW_holds _ _ W) as Hu.
      pose proof (a_mu1 _ SA _ _ E Hm). pose proof (a_mu1 _ SA _ _ Eu Hu).
      assert (u = t) by congruence. subst u. assert (thu = th) by congruence. subst thu.
      unfold inW1, inW2 in W. rewrite P in W. destruct W; discriminate.
  Qed.

  Lemma res_step s t th g' th' :
    Full w r s -> Inv4 s -> nth_error (ths s) t = Some th -> step_thread (sh s) t th = Some (g', th') ->
    nosealed th' = true.
  Proof.
    intros F0 Q E F. pose proof F0 as [SA I].
    pose proof (no_panic w r _ _ _ _ _ SA I E F) as NP.
    pose proof (q_res _ Q _ _ E) as R. unfold nosealed in R. apply andb_true_iff in R. destruct R as [R1 R2].
    assert (App : forall res, res_ns res = true -> forallb res_ns (t_outs th ++ [res]) = true).
    { intros res Hr. rewrite forallb_app, R2. cbn. now rewrite Hr. }
    pose proof (seal_contra s t th) as SC.
    unfold nosealed. unfold step_thread in F; crack F; try (destruct (pm3_tx _ _ _ _) eqn:?); inversion F; subst g' th'; clear F.
    all: try (exfalso; apply NP; reflexivity).
    all: repeat match goal with H : t_pc _ = _ |- _ => rewrite H in R1 end.
    all: try (match goal with |- context [continue _ _ ?k0] => destruct k0; cbn [continue] end).
    all: cbn [t_pc setpc finish t_outs].
    all: rewrite ?R2, ?andb_true_r; try reflexivity; try exact R1.
    all: try (apply App; first [reflexivity | exact R1]).
    all: try (apply andb_true_iff; split; [first [reflexivity | exact R1] | apply App; first [reflexivity | exact R1]]).
    - (* StoreLogs on a sealed tail: excluded by the invariant *)
      exfalso. apply (SC x F0 Q E); auto. unfold op_locking. match goal with H : cur_op _ = Some (OStore _ _ _) |- _ => now rewrite H end.
    - exfalso. match goal with H : read_log ?g0 ?h0 ?i0 = _ |- _ =>
        destruct (read_log_cases g0 h0 i0) as [Q1|[[Q1 _]|[v1 Q1]]]; rewrite Q1 in H; discriminate H end.
  Qed.

  Lemma locking_is_writer s u thu : Inv1 w r s -> nth_error (ths s) u = Some thu -> op_locking thu = true -> u = w.
  Proof.
    intros I Eu L. destruct (Nat.eq_dec u w) as [Q|N]; [exact Q|]. exfalso.
    pose proof (i_sw _ _ _ I u thu Eu N) as Sw. unfold op_locking, cur_op in L.
    destruct (t_prog thu) as [|o p]; [discriminate L|]. cbn in *. apply andb_true_iff in Sw. destruct Sw as [Sw _].
    rewrite L in Sw. discriminate Sw.
  Qed.

  (* the disjunction survives a step that establishes nothing new *)
  Lemma phi_keep s t th g' th' :
    Full w r s -> Inv4 s -> nth_error (ths s) t = Some th -> step_thread (sh s) t th = Some (g', th') ->
    (sealed_cur g' = true -> sealed_cur (sh s) = true) ->
    (g_await (sh s) <> None -> g_await g' <> None) ->
    (inW1 th = true \/ inW2 (sh s) th = true -> inW1 th' = true \/ inW2 g' th' = true) ->
    sealed_cur g' = true ->
    g_await g' <> None \/ 3 <= K g' (upd (ths s) t th') \/
    (g_closed g' = true /\ forall u thu, nth_error (upd (ths s) t th') u = Some thu -> quiet thu = true) \/
    (exists u thu, nth_error (upd (ths s) t th') u = Some thu /\ (inW1 thu = true \/ inW2 g' thu = true)).
  Proof.
    intros F0 Q E F Hs Ha Hw Sc. pose proof F0 as [SA I].
    pose proof (no_panic w r _ _ _ _ _ SA I E F) as NP.
    assert (St : step s t = Some {| sh := g'; ths := upd (ths s) t th' |}) by (unfold step; now rewrite E, F).
    assert (Lt : t < length (ths s)) by (eapply nth_error_Some_lt; eauto).
    destruct (q_seal _ Q (Hs Sc)) as [A|[B|[(C & Qu)|(u & thu & Eu & W)]]].
    - left. auto.
    - right; left. apply (K3_step w r s t _ F0 St B).
    - right; right; left. split; [apply (closed_mono s t _ St C)|].
      intros u thu Eu. destruct (nth_error_upd_inv _ _ _ _ _ Eu) as [(-> & -> & _)|(Nu & Eu')]; [|eauto].
      apply (quiet_step _ _ _ _ _ F NP C (Qu t th E)).
    - right; right; right. destruct (Nat.eq_dec u t) as [->|Nu].
      + assert (thu = th) by congruence. subst thu. exists t, th'. split; [now apply nth_error_upd_eq | auto].
      + exists u, thu. split; [now rewrite nth_error_upd_neq by congruence|].
        destruct W as [W|W]; [now left | right]. apply (inW2_other w r s t th g' th' u thu SA I E F NP Eu Nu W).
  Qed.

  Ltac keep_tac F0 Q E F1 P Sc :=
    apply (phi_keep _ _ _ _ _ F0 Q E F1);
    [ first [ intros Hx; exact Hx
            | intros Hx; rewrite sealed_ctl in Hx by reflexivity; exact Hx
            | intros Hx; rewrite sealed_upd_h in Hx by reflexivity; exact Hx ]
    | auto
    | first [ intros _; left; reflexivity
            | intros [Wx|Wx]; unfold inW1, inW2 in Wx; rewrite P in Wx; discriminate Wx ]
    | exact Sc ].

  Lemma seal_step s t th g' th' :
    Full w r s -> Inv4 s -> nth_error (ths s) t = Some th -> step_thread (sh s) t th = Some (g', th') ->
    sealed_cur g' = true ->
    g_await g' <> None \/ 3 <= K g' (upd (ths s) t th') \/
    (g_closed g' = true /\ forall u thu, nth_error (upd (ths s) t th') u = Some thu -> quiet thu = true) \/
    (exists u thu, nth_error (upd (ths s) t th') u = Some thu /\ (inW1 thu = true \/ inW2 g' thu = true)).
  Proof.
    intros F0 Q E F Sc. pose proof F0 as [SA I]. pose proof F as F1.
    pose proof (no_panic w r _ _ _ _ _ SA I E F) as NP. pose proof (i_wf _ _ _ I _ _ E) as WF.
    pose proof (i_thr _ _ _ I _ _ E) as TF. unfold th_facts1 in TF. pose proof (a_last _ SA) as La.
    assert (St : step s t = Some {| sh := g'; ths := upd (ths s) t th' |}) by (unfold step; now rewrite E, F).
    destruct (full_step w r s t _ F0 St) as [SA' I'].
    assert (Lt : t < length (ths s)) by (eapply nth_error_Some_lt; eauto).
    assert (E' : nth_error (upd (ths s) t th') t = Some th') by (now apply nth_error_upd_eq).
    destruct (special4 (t_pc th)) eqn:Sp.
    2: { destruct (plain4 _ _ _ _ _ F NP Sp) as (P1 & P2 & P3 & P4 & P5 & P6 & _).
         apply (phi_keep s t th g' th' F0 Q E F); [now rewrite P1 | now rewrite P2 | | exact Sc].
         intros [W|W]; [left; now rewrite P4 | rewrite P5 in W; discriminate W]. }
    destruct (t_pc th) eqn:P; try discriminate Sp; clear Sp; rewrite ?P in TF.
    - (* PIdle *)
      unfold step_thread in F; rewrite P in F; crack F; inversion F; subst g' th'; clear F.
      all: keep_tac F0 Q E F1 P Sc.
    - (* PBody *)
      unfold step_thread in F; rewrite P in F; crack F; inversion F; subst g' th'; clear F.
      all: try (exfalso; apply NP; reflexivity).
      all: try (keep_tac F0 Q E F1 P Sc; fail).
      right; right; right. exists t, (setpc th (PApp1 x)). split; [exact E' | left; reflexivity].
    - (* PApp3: the commit; the trigger follows when the tail is sealed *)
      destruct TF as (Xc & Ox & _). subst x.
      unfold step_thread in F; rewrite P in F; crack F; inversion F; subst g' th'; clear F.
      + keep_tac F0 Q E F1 P Sc.
      + exfalso. rewrite sealed_upd_h in Sc by reflexivity. unfold sealed_cur in Sc. rewrite Ox in Sc. cbn in Sc. congruence.
    - (* PTrig *)
      unfold step_thread in F; rewrite P in F; crack F; inversion F; subst g' th'; clear F.
      + right; right; left. split; [assumption|]. intros u thu Eu.
        destruct (nth_error_upd_inv _ _ _ _ _ Eu) as [(-> & -> & _)|(Nu & Eu')].
        * unfold quiet. cbn. apply orb_true_r.
        * unfold quiet. destruct (op_locking thu) eqn:L; [|reflexivity]. exfalso.
          pose proof (locking_is_writer s u thu I Eu' L).
          assert (Lw : op_locking th = true).
          { unfold pc_ok in WF. rewrite P in WF. unfold op_locking. destruct (t_rot th); [destruct (t_prog th); discriminate|].
            destruct (cur_op th) as [[]|]; try discriminate WF; reflexivity. }
          pose proof (locking_is_writer s t th I E Lw). congruence.
      + left. cbn. discriminate.
    - (* PM2: CommitState; a tail truncation that keeps the tail force-seals it first *)
      destruct TF as (Yc & Oy & _).
      assert (NoMeta : (0 <? g_meta_closes (sh s)) = false).
      { pose proof (i_meta _ _ _ I) as Im. pose proof (i_open _ _ _ I) as Io. rewrite Yc, Io in Oy. apply Nat.ltb_lt in Oy.
        rewrite Im. destruct (Nat.leb_spec 9 (K (sh s) (ths s))); [lia | reflexivity]. }
      unfold step_thread in F; rewrite P in F; rewrite NoMeta in F.
      match type of F with Some (?g1, _) = _ => remember g1 as gx eqn:Gx end. inversion F; subst g' th'; clear F.
      destruct (sealed_cur (sh s)) eqn:Sc0.
      + (* already sealed before: nothing new *)
        apply (phi_keep s t th gx _ F0 Q E F1); [auto | | | exact Sc].
        * intros A. subst gx. destruct k; try exact A; destruct (cur_op th) as [[]|]; try exact A.
          destruct (classify _ _ _); try exact A. destruct (_ <=? _); exact A.
        * intros [W|W]; unfold inW1, inW2 in W; rewrite P in W; discriminate W.
      + (* sealed by this step: the thread is now the witness *)
        right; right; right. exists t, (setpc th (PM3 y k)). split; [exact E'|]. right.
        subst gx. unfold inW2. cbn [t_pc setpc]. change (cur_op (setpc th (PM3 y k))) with (cur_op th).
        destruct k; try congruence. destruct (cur_op th) as [[]|] eqn:Oo; try congruence.
        destruct (classify (sh s) (getst (sh s) y) (OTrunc n)) eqn:Cl; try congruence.
        destruct (h_base (geth (sh s) (tail_of (getst (sh s) y))) <=? newMax) eqn:Bm; try congruence.
        rewrite (classify_ext (sh s)); [now rewrite Cl | reflexivity | reflexivity|].
        intros h. rewrite geth_upd_h. destruct ((_ =? h) && _) eqn:B; [|reflexivity].
        apply andb_true_iff in B. destruct B as [B _]. apply Nat.eqb_eq in B. subst h. reflexivity.
    - (* PM3: the transaction publishes the next version *)
      destruct TF as (Yc & Oy & _). subst y.
      unfold step_thread in F; rewrite P in F. destruct (pm3_tx (sh s) (cur_op th) (g_cur (sh s)) k) as [gx hs] eqn:Tx.
      inversion F; subst g' th'; clear F.
      match goal with |- ?G0 => set (GG := G0) end.
      assert (Same : forall segs' mn0, gx = publish (sh s) (mk_state segs' mn0) ->
                 last segs' 0 = last (s_segs (getst (sh s) (g_cur (sh s)))) 0 ->
                 inW2 (sh s) th = false -> GG).
      { intros segs' mn0 Qg Tl NW. unfold GG.
        apply (phi_keep s t th gx _ F0 Q E F1); [ | | | exact Sc].
        - intros _. rewrite Qg in Sc. rewrite sealed_sametail in Sc by assumption. exact Sc.
        - rewrite Qg. auto.
        - intros [W|W]; [unfold inW1 in W; rewrite P in W; discriminate W | congruence]. }
      assert (Fresh : forall b pre mn0, gx = publish (set_hnds (sh s) (g_hnds (sh s) ++ [new_hnd b])) (mk_state (pre ++ [length (g_hnds (sh s))]) mn0) -> False).
      { intros b pre mn0 Qg. rewrite Qg, sealed_fresh in Sc. discriminate Sc. }
      unfold pm3_tx in Tx.
      assert (SameSegs : forall l0, gx = publish (sh s) (mk_state (s_segs (getst (sh s) (g_cur (sh s)))) (s_min (getst (sh s) (g_cur (sh s))))) ->
                hs = l0 -> inW2 (sh s) th = false -> GG) by (intros l0 Qg _ NW; exact (Same _ _ Qg eq_refl NW)).
      assert (Rot : fst (do_rotate (sh s) (g_cur (sh s))) = gx -> False).
      { unfold do_rotate. cbn [fst]. intros Qg. symmetry in Qg. exact (Fresh _ _ _ Qg). }
      assert (Tail : forall m, fst (do_trunc_tail (sh s) (g_cur (sh s)) m) = gx -> False).
      { intros m. unfold do_trunc_tail. destruct (split_tail _ _ _) as [keep rm]. cbn [fst]. intros Qg. symmetry in Qg. exact (Fresh _ _ _ Qg). }
      assert (Head : forall m, fst (do_trunc_head (sh s) (g_cur (sh s)) m) = gx -> inW2 (sh s) th = false -> GG).
      { intros m. unfold do_trunc_head.
        destruct (split_head (sh s) m (last_index (sh s) (getst (sh s) (g_cur (sh s)))) (s_segs (getst (sh s) (g_cur (sh s))))) as [rm keep] eqn:Sh.
        pose proof (split_head_app _ _ _ _ _ _ Sh) as App. destruct keep as [|k0 keep]; cbn [fst]; intros Qg NW.
        - exfalso. symmetry in Qg. exact (Fresh _ [] _ Qg).
        - symmetry in Qg. apply (Same _ _ Qg); [|exact NW]. rewrite <- App. symmetry. apply last_app_ne. discriminate. }
      unfold inW2 in Head, SameSegs. rewrite P in Head, SameSegs.
      destruct k; try (exfalso; apply Rot; rewrite Tx; reflexivity).
      all: destruct (cur_op th) as [o|] eqn:Oo;
        [ destruct (classify (sh s) (getst (sh s) (g_cur (sh s))) o) eqn:Cl | ].
      all: try (exfalso; apply (Tail newMax); rewrite Tx; reflexivity).
      all: try (apply (Head newMin); [rewrite Tx; reflexivity | try reflexivity; destruct o; try reflexivity; rewrite Cl; reflexivity]).
      all: try (inversion Tx; subst gx hs; apply (SameSegs [] eq_refl eq_refl); try reflexivity; destruct o; try reflexivity; rewrite Cl; reflexivity).
    - (* PCLocked: Close closes the await channel; from here on it holds writeMu *)
      right; left.
      assert (C3 : cstage th' = 3).
      { unfold step_thread in F; rewrite P in F; crack F; inversion F; subst; try reflexivity; exfalso; apply NP; reflexivity. }
      destruct (K_active w r _ t th' I' E' ltac:(lia)) as [_ Kq]. cbn [sh ths] in Kq. lia.
    - (* PC6: Close publishes the empty version *)
      exfalso. unfold step_thread in F; rewrite P in F. inversion F; subst. rewrite sealed_pubE in Sc. discriminate Sc.
    - (* PRT3: the rotation goroutine resets awaitRotate; the new tail is not sealed *)
      exfalso. pose proof (q_rot _ Q t th E ltac:(unfold inR; now rewrite P)) as Sr.
      unfold step_thread in F; rewrite P in F. inversion F; subst. rewrite (sealed_ctl (sh s)) in Sc by reflexivity. congruence.
  Qed.

  Lemma rot_step s t th g' th' :
    Full w r s -> Inv4 s -> nth_error (ths s) t = Some th -> step_thread (sh s) t th = Some (g', th') ->
    forall u thu, nth_error (upd (ths s) t th') u = Some thu -> inR thu = true -> sealed_cur g' = false.
  Proof.
    intros F0 Q E F u thu Eu Ru. pose proof F0 as [SA I].
    pose proof (no_panic w r _ _ _ _ _ SA I E F) as NP. pose proof (i_wf _ _ _ I _ _ E) as WF.
    pose proof (i_thr _ _ _ I _ _ E) as TF. unfold th_facts1 in TF. pose proof (a_last _ SA) as La.
    (* another thread inside the rotation holds writeMu *)
    assert (Other : u <> t -> holds_mu th = true -> False).
    { intros Nu Hm. rewrite nth_error_upd_neq in Eu by congruence.
      pose proof (a_mu1 _ SA _ _ E Hm). pose proof (a_mu1 _ SA _ _ Eu (inR_holds _ Ru)). congruence. }
    assert (Old : u <> t -> sealed_cur (sh s) = false).
    { intros Nu. rewrite nth_error_upd_neq in Eu by congruence. apply (q_rot _ Q u thu Eu Ru). }
    assert (Lt : t < length (ths s)) by (eapply nth_error_Some_lt; eauto).
    assert (Own : u = t -> thu = th') by (intros ->; rewrite nth_error_upd_eq in Eu by exact Lt; congruence).
    destruct (special4 (t_pc th)) eqn:Sp.
    2: { destruct (plain4 _ _ _ _ _ F NP Sp) as (P1 & _ & _ & _ & _ & _ & P7). rewrite P1.
         destruct (Nat.eq_dec u t) as [Qu|Nu]; [|auto]. rewrite (Own Qu) in Ru. apply (q_rot _ Q t th E (P7 Ru)). }
    destruct (t_pc th) eqn:P; try discriminate Sp; clear Sp; rewrite ?P in TF.
    - (* PIdle *)
      destruct (Nat.eq_dec u t) as [Qu|Nu].
      + exfalso. rewrite (Own Qu) in Ru. unfold step_thread in F; rewrite P in F; crack F; inversion F; subst; discriminate Ru.
      + rewrite <- (Old Nu). unfold step_thread in F; rewrite P in F; crack F; inversion F; subst; try reflexivity.
        all: try (apply sealed_ctl; reflexivity).
    - (* PBody *)
      destruct (Nat.eq_dec u t) as [Qu|Nu].
      + exfalso. rewrite (Own Qu) in Ru. unfold step_thread in F; rewrite P in F; crack F; inversion F; subst; try discriminate Ru.
        all: try (apply NP; reflexivity).
      + unfold step_thread in F; rewrite P in F; crack F; inversion F; subst; auto.
        exfalso. apply (Other Nu). unfold holds_mu. rewrite P. unfold op_locking.
        match goal with H : cur_op _ = Some (OStore _ _ _) |- _ => now rewrite H end.
    - (* PApp3 *)
      destruct (Nat.eq_dec u t) as [Qu|Nu]; [|exfalso; apply (Other Nu); unfold holds_mu; now rewrite P].
      exfalso. rewrite (Own Qu) in Ru. unfold step_thread in F; rewrite P in F; crack F; inversion F; subst; discriminate Ru.
    - (* PTrig *)
      destruct (Nat.eq_dec u t) as [Qu|Nu]; [|exfalso; apply (Other Nu); unfold holds_mu; now rewrite P].
      exfalso. rewrite (Own Qu) in Ru. unfold step_thread in F; rewrite P in F; crack F; inversion F; subst; discriminate Ru.
    - (* PM2 *)
      destruct (Nat.eq_dec u t) as [Qu|Nu]; [|exfalso; apply (Other Nu); unfold holds_mu; now rewrite P].
      exfalso. rewrite (Own Qu) in Ru. destruct TF as (Yc & Oy & _).
      assert (NoMeta : (0 <? g_meta_closes (sh s)) = false).
      { pose proof (i_meta _ _ _ I) as Im. pose proof (i_open _ _ _ I) as Io. rewrite Yc, Io in Oy. apply Nat.ltb_lt in Oy.
        rewrite Im. destruct (Nat.leb_spec 9 (K (sh s) (ths s))); [lia | reflexivity]. }
      unfold step_thread in F; rewrite P, NoMeta in F. inversion F; subst. discriminate Ru.
    - (* PM3 *)
      destruct (Nat.eq_dec u t) as [Qu|Nu]; [|exfalso; apply (Other Nu); unfold holds_mu; now rewrite P].
      rewrite (Own Qu) in Ru. unfold step_thread in F; rewrite P in F.
      destruct (pm3_tx (sh s) (cur_op th) y k) as [gx hs] eqn:Tx. inversion F; subst g' th'; clear F.
      unfold inR in Ru. cbn in Ru. destruct k; try discriminate Ru.
      unfold pm3_tx, do_rotate in Tx. inversion Tx; subst gx hs. apply sealed_fresh.
    - (* PCLocked *)
      destruct (Nat.eq_dec u t) as [Qu|Nu]; [|exfalso; apply (Other Nu); unfold holds_mu; now rewrite P].
      exfalso. rewrite (Own Qu) in Ru. unfold step_thread in F; rewrite P in F; crack F; inversion F; subst; try discriminate Ru.
      all: try (apply NP; reflexivity).
    - (* PC6 *)
      unfold step_thread in F; rewrite P in F. inversion F; subst. apply sealed_pubE.
    - (* PRT3 *)
      destruct (Nat.eq_dec u t) as [Qu|Nu]; [|exfalso; apply (Other Nu); unfold holds_mu; now rewrite P].
      exfalso. rewrite (Own Qu) in Ru. unfold step_thread in F; rewrite P in F. inversion F; subst. discriminate Ru.
  Qed.

  Lemma inv4_step s t s' : Full w r s -> Inv4 s -> step s t = Some s' -> Inv4 s'.
  Proof.
    intros F0 Q H. destruct (step_decomp _ _ _ H) as (th & g' & th' & E & F & ->).
    assert (Lt : t < length (ths s)) by (eapply nth_error_Some_lt; eauto).
    constructor; cbn [sh ths].
    - apply (seal_step s t th g' th' F0 Q E F).
    - apply (rot_step s t th g' th' F0 Q E F).
    - intros u thu Eu. destruct (nth_error_upd_inv _ _ _ _ _ Eu) as [(-> & -> & _)|(Nu & Eu')].
      + apply (res_step s t th g' th' F0 Q E F).
      + apply (q_res _ Q u thu Eu').
  Qed.
End SS.

Lemma inv4_init progs extra : Inv4 (init progs extra).
Proof.
  assert (PC : forall t th, nth_error (ths (init progs extra)) t = Some th ->
                (t_pc th = PIdle \/ t_pc th = PRIdle) /\ t_outs th = []).
  { intros t th E. destruct (init_threads _ _ _ _ E) as [(p & _ & -> & _)|(_ & ->)]; cbn; auto. }
  constructor.
  - intros Sc. discriminate Sc.
  - intros t th E R. destruct (PC t th E) as [[P|P] _]; unfold inR in R; rewrite P in R; discriminate R.
  - intros t th E. destruct (PC t th E) as [[P|P] O]; unfold nosealed; rewrite P, O; reflexivity.
Qed.

Theorem inv4_reach w progs extra s :
  single_writer w progs extra -> reachable step (init progs extra) s -> Inv4 s.
Proof.
  intros SW R.
  assert (G : Full w (length progs) s /\ Inv4 s).
  { apply (reachable_inv sys step (fun s1 => Full w (length progs) s1 /\ Inv4 s1) (init progs extra)); [| |exact R].
    - split; [split; [apply safe_init | now apply inv1_init] | apply inv4_init].
    - intros s0 t s1 [F0 Q0] H. split; [eapply full_step; eauto | eapply inv4_step; eauto]. }
  exact (proj2 G).
Qed.

(* StoreLogs never finds the tail sealed: ErrSealed is never recorded *)
Theorem no_errsealed : forall w progs extra s,
  single_writer w progs extra -> reachable step (init progs extra) s ->
  forall t th res, nth_error (ths s) t = Some th -> In res (t_outs th) -> res <> ErrSealed.
Proof.
  intros w progs extra s SW R t th res E Hi ->.
  pose proof (q_res _ (inv4_reach w progs extra s SW R) t th E) as N. unfold nosealed in N.
  apply andb_true_iff in N. destruct N as [_ N]. rewrite forallb_forall in N. specialize (N _ Hi). discriminate N.
Qed.
