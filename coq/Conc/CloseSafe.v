(* CloseSafe.v -- a self-contained invariant of the L3 model, proved for every
   schedule: program counters are consistent with roles and calls, writeMu is
   held by exactly the threads that are inside a critical section (mutual
   exclusion), the state pointer is the newest state, and every file satisfies
   the durability chain  visible <= synced <= written <= published offsets;
   a reader about to read entry i of file h has i below the synced prefix.

   A Go panic terminates the process; `crashed` marks such states and the
   invariant is stated for the states reached without a panic (that no panic
   is reachable at all is a consequence of the larger invariant CloseInv.Inv1,
   see CloseStep1.no_panic). *)
From Coq Require Import List Arith Bool Lia.
From RW Require Import Conc.Sys Conc.SysFacts Conc.Close Conc.ListX Conc.CloseInv Conc.CloseFacts.
Import ListNotations.

Definition is_panic (th : thread) : bool := match t_pc th with PPanic => true | _ => false end.
Definition crashed (s : sys) : bool := existsb is_panic (ths s).

Definition factsB (g : shared) (th : thread) : Prop :=
  match t_pc th with
  | PLoaded x | PAcq x | PBody x | PApp1 x => x < length (g_states g)
  | PApp2 x => x < length (g_states g) /\ h_wr (tailh g x) = length (h_ents (tailh g x))
  | PApp3 x => x < length (g_states g) /\ h_wr (tailh g x) = length (h_ents (tailh g x)) /\
               h_syn (tailh g x) = h_wr (tailh g x)
  | PGetRead x h => match cur_op th with
                    | Some (OGet i) => h_base (geth g h) <= i /\ i - h_base (geth g h) < h_syn (geth g h)
                    | _ => True
                    end
  | _ => True
  end.

Record Safe (s : sys) : Prop := {
  a_wf : forall t th, nth_error (ths s) t = Some th -> pc_ok th = true;
  a_mu1 : forall t th, nth_error (ths s) t = Some th -> holds_mu th = true -> g_mu (sh s) = Some t;
  a_mu2 : forall t, g_mu (sh s) = Some t -> exists th, nth_error (ths s) t = Some th /\ holds_mu th = true;
  a_last : S (g_cur (sh s)) = length (g_states (sh s));
  a_chain : forall h, h_chain (geth (sh s) h);
  a_thr : forall t th, nth_error (ths s) t = Some th -> factsB (sh s) th
}.

(* ---- small lemmas ------------------------------------------------------------------- *)
Lemma geth_upd_h g t v h :
  geth (upd_h g t v) h = if (t =? h) && (t <? length (g_hnds g)) then v else geth g h.
Proof.
  unfold geth, upd_h, set_hnds. cbn [g_hnds]. destruct (Nat.eqb_spec t h) as [->|N]; cbn [andb].
  - destruct (Nat.ltb_spec h (length (g_hnds g))); [now apply nth_upd_eq | now rewrite upd_oob by lia].
  - now apply nth_upd_neq.
Qed.

Definition io (h : hnd) := (h_base h, h_ents h, h_wr h, h_syn h, h_cnt h).

Lemma close_all_io : forall hs l h, io (nth h (close_all l hs) dh) = io (nth h l dh).
Proof.
  induction hs as [|a hs IH]; intros l h; cbn [close_all]; [reflexivity|].
  rewrite IH. destruct (Nat.eq_dec a h) as [->|N].
  - destruct (Nat.lt_ge_cases h (length l)).
    + rewrite nth_upd_eq by assumption. reflexivity.
    + now rewrite upd_oob by lia.
  - now rewrite nth_upd_neq by assumption.
Qed.

Lemma chain_dh : h_chain dh.
Proof. unfold h_chain, dh; cbn; lia. Qed.

Lemma seg_for_base g i : forall segs acc h,
  seg_for g segs i acc = Some h ->
  (forall a, acc = Some a -> h_base (geth g a) <= i) -> h_base (geth g h) <= i.
Proof.
  induction segs as [|a segs IH]; intros acc h H Ha; cbn in H; [now apply Ha|].
  destruct (Nat.leb_spec (h_base (geth g a)) i) as [L|L].
  - eapply IH; eauto. intros b Hb. inversion Hb; subst. exact L.
  - now apply Ha.
Qed.

Lemma getst_upd_st g x st0 y :
  getst (upd_st g x st0) y = if (x =? y) && (x <? length (g_states g)) then st0 else getst g y.
Proof.
  unfold getst, upd_st, set_states. cbn [g_states]. destruct (Nat.eqb_spec x y) as [->|N]; cbn [andb].
  - destruct (Nat.ltb_spec y (length (g_states g))); [now apply nth_upd_eq | now rewrite upd_oob by lia].
  - now apply nth_upd_neq.
Qed.

(* what a step does to files and states, as far as the invariant is concerned *)
Record frame (g g' : shared) : Prop := {
  f_len : length (g_states g) <= length (g_states g');
  f_segs : forall x, x < length (g_states g) -> s_segs (getst g' x) = s_segs (getst g x);
  f_base : forall h, h < length (g_hnds g) -> h_base (geth g' h) = h_base (geth g h);
  f_new : forall h, length (g_hnds g) <= h -> io (geth g' h) = io dh \/ exists b, io (geth g' h) = io (new_hnd b)
}.

Lemma frame_refl g : frame g g.
Proof.
  split; auto. intros h L. left. unfold geth. now rewrite nth_overflow by lia.
Qed.

Lemma segs_upd_st g x f y :
  (forall st0, s_segs (f st0) = s_segs st0) ->
  s_segs (getst (upd_st g x (f (getst g x))) y) = s_segs (getst g y).
Proof.
  intros Hf. rewrite getst_upd_st. destruct ((x =? y) && (x <? length (g_states g))) eqn:B; [|reflexivity].
  apply andb_true_iff in B. destruct B as [B _]. apply Nat.eqb_eq in B. subst. apply Hf.
Qed.

Lemma frame_upd_st g x f :
  (forall st0, s_segs (f st0) = s_segs st0) -> frame g (upd_st g x (f (getst g x))).
Proof.
  intros Hf. split.
  - unfold upd_st, set_states; cbn. rewrite upd_length. lia.
  - intros y _. now apply segs_upd_st.
  - reflexivity.
  - intros h L. left. unfold geth, upd_st, set_states; cbn. now rewrite nth_overflow by lia.
Qed.

Lemma frame_hnds g l :
  length l = length (g_hnds g) ->
  (forall h, h_base (nth h l dh) = h_base (geth g h)) -> frame g (set_hnds g l).
Proof.
  intros Hl Hb. split; cbn; auto.
  intros h L. left. unfold geth, set_hnds; cbn. now rewrite nth_overflow by lia.
Qed.

Lemma frame_publish g nh st0 :
  (nh = [] \/ exists b, nh = [new_hnd b]) ->
  frame g (publish (set_hnds g (g_hnds g ++ nh)) st0).
Proof.
  intros Hn. split.
  - cbn. rewrite app_length. lia.
  - intros x L. unfold getst, publish, set_hnds; cbn. now rewrite app_nth1 by exact L.
  - intros h L. unfold geth, publish, set_hnds; cbn. now rewrite app_nth1 by exact L.
  - intros h L. unfold geth, publish, set_hnds; cbn. rewrite app_nth2 by exact L.
    destruct Hn as [->|[b ->]].
    + left. now destruct (h - length (g_hnds g)).
    + destruct (h - length (g_hnds g)) as [|[|k]]; [right; exists b; reflexivity | left; reflexivity | left; reflexivity].
Qed.

Lemma frame_ctl g g' :
  g_states g' = g_states g -> g_hnds g' = g_hnds g -> frame g g'.
Proof.
  intros A B. split.
  - now rewrite A.
  - intros x _. unfold getst. now rewrite A.
  - intros h _. unfold geth. now rewrite B.
  - intros h L. left. unfold geth. rewrite B. now rewrite nth_overflow by lia.
Qed.

(* ---- facts of a thread that does not move survive a step of another thread --------- *)
Lemma factsB_frame g g' thu :
  frame g g' ->
  (forall h, h < length (g_hnds g) -> h_syn (geth g h) <= h_syn (geth g' h)) ->
  (holds_mu thu = true -> forall h, io (geth g' h) = io (geth g h)) ->
  factsB g thu -> factsB g' thu.
Proof.
  intros Fr Mono Hio. unfold factsB, tailh, tail_of.
  pose proof (f_len _ _ Fr) as FL.
  destruct (t_pc thu) eqn:P; try (intros; exact I); try (intros; lia).
  - (* PGetRead *)
    destruct (cur_op thu) as [[]|]; try (intros; exact I). intros [B L].
    destruct (Nat.lt_ge_cases h (length (g_hnds g))) as [Lh|Lh].
    + rewrite (f_base _ _ Fr h Lh). specialize (Mono h Lh). lia.
    + exfalso. unfold geth in L. rewrite nth_overflow in L by lia. cbn in L. lia.
  - (* PApp2 *)
    intros [Lx W]. split; [lia|].
    assert (Hm : holds_mu thu = true) by (unfold holds_mu; now rewrite P).
    rewrite (f_segs _ _ Fr x Lx). pose proof (Hio Hm (last (s_segs (getst g x)) 0)) as Q. unfold io in Q. congruence.
  - (* PApp3 *)
    intros (Lx & W & Sy). split; [lia|].
    assert (Hm : holds_mu thu = true) by (unfold holds_mu; now rewrite P).
    rewrite (f_segs _ _ Fr x Lx). pose proof (Hio Hm (last (s_segs (getst g x)) 0)) as Q. unfold io in Q.
    split; congruence.
Qed.

Lemma chain_io h h' : io h' = io h -> h_chain h -> h_chain h'.
Proof. unfold io, h_chain. intros Q. inversion Q. congruence. Qed.

(* ---- pc consistency and the mutex, for a step that does not panic ----------------- *)
Lemma wf_step1 g t th g' th' :
  pc_ok th = true -> step_thread g t th = Some (g', th') -> t_pc th' <> PPanic -> pc_ok th' = true.
Proof.
  intros WF F NP.
  destruct th as [rot prog outs p]. unfold step_thread in F. cbn [t_pc] in F.
  destruct p; cbn in F; crack F; try (destruct (pm3_tx _ _ _ _) eqn:?); inversion F; subst; clear F.
  all: try (exfalso; apply NP; reflexivity). all: clear NP.
  all: unfold pc_ok, op_locking, op_close, cur_op, continue, finish, setpc in *; cbn in *.
  all: destruct rot; cbn in *; try discriminate; try reflexivity; try assumption.
  all: repeat match goal with
              | H : hd_error ?p = Some _ |- _ => destruct p; cbn in H; [discriminate|]; inversion H; subst; clear H
              | H : hd_error ?p = None |- _ => destruct p; cbn in H; [|discriminate]; clear H
              end; cbn in *; try discriminate; try reflexivity; try assumption.
  all: repeat match goal with
              | k : kont |- _ => destruct k; cbn in *; try discriminate; try reflexivity; try assumption
              end.
  all: repeat match goal with
              | H : context [match ?p with [] => _ | _ :: _ => _ end] |- _ => destruct p; cbn in *; try discriminate; try reflexivity; try assumption
              | o : op |- _ => destruct o; cbn in *; try discriminate; try reflexivity; try assumption
              end.
  all: try (destruct prog as [|[] ?]; cbn in *; try discriminate; try reflexivity; try assumption; fail).
Qed.

Lemma mu_change1 g t th g' th' :
  pc_ok th = true -> step_thread g t th = Some (g', th') -> t_pc th' <> PPanic ->
  (holds_mu th' = holds_mu th /\ g_mu g' = g_mu g) \/
  (holds_mu th = false /\ holds_mu th' = true /\ g_mu g = None /\ g_mu g' = Some t) \/
  (holds_mu th = true /\ holds_mu th' = false /\ g_mu g' = None).
Proof.
  intros WF F NP.
  destruct th as [rot prog outs p]. unfold step_thread in F. cbn [t_pc] in F.
  destruct p; cbn in F; crack F.
  all: try (match goal with Q : pm3_tx ?g ?o ?y ?k = (?a, ?b) |- _ =>
              destruct (pm3_shape g o y k) as (segs & mn & nh & Q1 & Q2); rewrite Q in Q1; cbn [fst] in Q1; subst a end).
  all: inversion F; subst; clear F.
  all: try (exfalso; apply NP; reflexivity). all: clear NP.
  all: unfold pc_ok, holds_mu, op_locking, op_close, cur_op, continue, finish, setpc in *; cbn in *.
  all: try (left; split; reflexivity).
  all: try (right; left; repeat split; reflexivity).
  all: try (right; right; repeat split; reflexivity).
  all: destruct rot; cbn in *; try discriminate.
  all: repeat match goal with
              | H : hd_error ?p = Some _ |- _ => destruct p; cbn in H; [discriminate|]; inversion H; subst; clear H
              | H : hd_error ?p = None |- _ => destruct p; cbn in H; [|discriminate]; clear H
              end; cbn in *; try discriminate.
  all: try (left; split; reflexivity).
  all: repeat match goal with
              | k : kont |- _ => destruct k; cbn in *; try discriminate
              end.
  all: try (left; split; reflexivity).
  all: try (right; right; repeat split; reflexivity).
  all: repeat match goal with
              | H : context [match ?p with [] => _ | _ :: _ => _ end] |- _ => destruct p; cbn in *; try discriminate
              | o : op |- _ => destruct o; cbn in *; try discriminate
              end.
  all: try (left; split; reflexivity).
  all: try (right; right; repeat split; reflexivity).
  all: try (destruct prog as [|[] ?]; cbn in *; try discriminate; try (left; split; reflexivity);
            try (right; right; repeat split; reflexivity); fail).
  all: try (right; left; repeat split; first [reflexivity | assumption]).
  all: try (left; split; first [reflexivity | assumption]).
Qed.

(* ---- frames of the individual actions ------------------------------------------------ *)
Lemma frame_ref g x n : frame g (upd_st g x (st_ref (getst g x) n)).
Proof. apply (frame_upd_st g x (fun s0 => st_ref s0 n)). reflexivity. Qed.
Lemma frame_fin g x f : frame g (upd_st g x (st_fin (getst g x) f)).
Proof. apply (frame_upd_st g x (fun s0 => st_fin s0 f)). reflexivity. Qed.
Lemma frame_retire g x f : frame g (upd_st g x (st_retire (getst g x) f)).
Proof. apply (frame_upd_st g x (fun s0 => st_retire s0 f)). reflexivity. Qed.

Lemma close_all_length : forall hs l, length (close_all l hs) = length l.
Proof. induction hs as [|a hs IH]; intros l; cbn; [reflexivity|]. now rewrite IH, upd_length. Qed.

Lemma frame_close g hs : frame g (set_hnds g (close_all (g_hnds g) hs)).
Proof.
  apply frame_hnds; [apply close_all_length|]. intros h.
  pose proof (close_all_io hs (g_hnds g) h) as Q. unfold io in Q. unfold geth. congruence.
Qed.

Lemma frame_publish0 g st0 : frame g (publish g st0).
Proof.
  replace (publish g st0) with (publish (set_hnds g (g_hnds g ++ [])) st0).
  - apply frame_publish. now left.
  - rewrite app_nil_r. destruct g; reflexivity.
Qed.

Lemma frame_upd_h g t v : h_base v = h_base (geth g t) -> frame g (upd_h g t v).
Proof.
  intros B. apply frame_hnds; [apply upd_length|]. intros h.
  change (nth h (upd (g_hnds g) t v) dh) with (geth (upd_h g t v) h). rewrite geth_upd_h.
  destruct ((t =? h) && (t <? length (g_hnds g))) eqn:Q; [|reflexivity].
  apply andb_true_iff in Q. destruct Q as [Q _]. apply Nat.eqb_eq in Q. now subst.
Qed.

Lemma existsb_upd {A} (f : A -> bool) l t x : t < length l -> f x = true -> existsb f (upd l t x) = true.
Proof.
  intros L F. apply existsb_exists. exists x. split; [|exact F].
  apply nth_error_In with (n := t). now apply nth_error_upd_eq.
Qed.

Definition core (g g' : shared) (th th' : thread) : Prop :=
  frame g g' /\ S (g_cur g') = length (g_states g') /\ (forall h, h_chain (geth g' h)) /\
  (forall h, h < length (g_hnds g) -> h_syn (geth g h) <= h_syn (geth g' h)) /\
  (holds_mu th = true \/ forall h, io (geth g' h) = io (geth g h)) /\ factsB g' th'.

(* a step that leaves the files' io fields alone *)
Lemma core_same g g' th th' :
  frame g g' -> S (g_cur g') = length (g_states g') -> (forall h, h_chain (geth g h)) ->
  (forall h, io (geth g' h) = io (geth g h)) -> factsB g' th' -> core g g' th th'.
Proof.
  intros Fr La Ch Io Fa. unfold core.
  split; [exact Fr|]. split; [exact La|]. split; [|split; [|split; [now right | exact Fa]]].
  - intros h. eapply chain_io; [apply Io | apply Ch].
  - intros h _. pose proof (Io h) as Q. unfold io in Q. inversion Q. lia.
Qed.
