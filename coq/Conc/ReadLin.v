(* ReadLin.v -- per-read linearizability: every in-flight read carries a justification
   (a state between its invocation and now in which the abstract log gives the result it
   is going to return); the justification survives every step *)
From Coq Require Import List Arith Bool Lia.
From RW Require Import Conc.Sys Conc.SysFacts Conc.Close Conc.ListX Conc.CloseInv Conc.CloseInv2 Conc.CloseFacts
     Conc.CloseSafe Conc.CloseSafeStep Conc.CloseStep1 Conc.CloseReach Conc.CloseStep3 Conc.CloseStep5 Conc.CloseReach2
     Conc.ReadInv Conc.ReadStep Conc.Readers Conc.ReadView Conc.ReadStable Conc.ReadFrame.
Import ListNotations.

Definition just (H : list sys) (a n : nat) (o : op) (res : outcome) : Prop :=
  exists k, a <= k <= n /\ exists sk, nth_error H k = Some sk /\ lin_at (sh sk) o res.

Lemma just_mono H a n o res s' : just H a n o res -> just (H ++ [s']) a (S n) o res.
Proof.
  intros (k & Lk & sk & Ek & Lin). exists k. split; [lia|]. exists sk. split; [|exact Lin].
  rewrite nth_error_app1; [exact Ek | eapply nth_error_Some_lt; eauto].
Qed.

Lemma just_new H a n o res s' : length H = S n -> a <= S n -> lin_at (sh s') o res -> just (H ++ [s']) a (S n) o res.
Proof.
  intros L La Lin. exists (S n). split; [lia|]. exists s'. split; [|exact Lin].
  rewrite nth_error_app2 by lia. rewrite L, Nat.sub_diag. reflexivity.
Qed.

(* what an in-flight read at program counter p is going to return is justified *)
Definition claim (g : shared) (H : list sys) (a n : nat) (o : op) (p : pc) : Prop :=
  match p with
  | PBody x => just H a n o (view g x o)
  | PGetRead x h => match o with
                    | OGet i => just H a n o (Ok (nth (i - hb g h) (h_ents (geth g h)) 0))
                    | _ => True
                    end
  | PRel _ res KRet | PLast _ res KRet | PRun _ _ res KRet => just H a n o res
  | _ => True
  end.

Lemma read_log_ok g h i v : read_log g h i = Ok v -> v = nth (i - h_base (geth g h)) (h_ents (geth g h)) 0.
Proof. unfold read_log. destruct (_ <=? _); [discriminate|]. destruct (_ <? _); [discriminate|]. intros Q. now inversion Q. Qed.

Section Lin.
  Variables (w r : tid) (orig : list (list op)).

  Definition good (s : sys) : Prop := Full2 w r orig s /\ Inv3 (sh s).

  Lemma good_step s t s' : good s -> step s t = Some s' -> good s'.
  Proof. intros [F2 K] H. split; [eapply full2_step; eauto | eapply inv3_step; [exact (proj1 F2) | exact K | exact H]]. Qed.

  (* the claim of another thread survives the step *)
  Lemma claim_other s t s' u thu o H a n :
    good s -> step s t = Some s' -> nth_error (ths s) u = Some thu -> cur_op thu = Some o -> is_read_op o = true ->
    length H = S n -> a <= n ->
    claim (sh s) H a n o (t_pc thu) -> claim (sh s') (H ++ [s']) a (S n) o (t_pc thu).
  Proof.
    intros [[F0 J] K] St Eu Ou Ro LH La C. pose proof F0 as [SA I].
    pose proof (a_last _ SA) as Las.
    pose proof (a_thr _ SA _ _ Eu) as FB. unfold factsB in FB.
    pose proof (i_thr _ _ _ I _ _ Eu) as TF. unfold th_facts1 in TF.
    pose proof (j_thr _ _ J _ _ Eu) as TJ. unfold th_facts2 in TJ.
    unfold claim in *. destruct (t_pc thu) eqn:Pu; try exact Logic.I.
    - (* PBody: view stability *)
      destruct TF as [Ox _].
      destruct (view_step w r s t s' x o F0 K St ltac:(lia) Ox Ro) as [Q|(Qc & Oc & Q)].
      + rewrite Q. now apply just_mono.
      + rewrite Q. apply just_new; [exact LH | lia|]. left. apply spec_view; [exact Oc | exact Ro].
    - (* PGetRead: the entry about to be read does not change *)
      destruct o; try exact Logic.I. rewrite Ou in FB. destruct TJ as [Hi _].
      assert (Lx : x < length (g_states (sh s))).
      { apply (held_lt orig s u thu x J Eu). unfold href. rewrite Pu, Nat.eqb_refl. cbn. lia. }
      assert (Lh : h < nh_ (sh s)) by (apply (k_hlt _ K x h Lx Hi)).
      destruct (step_decomp _ _ _ St) as (th & g' & th' & E & F & ->). cbn [sh].
      pose proof (no_panic w r _ _ _ _ _ SA I E F) as NP.
      destruct (ents_step _ _ _ _ _ h F NP Lh) as (Qb & e & Qe).
      rewrite Qb, Qe. pose proof (a_chain _ SA h) as Ch. unfold h_chain in Ch.
      rewrite app_nth1 by (unfold hb; lia). now apply just_mono.
    - destruct k; try exact Logic.I. now apply just_mono.
    - destruct k; try exact Logic.I. now apply just_mono.
    - destruct k; try exact Logic.I. now apply just_mono.
  Qed.

  (* the stepping thread: its claim moves along with its program counter; when the call
     returns, the recorded outcome is justified *)
  Lemma claim_own s t th g' th' o H a n :
    good s -> nth_error (ths s) t = Some th -> step_thread (sh s) t th = Some (g', th') ->
    cur_op th = Some o -> is_read_op o = true -> t_rot th = false ->
    length H = S n -> nth_error H n = Some s -> a <= n ->
    (t_pc th = PIdle -> a = n) -> (t_pc th <> PIdle -> claim (sh s) H a n o (t_pc th)) ->
    let s' := {| sh := g'; ths := upd (ths s) t th' |} in
    (t_pc th' <> PIdle -> t_outs th' = t_outs th /\ claim g' (H ++ [s']) a (S n) o (t_pc th')) /\
    (t_pc th' = PIdle -> t_outs th' = t_outs th ++ [last (t_outs th') Panic] /\
                         just (H ++ [s']) a (S n) o (last (t_outs th') Panic)).
  Proof.
    intros G E F Oo Ro Rf LH Hn La A0 C s'. pose proof G as [[F0 J] K]. pose proof F0 as [SA I].
    assert (St : step s t = Some s') by (unfold step; rewrite E, F; reflexivity).
    pose proof (good_step s t s' G St) as [[F0' J'] K'].
    pose proof (no_panic w r _ _ _ _ _ SA I E F) as NP. pose proof (i_wf _ _ _ I _ _ E) as WF.
    pose proof (a_last _ SA) as Las.
    assert (Lt : t < length (ths s)) by (eapply nth_error_Some_lt; eauto).
    assert (E' : nth_error (ths s') t = Some th') by (unfold s'; cbn; now apply nth_error_upd_eq).
    pose proof (j_thr _ _ J' _ _ E') as TJ'. unfold th_facts2 in TJ'.
    unfold pc_ok in WF. rewrite Rf, Oo in WF.
    assert (Mono : forall res, just H a n o res -> just (H ++ [s']) a (S n) o res) by (intros; now apply just_mono).
    assert (Lst : forall res, last (t_outs th ++ [res]) Panic = res) by (intros; apply last_last).
    unfold step_thread in F; crack F;
      try (destruct (pm3_tx _ _ _ _) eqn:?); inversion F; subst g' th'; clear F.
    all: try (exfalso; apply NP; reflexivity).
    all: repeat match goal with Q : t_pc _ = _ |- _ => rewrite Q in WF, C end.
    all: repeat match goal with Q : cur_op _ = Some _ |- _ => rewrite Q in WF, Oo end.
    all: try discriminate WF.
    all: try (inversion Oo; subst o).
    all: try discriminate Ro.
    all: try (match goal with |- context [continue _ _ ?k0] => destruct k0; try discriminate WF end).
    all: cbn [continue t_pc setpc finish t_outs cur_op t_prog] in *.
    all: split; intros PI; try congruence.
    all: try (split; [reflexivity|]).
    all: try exact Logic.I.
    all: rewrite ?Lst.
    all: try (split; [reflexivity|]).
    all: try (destruct o; try discriminate Ro; try discriminate WF).
    all: try (match goal with |- claim _ _ _ _ _ (_ _ _ ?k0) => is_var k0; destruct k0; try discriminate WF end).
    all: try (match goal with |- claim _ _ _ _ _ (_ _ _ _ ?k0) => is_var k0; destruct k0; try discriminate WF end).
    all: try exact Logic.I.
    (* claims that are carried along *)
    all: try (unfold claim; apply Mono; apply C; discriminate).
    (* readFrame returns the entry or an I/O error; the latter is excluded by part 2 *)
    all: try (exfalso; match goal with Q : read_log ?g0 ?h0 ?i0 = _ |- _ =>
                destruct (read_log_cases g0 h0 i0) as [Q1|[[Q1 _]|[v1 Q1]]]; rewrite Q1 in Q; try discriminate Q end;
              destruct TJ' as [_ Ro']; unfold res_ok in Ro'; specialize (Ro' Rf); cbn [cur_op setpc t_prog] in Ro';
              unfold cur_op in *; rewrite Heqo0 in Ro'; cbn in Ro'; discriminate Ro').
    - (* closed flag already set *)
      exists n. split; [rewrite (A0 eq_refl); lia|]. exists s. split; [rewrite nth_error_app1 by lia; exact Hn|].
      right. split; [reflexivity | exact Heqb].
    - exists n. split; [rewrite (A0 eq_refl); lia|]. exists s. split; [rewrite nth_error_app1 by lia; exact Hn|].
      right. split; [reflexivity | exact Heqb].
    - exists n. split; [rewrite (A0 eq_refl); lia|]. exists s. split; [rewrite nth_error_app1 by lia; exact Hn|].
      right. split; [reflexivity | exact Heqb].
    - (* validated: the version is current *)
      apply negb_false_iff, Nat.eqb_eq in Heqb. unfold claim. apply just_new; [exact LH | lia|]. left.
      change (sh s') with (sh s). rewrite <- Heqb. apply spec_view; [unfold cur_st; rewrite Heqb; exact Heqb0 | exact Ro].
    - (* the current version is the closed one *)
      apply negb_false_iff, Nat.eqb_eq in Heqb. unfold claim.
      replace (if is_locking o0 then KUnlock else KRet) with KRet by (destruct o0; try discriminate Ro; reflexivity).
      apply just_new; [exact LH | lia|]. left. change (sh s') with (sh s). unfold spec_read, cur_st. now rewrite Heqb, Heqb0.
    - (* GetLog: the segment lookup *)
      unfold claim. apply Mono. specialize (C ltac:(discriminate)). unfold claim in C. rewrite view_get in C.
      match goal with Q : find_log _ _ _ = Some _ |- _ => rewrite Q in C end. exact C.
    - unfold claim. apply Mono. specialize (C ltac:(discriminate)). unfold claim in C. rewrite view_get in C.
      match goal with Q : find_log _ _ _ = None |- _ => rewrite Q in C end. exact C.
    - (* readFrame *)
      unfold claim. apply Mono. specialize (C ltac:(discriminate)). unfold claim in C.
      match goal with Q : read_log _ _ _ = Ok _ |- _ => rewrite (read_log_ok _ _ _ _ Q) end. exact C.
    - exfalso. destruct TJ' as [_ Ro']. specialize (Ro' Rf).
      change (cur_op (setpc th (PRel x IOErr KRet))) with (cur_op th) in Ro'.
      match goal with Q : cur_op th = Some (OGet _) |- _ => rewrite Q in Ro' end. discriminate Ro'.
  Qed.
End Lin.
