(* CloseOpen.v -- consequence of the invariants for one state: every file handle of a state
   that a validated holder holds is still open (its close count is 0) *)
From Coq Require Import List Arith Bool Lia.
From RW Require Import Conc.Sys Conc.Close Conc.ListX Conc.CloseInv Conc.CloseInv2 Conc.CloseFacts
     Conc.CloseSafe Conc.CloseReach Conc.CloseCount.
Import ListNotations.

Lemma nth_error_getst g x : x < length (g_states g) -> nth_error (g_states g) x = Some (getst g x).
Proof.
  intros L. unfold getst. destruct (nth_error (g_states g) x) eqn:E.
  - now rewrite (nth_error_nth' _ _ _ dst E).
  - apply nth_error_None in E. lia.
Qed.

Section Open.
  Variables (w r : tid) (orig : list (list op)).

  Lemma owned_open s h : Inv2 orig s -> 0 < owners (sh s) (ths s) h -> h_closes (geth (sh s) h) = 0.
  Proof.
    intros J O. destruct (j_own _ _ J h) as [W1 W2].
    destruct (Nat.lt_ge_cases h (length (g_hnds (sh s)))) as [L|L]; [specialize (W1 L); lia | specialize (W2 L); lia].
  Qed.

  (* handles listed by a finalizer that has not run are owned *)
  Lemma unrun_owned s y hs h :
    Full w r s -> Inv2 orig s -> unrun (sh s) (ths s) y hs -> y < length (g_states (sh s)) -> In h hs ->
    0 < owners (sh s) (ths s) h.
  Proof.
    intros [SA I] J U Ly Hi. apply cnt_In in Hi. unfold owners.
    destruct U as [(sc & Q)|[(t & th & E & Q)|(t & th & e & E & P & Q)]].
    - pose proof (sum_ge_nth (fun st0 => fin_cnt (s_fin st0) h) (g_states (sh s)) y _ (nth_error_getst (sh s) y Ly)) as G.
      cbn beta in G. rewrite Q in G. cbn in G. lia.
    - pose proof (sum_ge_nth (fun th0 => hpend (sh s) th0 h) (ths s) t th E) as G. cbn beta in G.
      unfold fin_pending in Q. destruct (t_pc th) eqn:P; try discriminate.
      destruct f; try discriminate. destruct (y0 =? y); [|discriminate]. inversion Q; subst.
      assert (Hq : hpend (sh s) th h = cnt h hs) by (unfold hpend; rewrite P; reflexivity). rewrite Hq in G. lia.
    - pose proof (sum_ge_nth (fun th0 => hpend (sh s) th0 h) (ths s) t th E) as G. cbn beta in G.
      assert (Hq : hpend (sh s) th h = cnt h hs) by (unfold hpend; rewrite P; subst hs; reflexivity). rewrite Hq in G. lia.
  Qed.

  (* what the finalizer of y does not close is carried over to the next state *)
  Lemma unrun_incl s y hs h :
    Full w r s -> Inv2 orig s -> unrun (sh s) (ths s) y hs -> y < length (g_states (sh s)) ->
    In h (s_segs (getst (sh s) y)) -> In h (s_segs (getst (sh s) (S y))) \/ In h hs.
  Proof.
    intros [SA I] J U Ly Hi.
    destruct U as [(sc & Q)|[(t & th & E & Q)|(t & th & e & E & P & Q)]].
    - destruct (j_fin _ _ J y hs sc Ly Q) as (Sc & _ & _ & _ & Inc). subst sc. auto.
    - pose proof (j_thr _ _ J _ _ E) as TJ. unfold th_facts2 in TJ. unfold fin_pending in Q.
      destruct (t_pc th); try discriminate. destruct f; try discriminate.
      destruct (Nat.eqb_spec y0 y) as [->|]; [|discriminate]. inversion Q; subst.
      destruct TJ as (hs' & Qf & _ & _ & Inc). inversion Qf; subst. auto.
    - right. subst hs. exact Hi.
  Qed.

  Lemma held_handle_open s x h :
    Full w r s -> Inv2 orig s ->
    (forall y, x <= y -> y < g_cur (sh s) -> exists hs, unrun (sh s) (ths s) y hs) ->
    x <= g_cur (sh s) -> In h (s_segs (getst (sh s) x)) -> h_closes (geth (sh s) h) = 0.
  Proof.
    intros F J Pr. pose proof (a_last _ (proj1 F)) as La.
    remember (g_cur (sh s) - x) as n eqn:Hn. revert x Hn Pr.
    induction n as [|n IH]; intros x Hn Pr Lx Hi.
    - assert (x = g_cur (sh s)) by lia. subst x. apply (owned_open s h J).
      destruct (s_open (getst (sh s) (g_cur (sh s)))) eqn:O.
      + unfold owners, live. rewrite O. apply cnt_In in Hi. lia.
      + rewrite (j_nseg _ _ J _ O) in Hi. destruct Hi.
    - assert (Lc : x < g_cur (sh s)) by lia. destruct (Pr x (Nat.le_refl _) Lc) as (hs & U).
      destruct (unrun_incl s x hs h F J U ltac:(lia) Hi) as [Hn'|Hh].
      + apply (IH (S x)); [lia | | lia | exact Hn']. intros y Ly Lyc. apply Pr; lia.
      + apply (owned_open s h J). apply (unrun_owned s x hs h F J U ltac:(lia) Hh).
  Qed.
End Open.
