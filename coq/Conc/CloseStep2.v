(* CloseStep2.v -- every step preserves part 2 of the invariant (CloseInv2.Inv2), given part 1 *)
From Coq Require Import List Arith Bool Lia.
From RW Require Import Conc.Sys Conc.SysFacts Conc.Close Conc.ListX Conc.CloseInv Conc.CloseInv2 Conc.CloseFacts
     Conc.CloseK Conc.CloseSafe Conc.CloseSafeStep Conc.CloseStep1 Conc.CloseFrames Conc.CloseFrames2
     Conc.CloseStepInv Conc.CloseStepThr Conc.CloseStepOwn Conc.CloseReach Conc.CloseCount.
Import ListNotations.

Lemma sum_upd_same {A} (f : A -> nat) l i a b :
  nth_error l i = Some a -> f b = f a -> sum f (upd l i b) = sum f l.
Proof. intros E Q. pose proof (sum_upd f l i a b E). lia. Qed.

Lemma getst_nth g x st0 : nth_error (g_states g) x = Some st0 -> getst g x = st0.
Proof. intros E. unfold getst. now apply nth_error_nth'. Qed.

Lemma nth_error_getst g x : x < length (g_states g) -> nth_error (g_states g) x = Some (getst g x).
Proof.
  intros L. unfold getst. destruct (nth_error (g_states g) x) eqn:E.
  - now rewrite (nth_error_nth' _ _ _ dst E).
  - apply nth_error_None in E. lia.
Qed.

Lemma upd_ref_shape g z n :
  z < length (g_states g) ->
  let g' := upd_st g z (st_ref (getst g z) n) in
  length (g_states g') = length (g_states g) /\
  (forall x, s_ref (getst g' x) = if z =? x then n else s_ref (getst g x)) /\
  (forall x, sum (fun st0 => fsucc (s_fin st0) x) (g_states g') = sum (fun st0 => fsucc (s_fin st0) x) (g_states g)).
Proof.
  intros L. cbn zeta. split; [cbn; now rewrite upd_length|]. split.
  - intros x. rewrite getst_upd_st. destruct (Nat.eqb_spec z x) as [->|N]; cbn [andb].
    + apply Nat.ltb_lt in L. now rewrite L.
    + reflexivity.
  - intros x. cbn. apply sum_upd_same with (a := getst g z); [now apply nth_error_getst | reflexivity].
Qed.

Lemma upd_fin_shape g z (f : st -> st) :
  z < length (g_states g) -> (forall st0, s_ref (f st0) = s_ref st0) ->
  let g' := upd_st g z (f (getst g z)) in
  length (g_states g') = length (g_states g) /\
  (forall x, s_ref (getst g' x) = s_ref (getst g x)) /\
  (forall x, sum (fun st0 => fsucc (s_fin st0) x) (g_states g') + fsucc (s_fin (getst g z)) x =
             sum (fun st0 => fsucc (s_fin st0) x) (g_states g) + fsucc (s_fin (f (getst g z))) x).
Proof.
  intros L Hf. cbn zeta. split; [cbn; now rewrite upd_length|]. split.
  - intros x. rewrite getst_upd_st. destruct ((z =? x) && (z <? length (g_states g))) eqn:B; [|reflexivity].
    apply andb_true_iff in B. destruct B as [B _]. apply Nat.eqb_eq in B. subst. apply Hf.
  - intros x. cbn. apply (sum_upd (fun st0 => fsucc (s_fin st0) x) (g_states g) z (getst g z)).
    now apply nth_error_getst.
Qed.

Lemma publish_shape g nh st0 :
  let g' := publish (set_hnds g (g_hnds g ++ nh)) st0 in
  length (g_states g') = S (length (g_states g)) /\
  (forall x, x < length (g_states g) -> getst g' x = getst g x) /\
  getst g' (length (g_states g)) = st0 /\
  (forall x, sum (fun st1 => fsucc (s_fin st1) x) (g_states g') =
             sum (fun st1 => fsucc (s_fin st1) x) (g_states g) + fsucc (s_fin st0) x).
Proof.
  cbn zeta. split; [cbn; rewrite app_length; cbn; lia|]. split; [|split].
  - intros x L. unfold getst; cbn. now rewrite app_nth1 by exact L.
  - unfold getst; cbn. rewrite app_nth2 by lia. now rewrite Nat.sub_diag.
  - intros x. cbn. rewrite sum_app. cbn. lia.
Qed.

Lemma own_upd_st g z (f : st -> st) h :
  z < length (g_states g) ->
  (forall st0, s_open (f st0) = s_open st0) -> (forall st0, s_segs (f st0) = s_segs st0) ->
  let g' := upd_st g z (f (getst g z)) in
  live g' h = live g h /\
  sum (fun st0 => fin_cnt (s_fin st0) h) (g_states g') + fin_cnt (s_fin (getst g z)) h =
  sum (fun st0 => fin_cnt (s_fin st0) h) (g_states g) + fin_cnt (s_fin (f (getst g z))) h.
Proof.
  intros L Ho Hs. cbn zeta. split.
  - unfold live. cbn [g_cur upd_st set_states]. rewrite getst_upd_st.
    destruct ((z =? g_cur g) && (z <? length (g_states g))) eqn:B; [|reflexivity].
    apply andb_true_iff in B. destruct B as [B _]. apply Nat.eqb_eq in B. subst. now rewrite Ho, Hs.
  - cbn. apply (sum_upd (fun st0 => fin_cnt (s_fin st0) h) (g_states g) z (getst g z)). now apply nth_error_getst.
Qed.

(* the reference-count equation of one state *)
Definition refeq (g : shared) (T : list thread) (x : nat) : Prop :=
  s_ref (getst g x) = sum (fun th => href th x) T + sum (fun st0 => fsucc (s_fin st0) x) (g_states g).

Section P2.
  Variables (w r : tid) (orig : list (list op)).

  Lemma href_continue th res k x : href (continue th res k) x = kouter k x.
  Proof. destruct k; cbn; unfold href; cbn; try reflexivity; lia. Qed.

  Lemma ref_step s t s' :
    Full w r s -> Inv2 orig s -> step s t = Some s' ->
    (forall x, x < length (g_states (sh s')) -> refeq (sh s') (ths s') x) /\
    (forall x, length (g_states (sh s')) <= x ->
       sum (fun th => href th x) (ths s') = 0 /\ sum (fun st0 => fsucc (s_fin st0) x) (g_states (sh s')) = 0).
  Proof.
    intros [SA I] J H. destruct (step_decomp _ _ _ H) as (th & g' & th' & E & F & ->). cbn [sh ths].
    pose proof (no_panic w r _ _ _ _ _ SA I E F) as NP.
    pose proof (i_thr _ _ _ I _ _ E) as TF. pose proof (a_thr _ SA _ _ E) as FB. pose proof (j_thr _ _ J _ _ E) as TJ.
    pose proof (a_last _ SA) as La.
    assert (HS : forall x, sum (fun th => href th x) (upd (ths s) t th') + href th x =
                           sum (fun th => href th x) (ths s) + href th' x)
      by (intros x; apply (sum_upd (fun th => href th x) (ths s) t th th' E)).
    assert (JR : forall x, x < length (g_states (sh s)) -> refeq (sh s) (ths s) x) by apply (j_ref _ _ J).
    pose proof (j_oob _ _ J) as JO.
    destruct (special2 (t_pc th)) eqn:Sp.
    2: { (* plain step *)
      destruct (frame2_plain _ _ _ _ _ F NP Sp) as [Qs Qc _ _ Qh _ _].
      unfold refeq, getst in *. rewrite Qs. split.
      - intros x L. specialize (HS x). rewrite Qh in HS. rewrite (JR x L). lia.
      - intros x L. specialize (HS x). rewrite Qh in HS. destruct (JO x L). split; lia. }
    unfold th_facts1 in TF. unfold factsB in FB. unfold th_facts2 in TJ.
    destruct (t_pc th) eqn:P; try discriminate Sp;
      unfold step_thread in F; rewrite P in F; crack F;
      try (match goal with Q : pm3_tx ?g ?o ?y ?k = (?a, ?b) |- _ =>
             destruct (pm3_shape g o y k) as (segs & mn & nh & Q1 & Q2); rewrite Q in Q1; cbn [fst] in Q1; subst a end);
      inversion F; subst g' th'; clear F.
    all: try (exfalso; apply NP; reflexivity).
    - (* acquire *)
      destruct (upd_ref_shape (sh s) x (S (s_ref (getst (sh s) x))) ltac:(exact FB)) as (Hl & Hr & Hf).
      assert (H1 : forall x0, href th x0 = 0) by (intros x0; unfold href; rewrite P; reflexivity).
      assert (H2 : forall x0, href (setpc th (PAcq x)) x0 = b2n (x =? x0)) by (intros x0; reflexivity).
      split.
      + intros x0 L0. rewrite Hl in L0. unfold refeq. rewrite Hr, Hf. specialize (HS x0). rewrite H1, H2 in HS.
        pose proof (JR x0 L0) as Q. unfold refeq in Q. pose proof (JR x ltac:(exact FB)) as Qz. unfold refeq in Qz.
        pose proof (sum_ge_nth (fun th => href th x) (ths s) t th E) as G. cbn beta in G. rewrite H1 in G.
        destruct (Nat.eqb_spec x x0) as [Z|Z]; [subst x0|]; cbn [b2n] in *; lia.
      + intros x0 L0. rewrite Hl in L0. rewrite Hf. destruct (JO x0 L0) as [R1 R2]. specialize (HS x0). rewrite H1, H2 in HS.
        assert (Z : (x =? x0) = false) by (apply Nat.eqb_neq; pose proof (FB); lia). rewrite Z in HS. cbn [b2n] in HS.
        split; lia.
    - (* mutateStateLocked acquire *)
      assert (Ly : y < length (g_states (sh s))) by (destruct TF as (Yc & _); lia).
      destruct (upd_ref_shape (sh s) y (S (s_ref (getst (sh s) y))) ltac:(exact Ly)) as (Hl & Hr & Hf).
      assert (H1 : forall x0, href th x0 = kouter k x0) by (intros x0; unfold href; rewrite P; reflexivity).
      assert (H2 : forall x0, href (setpc th (PM2 y k)) x0 = b2n (y =? x0) + kouter k x0) by (intros x0; reflexivity).
      split.
      + intros x0 L0. rewrite Hl in L0. unfold refeq. rewrite Hr, Hf. specialize (HS x0). rewrite H1, H2 in HS.
        pose proof (JR x0 L0) as Q. unfold refeq in Q. pose proof (JR y ltac:(exact Ly)) as Qz. unfold refeq in Qz.
        pose proof (sum_ge_nth (fun th => href th y) (ths s) t th E) as G. cbn beta in G. rewrite H1 in G.
        destruct (Nat.eqb_spec y x0) as [Z|Z]; [subst x0|]; cbn [b2n] in *; lia.
      + intros x0 L0. rewrite Hl in L0. rewrite Hf. destruct (JO x0 L0) as [R1 R2]. specialize (HS x0). rewrite H1, H2 in HS.
        assert (Z : (y =? x0) = false) by (apply Nat.eqb_neq; pose proof (Ly); lia). rewrite Z in HS. cbn [b2n] in HS.
        split; lia.
    - (* publish the new state *)
      destruct (publish_shape (sh s) nh (mk_state segs mn)) as (Hl & Hg & Hn & Hf).
      assert (Ly : y < length (g_states (sh s))) by (destruct TF as (Yc & _); lia).
      assert (H1 : forall x0, href th x0 = b2n (y =? x0) + kouter k x0) by (intros x0; unfold href; rewrite P; reflexivity).
      assert (H2 : forall x0, href (setpc th (PM4 y (FSet l (length (g_states (sh s)))) k)) x0 =
                              b2n (y =? x0) + kouter k x0 + b2n (length (g_states (sh s)) =? x0)) by (intros x0; reflexivity).
      split.
      + intros x0 L0. rewrite Hl in L0. unfold refeq. rewrite Hf. specialize (HS x0). rewrite H1, H2 in HS. cbn [fsucc s_fin mk_state].
        destruct (Nat.eq_dec x0 (length (g_states (sh s)))) as [Z|Z].
        * subst x0. rewrite Hn. cbn [s_ref mk_state]. destruct (JO _ (Nat.le_refl _)) as [R1 R2].
          rewrite Nat.eqb_refl in HS. cbn [b2n] in HS.
          pose proof (sum_ge_nth (fun th => href th (length (g_states (sh s)))) (ths s) t th E) as G. cbn beta in G. rewrite H1 in G. lia.
        * rewrite Hg by lia. pose proof (JR x0 ltac:(lia)) as Q. unfold refeq in Q.
          assert (Zb : (length (g_states (sh s)) =? x0) = false) by (apply Nat.eqb_neq; lia). rewrite Zb in HS. cbn [b2n] in HS. lia.
      + intros x0 L0. rewrite Hl in L0. rewrite Hf. destruct (JO x0 ltac:(lia)) as [R1 R2]. specialize (HS x0). rewrite H1, H2 in HS.
        assert (Zb : (length (g_states (sh s)) =? x0) = false) by (apply Nat.eqb_neq; lia). rewrite Zb in HS. cbn [b2n fsucc s_fin mk_state] in *.
        split; lia.
    - (* retire: store the finalizer *)
      assert (Ly : y < length (g_states (sh s))) by (destruct TF as (Yc & _); lia).
      destruct TJ as (hs0 & Qf & Nf & _). subst f.
      destruct (upd_fin_shape (sh s) y (fun s0 => st_retire s0 (FSet hs0 (S y))) ltac:(exact Ly) ltac:(reflexivity)) as (Hl & Hr & Hf).
      cbn beta in Hl, Hr, Hf.
      assert (H1 : forall x0, href th x0 = b2n (y =? x0) + kouter k x0 + b2n (S y =? x0)) by (intros x0; unfold href; rewrite P; reflexivity).
      assert (H2 : forall x0, href (setpc th (PRel y (Ok 0) k)) x0 = b2n (y =? x0) + kouter k x0) by (intros x0; reflexivity).
      assert (F0 : forall x0, fsucc (s_fin (getst (sh s) y)) x0 = 0) by (intros; destruct (s_fin (getst (sh s) y)); try discriminate; reflexivity).
      split.
      + intros x0 L0. rewrite Hl in L0. unfold refeq. rewrite Hr. specialize (HS x0). specialize (Hf x0). rewrite ?F0 in Hf. rewrite H1, H2 in HS.
        pose proof (JR x0 L0) as Q. unfold refeq in Q. cbn [fsucc s_fin st_retire st_fin] in Hf. lia.
      + intros x0 L0. rewrite Hl in L0. destruct (JO x0 L0) as [R1 R2]. specialize (HS x0). specialize (Hf x0). rewrite ?F0 in Hf. rewrite H1, H2 in HS.
        cbn [fsucc s_fin st_retire st_fin] in Hf. split; lia.
    - (* release, last reference of a retired state *)
      destruct TJ as (Lx & _).
      destruct (upd_ref_shape (sh s) x (s_ref (getst (sh s) x) - 1) ltac:(exact Lx)) as (Hl & Hr & Hf).
      assert (H1 : forall x0, href th x0 = b2n (x =? x0) + kouter k x0) by (intros x0; unfold href; rewrite P; reflexivity).
      assert (H2 : forall x0, href (setpc th (PLast x r0 k)) x0 = kouter k x0) by (intros x0; reflexivity).
      split.
      + intros x0 L0. rewrite Hl in L0. unfold refeq. rewrite Hr, Hf. specialize (HS x0). rewrite H1, H2 in HS.
        pose proof (JR x0 L0) as Q. unfold refeq in Q. pose proof (JR x ltac:(exact Lx)) as Qz. unfold refeq in Qz.
        pose proof (sum_ge_nth (fun th => href th x) (ths s) t th E) as G. cbn beta in G. rewrite H1 in G.
        rewrite Nat.eqb_refl in G. cbn [b2n] in G.
        destruct (Nat.eqb_spec x x0) as [Z|Z]; [subst x0|]; cbn [b2n] in *; lia.
      + intros x0 L0. rewrite Hl in L0. rewrite Hf. destruct (JO x0 L0) as [R1 R2]. specialize (HS x0). rewrite H1, H2 in HS.
        assert (Z : (x =? x0) = false) by (apply Nat.eqb_neq; pose proof (Lx); lia). rewrite Z in HS. cbn [b2n] in HS.
        split; lia.
    - (* release *)
      destruct TJ as (Lx & _).
      destruct (upd_ref_shape (sh s) x (s_ref (getst (sh s) x) - 1) ltac:(exact Lx)) as (Hl & Hr & Hf).
      assert (H1 : forall x0, href th x0 = b2n (x =? x0) + kouter k x0) by (intros x0; unfold href; rewrite P; reflexivity).
      assert (H2 : forall x0, href (continue th r0 k) x0 = kouter k x0) by (intros x0; apply href_continue).
      split.
      + intros x0 L0. rewrite Hl in L0. unfold refeq. rewrite Hr, Hf. specialize (HS x0). rewrite H1, H2 in HS.
        pose proof (JR x0 L0) as Q. unfold refeq in Q. pose proof (JR x ltac:(exact Lx)) as Qz. unfold refeq in Qz.
        pose proof (sum_ge_nth (fun th => href th x) (ths s) t th E) as G. cbn beta in G. rewrite H1 in G.
        rewrite Nat.eqb_refl in G. cbn [b2n] in G.
        destruct (Nat.eqb_spec x x0) as [Z|Z]; [subst x0|]; cbn [b2n] in *; lia.
      + intros x0 L0. rewrite Hl in L0. rewrite Hf. destruct (JO x0 L0) as [R1 R2]. specialize (HS x0). rewrite H1, H2 in HS.
        assert (Z : (x =? x0) = false) by (apply Nat.eqb_neq; pose proof (Lx); lia). rewrite Z in HS. cbn [b2n] in HS.
        split; lia.
    - (* swap: no finalizer *)
      destruct TJ as (_ & Lx & _).
      destruct (upd_fin_shape (sh s) x (fun s0 => st_fin s0 FNil) ltac:(exact Lx) ltac:(reflexivity)) as (Hl & Hr & Hf).
      cbn beta in Hl, Hr, Hf.
      assert (H1 : forall x0, href th x0 = kouter k x0) by (intros x0; unfold href; rewrite P; reflexivity).
      assert (H2 : forall x0, href (continue th r0 k) x0 = kouter k x0) by (intros x0; apply href_continue).
      rewrite Heqf in Hf.
      split.
      + intros x0 L0. rewrite Hl in L0. unfold refeq. rewrite Hr. specialize (HS x0). specialize (Hf x0). rewrite ?F0 in Hf. rewrite H1, H2 in HS.
        pose proof (JR x0 L0) as Q. unfold refeq in Q. cbn [fsucc s_fin st_retire st_fin] in Hf. lia.
      + intros x0 L0. rewrite Hl in L0. destruct (JO x0 L0) as [R1 R2]. specialize (HS x0). specialize (Hf x0). rewrite ?F0 in Hf. rewrite H1, H2 in HS.
        cbn [fsucc s_fin st_retire st_fin] in Hf. split; lia.
    - (* swap: no finalizer *)
      destruct TJ as (_ & Lx & _).
      destruct (upd_fin_shape (sh s) x (fun s0 => st_fin s0 FNil) ltac:(exact Lx) ltac:(reflexivity)) as (Hl & Hr & Hf).
      cbn beta in Hl, Hr, Hf.
      assert (H1 : forall x0, href th x0 = kouter k x0) by (intros x0; unfold href; rewrite P; reflexivity).
      assert (H2 : forall x0, href (continue th r0 k) x0 = kouter k x0) by (intros x0; apply href_continue).
      rewrite Heqf in Hf.
      split.
      + intros x0 L0. rewrite Hl in L0. unfold refeq. rewrite Hr. specialize (HS x0). specialize (Hf x0). rewrite ?F0 in Hf. rewrite H1, H2 in HS.
        pose proof (JR x0 L0) as Q. unfold refeq in Q. cbn [fsucc s_fin st_retire st_fin] in Hf. lia.
      + intros x0 L0. rewrite Hl in L0. destruct (JO x0 L0) as [R1 R2]. specialize (HS x0). specialize (Hf x0). rewrite ?F0 in Hf. rewrite H1, H2 in HS.
        cbn [fsucc s_fin st_retire st_fin] in Hf. split; lia.
    - (* swap the finalizer out *)
      destruct TJ as (_ & Lx & _).
      destruct (upd_fin_shape (sh s) x (fun s0 => st_fin s0 FNil) ltac:(exact Lx) ltac:(reflexivity)) as (Hl & Hr & Hf).
      cbn beta in Hl, Hr, Hf.
      assert (H1 : forall x0, href th x0 = kouter k x0) by (intros x0; unfold href; rewrite P; reflexivity).
      assert (H2 : forall x0, href (setpc th (PRun hs succ r0 k)) x0 = b2n (succ =? x0) + kouter k x0) by (intros x0; reflexivity).
      rewrite Heqf in Hf.
      split.
      + intros x0 L0. rewrite Hl in L0. unfold refeq. rewrite Hr. specialize (HS x0). specialize (Hf x0). rewrite ?F0 in Hf. rewrite H1, H2 in HS.
        pose proof (JR x0 L0) as Q. unfold refeq in Q. cbn [fsucc s_fin st_retire st_fin] in Hf. lia.
      + intros x0 L0. rewrite Hl in L0. destruct (JO x0 L0) as [R1 R2]. specialize (HS x0). specialize (Hf x0). rewrite ?F0 in Hf. rewrite H1, H2 in HS.
        cbn [fsucc s_fin st_retire st_fin] in Hf. split; lia.
    - (* run the finalizer: close the files, then release the successor *)
      assert (H1 : forall x0, href th x0 = b2n (sc =? x0) + kouter k x0) by (intros x0; unfold href; rewrite P; reflexivity).
      assert (H2 : forall x0, href (setpc th (PRel sc r0 k)) x0 = b2n (sc =? x0) + kouter k x0) by (intros x0; reflexivity).
      unfold refeq, getst in *. cbn [g_states set_hnds]. split.
      + intros x0 L0. specialize (HS x0). rewrite H1, H2 in HS. rewrite (JR x0 L0). lia.
      + intros x0 L0. specialize (HS x0). rewrite H1, H2 in HS. destruct (JO x0 L0). split; lia.
    - (* Close acquires the current state *)
      assert (Lx : x < length (g_states (sh s))) by lia.
      destruct (upd_ref_shape (sh s) x (S (s_ref (getst (sh s) x))) ltac:(exact Lx)) as (Hl & Hr & Hf).
      assert (H1 : forall x0, href th x0 = 0) by (intros x0; unfold href; rewrite P; reflexivity).
      assert (H2 : forall x0, href (setpc th (PC6 x)) x0 = b2n (x =? x0)) by (intros x0; reflexivity).
      split.
      + intros x0 L0. rewrite Hl in L0. unfold refeq. rewrite Hr, Hf. specialize (HS x0). rewrite H1, H2 in HS.
        pose proof (JR x0 L0) as Q. unfold refeq in Q. pose proof (JR x ltac:(exact Lx)) as Qz. unfold refeq in Qz.
        pose proof (sum_ge_nth (fun th => href th x) (ths s) t th E) as G. cbn beta in G. rewrite H1 in G.
        destruct (Nat.eqb_spec x x0) as [Z|Z]; [subst x0|]; cbn [b2n] in *; lia.
      + intros x0 L0. rewrite Hl in L0. rewrite Hf. destruct (JO x0 L0) as [R1 R2]. specialize (HS x0). rewrite H1, H2 in HS.
        assert (Z : (x =? x0) = false) by (apply Nat.eqb_neq; pose proof (Lx); lia). rewrite Z in HS. cbn [b2n] in HS.
        split; lia.
    - (* Close publishes the empty state *)
      pose proof (publish_shape (sh s) [] empty_state) as PS. rewrite app_nil_r in PS.
      replace (set_hnds (sh s) (g_hnds (sh s))) with (sh s) in PS by (destruct (sh s); reflexivity).
      destruct PS as (Hl & Hg & Hn & Hf).
      assert (Lx : x < length (g_states (sh s))) by lia.
      assert (H1 : forall x0, href th x0 = b2n (x =? x0)) by (intros x0; unfold href; rewrite P; reflexivity).
      assert (H2 : forall x0, href (setpc th (PCSwapped x (length (g_states (sh s))))) x0 =
                              b2n (x =? x0) + b2n (length (g_states (sh s)) =? x0)) by (intros x0; reflexivity).
      split.
      + intros x0 L0. rewrite Hl in L0. unfold refeq. rewrite Hf. specialize (HS x0). rewrite H1, H2 in HS. cbn [fsucc s_fin empty_state].
        destruct (Nat.eq_dec x0 (length (g_states (sh s)))) as [Z|Z].
        * subst x0. rewrite Hn. cbn [s_ref empty_state]. destruct (JO _ (Nat.le_refl _)) as [R1 R2].
          rewrite Nat.eqb_refl in HS. cbn [b2n] in HS.
          pose proof (sum_ge_nth (fun th => href th (length (g_states (sh s)))) (ths s) t th E) as G. cbn beta in G. rewrite H1 in G. lia.
        * rewrite Hg by lia. pose proof (JR x0 ltac:(lia)) as Q. unfold refeq in Q.
          assert (Zb : (length (g_states (sh s)) =? x0) = false) by (apply Nat.eqb_neq; lia). rewrite Zb in HS. cbn [b2n] in HS. lia.
      + intros x0 L0. rewrite Hl in L0. rewrite Hf. destruct (JO x0 ltac:(lia)) as [R1 R2]. specialize (HS x0). rewrite H1, H2 in HS.
        assert (Zb : (length (g_states (sh s)) =? x0) = false) by (apply Nat.eqb_neq; lia). rewrite Zb in HS. cbn [b2n fsucc s_fin empty_state] in *.
        split; lia.
    - (* Close retires the old state *)
      assert (Lx : x < length (g_states (sh s))) by (destruct TF as (Xc & _); lia).
      destruct TJ as (Nf & _).
      destruct (upd_fin_shape (sh s) x (fun s0 => st_retire s0 (FSet (s_segs (getst (sh s) x)) e)) ltac:(exact Lx) ltac:(reflexivity)) as (Hl & Hr & Hf).
      cbn beta in Hl, Hr, Hf.
      assert (H1 : forall x0, href th x0 = b2n (x =? x0) + b2n (e =? x0)) by (intros x0; unfold href; rewrite P; reflexivity).
      assert (H2 : forall x0, href (setpc th (PC8 x)) x0 = b2n (x =? x0)) by (intros x0; reflexivity).
      assert (F0 : forall x0, fsucc (s_fin (getst (sh s) x)) x0 = 0) by (intros; destruct (s_fin (getst (sh s) x)); try discriminate; reflexivity).
      split.
      + intros x0 L0. rewrite Hl in L0. unfold refeq. rewrite Hr. specialize (HS x0). specialize (Hf x0). rewrite ?F0 in Hf. rewrite H1, H2 in HS.
        pose proof (JR x0 L0) as Q. unfold refeq in Q. cbn [fsucc s_fin st_retire st_fin] in Hf. lia.
      + intros x0 L0. rewrite Hl in L0. destruct (JO x0 L0) as [R1 R2]. specialize (HS x0). specialize (Hf x0). rewrite ?F0 in Hf. rewrite H1, H2 in HS.
        cbn [fsucc s_fin st_retire st_fin] in Hf. split; lia.
  Qed.

  Lemma hpend_other g g' thu h :
    frame g g' ->
    (forall x e, t_pc thu = PCSwapped x e -> x < length (g_states g)) ->
    hpend g' thu h = hpend g thu h.
  Proof.
    intros Fr Hx. unfold hpend. destruct (t_pc thu) eqn:P; try reflexivity.
    rewrite (f_segs _ _ Fr x (Hx x e eq_refl)). reflexivity.
  Qed.

  Lemma own_step s t s' :
    Full w r s -> Inv2 orig s -> step s t = Some s' ->
    forall h, (h < length (g_hnds (sh s')) -> owners (sh s') (ths s') h + h_closes (geth (sh s') h) = 1) /\
              (length (g_hnds (sh s')) <= h -> owners (sh s') (ths s') h = 0).
  Proof.
    intros [SA I] J H. destruct (step_decomp _ _ _ H) as (th & g' & th' & E & F & ->). cbn [sh ths].
    pose proof (no_panic w r _ _ _ _ _ SA I E F) as NP.
    pose proof (i_thr _ _ _ I _ _ E) as TF. pose proof (a_thr _ SA _ _ E) as FB. pose proof (j_thr _ _ J _ _ E) as TJ.
    pose proof (a_last _ SA) as La.
    destruct (core_step s t th g' th' SA E F NP) as (Fr & _).
    assert (HP : forall h, sum (fun thu => hpend g' thu h) (upd (ths s) t th') + hpend g' th h =
                           sum (fun thu => hpend (sh s) thu h) (ths s) + hpend g' th' h).
    { intros h. rewrite (sum_upd (fun thu => hpend g' thu h) (ths s) t th th' E). f_equal.
      apply sum_ext. intros thu Hi. apply In_nth_error in Hi. destruct Hi as (u & Eu).
      apply hpend_other; [exact Fr|]. intros x e Pu.
      pose proof (i_thr _ _ _ I _ _ Eu) as TFu. unfold th_facts1 in TFu. rewrite Pu in TFu. destruct TFu as (Xc & _). lia. }
    pose proof (j_own _ _ J) as JW. unfold owners in *.
    destruct (special2 (t_pc th)) eqn:Sp.
    2: { (* plain step *)
      destruct (frame2_plain _ _ _ _ _ F NP Sp) as [Qs Qc Ql Qcl _ _ Qh].
      intros h. specialize (HP h). destruct (Qh h) as [Q1 Q2]. unfold hpend in HP at 2. fold (hpend g' th h) in HP.
      assert (Q3 : hpend g' th h = 0).
      { unfold hpend in *. destruct (t_pc th); try reflexivity; discriminate Sp. }
      unfold live, getst in *. rewrite Qs, Qc, Ql, Qcl. rewrite Q1, Q3 in HP. destruct (JW h) as [W1 W2].
      split; intros L; [specialize (W1 L) | specialize (W2 L)]; lia. }
    unfold th_facts1 in TF. unfold factsB in FB. unfold th_facts2 in TJ.
    destruct (t_pc th) eqn:P; try discriminate Sp;
      unfold step_thread in F; rewrite P in F; crack F;
      try (match goal with Q : pm3_tx ?g ?o ?y ?k = (?a, ?b) |- _ =>
             pose proof (pm3_count g o y k) as PC; rewrite Q in PC end);
      inversion F; subst g' th'; clear F.
    all: try (exfalso; apply NP; reflexivity).
    - (* acquire *)
      intros h. destruct (own_upd_st (sh s) x (fun s0 => st_ref s0 (S (s_ref (getst (sh s) x)))) h ltac:(exact FB) ltac:(reflexivity) ltac:(reflexivity)) as (Hlive & Hfin).
      cbn beta in Hlive, Hfin. specialize (HP h).
      assert (P1 : hpend (upd_st (sh s) x (st_ref (getst (sh s) x) (S (s_ref (getst (sh s) x))))) th h = 0) by (unfold hpend; rewrite P; reflexivity).
      assert (P2 : hpend (upd_st (sh s) x (st_ref (getst (sh s) x) (S (s_ref (getst (sh s) x))))) (setpc th (PAcq x)) h = 0) by (reflexivity).
      rewrite P1, P2 in HP. destruct (JW h) as [W1 W2]. rewrite Hlive.
      
      change (g_hnds (upd_st (sh s) x (st_ref (getst (sh s) x) (S (s_ref (getst (sh s) x)))))) with (g_hnds (sh s)).
      change (geth (upd_st (sh s) x (st_ref (getst (sh s) x) (S (s_ref (getst (sh s) x))))) h) with (geth (sh s) h).
      cbn [fin_cnt s_fin st_ref st_fin st_retire] in Hfin.
      split; intros L; [specialize (W1 L) | specialize (W2 L)]; lia.
    - (* mutateStateLocked acquire *)
      assert (Ly : y < length (g_states (sh s))) by (destruct TF as (Yc & _); lia).
      intros h. destruct (own_upd_st (sh s) y (fun s0 => st_ref s0 (S (s_ref (getst (sh s) y)))) h ltac:(exact Ly) ltac:(reflexivity) ltac:(reflexivity)) as (Hlive & Hfin).
      cbn beta in Hlive, Hfin. specialize (HP h).
      assert (P1 : hpend (upd_st (sh s) y (st_ref (getst (sh s) y) (S (s_ref (getst (sh s) y))))) th h = 0) by (unfold hpend; rewrite P; reflexivity).
      assert (P2 : hpend (upd_st (sh s) y (st_ref (getst (sh s) y) (S (s_ref (getst (sh s) y))))) (setpc th (PM2 y k)) h = 0) by (reflexivity).
      rewrite P1, P2 in HP. destruct (JW h) as [W1 W2]. rewrite Hlive.
      
      change (g_hnds (upd_st (sh s) y (st_ref (getst (sh s) y) (S (s_ref (getst (sh s) y)))))) with (g_hnds (sh s)).
      change (geth (upd_st (sh s) y (st_ref (getst (sh s) y) (S (s_ref (getst (sh s) y))))) h) with (geth (sh s) h).
      cbn [fin_cnt s_fin st_ref st_fin st_retire] in Hfin.
      split; intros L; [specialize (W1 L) | specialize (W2 L)]; lia.
    - (* publish the new state *)
      destruct TF as (Yc & Oy & _). destruct PC as (segs & mn & nh & Qs & Qc). cbn [fst snd] in Qs, Qc. subst s0.
      change (g_cur (publish (set_hnds (sh s) (g_hnds (sh s) ++ nh)) (mk_state segs mn))) with (length (g_states (sh s))) in *.
      intros h. specialize (HP h). destruct (JW h) as [W1 W2].
      assert (P1 : hpend (publish (set_hnds (sh s) (g_hnds (sh s) ++ nh)) (mk_state segs mn)) th h = 0)
        by (unfold hpend; rewrite P; reflexivity).
      assert (P2 : hpend (publish (set_hnds (sh s) (g_hnds (sh s) ++ nh)) (mk_state segs mn))
                         (setpc th (PM4 y (FSet l (length (g_states (sh s)))) k)) h = cnt h l) by reflexivity.
      rewrite P1, P2 in HP.
      assert (Lv' : live (publish (set_hnds (sh s) (g_hnds (sh s) ++ nh)) (mk_state segs mn)) h = cnt h segs).
      { unfold live. rewrite getst_publish. reflexivity. }
      assert (Lv : live (sh s) h = cnt h (s_segs (getst (sh s) y))) by (unfold live; rewrite <- Yc, Oy; reflexivity).
      rewrite Lv'. rewrite Lv in W1, W2.
      cbn [g_states g_hnds publish set_cur set_hnds]. rewrite sum_app. cbn [sum fin_cnt s_fin mk_state].
      unfold geth. cbn [g_hnds publish set_cur set_hnds]. rewrite app_length.
      destruct Qc as [(-> & Qc)|(b & -> & Qc)]; specialize (Qc h); cbn [length].
      + rewrite app_nil_r in *. split; intros L; [specialize (W1 ltac:(lia)) | specialize (W2 ltac:(lia))]; unfold geth in *; lia.
      + destruct (Nat.eqb_spec (length (g_hnds (sh s))) h) as [Z|Z]; cbn [b2n] in Qc.
        * subst h. specialize (W2 (Nat.le_refl _)). split; intros L; [|lia].
          rewrite app_nth2 by lia. rewrite Nat.sub_diag. cbn. lia.
        * split; intros L.
          -- rewrite app_nth1 by lia. specialize (W1 ltac:(lia)). unfold geth in W1. lia.
          -- specialize (W2 ltac:(lia)). lia.
    - (* retire: store the finalizer *)
      assert (Ly : y < length (g_states (sh s))) by (destruct TF as (Yc & _); lia).
      destruct TJ as (hz & Qf & Nf & _). subst f.
      intros h. destruct (own_upd_st (sh s) y (fun s0 => st_retire s0 (FSet hz (S y))) h ltac:(exact Ly) ltac:(reflexivity) ltac:(reflexivity)) as (Hlive & Hfin).
      cbn beta in Hlive, Hfin. specialize (HP h).
      assert (P1 : hpend (upd_st (sh s) y (st_retire (getst (sh s) y) (FSet hz (S y)))) th h = cnt h hz) by (unfold hpend; rewrite P; reflexivity).
      assert (P2 : hpend (upd_st (sh s) y (st_retire (getst (sh s) y) (FSet hz (S y)))) (setpc th (PRel y (Ok 0) k)) h = 0) by (reflexivity).
      rewrite P1, P2 in HP. destruct (JW h) as [W1 W2]. rewrite Hlive.
      assert (F0 : fin_cnt (s_fin (getst (sh s) y)) h = 0) by (destruct (s_fin (getst (sh s) y)); try discriminate; reflexivity). rewrite F0 in Hfin.
      change (g_hnds (upd_st (sh s) y (st_retire (getst (sh s) y) (FSet hz (S y))))) with (g_hnds (sh s)).
      change (geth (upd_st (sh s) y (st_retire (getst (sh s) y) (FSet hz (S y)))) h) with (geth (sh s) h).
      cbn [fin_cnt s_fin st_ref st_fin st_retire] in Hfin.
      split; intros L; [specialize (W1 L) | specialize (W2 L)]; lia.
    - (* release, last reference *)
      destruct TJ as (Lx & _).
      intros h. destruct (own_upd_st (sh s) x (fun s0 => st_ref s0 (s_ref (getst (sh s) x) - 1)) h ltac:(exact Lx) ltac:(reflexivity) ltac:(reflexivity)) as (Hlive & Hfin).
      cbn beta in Hlive, Hfin. specialize (HP h).
      assert (P1 : hpend (upd_st (sh s) x (st_ref (getst (sh s) x) (s_ref (getst (sh s) x) - 1))) th h = 0) by (unfold hpend; rewrite P; reflexivity).
      assert (P2 : hpend (upd_st (sh s) x (st_ref (getst (sh s) x) (s_ref (getst (sh s) x) - 1))) (setpc th (PLast x r0 k)) h = 0) by (reflexivity).
      rewrite P1, P2 in HP. destruct (JW h) as [W1 W2]. rewrite Hlive.
      
      change (g_hnds (upd_st (sh s) x (st_ref (getst (sh s) x) (s_ref (getst (sh s) x) - 1)))) with (g_hnds (sh s)).
      change (geth (upd_st (sh s) x (st_ref (getst (sh s) x) (s_ref (getst (sh s) x) - 1))) h) with (geth (sh s) h).
      cbn [fin_cnt s_fin st_ref st_fin st_retire] in Hfin.
      split; intros L; [specialize (W1 L) | specialize (W2 L)]; lia.
    - (* release *)
      destruct TJ as (Lx & _).
      intros h. destruct (own_upd_st (sh s) x (fun s0 => st_ref s0 (s_ref (getst (sh s) x) - 1)) h ltac:(exact Lx) ltac:(reflexivity) ltac:(reflexivity)) as (Hlive & Hfin).
      cbn beta in Hlive, Hfin. specialize (HP h).
      assert (P1 : hpend (upd_st (sh s) x (st_ref (getst (sh s) x) (s_ref (getst (sh s) x) - 1))) th h = 0) by (unfold hpend; rewrite P; reflexivity).
      assert (P2 : hpend (upd_st (sh s) x (st_ref (getst (sh s) x) (s_ref (getst (sh s) x) - 1))) (continue th r0 k) h = 0) by (destruct k; reflexivity).
      rewrite P1, P2 in HP. destruct (JW h) as [W1 W2]. rewrite Hlive.
      
      change (g_hnds (upd_st (sh s) x (st_ref (getst (sh s) x) (s_ref (getst (sh s) x) - 1)))) with (g_hnds (sh s)).
      change (geth (upd_st (sh s) x (st_ref (getst (sh s) x) (s_ref (getst (sh s) x) - 1))) h) with (geth (sh s) h).
      cbn [fin_cnt s_fin st_ref st_fin st_retire] in Hfin.
      split; intros L; [specialize (W1 L) | specialize (W2 L)]; lia.
    - (* swap: no finalizer *)
      destruct TJ as (_ & Lx & _).
      intros h. destruct (own_upd_st (sh s) x (fun s0 => st_fin s0 FNil) h ltac:(exact Lx) ltac:(reflexivity) ltac:(reflexivity)) as (Hlive & Hfin).
      cbn beta in Hlive, Hfin. specialize (HP h).
      assert (P1 : hpend (upd_st (sh s) x (st_fin (getst (sh s) x) FNil)) th h = 0) by (unfold hpend; rewrite P; reflexivity).
      assert (P2 : hpend (upd_st (sh s) x (st_fin (getst (sh s) x) FNil)) (continue th r0 k) h = 0) by (destruct k; reflexivity).
      rewrite P1, P2 in HP. destruct (JW h) as [W1 W2]. rewrite Hlive.
      rewrite Heqf in Hfin.
      change (g_hnds (upd_st (sh s) x (st_fin (getst (sh s) x) FNil))) with (g_hnds (sh s)).
      change (geth (upd_st (sh s) x (st_fin (getst (sh s) x) FNil)) h) with (geth (sh s) h).
      cbn [fin_cnt s_fin st_ref st_fin st_retire] in Hfin.
      split; intros L; [specialize (W1 L) | specialize (W2 L)]; lia.
    - (* swap: no finalizer *)
      destruct TJ as (_ & Lx & _).
      intros h. destruct (own_upd_st (sh s) x (fun s0 => st_fin s0 FNil) h ltac:(exact Lx) ltac:(reflexivity) ltac:(reflexivity)) as (Hlive & Hfin).
      cbn beta in Hlive, Hfin. specialize (HP h).
      assert (P1 : hpend (upd_st (sh s) x (st_fin (getst (sh s) x) FNil)) th h = 0) by (unfold hpend; rewrite P; reflexivity).
      assert (P2 : hpend (upd_st (sh s) x (st_fin (getst (sh s) x) FNil)) (continue th r0 k) h = 0) by (destruct k; reflexivity).
      rewrite P1, P2 in HP. destruct (JW h) as [W1 W2]. rewrite Hlive.
      rewrite Heqf in Hfin.
      change (g_hnds (upd_st (sh s) x (st_fin (getst (sh s) x) FNil))) with (g_hnds (sh s)).
      change (geth (upd_st (sh s) x (st_fin (getst (sh s) x) FNil)) h) with (geth (sh s) h).
      cbn [fin_cnt s_fin st_ref st_fin st_retire] in Hfin.
      split; intros L; [specialize (W1 L) | specialize (W2 L)]; lia.
    - (* swap the finalizer out *)
      destruct TJ as (_ & Lx & _).
      intros h. destruct (own_upd_st (sh s) x (fun s0 => st_fin s0 FNil) h ltac:(exact Lx) ltac:(reflexivity) ltac:(reflexivity)) as (Hlive & Hfin).
      cbn beta in Hlive, Hfin. specialize (HP h).
      assert (P1 : hpend (upd_st (sh s) x (st_fin (getst (sh s) x) FNil)) th h = 0) by (unfold hpend; rewrite P; reflexivity).
      assert (P2 : hpend (upd_st (sh s) x (st_fin (getst (sh s) x) FNil)) (setpc th (PRun hs succ r0 k)) h = cnt h hs) by (reflexivity).
      rewrite P1, P2 in HP. destruct (JW h) as [W1 W2]. rewrite Hlive.
      rewrite Heqf in Hfin.
      change (g_hnds (upd_st (sh s) x (st_fin (getst (sh s) x) FNil))) with (g_hnds (sh s)).
      change (geth (upd_st (sh s) x (st_fin (getst (sh s) x) FNil)) h) with (geth (sh s) h).
      cbn [fin_cnt s_fin st_ref st_fin st_retire] in Hfin.
      split; intros L; [specialize (W1 L) | specialize (W2 L)]; lia.
    - (* run the finalizer *)
      intros h. specialize (HP h). destruct (JW h) as [W1 W2].
      assert (P1 : hpend (set_hnds (sh s) (close_all (g_hnds (sh s)) hs)) th h = cnt h hs) by (unfold hpend; rewrite P; reflexivity).
      assert (P2 : hpend (set_hnds (sh s) (close_all (g_hnds (sh s)) hs)) (setpc th (PRel sc r0 k)) h = 0) by reflexivity.
      rewrite P1, P2 in HP.
      change (live (set_hnds (sh s) (close_all (g_hnds (sh s)) hs)) h) with (live (sh s) h).
      cbn [g_states g_hnds set_hnds]. rewrite close_all_length. unfold geth. cbn [g_hnds set_hnds].
      split; intros L.
      + rewrite close_all_closes by exact L. specialize (W1 L). unfold geth in W1. lia.
      + specialize (W2 L). lia.
    - (* Close acquires *)
      assert (Lx : x < length (g_states (sh s))) by lia.
      intros h. destruct (own_upd_st (sh s) x (fun s0 => st_ref s0 (S (s_ref (getst (sh s) x)))) h ltac:(exact Lx) ltac:(reflexivity) ltac:(reflexivity)) as (Hlive & Hfin).
      cbn beta in Hlive, Hfin. specialize (HP h).
      assert (P1 : hpend (upd_st (sh s) x (st_ref (getst (sh s) x) (S (s_ref (getst (sh s) x))))) th h = 0) by (unfold hpend; rewrite P; reflexivity).
      assert (P2 : hpend (upd_st (sh s) x (st_ref (getst (sh s) x) (S (s_ref (getst (sh s) x))))) (setpc th (PC6 x)) h = 0) by (reflexivity).
      rewrite P1, P2 in HP. destruct (JW h) as [W1 W2]. rewrite Hlive.
      
      change (g_hnds (upd_st (sh s) x (st_ref (getst (sh s) x) (S (s_ref (getst (sh s) x)))))) with (g_hnds (sh s)).
      change (geth (upd_st (sh s) x (st_ref (getst (sh s) x) (S (s_ref (getst (sh s) x))))) h) with (geth (sh s) h).
      cbn [fin_cnt s_fin st_ref st_fin st_retire] in Hfin.
      split; intros L; [specialize (W1 L) | specialize (W2 L)]; lia.
    - (* Close publishes the empty state *)
      assert (Lx : x < length (g_states (sh s))) by lia.
      assert (Ox : s_open (getst (sh s) x) = true).
      { assert (A6 : 0 < cstage th) by (unfold cstage; rewrite P; lia).
        destruct (K_active w r s t th I E A6) as [_ Kq]. unfold cstage in Kq. rewrite P in Kq.
        pose proof (i_open _ _ _ I) as Io. rewrite Kq in Io. subst x. exact Io. }
      intros h. specialize (HP h). destruct (JW h) as [W1 W2].
      assert (P1 : hpend (publish (sh s) empty_state) th h = 0) by (unfold hpend; rewrite P; reflexivity).
      assert (P2 : hpend (publish (sh s) empty_state) (setpc th (PCSwapped x (length (g_states (sh s))))) h =
                   cnt h (s_segs (getst (sh s) x))).
      { unfold hpend. cbn [t_pc setpc]. unfold getst, publish. cbn. now rewrite app_nth1 by exact Lx. }
      rewrite P1, P2 in HP.
      assert (Lv' : live (publish (sh s) empty_state) h = 0) by (unfold live; rewrite getst_publish; reflexivity).
      assert (Lv : live (sh s) h = cnt h (s_segs (getst (sh s) x))) by (unfold live; subst x; rewrite Ox; reflexivity).
      rewrite Lv'. rewrite Lv in W1, W2.
      cbn [g_states g_hnds publish set_cur]. rewrite sum_app. cbn [sum fin_cnt s_fin empty_state].
      change (geth (publish (sh s) empty_state) h) with (geth (sh s) h).
      split; intros L; [specialize (W1 L) | specialize (W2 L)]; lia.
    - (* Close retires the old state *)
      assert (Lx : x < length (g_states (sh s))) by (destruct TF as (Xc & _); lia).
      destruct TJ as (Nf & _).
      intros h. destruct (own_upd_st (sh s) x (fun s0 => st_retire s0 (FSet (s_segs (getst (sh s) x)) e)) h ltac:(exact Lx) ltac:(reflexivity) ltac:(reflexivity)) as (Hlive & Hfin).
      cbn beta in Hlive, Hfin. specialize (HP h).
      assert (P1 : hpend (upd_st (sh s) x (st_retire (getst (sh s) x) (FSet (s_segs (getst (sh s) x)) e))) th h = cnt h (s_segs (getst (sh s) x))) by (unfold hpend; rewrite P; rewrite getst_upd_st, Nat.eqb_refl; destruct (x <? length (g_states (sh s))); reflexivity).
      assert (P2 : hpend (upd_st (sh s) x (st_retire (getst (sh s) x) (FSet (s_segs (getst (sh s) x)) e))) (setpc th (PC8 x)) h = 0) by (reflexivity).
      rewrite P1, P2 in HP. destruct (JW h) as [W1 W2]. rewrite Hlive.
      assert (F0 : fin_cnt (s_fin (getst (sh s) x)) h = 0) by (destruct (s_fin (getst (sh s) x)); try discriminate; reflexivity). rewrite F0 in Hfin.
      change (g_hnds (upd_st (sh s) x (st_retire (getst (sh s) x) (FSet (s_segs (getst (sh s) x)) e)))) with (g_hnds (sh s)).
      change (geth (upd_st (sh s) x (st_retire (getst (sh s) x) (FSet (s_segs (getst (sh s) x)) e))) h) with (geth (sh s) h).
      cbn [fin_cnt s_fin st_ref st_fin st_retire] in Hfin.
      split; intros L; [specialize (W1 L) | specialize (W2 L)]; lia.
  Qed.
End P2.
