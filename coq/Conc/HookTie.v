(* HookTie.v -- translator tie of the L3 models: the schedule points at which
   Conc/Close.v, Conc/Readers.v (and the forced-schedule harness) cut the code
   into atomic steps are exactly the `verifPoint("<name>")` call sites of /repo's
   current source, each in the function the model attributes it to.  Gen/Source.v
   (hook_points) is regenerated from the source by `wh translate` on every run;
   adding, removing, renaming or moving a schedule point breaks this proof. *)
From Coq Require Import NArith List String Ascii.
From RW Require Import Gen.Source.
Import ListNotations.
Open Scope string_scope.

Definition s2n (s : string) : list N := map N_of_ascii (list_ascii_of_string s).

(* (point, enclosing Go function) as the models were written against *)
Definition model_points : list (string * string) :=
  [ ("Append.buffered", "Append");              (* segment.Writer.Append: batch in the buffer, not yet written *)
    ("Close.flagSet", "Close"); ("Close.locked", "Close"); ("Close.stateSwapped", "Close");
    ("DeleteRange.checked", "DeleteRange"); ("DeleteRange.locked", "DeleteRange");
    ("FirstIndex.checked", "FirstIndex"); ("Get.checked", "Get"); ("GetLog.checked", "GetLog");
    ("LastIndex.checked", "LastIndex");
    ("OffsetForFrame.checked", "OffsetForFrame"); (* segment.Writer: bounds checked against commitIdx *)
    ("Set.checked", "Set"); ("StoreLogs.checked", "StoreLogs"); ("StoreLogs.locked", "StoreLogs");
    ("acquireState.loaded", "acquireState"); ("awaitRotation.waiting", "awaitRotationLocked");
    ("mutateState.committed", "mutateStateLocked"); ("mutateState.published", "mutateStateLocked");
    ("release.lastRef", "release"); ("runRotate.locked", "runRotate"); ("runRotate.received", "runRotate");
    ("sync.durable", "sync") ].                  (* segment.Writer.sync: fsync done, commitIdx not yet stored *)

Theorem hook_points_tie :
  hook_points = map (fun p => (s2n (fst p), s2n (snd p))) model_points.
Proof. vm_compute. reflexivity. Qed.
