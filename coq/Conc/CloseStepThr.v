(* CloseStepThr.v -- the per-thread facts of CloseInv.Inv1 survive the steps of other threads *)
From Coq Require Import List Arith Bool Lia.
From RW Require Import Conc.Sys Conc.SysFacts Conc.Close Conc.ListX Conc.CloseInv Conc.CloseFacts
     Conc.CloseK Conc.CloseSafe Conc.CloseSafeStep Conc.CloseStep1 Conc.CloseFrames Conc.CloseStepInv.
Import ListNotations.

Section Thr.
  Variables (w r : tid).

  Ltac holder_of P := unfold holds_mu; rewrite P; reflexivity.

  (* only the single writer runs locking calls *)
  Lemma locking_is_w s u thu :
    Inv1 w r s -> nth_error (ths s) u = Some thu -> op_locking thu = true -> u = w.
  Proof.
    intros I Eu L. destruct (Nat.eq_dec u w) as [Q|Q]; [exact Q|]. exfalso.
    pose proof (i_sw _ _ _ I _ _ Eu Q) as NL. unfold op_locking, cur_op in L.
    destruct (t_prog thu) as [|o p]; cbn in *; [discriminate|].
    apply andb_true_iff in NL. destruct NL as [NL _]. rewrite L in NL. discriminate.
  Qed.

  Lemma rot_thread s t th :
    Inv1 w r s -> nth_error (ths s) t = Some th -> t_rot th = true -> t = r.
  Proof.
    intros I E R. destruct (Nat.eq_dec t r) as [Q|Q]; [exact Q|].
    pose proof (i_nrot _ _ _ I _ _ E Q). congruence.
  Qed.

  Lemma rot_of_pc th :
    pc_ok th = true ->
    match t_pc th with PRIdle | PRRecv | PRLock | PRLocked | PRExit | PRT3 | PRT4 _ | PRT5 _ | PRDone => t_rot th = true
                  | _ => True end.
  Proof.
    unfold pc_ok. destruct (t_rot th); [destruct (t_pc th); auto|]. destruct (t_pc th); auto; discriminate.
  Qed.

  Lemma locking_of_pc th :
    pc_ok th = true ->
    match t_pc th with
    | PLock | PLocked | PWaiting _ | PRecvAwait _ | PRelock | PApp1 _ | PApp2 _ | PApp3 _ | PTrig _ | PSend _ =>
        op_locking th = true
    | _ => True end.
  Proof.
    unfold pc_ok, op_locking. destruct (t_rot th).
    - destruct (t_prog th); [|discriminate]. destruct (t_pc th); auto; try discriminate.
    - destruct (t_pc th); auto; destruct (cur_op th) as [[]|]; try discriminate; reflexivity.
  Qed.

  (* a thread waiting for a rotation: awaitRotate can only be cleared under it *)
  Lemma await_weak s t u th thu g' th' :
    Inv1 w r s -> nth_error (ths s) t = Some th -> nth_error (ths s) u = Some thu -> u <> t ->
    step_thread (sh s) t th = Some (g', th') -> op_locking thu = true ->
    g_await g' = g_await (sh s) \/ g_await g' = None.
  Proof.
    intros I E Eu N F Lu.
    destruct (frame_await _ _ _ _ _ F) as [(Q & _)|[(x & P & _)|[(P & Q & _)|[(P & Q & _)|(c & P & Q & _)]]]]; auto.
    exfalso. apply N. rewrite (locking_is_w s u thu I Eu Lu). symmetry. apply (locking_is_w s t th I E).
    pose proof (locking_of_pc th (i_wf _ _ _ I _ _ E)) as L. now rewrite P in L.
  Qed.

  (* the rotation goroutine between taking and closing the await channel *)
  Lemma rot_chan_stable s t th g' th' c :
    Inv1 w r s -> nth_error (ths s) t = Some th -> t <> r ->
    step_thread (sh s) t th = Some (g', th') ->
    chan_open (sh s) c -> g_await (sh s) <> Some c -> chan_open g' c /\ g_await g' <> Some c.
  Proof.
    intros I E N F [Lc Oc] Na. unfold chan_open.
    pose proof (i_wf _ _ _ I _ _ E) as WF.
    destruct (frame_await _ _ _ _ _ F) as [(Q1 & Q2)|[(x & P & _ & Q1 & Q2 & _)|[(P & Q1 & Q2 & _)|[(P & Q1 & _ & Q2)|(c0 & P & Q1 & Q2 & _)]]]].
    - rewrite Q1, Q2. auto.
    - rewrite Q1, Q2, app_length. cbn. split; [split; [lia | now rewrite app_nth1 by exact Lc]|].
      intros Q. inversion Q. lia.
    - exfalso. apply N. apply (rot_thread s t th I E). pose proof (rot_of_pc th WF) as R. now rewrite P in R.
    - rewrite Q1. split; [|discriminate]. destruct (g_await (sh s)) as [c0|] eqn:Aw; rewrite Q2; [|auto].
      rewrite upd_length. split; [exact Lc|]. rewrite nth_upd_neq; [exact Oc | congruence].
    - exfalso. apply N. apply (rot_thread s t th I E). pose proof (rot_of_pc th WF) as R. now rewrite P in R.
  Qed.

  Lemma pclock_free g t th g' th' :
    t_pc th = PCLock -> step_thread g t th = Some (g', th') -> g_mu g = None.
  Proof. intros P F. unfold step_thread in F. rewrite P in F. destruct (g_mu g); [discriminate | reflexivity]. Qed.

  (* while another thread holds the mutex, Close cannot get past waiting for it *)
  Lemma K_le1 s t th g' th' u :
    Safe s -> Inv1 w r s -> nth_error (ths s) t = Some th -> step_thread (sh s) t th = Some (g', th') ->
    g_mu (sh s) = Some u -> u <> t ->
    K (sh s) (ths s) <= 1 -> K g' (upd (ths s) t th') <= 1.
  Proof.
    intros SA I E F M N KL.
    pose proof (no_panic w r _ _ _ _ _ SA I E F) as NP. pose proof (i_wf _ _ _ I _ _ E) as WF.
    destruct (K_after w r s t th g' th' I E) as (K1 & K2 & K3).
    pose proof (stage_step _ _ _ _ _ WF F NP) as ST.
    pose proof (frame_closed _ _ _ _ _ F) as Fc.
    assert (A : cstage th = match t_pc th with
                            | PCFlag | PCLock => 1 | PCLocked => 2 | PC3 => 3 | PC4 => 4 | PC5 _ => 5
                            | PC6 _ => 6 | PCSwapped _ _ => 7 | PC8 _ => 8
                            | PRel _ _ _ | PLast _ _ _ | PRun _ _ _ _ | PUnl _ => if op_close th then 9 else 0
                            | _ => 0 end) by reflexivity.
    unfold stage_after in ST.
    destruct (t_pc th) eqn:P.
    1: { (* PIdle *)
      destruct ST as [A0 [(B0 & Hc)|(B1 & Oc & Cf & Ct)]].
      - rewrite (K1 A0 B0 Hc). exact KL.
      - destruct (K2 A0 B1 Cf Ct) as [_ Q]. lia. }
    all: assert (Hc : g_closed g' = g_closed (sh s)) by (destruct Fc as [Fc|(Q & _)]; [exact Fc | congruence]).
    all: destruct (op_close th) eqn:OC; rewrite A, ST in *.
    all: try (rewrite (K1 eq_refl eq_refl Hc); exact KL).
    all: assert (C' : g_closed g' = true)
      by (rewrite Hc; apply (K_active w r s t th I E); rewrite A; lia).
    all: destruct (K3 ltac:(lia) C') as (C0 & Kq & Kq'); cbn [Nat.eqb] in Kq'; try lia.
    all: exfalso; pose proof (pclock_free _ _ _ _ _ P F); congruence.
  Qed.

  (* while the writer is about to send the trigger the rotation goroutine stays idle *)
  Lemma pend_stable s t th g' th' u thu x :
    Safe s -> Inv1 w r s -> nth_error (ths s) t = Some th -> step_thread (sh s) t th = Some (g', th') ->
    nth_error (ths s) u = Some thu -> u <> t -> t_pc thu = PSend x ->
    rot_pend (rot_pc (upd (ths s) t th') r) = false.
  Proof.
    intros SA I E F Eu N Pu.
    pose proof (i_thr _ _ _ I _ _ Eu) as TFu. unfold th_facts1 in TFu. rewrite Pu in TFu.
    destruct TFu as (Xc & Ox & Tr & _ & Pe).
    rewrite (rot_pc_upd (ths s) t th th' r E). destruct (Nat.eqb_spec r t) as [Qr|Nr]; [|exact Pe].
    assert (Rq : rot_pc (ths s) r = t_pc th) by (unfold rot_pc; rewrite Qr, E; reflexivity).
    rewrite Rq in Pe.
    assert (Hu : holds_mu thu = true) by (unfold holds_mu; now rewrite Pu).
    assert (NH : holds_mu th = false).
    { destruct (holds_mu th) eqn:Hh; [|reflexivity]. exfalso. apply N. symmetry.
      pose proof (a_mu1 _ SA _ _ E Hh). pose proof (a_mu1 _ SA _ _ Eu Hu). congruence. }
    pose proof (i_wf _ _ _ I _ _ E) as WF.
    assert (Rt : t_rot th = true) by (destruct (i_rot _ _ _ I) as (y & Ey & Ry); rewrite Qr in Ey; congruence).
    unfold pc_ok in WF. rewrite Rt in WF. destruct (t_prog th); [|discriminate].
    unfold holds_mu in NH.
    destruct (t_pc th) eqn:P; try discriminate WF; try discriminate Pe; try discriminate NH;
      unfold step_thread in F; rewrite P in F; crack F; inversion F; subst g' th'; cbn; try reflexivity.
    - (* PRIdle with a trigger: impossible, the writer has not sent yet *) congruence.
    - (* PRIdle on the closed channel: impossible, Close cannot be that far *)
      exfalso. assert (C0 : cstage thu = 0) by (unfold cstage; now rewrite Pu).
      rewrite Xc in Ox. pose proof (lock_K w r s u thu I Eu Hu C0 Ox) as KL.
      pose proof (i_tc _ _ _ I) as Itc. rewrite Heqb0 in Itc. symmetry in Itc. apply Nat.leb_le in Itc. lia.
  Qed.

  Lemma thr_other s t th g' th' u thu :
    Safe s -> Inv1 w r s -> nth_error (ths s) t = Some th -> step_thread (sh s) t th = Some (g', th') ->
    nth_error (ths s) u = Some thu -> u <> t ->
    th_facts1 g' (upd (ths s) t th') (rot_pc (upd (ths s) t th') r) thu.
  Proof.
    intros SA I E F Eu N.
    pose proof (i_thr _ _ _ I _ _ Eu) as TFu. pose proof (a_thr _ SA _ _ Eu) as FBu.
    pose proof (i_wf _ _ _ I _ _ Eu) as WFu.
    assert (G1 : forall x, x < length (g_states (sh s)) -> s_open (getst g' x) = s_open (getst (sh s) x))
      by (intros x L; apply (open_stable _ _ _ _ _ x F L)).
    assert (G3 : holds_mu thu = true ->
                 g_cur g' = g_cur (sh s) /\ g_await g' = g_await (sh s) /\
                 (g_trig (sh s) = false -> g_trig g' = false) /\
                 (K (sh s) (ths s) <= 1 -> K g' (upd (ths s) t th') <= 1)).
    { intros Hu.
      assert (Q1 : g_cur g' = g_cur (sh s)) by (apply (cur_stable s t u th thu g' th' SA E Eu N F Hu)).
      assert (Q2 : g_await g' = g_await (sh s)) by (apply (await_stable_h s t u th thu g' th' SA E Eu N F Hu)).
      assert (Q3 : g_trig (sh s) = false -> g_trig g' = false)
        by (apply (trig_stable s t u th thu g' th' SA E Eu N F Hu)).
      assert (Q4 : K (sh s) (ths s) <= 1 -> K g' (upd (ths s) t th') <= 1)
        by (apply (K_le1 s t th g' th' u SA I E F (a_mu1 _ SA _ _ Eu Hu) N)).
      exact (conj Q1 (conj Q2 (conj Q3 Q4))). }
    assert (G4 : op_locking thu = true -> g_await g' = g_await (sh s) \/ g_await g' = None)
      by (intros L; apply (await_weak s t u th thu g' th' I E Eu N F L)).
    pose proof (chans_len _ _ _ _ _ F) as G5.
    assert (G6 : g_closed (sh s) = true -> g_closed g' = true)
      by (intros C; destruct (frame_closed _ _ _ _ _ F) as [Q|(_ & _ & Q & _)]; congruence).
    pose proof (a_last _ SA) as G7.
    pose proof (locking_of_pc thu WFu) as LK.
    unfold th_facts1 in *. unfold factsB in FBu.
    destruct (t_pc thu) eqn:Pu; auto.
    - (* PWaiting *) destruct TFu as (Lc & Aw). split; [lia|].
      destruct (G4 LK) as [Q|Q]; rewrite Q; auto.
    - (* PRecvAwait *) destruct TFu as (Lc & Aw). split; [lia|].
      destruct (G4 LK) as [Q|Q]; rewrite Q; auto.
    - (* PRelock *) destruct (G4 LK) as [Q|Q]; rewrite Q; auto.
    - (* PLoad *) intros L. assert (Hu : holds_mu thu = true) by (unfold holds_mu; now rewrite Pu).
      destruct (G3 Hu) as (_ & Aw & _). rewrite Aw. auto.
    - (* PLoaded *) intros L. assert (Hu : holds_mu thu = true) by (unfold holds_mu; now rewrite Pu).
      destruct (G3 Hu) as (Cu & Aw & _). rewrite Cu, Aw. auto.
    - (* PAcq *) intros L. assert (Hu : holds_mu thu = true) by (unfold holds_mu; now rewrite Pu).
      destruct (G3 Hu) as (Cu & Aw & _). rewrite Cu, Aw. auto.
    - (* PBody *) destruct TFu as [Ox Lf]. split; [rewrite G1; auto|].
      intros L. assert (Hu : holds_mu thu = true) by (unfold holds_mu; now rewrite Pu).
      destruct (G3 Hu) as (Cu & Aw & _). rewrite Cu, Aw. auto.
    - (* PApp1 *) assert (Hu : holds_mu thu = true) by holder_of Pu.
      destruct (G3 Hu) as (Cu & Aw & _). destruct TFu as (Xc & Ox & An). rewrite Cu, Aw, G1; auto.
    - (* PApp2 *) assert (Hu : holds_mu thu = true) by holder_of Pu.
      destruct (G3 Hu) as (Cu & Aw & _). destruct TFu as (Xc & Ox & An). rewrite Cu, Aw, G1; auto. lia.
    - (* PApp3 *) assert (Hu : holds_mu thu = true) by holder_of Pu.
      destruct (G3 Hu) as (Cu & Aw & _). destruct TFu as (Xc & Ox & An). rewrite Cu, Aw, G1; auto. lia.
    - (* PTrig *) assert (Hu : holds_mu thu = true) by holder_of Pu.
      destruct (G3 Hu) as (Cu & Aw & _). destruct TFu as (Xc & Ox & An). rewrite Cu, Aw, G1; auto. lia.
    - (* PSend *) assert (Hu : holds_mu thu = true) by holder_of Pu.
      destruct (G3 Hu) as (Cu & Aw & Tr & _). destruct TFu as (Xc & Ox & Tf & An & Pe).
      rewrite Cu, Aw, G1 by lia. repeat split; auto. apply (pend_stable s t th g' th' u thu x SA I E F Eu N Pu).
    - (* PM0 *) assert (Hu : holds_mu thu = true) by holder_of Pu.
      destruct (G3 Hu) as (Cu & Aw & _ & KL). destruct TFu as (Oc & Kf). rewrite Cu, G1 by lia.
      split; [exact Oc|]. unfold krot_f in *. destruct k; auto. rewrite Aw. destruct Kf; auto.
    - (* PM1 *) assert (Hu : holds_mu thu = true) by holder_of Pu.
      destruct (G3 Hu) as (Cu & Aw & _ & KL). destruct TFu as (Yc & Oc & Kf). rewrite Cu, G1 by lia.
      split; [exact Yc|]. split; [exact Oc|]. unfold krot_f in *. destruct k; auto. rewrite Aw. destruct Kf; auto.
    - (* PM2 *) assert (Hu : holds_mu thu = true) by holder_of Pu.
      destruct (G3 Hu) as (Cu & Aw & _ & KL). destruct TFu as (Yc & Oc & Kf). rewrite Cu, G1 by lia.
      split; [exact Yc|]. split; [exact Oc|]. unfold krot_f in *. destruct k; auto. rewrite Aw. destruct Kf; auto.
    - (* PM3 *) assert (Hu : holds_mu thu = true) by holder_of Pu.
      destruct (G3 Hu) as (Cu & Aw & _ & KL). destruct TFu as (Yc & Oc & Kf). rewrite Cu, G1 by lia.
      split; [exact Yc|]. split; [exact Oc|]. unfold krot_f in *. destruct k; auto. rewrite Aw. destruct Kf; auto.
    - (* PM4 *) assert (Hu : holds_mu thu = true) by holder_of Pu.
      destruct (G3 Hu) as (Cu & Aw & _ & KL). destruct TFu as (Yc & Kf). rewrite Cu.
      split; [exact Yc|]. unfold krot_f in *. destruct k; auto. rewrite Aw. destruct Kf; auto.
    - (* PRel *) destruct TFu as [TFk TFr]. unfold krot_f in *. destruct k; try (split; [exact Logic.I | intros Q; discriminate Q]).
      + assert (Hu : holds_mu thu = true) by holder_of Pu.
        destruct (G3 Hu) as (Cu & Aw & _ & KL). rewrite Aw. split; [destruct TFk; auto | intros Q; discriminate Q].
      + split; [exact Logic.I|]. intros _ L. assert (Hu : holds_mu thu = true) by (unfold holds_mu; now rewrite Pu).
        destruct (G3 Hu) as (Cu & Aw & _). rewrite Aw. auto.
    - (* PLast *) destruct TFu as [TFk TFr]. unfold krot_f in *. destruct k; try (split; [exact Logic.I | intros Q; discriminate Q]).
      + assert (Hu : holds_mu thu = true) by holder_of Pu.
        destruct (G3 Hu) as (Cu & Aw & _ & KL). rewrite Aw. split; [destruct TFk; auto | intros Q; discriminate Q].
      + split; [exact Logic.I|]. intros _ L. assert (Hu : holds_mu thu = true) by (unfold holds_mu; now rewrite Pu).
        destruct (G3 Hu) as (Cu & Aw & _). rewrite Aw. auto.
    - (* PRun *) destruct TFu as [TFk TFr]. unfold krot_f in *. destruct k; try (split; [exact Logic.I | intros Q; discriminate Q]).
      + assert (Hu : holds_mu thu = true) by holder_of Pu.
        destruct (G3 Hu) as (Cu & Aw & _ & KL). rewrite Aw. split; [destruct TFk; auto | intros Q; discriminate Q].
      + split; [exact Logic.I|]. intros _ L. assert (Hu : holds_mu thu = true) by (unfold holds_mu; now rewrite Pu).
        destruct (G3 Hu) as (Cu & Aw & _). rewrite Aw. auto.
    - (* PC5 *) assert (Hu : holds_mu thu = true) by holder_of Pu. destruct (G3 Hu) as (Cu & _). congruence.
    - (* PC6 *) assert (Hu : holds_mu thu = true) by holder_of Pu. destruct (G3 Hu) as (Cu & _). congruence.
    - (* PCSwapped *) assert (Hu : holds_mu thu = true) by holder_of Pu. destruct (G3 Hu) as (Cu & _).
      destruct TFu as (Xc & Ec & Ox). rewrite Cu, G1 by lia. auto.
    - (* PRT3 *) assert (Hu : holds_mu thu = true) by holder_of Pu.
      destruct (G3 Hu) as (Cu & Aw & _ & KL). rewrite Aw. destruct TFu; auto.
    - (* PRT4 *) destruct TFu as (c & Qd & Co & Na). exists c. split; [exact Qd|].
      assert (Nr : t <> r).
      { intros Q. apply N. pose proof (rot_of_pc thu WFu) as R. rewrite Pu in R.
        rewrite (rot_thread s u thu I Eu R). auto. }
      apply (rot_chan_stable s t th g' th' c I E Nr F Co Na).
    - (* PRT5 *) destruct TFu as (c & Qd & Co & Na). exists c. split; [exact Qd|].
      assert (Nr : t <> r).
      { intros Q. apply N. pose proof (rot_of_pc thu WFu) as R. rewrite Pu in R.
        rewrite (rot_thread s u thu I Eu R). auto. }
      apply (rot_chan_stable s t th g' th' c I E Nr F Co Na).
  Qed.
End Thr.
