(* CloseStepInv.v -- every step preserves the protocol invariant CloseInv.Inv1
   (given CloseSafe.Safe), organised by sub-invariant: roles; stages of Close;
   channels; rotation pending; per-thread facts (own step / steps of others). *)
From Coq Require Import List Arith Bool Lia.
From RW Require Import Conc.Sys Conc.SysFacts Conc.Close Conc.ListX Conc.CloseInv Conc.CloseFacts
     Conc.CloseK Conc.CloseSafe Conc.CloseSafeStep Conc.CloseStep1 Conc.CloseFrames.
Import ListNotations.

(* ---- roles and programs ---------------------------------------------------------------- *)
Lemma rot_prog_step g t th g' th' :
  step_thread g t th = Some (g', th') ->
  t_rot th' = t_rot th /\ (t_prog th' = t_prog th \/ t_prog th' = tl (t_prog th)).
Proof.
  intros F. step_cases F; cbn; auto.
  all: match goal with |- context [continue _ _ ?k] => destruct k; cbn; auto end.
Qed.

(* ---- the stage of Close of the stepping thread ------------------------------------------ *)
Definition stage_after (th : thread) : nat :=
  match t_pc th with
  | PCFlag => 1 | PCLock => 2 | PCLocked => 3 | PC3 => 4 | PC4 => 5 | PC5 _ => 6 | PC6 _ => 7
  | PCSwapped _ _ => 8 | PC8 _ => 9
  | PRel _ _ _ | PLast _ _ _ | PRun _ _ _ _ => if op_close th then 9 else 0
  | _ => 0
  end.

Lemma stage_step g t th g' th' :
  pc_ok th = true -> step_thread g t th = Some (g', th') -> t_pc th' <> PPanic ->
  match t_pc th with
  | PIdle => cstage th = 0 /\ ((cstage th' = 0 /\ g_closed g' = g_closed g) \/
                              (cstage th' = 1 /\ cur_op th = Some OClose /\ g_closed g = false /\ g_closed g' = true))
  | _ => cstage th' = stage_after th
  end.
Proof.
  intros WF F NP.
  destruct th as [rot prog outs p]. unfold step_thread in F. cbn [t_pc] in F.
  destruct p; cbn in F; crack F; try (destruct (pm3_tx _ _ _ _) eqn:?); inversion F; subst; clear F.
  all: try (exfalso; apply NP; reflexivity). all: clear NP.
  all: unfold pc_ok, cstage, stage_after, op_locking, op_close, cur_op, continue, finish, setpc in *; cbn in *.
  all: try (split; [reflexivity|]; auto; fail).
  all: try reflexivity.
  all: destruct rot; cbn in *; try discriminate.
  all: repeat match goal with
              | H : hd_error ?p = Some _ |- _ => destruct p; cbn in H; [discriminate|]; inversion H; subst; clear H
              | H : hd_error ?p = None |- _ => destruct p; cbn in H; [|discriminate]; clear H
              end; cbn in *; try discriminate; try reflexivity.
  all: try (split; [reflexivity|]; auto; fail).
  all: repeat match goal with
              | k : kont |- _ => destruct k; cbn in *; try discriminate; try reflexivity
              end.
  all: repeat match goal with
              | H : context [match ?p with [] => _ | _ :: _ => _ end] |- _ => destruct p; cbn in *; try discriminate; try reflexivity
              | o : op |- _ => destruct o; cbn in *; try discriminate; try reflexivity
              end.
  all: try (destruct prog as [|[] ?]; cbn in *; try discriminate; try reflexivity; fail).
Qed.

(* ---- pc transitions of the rotation goroutine on plain steps ----------------------------- *)
Lemma rot_plain g t th g' th' :
  pc_ok th = true -> t_rot th = true -> step_thread g t th = Some (g', th') -> t_pc th' <> PPanic ->
  special (t_pc th) = false ->
  (forall c, rot_has (t_pc th') c = rot_has (t_pc th) c) /\
  (rot_pend (t_pc th') = true -> rot_pend (t_pc th) = true) /\
  (rot_pend (t_pc th) = true ->
   rot_pend (t_pc th') = true \/ (t_pc th = PRLocked /\ t_pc th' = PRExit /\ g_closed g = true)).
Proof.
  intros WF R F NP S.
  destruct th as [rot prog outs p]. cbn in R. subst rot. unfold step_thread in F. cbn [t_pc] in F, S.
  unfold pc_ok in WF. cbn [t_rot t_prog t_pc] in WF. destruct prog; [|discriminate].
  destruct p; try discriminate S; try discriminate WF; cbn in F; crack F;
    try (destruct (pm3_tx _ _ _ _) eqn:?); inversion F; subst; clear F.
  all: try (exfalso; apply NP; reflexivity). all: clear NP.
  all: cbn [t_pc setpc finish continue rot_has rot_pend rot_cs] in *.
  all: try (repeat split; auto; fail).
  all: repeat match goal with k : kont |- _ => destruct k; try discriminate end.
  all: cbn [t_pc setpc finish continue rot_has rot_pend rot_cs] in *.
  all: try (repeat split; auto; fail).
  all: try (split; [reflexivity|]; split; [auto|]; intros _; right; auto; fail).
Qed.

Section Pres.
  Variables (w r : tid).

  (* common context of a step from a state satisfying the invariants *)
  Ltac ctx I SA H th g' th' E F NP WF TF :=
    destruct (step_decomp _ _ _ H) as (th & g' & th' & E & F & ->);
    pose proof (no_panic w r _ _ _ _ _ SA I E F) as NP;
    pose proof (i_wf _ _ _ I _ _ E) as WF;
    pose proof (i_thr _ _ _ I _ _ E) as TF.

  Definition close_facts (s : sys) : Prop :=
    nact (ths s) <= 1 /\ (g_closed (sh s) = false -> nact (ths s) = 0) /\
    g_trig_closed (sh s) = (4 <=? K (sh s) (ths s)) /\
    g_meta_closes (sh s) = b2n (9 <=? K (sh s) (ths s)) /\
    s_open (getst (sh s) (g_cur (sh s))) = (K (sh s) (ths s) <? 7) /\
    (3 <= K (sh s) (ths s) -> g_await (sh s) = None).

  Lemma getst_last g st0 : getst {| g_closed := g_closed g; g_mu := g_mu g; g_trig := g_trig g;
                                   g_trig_closed := g_trig_closed g; g_await := g_await g; g_chans := g_chans g;
                                   g_cur := length (g_states g); g_states := g_states g ++ [st0];
                                   g_hnds := g_hnds g; g_meta_closes := g_meta_closes g; g_stable := g_stable g |}
                               (length (g_states g)) = st0.
  Proof. unfold getst; cbn. rewrite app_nth2 by lia. now rewrite Nat.sub_diag. Qed.

  (* K after the step, from the stage transition of the stepping thread *)
  Lemma K_after s t th g' th' :
    Inv1 w r s -> nth_error (ths s) t = Some th ->
    (cstage th = 0 -> cstage th' = 0 -> g_closed g' = g_closed (sh s) ->
       K g' (upd (ths s) t th') = K (sh s) (ths s)) /\
    (cstage th = 0 -> cstage th' = 1 -> g_closed (sh s) = false -> g_closed g' = true ->
       K (sh s) (ths s) = 0 /\ K g' (upd (ths s) t th') = 1) /\
    (0 < cstage th -> g_closed g' = true ->
       g_closed (sh s) = true /\ K (sh s) (ths s) = cstage th /\
       K g' (upd (ths s) t th') = (if cstage th' =? 0 then 10 else cstage th')).
  Proof. intros I E. apply K_step; [apply (i_nact _ _ _ I) | apply (i_nact0 _ _ _ I) | exact E]. Qed.


  (* the clauses depend on K only through these four tests *)
  Lemma close_facts_K s' g T (k k' : nat) :
    k = K g T -> k' = K (sh s') (ths s') ->
    (4 <=? k') = (4 <=? k) -> (9 <=? k') = (9 <=? k) -> (k' <? 7) = (k <? 7) -> (3 <= k' -> 3 <= k) ->
    nact (ths s') <= 1 -> (g_closed (sh s') = false -> nact (ths s') = 0) ->
    g_trig_closed (sh s') = g_trig_closed g -> g_meta_closes (sh s') = g_meta_closes g ->
    s_open (getst (sh s') (g_cur (sh s'))) = s_open (getst g (g_cur g)) ->
    g_await (sh s') = g_await g ->
    g_trig_closed g = (4 <=? k) -> g_meta_closes g = b2n (9 <=? k) ->
    s_open (getst g (g_cur g)) = (k <? 7) -> (3 <= k -> g_await g = None) ->
    close_facts s'.
  Proof.
    intros -> -> E4 E9 E7 E3 N1 N0 Tc Me Op Aw I4 I9 I7 I3. unfold close_facts.
    repeat split; auto; try congruence. intros L. rewrite Aw. auto.
  Qed.

  Lemma close_step_plain s t th g' th' :
    Safe s -> Inv1 w r s -> nth_error (ths s) t = Some th -> step_thread (sh s) t th = Some (g', th') ->
    special (t_pc th) = false -> close_facts {| sh := g'; ths := upd (ths s) t th' |}.
  Proof.
    intros SA I E F S.
    pose proof (no_panic w r _ _ _ _ _ SA I E F) as NP. pose proof (i_wf _ _ _ I _ _ E) as WF.
    destruct (K_after s t th g' th' I E) as (K1 & K2 & K3).
    pose proof (frame_plain _ _ _ _ _ F S) as CS.
    pose proof (stage_step _ _ _ _ _ WF F NP) as ST.
    pose proof (nact_upd (ths s) t th th' E) as HN.
    pose proof (i_nact _ _ _ I) as In1. pose proof (i_nact0 _ _ _ I) as In0.
    assert (A : cstage th = match t_pc th with
                            | PCFlag | PCLock => 1 | PCLocked => 2 | PC3 => 3 | PC4 => 4 | PC5 _ => 5
                            | PC6 _ => 6 | PCSwapped _ _ => 7 | PC8 _ => 8
                            | PRel _ _ _ | PLast _ _ _ | PRun _ _ _ _ | PUnl _ => if op_close th then 9 else 0
                            | _ => 0 end) by reflexivity.
    unfold stage_after in ST.
    assert (Hc : g_closed g' = g_closed (sh s)) by apply (cs_closed _ _ CS).
    assert (KK : exists k k', k = K (sh s) (ths s) /\ k' = K g' (upd (ths s) t th') /\
                 (4 <=? k') = (4 <=? k) /\ (9 <=? k') = (9 <=? k) /\ (k' <? 7) = (k <? 7) /\ (3 <= k' -> 3 <= k) /\
                 nact (upd (ths s) t th') <= 1 /\ (g_closed g' = false -> nact (upd (ths s) t th') = 0)).
    { destruct (op_close th) eqn:OC; destruct (t_pc th) eqn:P; try discriminate S;
        rewrite A, ST in *; cbn [Nat.ltb Nat.leb b2n] in HN.
      (* stage 0 -> 0 *)
      all: try (exists (K (sh s) (ths s)), (K (sh s) (ths s)); rewrite (K1 eq_refl eq_refl Hc);
                repeat split; auto; try lia; rewrite Hc; intros C0; specialize (In0 C0); lia).
      (* an active stage *)
      all: assert (C' : g_closed g' = true)
        by (rewrite Hc; destruct (g_closed (sh s)) eqn:C0; [reflexivity|]; specialize (In0 eq_refl);
            pose proof (sum_ge_nth (fun th => b2n (0 <? cstage th)) (ths s) t th E) as G; cbn beta in G;
            fold (nact (ths s)) in G; rewrite A in G; cbn in G; lia).
      all: destruct (K3 ltac:(lia) C') as (C0 & Kq & Kq'); cbn [Nat.eqb] in Kq';
        eexists; eexists; split; [symmetry; exact Kq|]; split; [symmetry; exact Kq'|];
        cbn; repeat split; auto; try lia; try (intros; congruence). }
    destruct KK as (k & k' & Ek & Ek' & E4 & E9 & E7 & E3 & N1 & N0).
    eapply (close_facts_K _ (sh s) (ths s) k k'); eauto; cbn [sh ths].
    - apply (cs_tc _ _ CS).
    - apply (cs_meta _ _ CS).
    - rewrite (cs_cur _ _ CS). apply (cs_open _ _ CS).
    - apply (cs_await _ _ CS).
    - subst k. apply (i_tc _ _ _ I).
    - subst k. apply (i_meta _ _ _ I).
    - subst k. apply (i_open _ _ _ I).
    - subst k. apply (i_aw3 _ _ _ I).
  Qed.

  (* how K moves on a plain step *)
  Lemma K_plain s t th g' th' :
    Safe s -> Inv1 w r s -> nth_error (ths s) t = Some th -> step_thread (sh s) t th = Some (g', th') ->
    special (t_pc th) = false ->
    (K g' (upd (ths s) t th') <= 1 -> K (sh s) (ths s) = K g' (upd (ths s) t th')) /\
    (1 <= K (sh s) (ths s) <= 2 -> 1 <= K g' (upd (ths s) t th') <= 2).
  Proof.
    intros SA I E F S.
    pose proof (no_panic w r _ _ _ _ _ SA I E F) as NP. pose proof (i_wf _ _ _ I _ _ E) as WF.
    destruct (K_after s t th g' th' I E) as (K1 & K2 & K3).
    pose proof (frame_plain _ _ _ _ _ F S) as CS.
    pose proof (stage_step _ _ _ _ _ WF F NP) as ST.
    pose proof (i_nact0 _ _ _ I) as In0.
    assert (A : cstage th = match t_pc th with
                            | PCFlag | PCLock => 1 | PCLocked => 2 | PC3 => 3 | PC4 => 4 | PC5 _ => 5
                            | PC6 _ => 6 | PCSwapped _ _ => 7 | PC8 _ => 8
                            | PRel _ _ _ | PLast _ _ _ | PRun _ _ _ _ | PUnl _ => if op_close th then 9 else 0
                            | _ => 0 end) by reflexivity.
    unfold stage_after in ST.
    assert (Hc : g_closed g' = g_closed (sh s)) by apply (cs_closed _ _ CS).
    destruct (op_close th) eqn:OC; destruct (t_pc th) eqn:P; try discriminate S; rewrite A, ST in *.
    all: try (rewrite (K1 eq_refl eq_refl Hc); split; auto; fail).
    all: assert (C' : g_closed g' = true)
      by (rewrite Hc; destruct (g_closed (sh s)) eqn:C0; [reflexivity|]; specialize (In0 eq_refl);
          pose proof (sum_ge_nth (fun th => b2n (0 <? cstage th)) (ths s) t th E) as G; cbn beta in G;
          fold (nact (ths s)) in G; rewrite A in G; cbn in G; lia).
    all: destruct (K3 ltac:(lia) C') as (C0 & Kq & Kq'); cbn [Nat.eqb] in Kq'; rewrite Kq, Kq'; split; lia.
  Qed.

  Definition chan_facts (s : sys) : Prop :=
    (forall c, g_await (sh s) = Some c -> chan_open (sh s) c) /\
    (forall c, chan_open (sh s) c -> g_await (sh s) = Some c \/ rot_has (rot_pc (ths s) r) c = true) /\
    (K (sh s) (ths s) = 0 -> g_trig (sh s) = true \/ rot_pend (rot_pc (ths s) r) = true ->
     g_await (sh s) <> None) /\
    (forall c, g_await (sh s) = Some c ->
               g_trig (sh s) = true \/ rot_pend (rot_pc (ths s) r) = true \/
               (exists t th, nth_error (ths s) t = Some th /\ at_send th = true) \/
               (1 <= K (sh s) (ths s) <= 2)) /\
    (rot_pend (rot_pc (ths s) r) = true -> K (sh s) (ths s) <= 1 -> g_trig (sh s) = false).

  Lemma at_send_keep T t th th' :
    nth_error T t = Some th -> at_send th = false ->
    (exists u thu, nth_error T u = Some thu /\ at_send thu = true) ->
    exists u thu, nth_error (upd T t th') u = Some thu /\ at_send thu = true.
  Proof.
    intros E A (u & thu & Eu & Au). exists u, thu. split; [|exact Au].
    rewrite nth_error_upd_neq; [exact Eu|]. intros ->. congruence.
  Qed.

  Lemma rot_is s thr : Inv1 w r s -> nth_error (ths s) r = Some thr -> t_rot thr = true.
  Proof. intros I E. destruct (i_rot _ _ _ I) as (x & Ex & Rx). congruence. Qed.

  Lemma K_pos s : Inv1 w r s -> g_closed (sh s) = true -> 1 <= K (sh s) (ths s).
  Proof.
    intros I C. destruct (Nat.eq_dec (nact (ths s)) 0) as [Z|Z].
    - unfold K. rewrite C, Z. cbn. lia.
    - destruct (sum_pos_ex (fun th => b2n (0 <? cstage th)) (ths s)) as (u & thu & Eu & Pu).
      { fold (nact (ths s)). lia. }
      destruct (Nat.ltb_spec 0 (cstage thu)) as [L|L]; cbn in Pu; [|lia].
      destruct (K_active w r s u thu I Eu L) as [_ Kq]. lia.
  Qed.

  Lemma chan_step_plain s t th g' th' :
    Safe s -> Inv1 w r s -> nth_error (ths s) t = Some th -> step_thread (sh s) t th = Some (g', th') ->
    special (t_pc th) = false -> chan_facts {| sh := g'; ths := upd (ths s) t th' |}.
  Proof.
    intros SA I E F S.
    pose proof (no_panic w r _ _ _ _ _ SA I E F) as NP. pose proof (i_wf _ _ _ I _ _ E) as WF.
    pose proof (frame_plain _ _ _ _ _ F S) as CS.
    destruct (K_plain s t th g' th' SA I E F S) as (KP1 & KP2).
    assert (AS : at_send th = false) by (unfold at_send; destruct (t_pc th); try reflexivity; discriminate S).
    (* the rotator's pc before and after *)
    assert (RP : (forall c, rot_has (rot_pc (upd (ths s) t th') r) c = rot_has (rot_pc (ths s) r) c) /\
                 (rot_pend (rot_pc (upd (ths s) t th') r) = true -> rot_pend (rot_pc (ths s) r) = true) /\
                 (rot_pend (rot_pc (ths s) r) = true ->
                  rot_pend (rot_pc (upd (ths s) t th') r) = true \/
                  (r = t /\ t_pc th = PRLocked /\ g_closed (sh s) = true))).
    { rewrite (rot_pc_upd (ths s) t th th' r E). destruct (Nat.eqb_spec r t) as [Qr|N]; [|auto].
      assert (Er : nth_error (ths s) r = Some th) by (rewrite Qr; exact E).
      assert (Rq : rot_pc (ths s) r = t_pc th) by (unfold rot_pc; now rewrite Er). rewrite Rq.
      destruct (rot_plain _ _ _ _ _ WF (rot_is s th I Er) F NP S) as (R1 & R2 & R3).
      split; [exact R1|]. split; [exact R2|]. intros Pe. destruct (R3 Pe) as [Q|(Q1 & Q2 & Q3)]; auto. }
    destruct RP as (RH & RP1 & RP2).
    unfold chan_facts. cbn [sh ths]. unfold chan_open.
    rewrite (cs_await _ _ CS), (cs_chans _ _ CS), (cs_trig _ _ CS).
    split; [|split; [|split; [|split]]].
    - apply (i_ch1 _ _ _ I).
    - intros c Co. rewrite RH. apply (i_ch2 _ _ _ I c Co).
    - intros K0 Hd. rewrite <- (KP1 ltac:(lia)) in K0. apply (i_pend _ _ _ I K0).
      destruct Hd as [Hd|Hd]; auto.
    - intros c Aw. destruct (i_aw _ _ _ I c Aw) as [Tr|[Pe|[Se|HK]]]; auto.
      + destruct (RP2 Pe) as [Q|(Qr & Pl & Cl)]; auto.
        (* the rotator saw the closed flag: Close waits for the mutex it holds *)
        right; right; right. apply KP2.
        assert (Hm : holds_mu th = true) by (unfold holds_mu; now rewrite Pl).
        assert (C0 : cstage th = 0) by (unfold cstage; now rewrite Pl).
        pose proof (K_pos s I Cl) as Kp.
        destruct (Nat.le_gt_cases (K (sh s) (ths s)) 2) as [L|L]; [lia|].
        pose proof (i_aw3 _ _ _ I ltac:(lia)). congruence.
      + right; right; left. eapply at_send_keep; eauto.
    - intros Pe K1. rewrite <- (KP1 K1) in K1. apply (i_trig _ _ _ I (RP1 Pe) K1).
  Qed.

  Lemma getst_publish g st0 : getst (publish g st0) (g_cur (publish g st0)) = st0.
  Proof. unfold getst, publish. cbn. rewrite app_nth2 by lia. now rewrite Nat.sub_diag. Qed.

  Lemma closed_of_active s t th :
    Inv1 w r s -> nth_error (ths s) t = Some th -> 0 < cstage th -> g_closed (sh s) = true.
  Proof. intros I E A. apply (K_active w r s t th I E A). Qed.

  Lemma oc_pc th :
    pc_ok th = true ->
    match t_pc th with
    | PSend _ | PTrig _ | PRIdle | PRT3 | PRT5 _ | PM3 _ _ => op_close th = false
    | PC3 | PCLocked | PC6 _ | PC8 _ => op_close th = true
    | _ => True
    end.
  Proof.
    destruct th as [rot prog outs p]. unfold pc_ok, op_close, op_locking, cur_op. cbn.
    destruct p; cbn; auto; intros WF; destruct rot; cbn in *; try discriminate;
      try (destruct prog as [|[] ?]; cbn in *; try discriminate; reflexivity).
    all: destruct k; cbn in *; try discriminate; destruct prog as [|[] ?]; cbn in *; try discriminate; reflexivity.
  Qed.

  Lemma close_step_special s t th g' th' :
    Safe s -> Inv1 w r s -> nth_error (ths s) t = Some th -> step_thread (sh s) t th = Some (g', th') ->
    special (t_pc th) = true -> close_facts {| sh := g'; ths := upd (ths s) t th' |}.
  Proof.
    intros SA I E F S.
    pose proof (no_panic w r _ _ _ _ _ SA I E F) as NP. pose proof (i_wf _ _ _ I _ _ E) as WF.
    pose proof (i_thr _ _ _ I _ _ E) as TF. unfold th_facts1 in TF.
    destruct (K_after s t th g' th' I E) as (K1 & K2 & K3).
    pose proof (nact_upd (ths s) t th th' E) as HN.
    pose proof (i_nact _ _ _ I) as In1. pose proof (i_nact0 _ _ _ I) as In0.
    pose proof (i_tc _ _ _ I) as Itc. pose proof (i_meta _ _ _ I) as Imeta.
    pose proof (i_open _ _ _ I) as Iopen. pose proof (i_aw3 _ _ _ I) as Iaw3.
    assert (A : cstage th = match t_pc th with
                            | PCFlag | PCLock => 1 | PCLocked => 2 | PC3 => 3 | PC4 => 4 | PC5 _ => 5
                            | PC6 _ => 6 | PCSwapped _ _ => 7 | PC8 _ => 8
                            | PRel _ _ _ | PLast _ _ _ | PRun _ _ _ _ | PUnl _ => if op_close th then 9 else 0
                            | _ => 0 end) by reflexivity.
    unfold close_facts. cbn [sh ths].
    destruct (t_pc th) eqn:P; try discriminate S;
      unfold step_thread in F; rewrite P in F; crack F;
      try (match goal with Q : pm3_tx ?g ?o ?y ?k = (?a, ?b) |- _ =>
             destruct (pm3_shape g o y k) as (segs & mn & nh & Q1 & Q2); rewrite Q in Q1; cbn [fst] in Q1; subst a end);
      inversion F; subst g' th'; clear F.
    all: try (exfalso; apply NP; reflexivity).
    (* leaves that keep the stage at 0 and the closed flag *)
    all: try (rewrite (K1 A eq_refl ltac:(first [reflexivity | assumption])); rewrite A in HN; cbn in HN;
              repeat split; try assumption; try lia; try (intros; first [congruence | lia]); fail).
    all: unfold getst in *;
      cbn [g_closed g_mu g_trig g_trig_closed g_await g_chans g_cur g_states g_hnds g_meta_closes g_stable
           set_trig set_closed set_await set_meta set_mu set_hnds set_states set_cur publish] in *.
    all: pose proof (oc_pc th WF) as OC; rewrite P in OC.
    all: assert (Cl : 0 < cstage th -> g_closed (sh s) = true) by (intros L0; apply (closed_of_active s t th I E L0)).
    all: rewrite ?A in *.
    (* resolve K of the new system *)
    all: first
      [ rewrite (K1 eq_refl ltac:(cbn [cstage t_pc setpc]; change (op_close (setpc th _)) with (op_close th) in *; rewrite ?OC; reflexivity)
                    ltac:(first [reflexivity | assumption]))
      | destruct (K2 eq_refl eq_refl ltac:(first [reflexivity | assumption]) eq_refl) as (Kq & Kq');
        rewrite Kq'; rewrite Kq in *
      | destruct (K3 ltac:(lia) ltac:(first [reflexivity | (apply Cl; lia)])) as (C0 & Kq & Kq');
        cbn [cstage t_pc setpc Nat.eqb] in Kq'; change (op_close (setpc th _)) with (op_close th) in Kq';
        rewrite ?OC in Kq'; cbn [Nat.eqb] in Kq'; rewrite Kq'; rewrite Kq in * ].
    all: cbn [cstage t_pc setpc] in HN; change (op_close (setpc th _)) with (op_close th) in HN;
      rewrite ?OC in HN; cbn [Nat.ltb Nat.leb b2n] in HN; cbn [Nat.ltb Nat.leb b2n] in *.
    all: repeat split; try assumption; try lia; try congruence;
      try (intros; first [congruence | lia | discriminate]); try (specialize (In0 ltac:(assumption)); lia).
    all: try (intros C0; specialize (In0 C0); lia).
    all: try (intros _; apply Iaw3; lia).
    all: try (rewrite app_nth2 by lia; rewrite Nat.sub_diag; cbn [nth s_open mk_state empty_state]).
    all: try reflexivity.
    - unfold K. rewrite Heqb. lia.
    - destruct TF as (Yc & Oy & _). rewrite Yc in Oy. rewrite Oy in Iopen. exact Iopen.
  Qed.

  Lemma close_step s t s' : Safe s -> Inv1 w r s -> step s t = Some s' -> close_facts s'.
  Proof.
    intros SA I H. destruct (step_decomp _ _ _ H) as (th & g' & th' & E & F & ->).
    destruct (special (t_pc th)) eqn:S;
      [eapply close_step_special | eapply close_step_plain]; eauto.
  Qed.
  Lemma chan_step_special s t th g' th' :
    Safe s -> Inv1 w r s -> nth_error (ths s) t = Some th -> step_thread (sh s) t th = Some (g', th') ->
    special (t_pc th) = true -> chan_facts {| sh := g'; ths := upd (ths s) t th' |}.
  Proof.
    intros SA I E F S.
    pose proof (no_panic w r _ _ _ _ _ SA I E F) as NP. pose proof (i_wf _ _ _ I _ _ E) as WF.
    pose proof (i_thr _ _ _ I _ _ E) as TF. unfold th_facts1 in TF.
    destruct (K_after s t th g' th' I E) as (K1 & K2 & K3).
    pose proof (i_ch1 _ _ _ I) as C1. pose proof (i_ch2 _ _ _ I) as C2. pose proof (i_pend _ _ _ I) as C3.
    pose proof (i_aw _ _ _ I) as C4. pose proof (i_trig _ _ _ I) as C5. pose proof (i_aw3 _ _ _ I) as Iaw3.
    pose proof (i_nact0 _ _ _ I) as In0.
    assert (A : cstage th = match t_pc th with
                            | PCFlag | PCLock => 1 | PCLocked => 2 | PC3 => 3 | PC4 => 4 | PC5 _ => 5
                            | PC6 _ => 6 | PCSwapped _ _ => 7 | PC8 _ => 8
                            | PRel _ _ _ | PLast _ _ _ | PRun _ _ _ _ | PUnl _ => if op_close th then 9 else 0
                            | _ => 0 end) by reflexivity.
    assert (RPQ : rot_pc (upd (ths s) t th') r = if r =? t then t_pc th' else rot_pc (ths s) r)
      by apply (rot_pc_upd _ _ _ _ _ E).
    assert (RPO : r = t -> rot_pc (ths s) r = t_pc th) by (intros Q; unfold rot_pc; rewrite Q, E; reflexivity).
    assert (NR : t_rot th = false -> r <> t)
      by (intros Rf Q; destruct (i_rot _ _ _ I) as (x & Ex & Rx); rewrite Q in Ex; congruence).
    assert (ASK : at_send th = false ->
                  (exists u thu, nth_error (ths s) u = Some thu /\ at_send thu = true) ->
                  exists u thu, nth_error (upd (ths s) t th') u = Some thu /\ at_send thu = true)
      by (intros; eapply at_send_keep; eauto).
    assert (ASN : at_send th' = true -> exists u thu, nth_error (upd (ths s) t th') u = Some thu /\ at_send thu = true)
      by (intros Q; exists t, th'; split; [apply nth_error_upd_eq; eapply nth_error_Some_lt; eauto | exact Q]).
    assert (RT : (t_rot th = true /\ (r =? t) = true /\ rot_pc (ths s) r = t_pc th) \/
                 (t_rot th = false /\ (r =? t) = false)).
    { destruct (t_rot th) eqn:Rt.
      - left. assert (Q : r = t) by (destruct (Nat.eq_dec t r) as [Q|Q]; [auto|];
          pose proof (i_nrot _ _ _ I _ _ E Q); congruence).
        split; [reflexivity|]. split; [now apply Nat.eqb_eq | now apply RPO].
      - right. split; [reflexivity|]. apply Nat.eqb_neq. now apply NR. }
    clear RPO NR.
    unfold chan_facts, chan_open in *. cbn [sh ths]. rewrite RPQ. clear RPQ.
    destruct (t_pc th) eqn:P; try discriminate S;
      (destruct RT as [(Rt & Rq & Rp)|(Rt & Rq)]; rewrite Rq; try rewrite Rp in *;
       try (exfalso; clear -WF P Rt; unfold pc_ok in WF; rewrite Rt, P in WF;
            destruct (t_prog th); try discriminate; repeat match goal with k : kont |- _ => destruct k end; discriminate));
      unfold step_thread in F; rewrite P in F; crack F;
      try (match goal with Q : pm3_tx ?g ?o ?y ?k = (?a, ?b) |- _ =>
             destruct (pm3_shape g o y k) as (segs & mn & nh & Q1 & Q2); rewrite Q in Q1; cbn [fst] in Q1; subst a end);
      inversion F; subst g' th'; clear F.
    all: try (exfalso; apply NP; reflexivity).
    all: pose proof (oc_pc th WF) as OC; rewrite P in OC.
    all: assert (Cl : 0 < cstage th -> g_closed (sh s) = true) by (intros L0; apply (closed_of_active s t th I E L0)).
    all: rewrite ?A in *.
    all: first
      [ rewrite (K1 eq_refl ltac:(cbn [cstage t_pc setpc]; change (op_close (setpc th _)) with (op_close th) in *; rewrite ?OC; reflexivity)
                    ltac:(first [reflexivity | assumption]))
      | destruct (K2 eq_refl eq_refl ltac:(first [reflexivity | assumption]) eq_refl) as (Kq & Kq');
        rewrite Kq'; rewrite Kq in *
      | destruct (K3 ltac:(lia) ltac:(first [reflexivity | (apply Cl; lia)])) as (C0 & Kq & Kq');
        cbn [cstage t_pc setpc Nat.eqb] in Kq'; change (op_close (setpc th _)) with (op_close th) in Kq';
        rewrite ?OC in Kq'; cbn [Nat.eqb] in Kq'; rewrite Kq'; rewrite Kq in * ].
    all: clear K1 K2 K3.
    all: cbn [g_closed g_mu g_trig g_trig_closed g_await g_chans g_cur g_states g_hnds g_meta_closes g_stable
              set_trig set_closed set_await set_meta set_mu set_hnds set_states set_cur publish
              t_pc setpc finish at_send rot_has rot_pend rot_cs] in *.
    all: try (unfold at_send in ASK; rewrite P in ASK; specialize (ASK eq_refl)).
    (* leaves that change nothing the clauses look at *)
    all: try (split; [exact C1|]; split; [exact C2|]; split; [exact C3|]; split; [|exact C5];
              intros c Aw; destruct (C4 c Aw) as [?|[?|[Se|?]]]; auto; fail).
    (* Close is past stage 3: nothing is awaited *)
    all: try (assert (AwN : g_await (sh s) = None) by (apply Iaw3; lia); rewrite ?AwN in *;
              split; [intros c Q; discriminate Q|]; split; [exact C2|]; split; [intros; lia|];
              split; [intros c Q; discriminate Q | intros; lia]; fail).
    - (* Close sets the flag *)
      split; [exact C1|]. split; [exact C2|]. split; [intros; lia|]. split; [intros; right; right; right; lia|].
      intros Pe _. apply C5; [exact Pe | lia].
    - (* triggerRotateLocked: make(chan) *)
      destruct TF as (_ & _ & AwN).
      split; [|split; [|split; [|split]]].
      + intros c Q. inversion Q; subst. rewrite app_length. cbn. split; [lia|].
        rewrite app_nth2 by lia. now rewrite Nat.sub_diag.
      + intros c [Lc Oc]. rewrite app_length in Lc. cbn in Lc.
        destruct (Nat.eq_dec c (length (g_chans (sh s)))) as [->|Nc]; [now left|].
        rewrite app_nth1 in Oc by lia. destruct (C2 c) as [Q|Q]; [split; [lia | exact Oc] | congruence | now right].
      + intros _ _. discriminate.
      + intros c _. right; right; left. apply ASN. reflexivity.
      + exact C5.
    - (* send on triggerRotate *)
      destruct TF as (_ & _ & Tr & AwS & Pe).
      split; [exact C1|]. split; [exact C2|]. split; [intros; exact AwS|]. split; [intros; now left|].
      intros Q. congruence.
    - (* Close closes the awaited channel *)
      split; [intros c Q; discriminate Q|]. split; [|split; [intros; lia | split; [intros c Q; discriminate Q | intros; lia]]].
      intros c [Lc Oc]. rewrite upd_length in Lc.
      destruct (Nat.eq_dec n c) as [->|Nc]; [rewrite nth_upd_eq in Oc by exact Lc; discriminate|].
      rewrite nth_upd_neq in Oc by exact Nc. destruct (C2 c (conj Lc Oc)) as [Q|Q]; [congruence | now right].
    - (* Close, nothing awaited *)
      rewrite Heqo in *.
      split; [intros c Q; discriminate Q|]. split; [exact C2|]. split; [intros; lia|].
      split; [intros c Q; discriminate Q | intros; lia].
    - (* the rotation goroutine receives the trigger *)
      split; [exact C1|]. split; [exact C2|]. split; [intros K0 _; apply C3; auto|].
      split; [intros; right; now left | reflexivity].
    - (* it receives from the closed channel *)
      pose proof (i_tc _ _ _ I) as Itc.
      split; [exact C1|]. split; [exact C2|]. split; [|split; [intros; right; now left | intros; assumption]].
      intros K0. rewrite K0 in Itc. cbn in Itc. congruence.
    - (* the rotation goroutine clears awaitRotate *)
      destruct TF as (Kle & AwS).
      split; [intros c Q; discriminate Q|]. split; [|split; [|split; [intros c Q; discriminate Q | intros Q; discriminate Q]]].
      + intros c Co. destruct (C2 c Co) as [Q|Q]; [|discriminate Q]. right. rewrite Q. apply Nat.eqb_refl.
      + intros K0 [Tr|Q]; [|discriminate Q]. rewrite (C5 eq_refl ltac:(lia)) in Tr. discriminate.
    - (* it closes the channel it took *)
      destruct TF as (c0 & Qd & [Lc0 Oc0] & Na). inversion Qd; subst c0.
      split; [|split; [|split; [exact C3|split]]].
      + intros c Aw. destruct (C1 c Aw) as [Lc Oc]. rewrite upd_length. split; [exact Lc|].
        rewrite nth_upd_neq; [exact Oc | congruence].
      + intros c [Lc Oc]. rewrite upd_length in Lc.
        destruct (Nat.eq_dec n c) as [->|Nc]; [rewrite nth_upd_eq in Oc by exact Lc; discriminate|].
        rewrite nth_upd_neq in Oc by exact Nc. destruct (C2 c (conj Lc Oc)) as [Q|Q]; [now left|].
        apply Nat.eqb_eq in Q. congruence.
      + intros c Aw. destruct (C4 c Aw) as [Q|[Q|[Se|Q]]]; auto.
      + intros Q; discriminate Q.
  Qed.

  Lemma chan_step s t s' : Safe s -> Inv1 w r s -> step s t = Some s' -> chan_facts s'.
  Proof.
    intros SA I H. destruct (step_decomp _ _ _ H) as (th & g' & th' & E & F & ->).
    destruct (special (t_pc th)) eqn:S;
      [eapply chan_step_special | eapply chan_step_plain]; eauto.
  Qed.


  (* ---- what a step of t can do to the fields another thread u relies on ------------------ *)
  Lemma two_holders s t u th thu :
    Safe s -> nth_error (ths s) t = Some th -> nth_error (ths s) u = Some thu ->
    holds_mu th = true -> holds_mu thu = true -> t = u.
  Proof. intros SA E Eu H1 H2. pose proof (a_mu1 _ SA _ _ E H1). pose proof (a_mu1 _ SA _ _ Eu H2). congruence. Qed.

  Ltac holder_of P := unfold holds_mu; rewrite P; reflexivity.

  Lemma cur_stable s t u th thu g' th' :
    Safe s -> nth_error (ths s) t = Some th -> nth_error (ths s) u = Some thu -> u <> t ->
    step_thread (sh s) t th = Some (g', th') -> holds_mu thu = true -> g_cur g' = g_cur (sh s).
  Proof.
    intros SA E Eu N F Hu. destruct (frame_cur _ _ _ _ _ F) as [(Q & _)|[(y & k & st0 & P & _)|(x & P & _)]]; [exact Q| |];
      exfalso; apply N; symmetry; apply (two_holders s t u th thu SA E Eu); auto; holder_of P.
  Qed.

  Lemma open_stable g t th g' th' x :
    step_thread g t th = Some (g', th') -> x < length (g_states g) ->
    s_open (getst g' x) = s_open (getst g x) /\ length (g_states g) <= length (g_states g').
  Proof.
    intros F L. destruct (frame_cur _ _ _ _ _ F) as [(_ & Q1 & Q2)|[(y & k & st0 & P & _ & _ & Q)|(y & P & _ & Q & _)]].
    - split; [apply Q2 | lia].
    - unfold getst. rewrite Q, app_length. split; [now rewrite app_nth1 by exact L | lia].
    - unfold getst. rewrite Q, app_length. split; [now rewrite app_nth1 by exact L | lia].
  Qed.

  Lemma await_stable_h s t u th thu g' th' :
    Safe s -> nth_error (ths s) t = Some th -> nth_error (ths s) u = Some thu -> u <> t ->
    step_thread (sh s) t th = Some (g', th') -> holds_mu thu = true -> g_await g' = g_await (sh s).
  Proof.
    intros SA E Eu N F Hu.
    destruct (frame_await _ _ _ _ _ F) as [(Q & _)|[(x & P & _)|[(P & _)|[(P & _)|(c & P & Q & _)]]]]; auto;
      exfalso; apply N; symmetry; apply (two_holders s t u th thu SA E Eu); auto; holder_of P.
  Qed.

  Lemma trig_stable s t u th thu g' th' :
    Safe s -> nth_error (ths s) t = Some th -> nth_error (ths s) u = Some thu -> u <> t ->
    step_thread (sh s) t th = Some (g', th') -> holds_mu thu = true ->
    g_trig (sh s) = false -> g_trig g' = false.
  Proof.
    intros SA E Eu N F Hu Tr.
    destruct (frame_trig _ _ _ _ _ F) as [(Q & _)|[(x & P & _)|[(P & _ & Q & _)|(P & Q & _)]]]; try congruence.
    exfalso; apply N; symmetry; apply (two_holders s t u th thu SA E Eu); auto; holder_of P.
  Qed.

  Lemma chans_len g t th g' th' :
    step_thread g t th = Some (g', th') -> length (g_chans g) <= length (g_chans g').
  Proof.
    intros F.
    destruct (frame_await _ _ _ _ _ F) as [(_ & Q)|[(x & _ & _ & _ & Q & _)|[(_ & _ & Q & _)|[(_ & _ & _ & Q)|(c & _ & _ & Q & _)]]]];
      try (rewrite Q; rewrite ?app_length, ?upd_length; cbn; lia).
    destruct (g_await g); rewrite Q; rewrite ?upd_length; lia.
  Qed.
End Pres.
