(* CloseStepInv.v -- every step preserves the protocol invariant CloseInv.Inv1
   (given CloseSafe.Safe), organised by sub-invariant: roles; stages of Close;
   channels; rotation pending; per-thread facts (own step / steps of others). *)
From Coq Require Import List Arith Bool Lia.
From RW Require Import Conc.Sys Conc.SysFacts Conc.Close Conc.ListX Conc.CloseInv Conc.CloseFacts
     Conc.CloseK Conc.CloseSafe Conc.CloseSafeStep Conc.CloseStep1 Conc.CloseFrames.
Import ListNotations.

(* ---- roles and programs ---------------------------------------------------------------- *)
Lemma rot_prog_step g t th g' th' :
  step_thread g t th = Some (g', th') ->
  t_rot th' = t_rot th /\ (t_prog th' = t_prog th \/ t_prog th' = tl (t_prog th)).
Proof.
  intros F. step_cases F; cbn; auto.
  all: match goal with |- context [continue _ _ ?k] => destruct k; cbn; auto end.
Qed.

(* ---- the stage of Close of the stepping thread ------------------------------------------ *)
Definition stage_after (th : thread) : nat :=
  match t_pc th with
  | PCFlag => 1 | PCLock => 2 | PCLocked => 3 | PC3 => 4 | PC4 => 5 | PC5 _ => 6 | PC6 _ => 7
  | PCSwapped _ _ => 8 | PC8 _ => 9
  | PRel _ _ _ | PLast _ _ _ | PRun _ _ _ _ => if op_close th then 9 else 0
  | _ => 0
  end.

Lemma stage_step g t th g' th' :
  pc_ok th = true -> step_thread g t th = Some (g', th') -> t_pc th' <> PPanic ->
  match t_pc th with
  | PIdle => cstage th = 0 /\ (cstage th' = 0 \/ (cstage th' = 1 /\ cur_op th = Some OClose /\ g_closed g = false))
  | _ => cstage th' = stage_after th
  end.
Proof.
  intros WF F NP.
  destruct th as [rot prog outs p]. unfold step_thread in F. cbn [t_pc] in F.
  destruct p; cbn in F; crack F; try (destruct (pm3_tx _ _ _ _) eqn:?); inversion F; subst; clear F.
  all: try (exfalso; apply NP; reflexivity). all: clear NP.
  all: unfold pc_ok, cstage, stage_after, op_locking, op_close, cur_op, continue, finish, setpc in *; cbn in *.
  all: try (split; [reflexivity|]; auto; fail).
  all: try reflexivity.
  all: destruct rot; cbn in *; try discriminate.
  all: repeat match goal with
              | H : hd_error ?p = Some _ |- _ => destruct p; cbn in H; [discriminate|]; inversion H; subst; clear H
              | H : hd_error ?p = None |- _ => destruct p; cbn in H; [|discriminate]; clear H
              end; cbn in *; try discriminate; try reflexivity.
  all: try (split; [reflexivity|]; auto; fail).
  all: repeat match goal with
              | k : kont |- _ => destruct k; cbn in *; try discriminate; try reflexivity
              end.
  all: repeat match goal with
              | H : context [match ?p with [] => _ | _ :: _ => _ end] |- _ => destruct p; cbn in *; try discriminate; try reflexivity
              | o : op |- _ => destruct o; cbn in *; try discriminate; try reflexivity
              end.
  all: try (destruct prog as [|[] ?]; cbn in *; try discriminate; try reflexivity; fail).
Qed.

Section Pres.
  Variables (w r : tid).

  (* common context of a step from a state satisfying the invariants *)
  Ltac ctx I SA H th g' th' E F NP WF TF :=
    destruct (step_decomp _ _ _ H) as (th & g' & th' & E & F & ->);
    pose proof (no_panic w r _ _ _ _ _ SA I E F) as NP;
    pose proof (i_wf _ _ _ I _ _ E) as WF;
    pose proof (i_thr _ _ _ I _ _ E) as TF.

  Definition close_facts (s : sys) : Prop :=
    nact (ths s) <= 1 /\ (g_closed (sh s) = false -> nact (ths s) = 0) /\
    g_trig_closed (sh s) = (4 <=? K (sh s) (ths s)) /\
    g_meta_closes (sh s) = b2n (9 <=? K (sh s) (ths s)) /\
    s_open (getst (sh s) (g_cur (sh s))) = (K (sh s) (ths s) <? 7) /\
    (3 <= K (sh s) (ths s) -> g_await (sh s) = None).

  Lemma getst_last g st0 : getst {| g_closed := g_closed g; g_mu := g_mu g; g_trig := g_trig g;
                                   g_trig_closed := g_trig_closed g; g_await := g_await g; g_chans := g_chans g;
                                   g_cur := length (g_states g); g_states := g_states g ++ [st0];
                                   g_hnds := g_hnds g; g_meta_closes := g_meta_closes g; g_stable := g_stable g |}
                               (length (g_states g)) = st0.
  Proof. unfold getst; cbn. rewrite app_nth2 by lia. now rewrite Nat.sub_diag. Qed.

  (* K after the step, from the stage transition of the stepping thread *)
  Lemma K_after s t th g' th' :
    Inv1 w r s -> nth_error (ths s) t = Some th ->
    (cstage th = 0 -> cstage th' = 0 -> g_closed g' = g_closed (sh s) ->
       K g' (upd (ths s) t th') = K (sh s) (ths s)) /\
    (cstage th = 0 -> cstage th' = 1 -> g_closed (sh s) = false -> g_closed g' = true ->
       K (sh s) (ths s) = 0 /\ K g' (upd (ths s) t th') = 1) /\
    (0 < cstage th -> g_closed g' = true ->
       g_closed (sh s) = true /\ K (sh s) (ths s) = cstage th /\
       K g' (upd (ths s) t th') = (if cstage th' =? 0 then 10 else cstage th')).
  Proof. intros I E. apply K_step; [apply (i_nact _ _ _ I) | apply (i_nact0 _ _ _ I) | exact E]. Qed.


  (* the clauses depend on K only through these four tests *)
  Lemma close_facts_K s' g T (k k' : nat) :
    k = K g T -> k' = K (sh s') (ths s') ->
    (4 <=? k') = (4 <=? k) -> (9 <=? k') = (9 <=? k) -> (k' <? 7) = (k <? 7) -> (3 <= k' -> 3 <= k) ->
    nact (ths s') <= 1 -> (g_closed (sh s') = false -> nact (ths s') = 0) ->
    g_trig_closed (sh s') = g_trig_closed g -> g_meta_closes (sh s') = g_meta_closes g ->
    s_open (getst (sh s') (g_cur (sh s'))) = s_open (getst g (g_cur g)) ->
    g_await (sh s') = g_await g ->
    g_trig_closed g = (4 <=? k) -> g_meta_closes g = b2n (9 <=? k) ->
    s_open (getst g (g_cur g)) = (k <? 7) -> (3 <= k -> g_await g = None) ->
    close_facts s'.
  Proof.
    intros -> -> E4 E9 E7 E3 N1 N0 Tc Me Op Aw I4 I9 I7 I3. unfold close_facts.
    repeat split; auto; try congruence. intros L. rewrite Aw. auto.
  Qed.

  Lemma close_step_plain s t th g' th' :
    Safe s -> Inv1 w r s -> nth_error (ths s) t = Some th -> step_thread (sh s) t th = Some (g', th') ->
    special (t_pc th) = false -> close_facts {| sh := g'; ths := upd (ths s) t th' |}.
  Proof.
    intros SA I E F S.
    pose proof (no_panic w r _ _ _ _ _ SA I E F) as NP. pose proof (i_wf _ _ _ I _ _ E) as WF.
    destruct (K_after s t th g' th' I E) as (K1 & K2 & K3).
    pose proof (frame_plain _ _ _ _ _ F S) as CS.
    pose proof (stage_step _ _ _ _ _ WF F NP) as ST.
    pose proof (nact_upd (ths s) t th th' E) as HN.
    pose proof (i_nact _ _ _ I) as In1. pose proof (i_nact0 _ _ _ I) as In0.
    assert (A : cstage th = match t_pc th with
                            | PCFlag | PCLock => 1 | PCLocked => 2 | PC3 => 3 | PC4 => 4 | PC5 _ => 5
                            | PC6 _ => 6 | PCSwapped _ _ => 7 | PC8 _ => 8
                            | PRel _ _ _ | PLast _ _ _ | PRun _ _ _ _ | PUnl _ => if op_close th then 9 else 0
                            | _ => 0 end) by reflexivity.
    unfold stage_after in ST.
    assert (Hc : g_closed g' = g_closed (sh s)) by apply (cs_closed _ _ CS).
    assert (KK : exists k k', k = K (sh s) (ths s) /\ k' = K g' (upd (ths s) t th') /\
                 (4 <=? k') = (4 <=? k) /\ (9 <=? k') = (9 <=? k) /\ (k' <? 7) = (k <? 7) /\ (3 <= k' -> 3 <= k) /\
                 nact (upd (ths s) t th') <= 1 /\ (g_closed g' = false -> nact (upd (ths s) t th') = 0)).
    { destruct (op_close th) eqn:OC; destruct (t_pc th) eqn:P; try discriminate S;
        rewrite A, ST in *; cbn [Nat.ltb Nat.leb b2n] in HN.
      (* stage 0 -> 0 *)
      all: try (exists (K (sh s) (ths s)), (K (sh s) (ths s)); rewrite (K1 eq_refl eq_refl Hc);
                repeat split; auto; try lia; rewrite Hc; intros C0; specialize (In0 C0); lia).
      (* an active stage *)
      all: assert (C' : g_closed g' = true)
        by (rewrite Hc; destruct (g_closed (sh s)) eqn:C0; [reflexivity|]; specialize (In0 eq_refl);
            pose proof (sum_ge_nth (fun th => b2n (0 <? cstage th)) (ths s) t th E) as G; cbn beta in G;
            fold (nact (ths s)) in G; rewrite A in G; cbn in G; lia).
      all: destruct (K3 ltac:(lia) C') as (C0 & Kq & Kq'); cbn [Nat.eqb] in Kq';
        eexists; eexists; split; [symmetry; exact Kq|]; split; [symmetry; exact Kq'|];
        cbn; repeat split; auto; try lia; try (intros; congruence). }
    destruct KK as (k & k' & Ek & Ek' & E4 & E9 & E7 & E3 & N1 & N0).
    eapply (close_facts_K _ (sh s) (ths s) k k'); eauto; cbn [sh ths].
    - apply (cs_tc _ _ CS).
    - apply (cs_meta _ _ CS).
    - rewrite (cs_cur _ _ CS). apply (cs_open _ _ CS).
    - apply (cs_await _ _ CS).
    - subst k. apply (i_tc _ _ _ I).
    - subst k. apply (i_meta _ _ _ I).
    - subst k. apply (i_open _ _ _ I).
    - subst k. apply (i_aw3 _ _ _ I).
  Qed.

  Lemma getst_publish g st0 : getst (publish g st0) (g_cur (publish g st0)) = st0.
  Proof. unfold getst, publish. cbn. rewrite app_nth2 by lia. now rewrite Nat.sub_diag. Qed.

  Lemma closed_of_active s t th :
    Inv1 w r s -> nth_error (ths s) t = Some th -> 0 < cstage th -> g_closed (sh s) = true.
  Proof. intros I E A. apply (K_active w r s t th I E A). Qed.

  Lemma oc_pc th :
    pc_ok th = true ->
    match t_pc th with
    | PSend _ | PTrig _ | PRIdle | PRT3 | PRT5 _ | PM3 _ _ => op_close th = false
    | PC3 | PCLocked | PC6 _ | PC8 _ => op_close th = true
    | _ => True
    end.
  Proof.
    destruct th as [rot prog outs p]. unfold pc_ok, op_close, op_locking, cur_op. cbn.
    destruct p; cbn; auto; intros WF; destruct rot; cbn in *; try discriminate;
      try (destruct prog as [|[] ?]; cbn in *; try discriminate; reflexivity).
    all: destruct k; cbn in *; try discriminate; destruct prog as [|[] ?]; cbn in *; try discriminate; reflexivity.
  Qed.

  Lemma close_step_special s t th g' th' :
    Safe s -> Inv1 w r s -> nth_error (ths s) t = Some th -> step_thread (sh s) t th = Some (g', th') ->
    special (t_pc th) = true -> close_facts {| sh := g'; ths := upd (ths s) t th' |}.
  Proof.
    intros SA I E F S.
    pose proof (no_panic w r _ _ _ _ _ SA I E F) as NP. pose proof (i_wf _ _ _ I _ _ E) as WF.
    pose proof (i_thr _ _ _ I _ _ E) as TF. unfold th_facts1 in TF.
    destruct (K_after s t th g' th' I E) as (K1 & K2 & K3).
    pose proof (nact_upd (ths s) t th th' E) as HN.
    pose proof (i_nact _ _ _ I) as In1. pose proof (i_nact0 _ _ _ I) as In0.
    pose proof (i_tc _ _ _ I) as Itc. pose proof (i_meta _ _ _ I) as Imeta.
    pose proof (i_open _ _ _ I) as Iopen. pose proof (i_aw3 _ _ _ I) as Iaw3.
    assert (A : cstage th = match t_pc th with
                            | PCFlag | PCLock => 1 | PCLocked => 2 | PC3 => 3 | PC4 => 4 | PC5 _ => 5
                            | PC6 _ => 6 | PCSwapped _ _ => 7 | PC8 _ => 8
                            | PRel _ _ _ | PLast _ _ _ | PRun _ _ _ _ | PUnl _ => if op_close th then 9 else 0
                            | _ => 0 end) by reflexivity.
    unfold close_facts. cbn [sh ths].
    destruct (t_pc th) eqn:P; try discriminate S;
      unfold step_thread in F; rewrite P in F; crack F;
      try (match goal with Q : pm3_tx ?g ?o ?y ?k = (?a, ?b) |- _ =>
             destruct (pm3_shape g o y k) as (segs & mn & nh & Q1 & Q2); rewrite Q in Q1; cbn [fst] in Q1; subst a end);
      inversion F; subst g' th'; clear F.
    all: try (exfalso; apply NP; reflexivity).
    (* leaves that keep the stage at 0 and the closed flag *)
    all: try (rewrite (K1 A eq_refl ltac:(first [reflexivity | assumption])); rewrite A in HN; cbn in HN;
              repeat split; try assumption; try lia; try (intros; first [congruence | lia]); fail).
    all: unfold getst in *;
      cbn [g_closed g_mu g_trig g_trig_closed g_await g_chans g_cur g_states g_hnds g_meta_closes g_stable
           set_trig set_closed set_await set_meta set_mu set_hnds set_states set_cur publish] in *.
    all: pose proof (oc_pc th WF) as OC; rewrite P in OC.
    all: assert (Cl : 0 < cstage th -> g_closed (sh s) = true) by (intros L0; apply (closed_of_active s t th I E L0)).
    all: rewrite ?A in *.
    (* resolve K of the new system *)
    all: first
      [ rewrite (K1 eq_refl ltac:(cbn [cstage t_pc setpc]; change (op_close (setpc th _)) with (op_close th) in *; rewrite ?OC; reflexivity)
                    ltac:(first [reflexivity | assumption]))
      | destruct (K2 eq_refl eq_refl ltac:(first [reflexivity | assumption]) eq_refl) as (Kq & Kq');
        rewrite Kq'; rewrite Kq in *
      | destruct (K3 ltac:(lia) ltac:(first [reflexivity | (apply Cl; lia)])) as (C0 & Kq & Kq');
        cbn [cstage t_pc setpc Nat.eqb] in Kq'; change (op_close (setpc th _)) with (op_close th) in Kq';
        rewrite ?OC in Kq'; cbn [Nat.eqb] in Kq'; rewrite Kq'; rewrite Kq in * ].
    all: cbn [cstage t_pc setpc] in HN; change (op_close (setpc th _)) with (op_close th) in HN;
      rewrite ?OC in HN; cbn [Nat.ltb Nat.leb b2n] in HN; cbn [Nat.ltb Nat.leb b2n] in *.
    all: repeat split; try assumption; try lia; try congruence;
      try (intros; first [congruence | lia | discriminate]); try (specialize (In0 ltac:(assumption)); lia).
    all: try (intros C0; specialize (In0 C0); lia).
    all: try (intros _; apply Iaw3; lia).
    all: try (rewrite app_nth2 by lia; rewrite Nat.sub_diag; cbn [nth s_open mk_state empty_state]).
    all: try reflexivity.
    - unfold K. rewrite Heqb. lia.
    - destruct TF as (Yc & Oy & _). rewrite Yc in Oy. rewrite Oy in Iopen. exact Iopen.
  Qed.

  Lemma close_step s t s' : Safe s -> Inv1 w r s -> step s t = Some s' -> close_facts s'.
  Proof.
    intros SA I H. destruct (step_decomp _ _ _ H) as (th & g' & th' & E & F & ->).
    destruct (special (t_pc th)) eqn:S;
      [eapply close_step_special | eapply close_step_plain]; eauto.
  Qed.
End Pres.
