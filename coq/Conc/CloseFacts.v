(* CloseFacts.v -- basic facts about the L3 model that need no invariant *)
From Coq Require Import List Arith Bool Lia.
From RW Require Import Conc.Sys Conc.SysFacts Conc.Close Conc.ListX Conc.CloseInv.
Import ListNotations.

Lemma step_decomp s t s' :
  step s t = Some s' ->
  exists th g' th', nth_error (ths s) t = Some th /\ step_thread (sh s) t th = Some (g', th') /\
                    s' = {| sh := g'; ths := upd (ths s) t th' |}.
Proof.
  unfold step. destruct (nth_error (ths s) t) as [th|] eqn:E; [|discriminate].
  destruct (step_thread (sh s) t th) as [[g' th']|] eqn:F; [|discriminate].
  intros H; inversion H; subst. eauto 6.
Qed.

Lemma nth_error_upd_inv {A} (l : list A) t x u y :
  nth_error (upd l t x) u = Some y ->
  (u = t /\ y = x /\ t < length l) \/ (u <> t /\ nth_error l u = Some y).
Proof.
  intros H. destruct (Nat.eq_dec u t) as [->|N].
  - left. assert (L : t < length l).
    { apply nth_error_Some_lt in H. now rewrite upd_length in H. }
    rewrite nth_error_upd_eq in H by exact L. inversion H; auto.
  - right. rewrite nth_error_upd_neq in H by congruence. auto.
Qed.

(* ---- C14: after Close ----------------------------------------------------------- *)
(* once the closed flag is set (Close sets it in its first step and never resets
   it), a call that starts gets ErrClosed and a further Close is a no-op that
   does not touch the shared state *)
Lemma closed_call s t th o :
  g_closed (sh s) = true -> nth_error (ths s) t = Some th ->
  t_pc th = PIdle -> cur_op th = Some o ->
  step s t = Some {| sh := sh s;
                     ths := upd (ths s) t (finish th (if is_close o then Ok 0 else ErrClosed)) |}.
Proof.
  intros C E P O. unfold step. rewrite E. unfold step_thread. rewrite P, O, C.
  destruct o; reflexivity.
Qed.

(* case analysis of one step of the thread-level step function *)
Ltac crack F :=
  repeat match type of F with
         | context [match ?x with _ => _ end] => destruct x eqn:?; try discriminate F
         | context [if ?x then _ else _] => destruct x eqn:?; try discriminate F
         end.

(* every transaction publishes one new open state built from handle lists, and
   creates at most one new file *)
Definition tx_shape (g : shared) (r : shared * list nat) : Prop :=
  exists segs mn nh,
    fst r = publish (set_hnds g (g_hnds g ++ nh)) (mk_state segs mn) /\
    (nh = [] \/ exists b, nh = [new_hnd b]).

Lemma shape_same g segs mn l : tx_shape g (publish g (mk_state segs mn), l).
Proof.
  exists segs, mn, []. split; [|now left]. cbn. rewrite app_nil_r. destruct g; reflexivity.
Qed.
Lemma shape_rotate g y : tx_shape g (do_rotate g y).
Proof. unfold do_rotate. do 3 eexists. split; [cbn; reflexivity | right; eexists; reflexivity]. Qed.
Lemma shape_head g y m : tx_shape g (do_trunc_head g y m).
Proof.
  unfold do_trunc_head. destruct (split_head _ _ _ _) as [rm keep]. destruct keep.
  - do 3 eexists. split; [cbn; reflexivity | right; eexists; reflexivity].
  - apply shape_same.
Qed.
Lemma shape_tail g y m : tx_shape g (do_trunc_tail g y m).
Proof.
  unfold do_trunc_tail. destruct (split_tail _ _ _) as [keep rm].
  do 3 eexists. split; [cbn; reflexivity | right; eexists; reflexivity].
Qed.

Lemma pm3_shape g o y k : tx_shape g (pm3_tx g o y k).
Proof.
  unfold pm3_tx.
  assert (D : tx_shape g match o with
                         | Some o => match classify g (getst g y) o with
                                     | DNoop => (publish g (mk_state (s_segs (getst g y)) (s_min (getst g y))), [])
                                     | DHead m => do_trunc_head g y m
                                     | DTail m => do_trunc_tail g y m
                                     end
                         | None => (publish g (mk_state (s_segs (getst g y)) (s_min (getst g y))), [])
                         end).
  { destruct o as [o|]; [destruct (classify g (getst g y) o)|];
      auto using shape_same, shape_head, shape_tail. }
  destruct k; auto using shape_rotate.
Qed.

Lemma closed_mono s t s' : step s t = Some s' -> g_closed (sh s) = true -> g_closed (sh s') = true.
Proof.
  intros H C. destruct (step_decomp _ _ _ H) as [th [g' [th' [E [F ->]]]]]. cbn.
  unfold step_thread in F. crack F;
    try (inversion F; subst; cbn; try congruence; fail).
  match goal with H : pm3_tx ?g ?o ?y ?k = _ |- _ =>
    destruct (pm3_shape g o y k) as [segs [mn [nh [Q _]]]]; rewrite H in Q; cbn in Q end.
  inversion F; subst. cbn. exact C.
Qed.

Lemma closed_run sch : forall s, g_closed (sh s) = true -> g_closed (sh (run step s sch)) = true.
Proof.
  induction sch as [|t r IH]; intros s C; cbn; [exact C|]. apply IH. unfold exec.
  destruct (step s t) eqn:E; [eapply closed_mono; eauto | exact C].
Qed.
