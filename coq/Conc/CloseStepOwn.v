(* CloseStepOwn.v -- the facts CloseInv.th_facts1 demands of a thread at its new
   program counter hold after its own step *)
From Coq Require Import List Arith Bool Lia.
From RW Require Import Conc.Sys Conc.SysFacts Conc.Close Conc.ListX Conc.CloseInv Conc.CloseFacts
     Conc.CloseK Conc.CloseSafe Conc.CloseSafeStep Conc.CloseStep1 Conc.CloseFrames Conc.CloseStepInv
     Conc.CloseStepThr.
Import ListNotations.

Section Own.
  Variables (w r : tid).

  Lemma thr_own s t th g' th' :
    Safe s -> Inv1 w r s -> nth_error (ths s) t = Some th -> step_thread (sh s) t th = Some (g', th') ->
    th_facts1 g' (upd (ths s) t th') (rot_pc (upd (ths s) t th') r) th'.
  Proof.
    intros SA I E F.
    pose proof (no_panic w r _ _ _ _ _ SA I E F) as NP. pose proof (i_wf _ _ _ I _ _ E) as WF.
    pose proof (i_thr _ _ _ I _ _ E) as TF. unfold th_facts1 in TF.
    pose proof (wf_step1 _ _ _ _ _ WF F NP) as WF'.
    destruct (K_after w r s t th g' th' I E) as (K1 & K2 & K3).
    pose proof (stage_step _ _ _ _ _ WF F NP) as ST.
    pose proof (a_last _ SA) as La.
    pose proof (rot_pc_upd (ths s) t th th' r E) as RPQ.
    pose proof (locking_of_pc th WF) as LK. pose proof (rot_of_pc th WF) as RO.
    assert (A : cstage th = match t_pc th with
                            | PCFlag | PCLock => 1 | PCLocked => 2 | PC3 => 3 | PC4 => 4 | PC5 _ => 5
                            | PC6 _ => 6 | PCSwapped _ _ => 7 | PC8 _ => 8
                            | PRel _ _ _ | PLast _ _ _ | PRun _ _ _ _ | PUnl _ => if op_close th then 9 else 0
                            | _ => 0 end) by reflexivity.
    assert (OCr : t_rot th = true -> op_close th = false).
    { intros R. unfold pc_ok in WF. rewrite R in WF. unfold op_close, cur_op. destruct (t_prog th); [reflexivity | discriminate]. }
    pose proof (i_pend _ _ _ I) as Ipend. pose proof (i_ch1 _ _ _ I) as Ich1. pose proof (i_open _ _ _ I) as Iopen.
    unfold th_facts1.
    unfold step_thread in F; crack F;
      try (match goal with Q : pm3_tx ?g ?o ?y ?k = (?a, ?b) |- _ =>
             destruct (pm3_shape g o y k) as (segs & mn & nh & Q1 & Q2); rewrite Q in Q1; cbn [fst] in Q1; subst a end);
      inversion F; subst g' th'; clear F.
    all: try (exfalso; apply NP; reflexivity).
    all: repeat match goal with H : t_pc _ = _ |- _ => rewrite H in TF, LK, RO, ST, A end.
    all: cbn [t_pc setpc finish] in *.
    all: try exact Logic.I.
    all: change (op_locking (setpc th _)) with (op_locking th) in *.
    all: rewrite ?open_ref, ?open_fin, ?open_retire.
    all: cbn [g_closed g_mu g_trig g_trig_closed g_await g_chans g_cur g_states g_hnds g_meta_closes g_stable
              set_trig set_closed set_await set_meta set_mu set_hnds set_states set_cur publish upd_st upd_h] in *.
    all: try (match goal with |- krot_f _ _ ?k => first [is_var k; fail 1 | idtac] end; exact Logic.I).
    all: try (intros L; specialize (TF L); tauto).
    all: try tauto.
    (* krot_f for a continuation that is a variable: only KRot says something *)
    all: try (match goal with |- context [krot_f _ _ ?k] => is_var k; destruct k end;
              unfold krot_f in *; try tauto).
    (* the retry clause: only for KRetry *)
    all: try (match goal with |- _ /\ (?k = KRetry -> _) =>
                split; [|first [ intros Q; discriminate Q | intros _ L ]] end).
    all: try (match goal with |- g_await _ = None =>
                match goal with L : op_locking _ = true |- _ =>
                  first [ destruct (TF L) as [? ?]; assumption
                        | destruct TF as [_ TFr]; apply TFr; [reflexivity | exact L]
                        | exfalso; clear -WF Heqp; unfold pc_ok in WF; rewrite Heqp in WF;
                          destruct (t_rot _); [destruct (t_prog _)|]; discriminate ] end end).
    all: try exact Logic.I.
    all: try (match goal with |- krot_f _ _ ?k => first [is_var k; fail 1 | idtac] end; exact Logic.I).
    (* helper facts *)
    all: assert (RK : forall kk, kk = KRot ->
                  match t_pc th with
                  | PM0 k | PM1 _ k | PM2 _ k | PM3 _ k | PM4 _ _ k | PRel _ _ k | PLast _ _ k | PRun _ _ _ k =>
                      k = kk -> t_rot th = true
                  | _ => True end)
      by (intros kk ->; clear -WF; unfold pc_ok in WF; destruct (t_rot th); destruct (t_pc th); auto;
          intros ->; discriminate).
    all: repeat match goal with H : t_pc _ = _ |- _ => rewrite H in RK end.
    (* reader leaves PChecked / retries: not a locking call *)
    all: try (intros L; exfalso; unfold op_locking in L;
              first [ rewrite Heqo in L; cbn in L; congruence | congruence ]; fail).
    (* KRot: K and awaitRotate are unchanged by the rotation goroutine's own step *)
    all: try (assert (OC : op_close th = false) by (apply OCr; apply (RK KRot eq_refl eq_refl));
              rewrite ?OC in A;
              rewrite (K1 A ltac:(cbn [cstage t_pc setpc]; change (op_close (setpc th _)) with (op_close th); rewrite ?OC; reflexivity) eq_refl);
              unfold krot_f in *; try (rewrite La in *); tauto).
    all: try (assert (OC : op_close th = false) by (apply OCr; apply (RK KRot eq_refl eq_refl));
              rewrite ?OC in A; destruct TF as [TFk _];
              rewrite (K1 A ltac:(cbn [cstage t_pc setpc]; change (op_close (setpc th _)) with (op_close th); rewrite ?OC; reflexivity) eq_refl);
              unfold krot_f in *; tauto).
    all: try (destruct TF as (Yc & _); split; [lia | exact Logic.I]).
    all: try (match goal with H : is_locking _ = false |- _ => cbn in H; discriminate H end).
    all: change (getst (upd_h ?g ?a ?b)) with (getst g) in *.
    - (* PLocked -> PWaiting *)
      destruct (Ich1 n eq_refl) as [Ln _]. split; [exact Ln | now left].
    - (* PRecvAwait -> PRelock: the channel is closed, so it is not the awaited one *)
      destruct TF as (Lc & [Aw|Aw]); [|exact Aw]. destruct (Ich1 c Aw) as [_ Oc]. congruence.
    - (* PRelock with a rotation queued again: excluded for a single writer (th_facts1: awaitRotate is nil here) *)
      discriminate TF.
    - (* StoreLogs: offsets published *)
      assert (L : op_locking th = true) by (unfold op_locking; now rewrite Heqo).
      destruct TF as (Ox & Lf). destruct (Lf L) as (Xc & Aw). auto.
    - assert (L : op_locking th = true) by (unfold op_locking; now rewrite Heqo).
      destruct TF as (Ox & Lf). destruct (Lf L) as (Xc & Aw). rewrite <- Xc. split; [exact Ox | exact Logic.I].
    - assert (L : op_locking th = true) by (unfold op_locking; now rewrite Heqo).
      destruct TF as (Ox & Lf). destruct (Lf L) as (Xc & Aw). rewrite <- Xc. split; [exact Ox | exact Logic.I].
    - assert (L : op_locking th = true) by (unfold op_locking; now rewrite Heqo).
      destruct TF as (Ox & Lf). destruct (Lf L) as (Xc & Aw). rewrite <- Xc. split; [exact Ox | exact Logic.I].
    - assert (L : op_locking th = true) by (unfold op_locking; now rewrite Heqo).
      destruct TF as (Ox & Lf). destruct (Lf L) as (Xc & Aw). rewrite <- Xc. split; [exact Ox | exact Logic.I].
    - (* triggerRotateLocked -> PSend *)
      destruct TF as (Xc & Ox & Aw).
      assert (K0 : K (sh s) (ths s) = 0) by (unfold K; now rewrite Heqb).
      assert (Rf : t_rot th = false).
      { clear -WF Heqp. unfold pc_ok in WF. rewrite Heqp in WF. destruct (t_rot th); [|reflexivity].
        destruct (t_prog th); discriminate. }
      assert (Nr : r <> t).
      { intros Q. destruct (i_rot _ _ _ I) as (y & Ey & Ry). rewrite Q in Ey. congruence. }
      rewrite RPQ. apply Nat.eqb_neq in Nr. rewrite Nr.
      change (getst (set_await ?g ?a ?b)) with (getst g).
      split; [exact Xc|]. split; [exact Ox|].
      destruct (g_trig (sh s)) eqn:Tr; [exfalso; apply (Ipend K0); auto|].
      destruct (rot_pend (rot_pc (ths s) r)) eqn:Pe; [exfalso; apply (Ipend K0); auto|].
      repeat split; auto. discriminate.
    - (* the commit of a rotation cannot fail: metaDB is closed only after stage 8 *)
      destruct TF as (Yc & Oy & Kl & Aw).
      pose proof (i_meta _ _ _ I) as Im. destruct (Nat.leb_spec 9 (K (sh s) (ths s))); [lia|].
      rewrite Im in *. cbn in *. discriminate.
    - assert (OC : op_close th = false) by (apply OCr; apply (RK KRot eq_refl eq_refl)).
      destruct TF as (Yc & Oy & Kl & Aw). split; [exact Yc|]. split; [exact Oy|].
      unfold krot_f. rewrite (K1 A eq_refl eq_refl). auto.
    - assert (OC : op_close th = false) by (apply OCr; apply (RK KRot eq_refl eq_refl)).
      destruct TF as (Yc & Oy & Kl & Aw). split; [lia|].
      rewrite (K1 A eq_refl eq_refl). auto.
    - (* continue *)
      destruct k; cbn [continue t_pc setpc finish]; try exact Logic.I;
        try (split; [exact Logic.I | intros Q; discriminate Q]).
      + assert (OC : op_close th = false) by (apply OCr; apply (RK KRot eq_refl eq_refl)). rewrite OC in A.
        pose proof (K1 A eq_refl eq_refl) as Kq. cbn [continue] in Kq. rewrite Kq. exact (proj1 TF).
      + intros L. change (op_locking (setpc th PLoad)) with (op_locking th) in L.
        apply (proj2 TF eq_refl L).
    - destruct k; cbn [continue t_pc setpc finish]; try exact Logic.I;
        try (split; [exact Logic.I | intros Q; discriminate Q]).
      + assert (OC : op_close th = false) by (apply OCr; apply (RK KRot eq_refl eq_refl)). rewrite OC in A.
        pose proof (K1 A eq_refl eq_refl) as Kq. cbn [continue] in Kq. rewrite Kq. exact (proj1 TF).
      + intros L. change (op_locking (setpc th PLoad)) with (op_locking th) in L.
        apply (proj2 TF eq_refl L).
    - destruct k; cbn [continue t_pc setpc finish]; try exact Logic.I;
        try (split; [exact Logic.I | intros Q; discriminate Q]).
      + assert (OC : op_close th = false) by (apply OCr; apply (RK KRot eq_refl eq_refl)). rewrite OC in A.
        pose proof (K1 A eq_refl eq_refl) as Kq. cbn [continue] in Kq. rewrite Kq. exact (proj1 TF).
      + intros L. change (op_locking (setpc th PLoad)) with (op_locking th) in L.
        apply (proj2 TF eq_refl L).
    - (* Close swaps in the empty state *)
      split; [lia|]. split; [reflexivity|].
      unfold getst, publish; cbn. rewrite app_nth1 by lia.
      destruct (K_active w r s t th I E ltac:(lia)) as [_ Kq]. rewrite A in Kq.
      subst x. fold (getst (sh s) (g_cur (sh s))). rewrite Iopen, Kq. reflexivity.
    - (* the rotation goroutine starts the rotation *)
      assert (K0 : K (sh s) (ths s) = 0) by (unfold K; now rewrite Heqb).
      assert (Qr : t = r) by (apply (rot_thread w r s t th I E RO)).
      assert (Rp : rot_pc (ths s) r = PRLocked) by (unfold rot_pc; rewrite <- Qr, E; exact Heqp).
      split; [rewrite Iopen, K0; reflexivity|]. unfold krot_f.
      rewrite (K1 A eq_refl Heqb). split; [lia|]. apply (Ipend K0). right. rewrite Rp. reflexivity.
    - (* it takes the await channel *)
      destruct TF as (Kl & Aw). destruct (g_await (sh s)) as [c|] eqn:Q; [|congruence].
      exists c. split; [reflexivity|]. split; [apply (Ich1 c eq_refl) | discriminate].
  Qed.
End Own.
