(* ReadStable.v -- view stability for every step of a reachable single-writer system: the
   view through a version x either stays as it was or becomes the view through the
   current version *)
From Coq Require Import List Arith Bool Lia.
From RW Require Import Conc.Sys Conc.SysFacts Conc.Close Conc.ListX Conc.CloseInv Conc.CloseFacts Conc.CloseSafe
     Conc.CloseSafeStep Conc.CloseStep1 Conc.CloseReach Conc.CloseCount Conc.ReadInv Conc.ReadTx Conc.ReadStep
     Conc.Readers Conc.ReadView.
Import ListNotations.

Lemma view_upd_st g z (f : st -> st) x o :
  (forall s0, s_segs (f s0) = s_segs s0) -> (forall s0, s_min (f s0) = s_min s0) -> sg g x <> [] ->
  view (upd_st g z (f (getst g z))) x o = view g x o.
Proof.
  intros H1 H2 Ne.
  assert (G : forall y, s_segs (getst (upd_st g z (f (getst g z))) y) = s_segs (getst g y) /\
                        s_min (getst (upd_st g z (f (getst g z))) y) = s_min (getst g y)).
  { intros y. rewrite getst_upd_st. destruct ((z =? y) && _) eqn:B; [|auto].
    apply andb_true_iff in B. destruct B as [B _]. apply Nat.eqb_eq in B. subst. auto. }
  apply view_ext; [apply (G x) | apply (G x) | exact Ne |]. intros h _. auto.
Qed.

Lemma view_upd_h g t v x o :
  h_base v = h_base (geth g t) -> h_cnt v = h_cnt (geth g t) ->
  (forall pos, pos < h_cnt (geth g t) -> nth pos (h_ents v) 0 = nth pos (h_ents (geth g t)) 0) -> sg g x <> [] ->
  view (upd_h g t v) x o = view g x o.
Proof.
  intros B C Ev Ne. apply view_ext; [reflexivity | reflexivity | exact Ne |].
  intros h _. unfold hb, hc. rewrite geth_upd_h. destruct ((t =? h) && _) eqn:Q; [|auto].
  apply andb_true_iff in Q. destruct Q as [Q _]. apply Nat.eqb_eq in Q. subst. auto.
Qed.

Lemma view_close g hs x o : sg g x <> [] -> view (set_hnds g (close_all (g_hnds g) hs)) x o = view g x o.
Proof.
  intros Ne. apply view_ext; [reflexivity | reflexivity | exact Ne |].
  intros h _. unfold hb, hc, geth; cbn. pose proof (close_all_io hs (g_hnds g) h) as Q. unfold io in Q. inversion Q.
  split; [congruence|]. split; [congruence|]. intros pos _. congruence.
Qed.

Lemma view_publish g nhl st0 x o :
  x < ns g -> (forall h, In h (sg g x) -> h < nh_ g) -> sg g x <> [] ->
  view (publish (set_hnds g (g_hnds g ++ nhl)) st0) x o = view g x o.
Proof.
  intros L Hh Ne.
  assert (G : getst (publish (set_hnds g (g_hnds g ++ nhl)) st0) x = getst g x).
  { unfold getst, publish; cbn. now rewrite app_nth1. }
  apply view_ext; [unfold sg; now rewrite G | unfold mn; now rewrite G | exact Ne |].
  intros h Hi. assert (Gh : geth (publish (set_hnds g (g_hnds g ++ nhl)) st0) h = geth g h).
  { unfold geth, publish; cbn. rewrite app_nth1; [reflexivity | apply (Hh h Hi)]. }
  unfold hb, hc. rewrite Gh. auto.
Qed.

Lemma view_ctl g g' x o :
  g_states g' = g_states g -> g_hnds g' = g_hnds g -> sg g x <> [] -> view g' x o = view g x o.
Proof.
  intros E1 E2 Ne. apply view_ext; unfold sg, mn, hb, hc, getst, geth; rewrite ?E1, ?E2; auto.
Qed.

Lemma commit_upd g x o :
  Inv3 g -> S (g_cur g) = ns g -> op_ g (g_cur g) = true -> x <= g_cur g -> op_ g x = true -> is_read_op o = true ->
  let ht := tail_of (getst g (g_cur g)) in let h := geth g ht in
  h_chain h ->
  let g' := upd_h g ht (with_io h (h_wr h) (h_syn h) (length (h_ents h))) in
  view g' x o = view g x o \/ view g' x o = view g' (g_cur g) o.
Proof.
  intros K La Oc Lx Ox Ro ht h C g'.
  apply (commit_view g g' x ht K La Oc Lx Ox eq_refl); try (intros; reflexivity); auto.
  - intros h0. unfold hb, g'. rewrite geth_upd_h. destruct ((_ =? h0) && _) eqn:Q; [|reflexivity].
    apply andb_true_iff in Q. destruct Q as [Q _]. apply Nat.eqb_eq in Q. now subst.
  - intros h0. unfold g'. rewrite geth_upd_h. destruct ((_ =? h0) && _) eqn:Q; [|reflexivity].
    apply andb_true_iff in Q. destruct Q as [Q _]. apply Nat.eqb_eq in Q. now subst.
  - intros h0 N. unfold hc, g'. rewrite geth_upd_h. destruct ((_ =? h0) && _) eqn:Q; [|reflexivity].
    apply andb_true_iff in Q. destruct Q as [Q _]. apply Nat.eqb_eq in Q. congruence.
  - unfold hc, g'. rewrite geth_upd_h, Nat.eqb_refl. cbn [andb]. destruct (_ <? _); [|apply Nat.le_refl]. cbn.
    unfold h_chain in C. fold h. lia.
Qed.

Section VS.
  Variables (w r : tid).

  Lemma view_step s t s' x o :
    Full w r s -> Inv3 (sh s) -> step s t = Some s' ->
    x <= g_cur (sh s) -> op_ (sh s) x = true -> is_read_op o = true ->
    view (sh s') x o = view (sh s) x o \/
    (g_cur (sh s') = g_cur (sh s) /\ op_ (sh s') (g_cur (sh s')) = true /\ view (sh s') x o = view (sh s') (g_cur (sh s')) o).
  Proof.
    intros [SA I] K H Lx Ox Ro. destruct (step_decomp _ _ _ H) as (th & g' & th' & E & F & ->). cbn [sh].
    pose proof (no_panic w r _ _ _ _ _ SA I E F) as NP.
    pose proof (i_thr _ _ _ I _ _ E) as TF. unfold th_facts1 in TF. pose proof (a_last _ SA) as La.
    pose proof (a_chain _ SA) as Ch.
    assert (Lxn : x < ns (sh s)) by (unfold ns; lia).
    assert (Ne : sg (sh s) x <> []) by (apply (k_nonempty _ K x Lxn Ox)).
    assert (Hl : forall h, In h (sg (sh s) x) -> h < nh_ (sh s)) by (intros h Hi; apply (k_hlt _ K x h Lxn Hi)).
    unfold step_thread in F; crack F;
      try (match goal with Q : pm3_tx ?g ?o ?y ?k = (?a, ?b) |- _ =>
             destruct (pm3_shape g o y k) as (segs & mn0 & nhl & Q1 & Q2); rewrite Q in Q1; cbn [fst] in Q1; subst a end);
      inversion F; subst g' th'; clear F.
    all: try (exfalso; apply NP; reflexivity).
    all: try (left; reflexivity).
    all: try (left; apply (view_upd_st (sh s) _ (fun s0 => st_ref s0 _)); auto; fail).
    all: try (left; apply (view_upd_st (sh s) _ (fun s0 => st_fin s0 _)); auto; fail).
    all: try (left; apply (view_upd_st (sh s) _ (fun s0 => st_retire s0 _)); auto; fail).
    all: try (left; apply view_ctl; [reflexivity | reflexivity | exact Ne]).
    all: try (left; apply view_close; exact Ne).
    all: try (left; apply view_publish; [exact Lxn | exact Hl | exact Ne]).
    all: try (left; apply view_upd_h; [reflexivity | reflexivity | intros; reflexivity | exact Ne]; fail).
    - (* StoreLogs publishes offsets beyond the committed prefix *)
      left. apply view_upd_h; [reflexivity | reflexivity | | exact Ne]. intros pos Lp. cbn.
      pose proof (Ch (tail_of (getst (sh s) x0))) as C. unfold h_chain in C. rewrite app_nth1 by lia. reflexivity.
    - (* commitIdx store *)
      destruct TF as (Xc & Oc & _). subst x0.
      destruct (commit_upd (sh s) x o K La Oc Lx Ox Ro (Ch _)) as [Q|Q]; [left; exact Q | right].
      split; [reflexivity|]. split; [exact Oc | exact Q].
    - destruct TF as (Xc & Oc & _). subst x0.
      destruct (commit_upd (sh s) x o K La Oc Lx Ox Ro (Ch _)) as [Q|Q]; [left; exact Q | right].
      split; [reflexivity|]. split; [exact Oc | exact Q].
    - (* Close publishes the empty version *)
      left. assert (G : getst (publish (sh s) empty_state) x = getst (sh s) x).
      { unfold getst, publish; cbn. now rewrite app_nth1. }
      apply view_ext; [unfold sg; now rewrite G | unfold mn; now rewrite G | exact Ne |]. intros h _. auto.
  Qed.
End VS.
