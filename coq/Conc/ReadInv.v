(* ReadInv.v -- structure of the sequence of state objects (versions) and of their file
   lists, as far as readers are concerned: handle ids grow with the versions, the tail has
   the largest base, a version that keeps the tail of its predecessor keeps a suffix of its
   file list and does not lower the first index.  Definitions + the two preservation lemmas
   (steps that publish nothing; publishing the result of a transaction). *)
From Coq Require Import List Arith Bool Lia.
From RW Require Import Conc.Sys Conc.Close Conc.ListX Conc.CloseFacts Conc.CloseSafe Conc.CloseCount.
Import ListNotations.

(* the projections of the shared state the invariant talks about *)
Definition sg (g : shared) (x : nat) : list nat := s_segs (getst g x).
Definition mn (g : shared) (x : nat) : nat := s_min (getst g x).
Definition op_ (g : shared) (x : nat) : bool := s_open (getst g x).
Definition hb (g : shared) (h : nat) : nat := h_base (geth g h).
Definition hc (g : shared) (h : nat) : nat := h_cnt (geth g h).
Definition tl_of (g : shared) (x : nat) : nat := last (sg g x) 0.
Definition ns (g : shared) : nat := length (g_states g).
Definition nh_ (g : shared) : nat := length (g_hnds g).

Record Inv3 (g : shared) : Prop := {
  k_min : forall x, x < ns g -> op_ g x = true -> 1 <= mn g x;
  k_nonempty : forall x, x < ns g -> op_ g x = true -> sg g x <> [];
  k_hlt : forall x h, x < ns g -> In h (sg g x) -> h < nh_ g;
  k_open : forall x, x < g_cur g -> op_ g x = true;
  k_ord : forall x y h, x <= y -> y < ns g -> op_ g y = true -> In h (sg g x) -> h <= tl_of g y;
  k_base : forall x h, x < ns g -> In h (sg g x) -> hb g h <= hb g (tl_of g x);
  k_rel : forall x, S x < ns g -> op_ g (S x) = true -> tl_of g (S x) = tl_of g x ->
            (exists rm, sg g x = rm ++ sg g (S x)) /\ mn g x <= mn g (S x) /\
            (mn g (S x) = mn g x \/ 0 < hc g (tl_of g x) \/ 2 <= length (sg g x));
  k_m : op_ g (g_cur g) = true -> mn g (g_cur g) <= hb g (tl_of g (g_cur g)) + hc g (tl_of g (g_cur g))
}.

(* steps that publish no state and create no file: only the commit counters may grow *)
Lemma inv3_ext g g' :
  ns g' = ns g -> g_cur g' = g_cur g -> nh_ g' = nh_ g ->
  (forall x, sg g' x = sg g x) -> (forall x, mn g' x = mn g x) -> (forall x, op_ g' x = op_ g x) ->
  (forall h, hb g' h = hb g h) -> (forall h, hc g h <= hc g' h) ->
  Inv3 g -> Inv3 g'.
Proof.
  intros E1 E2 E3 Es Em Eo Eb Ec K.
  assert (Et : forall x, tl_of g' x = tl_of g x) by (intros x; unfold tl_of; now rewrite Es).
  constructor.
  - intros x L O. rewrite E1 in L. rewrite Eo in O. rewrite Em. now apply (k_min _ K).
  - intros x L O. rewrite E1 in L. rewrite Eo in O. rewrite Es. now apply (k_nonempty _ K).
  - intros x h L Hi. rewrite E1 in L. rewrite Es in Hi. rewrite E3. now apply (k_hlt _ K x).
  - intros x L. rewrite E2 in L. rewrite Eo. now apply (k_open _ K).
  - intros x y h L1 L2 O Hi. rewrite E1 in L2. rewrite Eo in O. rewrite Es in Hi. rewrite Et. now apply (k_ord _ K x).
  - intros x h L Hi. rewrite E1 in L. rewrite Es in Hi. rewrite !Eb, Et. now apply (k_base _ K).
  - intros x L O T. rewrite E1 in L. rewrite Eo in O. rewrite !Et in T. rewrite !Es, !Em, Et.
    destruct (k_rel _ K x L O T) as (R1 & R2 & R3). split; [exact R1|]. split; [exact R2|].
    destruct R3 as [R3|[R3|R3]]; auto. right; left. pose proof (Ec (tl_of g x)). lia.
  - intros O. rewrite E2 in *. rewrite Eo in O. rewrite Em, Et, Eb. pose proof (k_m _ K O). pose proof (Ec (tl_of g (g_cur g))). lia.
Qed.

(* ---- publishing a new open version ------------------------------------------------------- *)
(* shape A: the new version keeps the tail of the current one *)
Definition shapeA (g : shared) (segs' : list nat) (mn' : nat) : Prop :=
  let y := g_cur g in
  (exists rm, sg g y = rm ++ segs') /\ segs' <> [] /\ 1 <= mn' /\ mn g y <= mn' /\
  (mn' = mn g y \/ 0 < hc g (tl_of g y) \/ 2 <= length (sg g y)) /\
  mn' <= hb g (tl_of g y) + hc g (tl_of g y).
(* shape B: the new version gets a new tail file with base b *)
Definition shapeB (g : shared) (segs' : list nat) (mn' b : nat) : Prop :=
  let y := g_cur g in
  exists pre, segs' = pre ++ [nh_ g] /\ (forall h, In h pre -> In h (sg g y) /\ hb g h <= b) /\ 1 <= mn' /\ mn' <= b.

Lemma last_app_ne {A} (a b : list A) d : b <> [] -> last (a ++ b) d = last b d.
Proof.
  intros N. induction a as [|x a IH]; [reflexivity|]. cbn [app]. 
  destruct (a ++ b) eqn:Q; [destruct a; [cbn in Q; congruence | discriminate]|]. exact IH.
Qed.

Lemma last_In {A} (l : list A) d : l <> [] -> In (last l d) l.
Proof.
  induction l as [|x l IH]; [congruence|]. intros _. destruct l as [|z l]; [now left|].
  right. apply IH. discriminate.
Qed.

Section Publish.
  Variables (g : shared) (segs' : list nat) (mn' : nat).
  Hypothesis (La : S (g_cur g) = ns g) (Oc : op_ g (g_cur g) = true) (K : Inv3 g).

  Lemma getst_pub nhl x :
    getst (publish (set_hnds g (g_hnds g ++ nhl)) (mk_state segs' mn')) x =
    if x <? ns g then getst g x else if x =? ns g then mk_state segs' mn' else dst.
  Proof.
    unfold getst, publish, ns; cbn [g_states set_cur set_hnds]. destruct (Nat.ltb_spec x (length (g_states g))).
    - now rewrite app_nth1.
    - rewrite app_nth2 by lia. destruct (Nat.eqb_spec x (length (g_states g))) as [->|N].
      + now rewrite Nat.sub_diag.
      + destruct (x - length (g_states g)) as [|[|k]] eqn:D; try lia; reflexivity.
  Qed.

  Lemma inv3_pubA : shapeA g segs' mn' -> Inv3 (publish g (mk_state segs' mn')).
  Proof.
    intros (( rm & Qs) & Ne & M1 & M2 & M3 & M4). set (y := g_cur g) in *.
    set (g' := publish g (mk_state segs' mn')).
    assert (G : forall x, getst g' x = if x <? ns g then getst g x else if x =? ns g then mk_state segs' mn' else dst).
    { intros x. pose proof (getst_pub [] x) as Q. rewrite app_nil_r in Q.
      replace (set_hnds g (g_hnds g)) with g in Q by (destruct g; reflexivity). exact Q. }
    assert (Gh : forall h, geth g' h = geth g h) by reflexivity.
    assert (N' : ns g' = S (ns g)) by (unfold ns, g'; cbn; rewrite app_length; cbn; lia).
    assert (C' : g_cur g' = ns g) by reflexivity.
    assert (H' : nh_ g' = nh_ g) by reflexivity.
    assert (Lo : forall x, x < ns g -> sg g' x = sg g x /\ mn g' x = mn g x /\ op_ g' x = op_ g x /\ tl_of g' x = tl_of g x).
    { intros x L. unfold tl_of, sg, mn, op_. rewrite G. apply Nat.ltb_lt in L. rewrite L. auto. }
    assert (Nw : sg g' (ns g) = segs' /\ mn g' (ns g) = mn' /\ op_ g' (ns g) = true /\ tl_of g' (ns g) = tl_of g y).
    { unfold tl_of, sg, mn, op_. rewrite G, Nat.ltb_irrefl, Nat.eqb_refl. cbn. repeat split; auto.
      fold (sg g y). rewrite Qs. symmetry. now apply last_app_ne. }
    destruct Nw as (Ns & Nm & No & Nt).
    assert (Hb : forall h, hb g' h = hb g h) by reflexivity.
    assert (Hc : forall h, hc g' h = hc g h) by reflexivity.
    assert (Sub : forall h, In h segs' -> In h (sg g y)) by (intros h Hi; rewrite Qs; apply in_or_app; now right).
    assert (Ly : y < ns g) by (unfold y; lia).
    constructor.
    - intros x L O. rewrite N' in L. destruct (Nat.eq_dec x (ns g)) as [->|Nx]; [now rewrite Nm|].
      destruct (Lo x ltac:(lia)) as (E1 & E2 & E3 & E4). rewrite E3 in O. rewrite E2. apply (k_min _ K); [lia | exact O].
    - intros x L O. rewrite N' in L. destruct (Nat.eq_dec x (ns g)) as [->|Nx]; [now rewrite Ns|].
      destruct (Lo x ltac:(lia)) as (E1 & E2 & E3 & E4). rewrite E3 in O. rewrite E1. apply (k_nonempty _ K); [lia | exact O].
    - intros x h L Hi. rewrite N' in L. rewrite H'. destruct (Nat.eq_dec x (ns g)) as [->|Nx].
      + rewrite Ns in Hi. apply (k_hlt _ K y h Ly (Sub h Hi)).
      + destruct (Lo x ltac:(lia)) as (E1 & _). rewrite E1 in Hi. apply (k_hlt _ K x h ltac:(lia) Hi).
    - intros x L. rewrite C' in L. destruct (Lo x L) as (_ & _ & E3 & _). rewrite E3.
      destruct (Nat.eq_dec x y) as [->|Nx]; [exact Oc | apply (k_open _ K); unfold y in *; lia].
    - intros x z h L1 L2 O Hi. rewrite N' in L2.
      assert (Hx : exists x0, x0 <= y /\ In h (sg g x0)).
      { destruct (Nat.eq_dec x (ns g)) as [->|Nx].
        - rewrite Ns in Hi. exists y. split; [lia | now apply Sub].
        - destruct (Lo x ltac:(lia)) as (E1 & _). rewrite E1 in Hi. exists x. split; [unfold y; lia | exact Hi]. }
      destruct Hx as (x0 & Lx0 & Hi0).
      destruct (Nat.eq_dec z (ns g)) as [->|Nz].
      + rewrite Nt. apply (k_ord _ K x0 y h Lx0 Ly Oc Hi0).
      + destruct (Lo z ltac:(lia)) as (_ & _ & E3 & E4). rewrite E3 in O. rewrite E4.
        assert (x <> ns g) by lia. destruct (Lo x ltac:(lia)) as (E1 & _). rewrite E1 in Hi.
        apply (k_ord _ K x z h L1 ltac:(lia) O Hi).
    - intros x h L Hi. rewrite N' in L. rewrite !Hb. destruct (Nat.eq_dec x (ns g)) as [->|Nx].
      + rewrite Ns in Hi. rewrite Nt. apply (k_base _ K y h Ly (Sub h Hi)).
      + destruct (Lo x ltac:(lia)) as (E1 & _ & _ & E4). rewrite E1 in Hi. rewrite E4. apply (k_base _ K x h ltac:(lia) Hi).
    - intros x L O T. rewrite N' in L. destruct (Nat.eq_dec (S x) (ns g)) as [Q|Nx].
      + assert (x = y) by (unfold y; lia). subst x. rewrite Q in *. destruct (Lo y Ly) as (E1 & E2 & E3 & E4).
        rewrite E1, E2, E4, Ns, Nm, Hc. split; [eauto|]. split; [exact M2 | exact M3].
      + destruct (Lo x ltac:(lia)) as (E1 & E2 & E3 & E4). destruct (Lo (S x) ltac:(lia)) as (F1 & F2 & F3 & F4).
        rewrite F3 in O. rewrite F4, E4 in T. rewrite E1, E2, E4, F1, F2, Hc. apply (k_rel _ K x ltac:(lia) O T).
    - intros _. rewrite C', Nm, Nt, Hb, Hc. exact M4.
  Qed.

  Lemma inv3_pubB b : shapeB g segs' mn' b ->
    Inv3 (publish (set_hnds g (g_hnds g ++ [new_hnd b])) (mk_state segs' mn')).
  Proof.
    intros (pre & Qs & Pre & M1 & M2). set (y := g_cur g) in *.
    set (g' := publish (set_hnds g (g_hnds g ++ [new_hnd b])) (mk_state segs' mn')).
    pose proof (getst_pub [new_hnd b]) as G. fold g' in G.
    assert (Gh : forall h, h < nh_ g -> geth g' h = geth g h).
    { intros h L. unfold geth, g'; cbn. now rewrite app_nth1. }
    assert (Gn : geth g' (nh_ g) = new_hnd b).
    { unfold geth, g', nh_; cbn. rewrite app_nth2 by lia. now rewrite Nat.sub_diag. }
    assert (N' : ns g' = S (ns g)) by (unfold ns, g'; cbn; rewrite app_length; cbn; lia).
    assert (C' : g_cur g' = ns g) by reflexivity.
    assert (H' : nh_ g' = S (nh_ g)) by (unfold nh_, g'; cbn; rewrite app_length; cbn; lia).
    assert (Lo : forall x, x < ns g -> sg g' x = sg g x /\ mn g' x = mn g x /\ op_ g' x = op_ g x /\ tl_of g' x = tl_of g x).
    { intros x L. unfold tl_of, sg, mn, op_. rewrite G. apply Nat.ltb_lt in L. rewrite L. auto. }
    assert (Nw : sg g' (ns g) = segs' /\ mn g' (ns g) = mn' /\ op_ g' (ns g) = true /\ tl_of g' (ns g) = nh_ g).
    { unfold tl_of, sg, mn, op_. rewrite G, Nat.ltb_irrefl, Nat.eqb_refl. cbn. repeat split; auto.
      rewrite Qs. rewrite last_app_ne by discriminate. reflexivity. }
    destruct Nw as (Ns & Nm & No & Nt).
    assert (Ly : y < ns g) by (unfold y; lia).
    assert (Old : forall x h, x < ns g -> In h (sg g x) -> h < nh_ g) by (intros x h L Hi; apply (k_hlt _ K x h L Hi)).
    assert (Hb : forall h, h < nh_ g -> hb g' h = hb g h) by (intros h L; unfold hb; now rewrite Gh).
    assert (Hc : forall h, h < nh_ g -> hc g' h = hc g h) by (intros h L; unfold hc; now rewrite Gh).
    assert (Tl : forall x, x < ns g -> op_ g x = true -> tl_of g x < nh_ g).
    { intros x L O. apply (Old x _ L). apply last_In. now apply (k_nonempty _ K). }
    assert (Inn : forall h, In h segs' -> (In h (sg g y) /\ hb g h <= b) \/ h = nh_ g).
    { intros h Hi. rewrite Qs in Hi. apply in_app_or in Hi. destruct Hi as [Hi|[<-|[]]]; [left; now apply Pre | now right]. }
    constructor.
    - intros x L O. rewrite N' in L. destruct (Nat.eq_dec x (ns g)) as [->|Nx]; [now rewrite Nm|].
      destruct (Lo x ltac:(lia)) as (E1 & E2 & E3 & E4). rewrite E3 in O. rewrite E2. apply (k_min _ K); [lia | exact O].
    - intros x L O. rewrite N' in L. destruct (Nat.eq_dec x (ns g)) as [->|Nx].
      + rewrite Ns, Qs. destruct pre; discriminate.
      + destruct (Lo x ltac:(lia)) as (E1 & E2 & E3 & E4). rewrite E3 in O. rewrite E1. apply (k_nonempty _ K); [lia | exact O].
    - intros x h L Hi. rewrite N' in L. rewrite H'. destruct (Nat.eq_dec x (ns g)) as [->|Nx].
      + rewrite Ns in Hi. destruct (Inn h Hi) as [[Hy _]| ->]; [|lia]. pose proof (Old y h Ly Hy). lia.
      + destruct (Lo x ltac:(lia)) as (E1 & _). rewrite E1 in Hi. pose proof (Old x h ltac:(lia) Hi). lia.
    - intros x L. rewrite C' in L. destruct (Lo x L) as (_ & _ & E3 & _). rewrite E3.
      destruct (Nat.eq_dec x y) as [->|Nx]; [exact Oc | apply (k_open _ K); unfold y in *; lia].
    - intros x z h L1 L2 O Hi. rewrite N' in L2.
      destruct (Nat.eq_dec z (ns g)) as [->|Nz].
      + rewrite Nt. destruct (Nat.eq_dec x (ns g)) as [->|Nx].
        * rewrite Ns in Hi. destruct (Inn h Hi) as [[Hy _]| ->]; [|lia]. pose proof (Old y h Ly Hy). lia.
        * destruct (Lo x ltac:(lia)) as (E1 & _). rewrite E1 in Hi. pose proof (Old x h ltac:(lia) Hi). lia.
      + destruct (Lo z ltac:(lia)) as (_ & _ & E3 & E4). rewrite E3 in O. rewrite E4.
        assert (x <> ns g) by lia. destruct (Lo x ltac:(lia)) as (E1 & _). rewrite E1 in Hi.
        apply (k_ord _ K x z h L1 ltac:(lia) O Hi).
    - intros x h L Hi. rewrite N' in L. destruct (Nat.eq_dec x (ns g)) as [->|Nx].
      + rewrite Ns in Hi. rewrite Nt. unfold hb at 2. rewrite Gn. cbn.
        destruct (Inn h Hi) as [[Hy Bh]| ->]; [|unfold hb; rewrite Gn; cbn; lia].
        rewrite Hb by (apply (Old y h Ly Hy)). exact Bh.
      + destruct (Lo x ltac:(lia)) as (E1 & _ & _ & E4). rewrite E1 in Hi. rewrite E4.
        assert (Lh : h < nh_ g) by (apply (Old x h ltac:(lia) Hi)).
        assert (Ox : op_ g x = true).
        { destruct (Nat.eq_dec x y) as [->|]; [exact Oc | apply (k_open _ K); unfold y in *; lia]. }
        rewrite (Hb h Lh), (Hb (tl_of g x) (Tl x ltac:(lia) Ox)). apply (k_base _ K x h ltac:(lia) Hi).
    - intros x L O T. rewrite N' in L. destruct (Nat.eq_dec (S x) (ns g)) as [Q|Nx].
      + exfalso. assert (x = y) by (unfold y; lia). subst x. rewrite Q in *. destruct (Lo y Ly) as (_ & _ & _ & E4).
        rewrite Nt, E4 in T. pose proof (Tl y Ly Oc). lia.
      + destruct (Lo x ltac:(lia)) as (E1 & E2 & E3 & E4). destruct (Lo (S x) ltac:(lia)) as (F1 & F2 & F3 & F4).
        rewrite F3 in O. rewrite F4, E4 in T. rewrite E1, E2, E4, F1, F2.
        assert (Ox : op_ g x = true) by (apply (k_open _ K); lia).
        rewrite Hc by (apply Tl; [lia | exact Ox]). apply (k_rel _ K x ltac:(lia) O T).
    - intros _. rewrite C', Nm, Nt. unfold hb, hc. rewrite Gn. cbn. lia.
  Qed.
End Publish.
