(* ListX.v -- list update / sum lemmas used by the concurrency proofs *)
From Coq Require Import List Arith Bool Lia.
From RW Require Import Conc.Sys Conc.Close.
Import ListNotations.

Lemma upd_length {A} (l : list A) i x : length (upd l i x) = length l.
Proof. revert i; induction l as [|a l IH]; intros [|i]; cbn; auto. Qed.

Lemma nth_error_upd_eq {A} (l : list A) i x : i < length l -> nth_error (upd l i x) i = Some x.
Proof. revert i; induction l as [|a l IH]; intros [|i] H; cbn in *; try lia; auto; try (apply IH; lia). Qed.

Lemma nth_error_upd_neq {A} (l : list A) i j x : i <> j -> nth_error (upd l i x) j = nth_error l j.
Proof.
  revert i j; induction l as [|a l IH]; intros [|i] [|j] H; cbn; auto; try lia; try (apply IH; lia).
Qed.

Lemma nth_upd_eq {A} (l : list A) i x d : i < length l -> nth i (upd l i x) d = x.
Proof. revert i; induction l as [|a l IH]; intros [|i] H; cbn in *; try lia; auto; try (apply IH; lia). Qed.

Lemma nth_upd_neq {A} (l : list A) i j x d : i <> j -> nth j (upd l i x) d = nth j l d.
Proof.
  revert i j; induction l as [|a l IH]; intros [|i] [|j] H; cbn; auto; try lia; try (apply IH; lia).
Qed.

Lemma upd_oob {A} (l : list A) i x : length l <= i -> upd l i x = l.
Proof. revert i; induction l as [|a l IH]; intros [|i] H; cbn in *; auto; try lia; try (f_equal; apply IH; lia). Qed.

Lemma nth_error_Some_lt {A} (l : list A) i x : nth_error l i = Some x -> i < length l.
Proof. intros H. apply nth_error_Some. congruence. Qed.

Lemma nth_error_nth' {A} (l : list A) i x d : nth_error l i = Some x -> nth i l d = x.
Proof. revert i; induction l as [|a l IH]; intros [|i] H; cbn in *; try discriminate; [congruence | auto]. Qed.

Fixpoint sum {A} (f : A -> nat) (l : list A) : nat :=
  match l with [] => 0 | a :: r => f a + sum f r end.

Lemma sum_app {A} (f : A -> nat) a b : sum f (a ++ b) = sum f a + sum f b.
Proof. induction a as [|x a IH]; cbn; [reflexivity | rewrite IH; lia]. Qed.

Lemma sum_upd {A} (f : A -> nat) (l : list A) i a b :
  nth_error l i = Some a -> sum f (upd l i b) + f a = sum f l + f b.
Proof.
  revert i; induction l as [|x l IH]; intros [|i] H; cbn in *; try discriminate.
  - inversion H; subst. lia.
  - specialize (IH _ H). lia.
Qed.

Lemma sum_ext {A} (f g : A -> nat) l : (forall a, In a l -> f a = g a) -> sum f l = sum g l.
Proof. induction l as [|x l IH]; intros H; cbn; [reflexivity|]. rewrite H, IH; auto; [intros; apply H; now right | now left]. Qed.

Lemma sum_zero {A} (f : A -> nat) l : (forall a, In a l -> f a = 0) -> sum f l = 0.
Proof. induction l as [|x l IH]; intros H; cbn; [reflexivity|]. rewrite H, IH; auto; [intros; apply H; now right | now left]. Qed.

Lemma sum_zero_inv {A} (f : A -> nat) l : sum f l = 0 -> forall i a, nth_error l i = Some a -> f a = 0.
Proof.
  induction l as [|x l IH]; intros H [|i] a E; cbn in *; try discriminate.
  - inversion E; subst; lia.
  - eapply IH; eauto; lia.
Qed.

Lemma sum_pos_ex {A} (f : A -> nat) l : 0 < sum f l -> exists i a, nth_error l i = Some a /\ 0 < f a.
Proof.
  induction l as [|x l IH]; cbn; intros H; [lia|].
  destruct (f x) eqn:E.
  - destruct IH as [i [a [H1 H2]]]; [lia|]. exists (S i), a. auto.
  - exists 0, x. cbn. split; [reflexivity | lia].
Qed.

Lemma sum_ge_nth {A} (f : A -> nat) l i a : nth_error l i = Some a -> f a <= sum f l.
Proof.
  revert i; induction l as [|x l IH]; intros [|i] E; cbn in *; try discriminate.
  - inversion E; subst; lia.
  - specialize (IH _ E). lia.
Qed.

(* two different positions both contribute *)
Lemma sum_ge_two {A} (f : A -> nat) l i j a b :
  i <> j -> nth_error l i = Some a -> nth_error l j = Some b -> f a + f b <= sum f l.
Proof.
  revert i j; induction l as [|x l IH]; intros [|i] [|j] N E1 E2; cbn in *; try discriminate; try lia.
  - inversion E1; subst. pose proof (sum_ge_nth f l j b E2). lia.
  - inversion E2; subst. pose proof (sum_ge_nth f l i a E1). lia.
  - assert (i <> j) by lia. specialize (IH _ _ H E1 E2). lia.
Qed.

Definition b2n (b : bool) : nat := if b then 1 else 0.

Definition cnt (h : nat) (l : list nat) : nat := count_occ Nat.eq_dec l h.

Lemma cnt_app h a b : cnt h (a ++ b) = cnt h a + cnt h b.
Proof. unfold cnt. apply count_occ_app. Qed.

Lemma cnt_single h x : cnt h [x] = b2n (x =? h).
Proof. unfold cnt. cbn. destruct (Nat.eq_dec x h); destruct (Nat.eqb_spec x h); cbn; congruence. Qed.
