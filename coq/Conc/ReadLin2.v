(* ReadLin2.v -- every completed read of every schedule of a single-writer system is
   linearizable (Readers.lin_read): induction along the schedule with the justifications
   of Conc/ReadLin.v *)
From Coq Require Import List Arith Bool Lia.
From RW Require Import Conc.Sys Conc.SysFacts Conc.Close Conc.ListX Conc.CloseInv Conc.CloseInv2 Conc.CloseFacts
     Conc.CloseSafe Conc.CloseSafeStep Conc.CloseStep1 Conc.CloseReach Conc.CloseReach2 Conc.CloseThm2
     Conc.ReadInv Conc.ReadStep Conc.Readers Conc.ReadView Conc.ReadLin.
Import ListNotations.

Lemma pc_idle_dec (p : pc) : {p = PIdle} + {p <> PIdle}.
Proof. destruct p; first [left; reflexivity | right; discriminate]. Qed.

Lemma find_filter_other (u t : nat) (l : list (tid * nat)) : u <> t ->
  find (fun p => fst p =? u) (filter (fun p => negb (fst p =? t)) l) = find (fun p => fst p =? u) l.
Proof.
  intros N. induction l as [|[v a] l IH]; [reflexivity|]. cbn [filter find fst].
  destruct (Nat.eqb_spec v t) as [->|Nv]; cbn [negb].
  - destruct (Nat.eqb_spec t u); [congruence | exact IH].
  - cbn [find fst]. destruct (v =? u); [reflexivity | exact IH].
Qed.

(* a step that does not return keeps the current call *)
Lemma step_keeps_op g t th g' th' :
  step_thread g t th = Some (g', th') -> t_pc th' <> PIdle -> t_pc th' <> PPanic ->
  cur_op th' = cur_op th /\ t_rot th' = t_rot th.
Proof.
  intros F N1 N2.
  enough (Q : t_prog th' = t_prog th /\ t_rot th' = t_rot th) by (unfold cur_op; destruct Q as [-> ->]; auto).
  unfold step_thread in F; crack F; try (destruct (pm3_tx _ _ _ _) eqn:?); inversion F; subst g' th'; clear F.
  all: try (split; reflexivity).
  all: try (exfalso; apply N1; reflexivity).
  all: try (exfalso; apply N2; reflexivity).
  all: match goal with H : context [continue _ _ ?k0] |- _ => destruct k0 end; cbn [continue] in *; try (split; reflexivity).
  all: exfalso; apply N1; reflexivity.
Qed.

Lemma claim_mono g H a n o p s' : claim g H a n o p -> claim g (H ++ [s']) a (S n) o p.
Proof.
  unfold claim. destruct p; auto using just_mono.
  - destruct o; auto using just_mono.
  - destruct k; auto using just_mono.
  - destruct k; auto using just_mono.
  - destruct k; auto using just_mono.
Qed.

Lemma states_along_head s sch : exists tl, states_along s sch = s :: tl.
Proof. destruct sch; cbn; eauto. Qed.

Section Lin2.
  Variables (w r : tid) (orig : list (list op)).

  Definition tracked (s : sys) (H : list sys) (n : nat) (open_ : list (tid * nat)) : Prop :=
    forall t th o, nth_error (ths s) t = Some th -> t_pc th <> PIdle -> cur_op th = Some o -> is_read_op o = true ->
      exists a, find (fun p => fst p =? t) open_ = Some (t, a) /\ a <= n /\ claim (sh s) H a n o (t_pc th).

  Lemma just_lin H tl a n o res t :
    just H a n o res -> lin_read (H ++ tl) {| r_tid := t; r_op := o; r_inv := a; r_ret := n; r_res := res |}.
  Proof.
    intros (k & Lk & sk & Ek & Lin). exists k. cbn. split; [exact Lk|]. exists sk. split; [|exact Lin].
    rewrite nth_error_app1; [exact Ek | eapply nth_error_Some_lt; eauto].
  Qed.

  Lemma events_lin : forall sch s now open_ hs0,
    good w r orig s -> length hs0 = now -> tracked s (hs0 ++ [s]) now open_ ->
    forall e, In e (events_aux s sch now open_) -> lin_read (hs0 ++ states_along s sch) e.
  Proof.
    induction sch as [|t rest IH]; intros s now open_ hs0 G L T e Hi; [destruct Hi|].
    cbn [events_aux states_along] in *. unfold exec.
    destruct (step s t) as [s'|] eqn:St.
    2: { (* the thread cannot move: the state is repeated *)
      replace (hs0 ++ s :: states_along s rest) with ((hs0 ++ [s]) ++ states_along s rest) by (now rewrite <- app_assoc).
      apply (IH s (S now) open_ (hs0 ++ [s]) G); [rewrite app_length; cbn; lia | | exact Hi].
      intros u thu o Eu Pu Ou Ro. destruct (T u thu o Eu Pu Ou Ro) as (a & Fa & La & C).
      exists a. split; [exact Fa|]. split; [lia|]. now apply claim_mono. }
    destruct (step_decomp _ _ _ St) as (th & g' & th' & E & F & Qs'). rewrite E in Hi.
    pose proof G as [[[SA I] J] K].
    pose proof (no_panic w r _ _ _ _ _ SA I E F) as NP.
    pose proof (good_step w r orig s t s' G St) as G'.
    assert (Lt : t < length (ths s)) by (eapply nth_error_Some_lt; eauto).
    assert (Qg : sh s' = g') by (rewrite Qs'; reflexivity).
    assert (Th' : nth t (ths s') th = th').
    { subst s'. cbn. apply nth_error_nth'. now apply nth_error_upd_eq. }
    rewrite Th' in Hi.
    set (H := hs0 ++ [s]) in *.
    assert (LH : length H = S now) by (unfold H; rewrite app_length; cbn; lia).
    assert (Hn : nth_error H now = Some s) by (unfold H; rewrite nth_error_app2 by lia; rewrite L, Nat.sub_diag; reflexivity).
    replace (hs0 ++ s :: states_along s' rest) with (H ++ states_along s' rest) by (unfold H; now rewrite <- app_assoc).
    set (started := match t_pc th with PIdle => true | _ => false end) in *.
    set (open1 := if started then (t, now) :: filter (fun p => negb (fst p =? t)) open_ else open_) in *.
    (* what is known about the stepping thread when it runs a read *)
    assert (Own : forall o, cur_op th = Some o -> is_read_op o = true ->
              exists a, find (fun p => fst p =? t) open1 = Some (t, a) /\ a <= now /\
                (t_pc th' <> PIdle -> t_outs th' = t_outs th /\ claim (sh s') (H ++ [s']) a (S now) o (t_pc th')) /\
                (t_pc th' = PIdle -> t_outs th' = t_outs th ++ [last (t_outs th') Panic] /\
                                     just (H ++ [s']) a (S now) o (last (t_outs th') Panic))).
    { intros o Oo Ro.
      assert (Rf : t_rot th = false).
      { pose proof (i_wf _ _ _ I _ _ E) as WF. unfold pc_ok in WF. destruct (t_rot th); [|reflexivity].
        unfold cur_op in Oo. destruct (t_prog th); [discriminate Oo | discriminate WF]. }
      destruct (pc_idle_dec (t_pc th)) as [P|P].
      - exists now. split; [unfold open1, started; rewrite P; cbn [find fst]; now rewrite Nat.eqb_refl|]. split; [lia|].
        pose proof (claim_own w r orig s t th g' th' o H now now G E F Oo Ro Rf LH Hn (Nat.le_refl _)
                      ltac:(auto) ltac:(congruence)) as Q. cbn zeta in Q. rewrite <- Qs' in Q. rewrite <- Qg in Q. exact Q.
      - destruct (T t th o E P Oo Ro) as (a & Fa & La & C).
        exists a. split; [unfold open1, started; destruct (t_pc th); try exact Fa; congruence|]. split; [exact La|].
        pose proof (claim_own w r orig s t th g' th' o H a now G E F Oo Ro Rf LH Hn La
                      ltac:(congruence) ltac:(intros _; exact C)) as Q. cbn zeta in Q. rewrite <- Qs' in Q. rewrite <- Qg in Q. exact Q. }
    apply in_app_or in Hi. destruct Hi as [Hi|Hi].
    - (* the event emitted by this step *)
      destruct (length (t_outs th) <? length (t_outs th')) eqn:Fin; [|destruct Hi].
      destruct (cur_op th) as [o|] eqn:Oo; [|destruct Hi].
      destruct (find (fun p => fst p =? t) open1) as [[t0 a0]|] eqn:Fo; [|destruct Hi].
      destruct (is_read_op o) eqn:Ro; [|destruct Hi]. destruct Hi as [<-|[]].
      destruct (Own o eq_refl Ro) as (a & Fa & La & Q1 & Q2). injection Fa as Et0 Ea0. subst t0 a0.
      apply Nat.ltb_lt in Fin.
      assert (PI : t_pc th' = PIdle).
      { destruct (pc_idle_dec (t_pc th')) as [Q|Q]; [exact Q|]. destruct (Q1 Q) as [Qo _]. rewrite Qo in Fin. lia. }
      destruct (Q2 PI) as [_ Ju].
      destruct (states_along_head s' rest) as (tl & ->).
      replace (H ++ s' :: tl) with ((H ++ [s']) ++ tl) by (now rewrite <- app_assoc).
      now apply just_lin.
    - (* later events *)
      apply (IH s' (S now) open1 H G' LH); [|exact Hi].
      intros u thu o Eu Pu Ou Ro.
      destruct (Nat.eq_dec u t) as [->|Nu].
      + assert (thu = th') by (subst s'; cbn in Eu; rewrite nth_error_upd_eq in Eu by exact Lt; congruence). subst thu.
        destruct (step_keeps_op _ _ _ _ _ F Pu NP) as [Qo _]. rewrite Qo in Ou.
        destruct (Own o Ou Ro) as (a & Fa & La & Q1 & _). exists a. split; [exact Fa|]. split; [lia|]. apply (Q1 Pu).
      + assert (Eu' : nth_error (ths s) u = Some thu) by (subst s'; cbn in Eu; now rewrite nth_error_upd_neq in Eu by congruence).
        destruct (T u thu o Eu' Pu Ou Ro) as (a & Fa & La & C). exists a.
        split; [unfold open1; destruct started; [|exact Fa]; cbn [find fst]; destruct (Nat.eqb_spec t u) as [Q|Q]; [congruence|];
                rewrite find_filter_other by exact Nu; exact Fa|].
        split; [lia|]. apply (claim_other w r orig s t s' u thu o H a now G St Eu' Ou Ro LH La C).
  Qed.
End Lin2.

Theorem reads_linearizable : forall w progs extra sch e,
  single_writer w progs extra ->
  In e (events (init progs extra) sch) -> lin_read (states_along (init progs extra) sch) e.
Proof.
  intros w progs extra sch e SW Hi.
  assert (R : reachable step (init progs extra) (init progs extra)) by (exists []; reflexivity).
  assert (G : good w (length progs) (progs ++ [] :: extra) (init progs extra)).
  { split; [apply (full2_reach w progs extra _ SW R) | apply (inv3_reach w progs extra _ SW R)]. }
  apply (events_lin w (length progs) (progs ++ [] :: extra) sch (init progs extra) 0 [] [] G eq_refl); [|exact Hi].
  intros t th o E P O _. exfalso.
  destruct (init_threads _ _ _ _ E) as [(p & _ & -> & _)|(_ & ->)]; [apply P; reflexivity | discriminate O].
Qed.

(* the two statements as formulated in Conc/Readers.v *)
Theorem readers_statements : reads_linearizable_statement /\ stable_entry_intact_statement.
Proof.
  split.
  - intros w progs extra sch e SW. apply (reads_linearizable w progs extra sch e SW).
  - intros w progs extra sch t th SW. apply (stable_entry_intact w progs extra sch t th SW).
Qed.
