(* CloseThm2.v -- consequences of part 2 of the invariant (Conc/CloseInv2.v) for reachable
   states of a single-writer system: the outcomes of racing calls, and the release of every
   file handle by Close *)
From Coq Require Import List Arith Bool Lia.
From RW Require Import Conc.Sys Conc.SysFacts Conc.Close Conc.ListX Conc.CloseInv Conc.CloseInv2 Conc.CloseFacts
     Conc.CloseK Conc.CloseSafe Conc.CloseSafeStep Conc.CloseStep1 Conc.CloseReach Conc.CloseThm Conc.CloseStep2 Conc.CloseStep3 Conc.CloseOpen
     Conc.CloseReach2.
Import ListNotations.

(* ---- the outcomes of calls that race with Close ------------------------------------------- *)
(* Thread t has executed a prefix `ops` of its program p; the outcome recorded for every
   executed call is an allowed one (CloseInv2.allowed): a result or ErrClosed -- never a
   panic, never an I/O error from a closed or deleted file, never a metaDB error. *)
Theorem racing_calls : forall w progs extra s,
  single_writer w progs extra -> reach progs extra s ->
  forall t th, nth_error (ths s) t = Some th -> t <> length progs ->
    exists ops, nth_error (progs ++ [] :: extra) t = Some (ops ++ t_prog th) /\
                Forall2 (fun o res => allowed o res = true) ops (t_outs th).
Proof.
  intros w progs extra s SW R t th E N.
  destruct (full2_reach w progs extra s SW R) as [[SA I] J].
  apply (j_hist _ _ J t th E). apply (i_nrot _ _ _ I t th E N).
Qed.

Lemma allowed_clean o res : allowed o res = true -> res <> Panic /\ res <> IOErr /\ res <> MetaErr.
Proof. destruct o, res; cbn; intros Q; try discriminate Q; repeat split; discriminate. Qed.

Theorem outcomes_clean : forall w progs extra s,
  single_writer w progs extra -> reach progs extra s ->
  forall t th res, nth_error (ths s) t = Some th -> t <> length progs -> In res (t_outs th) ->
    res <> Panic /\ res <> IOErr /\ res <> MetaErr.
Proof.
  intros w progs extra s SW R t th res E N Hi.
  destruct (racing_calls w progs extra s SW R t th E N) as (ops & _ & Fa).
  clear -Fa Hi. induction Fa as [|o r0 ops outs A Fa IH]; [destruct Hi|].
  destruct Hi as [->|Hi]; [exact (allowed_clean _ _ A) | auto].
Qed.

(* ---- Close releases every file handle -------------------------------------------------------
   When Close has been called and every call has returned (all callers are between calls),
   every file handle ever opened has been closed exactly once and the metaDB exactly once:
   nothing leaks, nothing is closed twice. *)
Theorem handles_released : forall w progs extra s,
  single_writer w progs extra -> reach progs extra s -> g_closed (sh s) = true ->
  (forall t th, nth_error (ths s) t = Some th -> t <> length progs -> t_pc th = PIdle) ->
  (forall h, h < length (g_hnds (sh s)) -> h_closes (geth (sh s) h) = 1) /\ g_meta_closes (sh s) = 1.
Proof.
  intros w progs extra s SW R C Idle.
  destruct (full2_reach w progs extra s SW R) as [[SA I] J].
  pose proof (a_last _ SA) as La.
  destruct (i_rot _ _ _ I) as (thr & Er & Rr).
  (* Close has returned: stage 10 *)
  assert (CS : forall th, In th (ths s) -> cstage th = 0).
  { intros th Hi. apply In_nth_error in Hi. destruct Hi as (t & E).
    destruct (Nat.eq_dec t (length progs)) as [->|N].
    - assert (th = thr) by congruence. subst th. pose proof (i_wf _ _ _ I _ _ E) as WF. unfold pc_ok in WF. rewrite Rr in WF.
      unfold cstage, op_close, cur_op. destruct (t_prog thr); [|discriminate]. destruct (t_pc thr); try discriminate; reflexivity.
    - unfold cstage. now rewrite (Idle t th E N). }
  assert (K10 : K (sh s) (ths s) = 10).
  { unfold K. rewrite C. unfold nact. rewrite sum_zero; [reflexivity|]. intros th Hi. now rewrite (CS th Hi). }
  (* the rotation goroutine is outside its critical section *)
  assert (RP : rot_cs (t_pc thr) = false).
  { pose proof (i_thr _ _ _ I _ _ Er) as TF. unfold th_facts1 in TF. pose proof (i_open _ _ _ I) as Io. rewrite K10 in Io.
    pose proof (i_wf _ _ _ I _ _ Er) as WF. unfold pc_ok in WF. rewrite Rr in WF. destruct (t_prog thr); [|discriminate].
    destruct (t_pc thr) eqn:P; try reflexivity; exfalso; try discriminate WF.
    - destruct TF as [O _]. rewrite Io in O. discriminate.
    - destruct TF as (-> & O & _). rewrite Io in O. discriminate.
    - destruct TF as (-> & O & _). rewrite Io in O. discriminate.
    - destruct TF as (-> & O & _). rewrite Io in O. discriminate.
    - destruct k; try discriminate WF. destruct TF as (_ & Kl & _). lia.
    - destruct k; try discriminate WF. destruct TF as ((Kl & _) & _). lia.
    - destruct k; try discriminate WF. destruct TF as ((Kl & _) & _). lia.
    - destruct k; try discriminate WF. destruct TF as ((Kl & _) & _). lia.
    - destruct TF as (Kl & _). lia. }
  (* so no thread holds a reference, a finalizer or a pending release *)
  assert (Z : forall th, In th (ths s) -> (forall x, href th x = 0) /\ (forall x, nlast th x = 0) /\
                                           (forall h, hpend (sh s) th h = 0)).
  { intros th Hi. apply In_nth_error in Hi. destruct Hi as (t & E).
    destruct (Nat.eq_dec t (length progs)) as [->|N].
    - assert (th = thr) by congruence. subst th. pose proof (i_wf _ _ _ I _ _ E) as WF. unfold pc_ok in WF. rewrite Rr in WF.
      destruct (t_prog thr); [|discriminate]. unfold href, nlast, hpend.
      destruct (t_pc thr); try discriminate WF; try discriminate RP; repeat split; reflexivity.
    - unfold href, nlast, hpend. rewrite (Idle t th E N). repeat split; reflexivity. }
  (* hence no state still has a finalizer: the earliest one would have reference count 0 *)
  assert (NF : forall n x, x < n -> x < length (g_states (sh s)) -> is_fset (s_fin (getst (sh s) x)) = false).
  { induction n as [|n IH]; intros x Ln Lx; [lia|].
    destruct (s_fin (getst (sh s) x)) as [| |hs sc] eqn:Q; try reflexivity. exfalso.
    destruct (j_fin _ _ J x hs sc Lx Q) as (_ & _ & _ & R1 & _).
    rewrite (sum_zero (fun th => nlast th x)) in R1 by (intros th Hi; apply (Z th Hi)).
    rewrite (j_ref _ _ J x Lx) in R1.
    rewrite (sum_zero (fun th => href th x)) in R1 by (intros th Hi; apply (Z th Hi)).
    destruct (sum_pos_ex (fun st0 => fsucc (s_fin st0) x) (g_states (sh s)) ltac:(lia)) as (y & sty & Ey & Py).
    assert (Ly : y < length (g_states (sh s))) by (eapply nth_error_Some_lt; eauto).
    rewrite <- (getst_nth _ _ _ Ey) in Py. unfold fsucc in Py.
    destruct (s_fin (getst (sh s) y)) as [| |hs' sc'] eqn:Qy; try (cbn in Py; lia).
    destruct (Nat.eqb_spec sc' x) as [->|]; [|cbn in Py; lia].
    destruct (j_fin _ _ J y hs' x Ly Qy) as (Sx & _).
    pose proof (IH y ltac:(lia) Ly) as Fy. rewrite Qy in Fy. discriminate. }
  split.
  - intros h Lh. destruct (j_own _ _ J h) as [W1 _]. specialize (W1 Lh).
    assert (O : owners (sh s) (ths s) h = 0).
    { unfold owners, live. pose proof (i_open _ _ _ I) as Io. rewrite K10 in Io. rewrite Io. cbn [Nat.ltb Nat.leb].
      rewrite (sum_zero (fun th => hpend (sh s) th h)) by (intros th Hi; apply (Z th Hi)).
      rewrite sum_zero; [reflexivity|]. intros st0 Hi. apply In_nth_error in Hi. destruct Hi as (x & Ex).
      assert (Lx : x < length (g_states (sh s))) by (eapply nth_error_Some_lt; eauto).
      pose proof (NF (S x) x ltac:(lia) Lx) as Fx. rewrite (getst_nth _ _ _ Ex) in Fx.
      unfold fin_cnt. destruct (s_fin st0); try reflexivity. discriminate. }
    lia.
  - rewrite (i_meta _ _ _ I), K10. reflexivity.
Qed.

(* ---- C06: no read ever goes through a closed file handle ------------------------------------- *)
Lemma rot_outs_step g t th g' th' :
  pc_ok th = true -> t_rot th = true -> step_thread g t th = Some (g', th') -> t_pc th' <> PPanic ->
  t_outs th' = t_outs th /\ t_rot th' = true.
Proof.
  intros WF Rt F NP. unfold pc_ok in WF. rewrite Rt in WF. destruct (t_prog th) eqn:Pq; [|discriminate].
  unfold step_thread in F. crack F; try (destruct (pm3_tx _ _ _ _) eqn:?); inversion F; subst g' th'; clear F.
  all: try (exfalso; apply NP; reflexivity).
  all: try (split; [reflexivity | exact Rt]).
  all: try discriminate WF.
  all: match goal with |- context [continue _ _ ?k0] => destruct k0; try discriminate WF end.
  all: split; [reflexivity | exact Rt].
Qed.

Lemma rot_outs_nil w progs extra s :
  single_writer w progs extra -> reach progs extra s ->
  forall t th, nth_error (ths s) t = Some th -> t_rot th = true -> t_outs th = [].
Proof.
  intros SW R.
  assert (G : Full w (length progs) s /\ forall t th, nth_error (ths s) t = Some th -> t_rot th = true -> t_outs th = []).
  { apply (reachable_inv sys step (fun s1 => Full w (length progs) s1 /\
             forall t th, nth_error (ths s1) t = Some th -> t_rot th = true -> t_outs th = []) (init progs extra)); [| |exact R].
    - split; [split; [apply safe_init | now apply inv1_init]|].
      intros t th E _. destruct (init_threads _ _ _ _ E) as [(p & _ & -> & _)|(_ & ->)]; reflexivity.
    - intros s1 u s2 [F1 IH] H. split; [eapply full_step; eauto|].
      destruct F1 as [SA I]. destruct (step_decomp _ _ _ H) as (thu & g' & thu' & Eu & F & ->). cbn [ths].
      intros t th E Rt. destruct (nth_error_upd_inv _ _ _ _ _ E) as [(-> & -> & _)|(Nu & E')]; [|eauto].
      pose proof (CloseStep1.no_panic w (length progs) _ _ _ _ _ SA I Eu F) as NP.
      destruct (Bool.bool_dec (t_rot thu) true) as [Ru|Ru].
      + destruct (rot_outs_step _ _ _ _ _ (i_wf _ _ _ I _ _ Eu) Ru F NP) as [Qo _]. rewrite Qo. eauto.
      + exfalso. apply not_true_is_false in Ru.
        unfold step_thread in F. crack F; try (destruct (pm3_tx _ _ _ _) eqn:?); inversion F; subst;
          try (match goal with H : context [continue _ _ ?k0] |- _ => destruct k0 end); cbn in Rt; congruence. }
  exact (proj2 G).
Qed.

Theorem stable_entry_intact : forall w progs extra sch t th,
  single_writer w progs extra ->
  nth_error (ths (run step (init progs extra) sch)) t = Some th -> ~ In IOErr (t_outs th).
Proof.
  intros w progs extra sch t th SW E Hi.
  assert (R : reach progs extra (run step (init progs extra) sch)) by (exists sch; reflexivity).
  destruct (Nat.eq_dec t (length progs)) as [->|N].
  - destruct (full_reach w progs extra _ SW R) as [_ I]. destruct (i_rot _ _ _ I) as (thr & Er & Rr).
    assert (thr = th) by congruence. subst thr.
    rewrite (rot_outs_nil w progs extra _ SW R _ _ E Rr) in Hi. destruct Hi.
  - destruct (outcomes_clean w progs extra _ SW R t th IOErr E N Hi) as (_ & Q & _). now apply Q.
Qed.
