(* CloseThm3.v -- the strict form of C14_racing_calls: a result or ErrClosed, nothing else *)
From Coq Require Import List Arith Bool Lia.
From RW Require Import Conc.Sys Conc.Close Conc.ListX Conc.CloseInv Conc.CloseInv2 Conc.CloseReach Conc.CloseThm
     Conc.CloseThm2 Conc.SealInv Conc.SealStep.
Import ListNotations.

(* the outcomes a call may produce: its result (Ok; NotFound for GetLog) or ErrClosed *)
Definition allowed_strict (o : op) (res : outcome) : bool :=
  match o, res with
  | OFirst, Ok _ | OFirst, ErrClosed | OLast, Ok _ | OLast, ErrClosed => true
  | OGet _, Ok _ | OGet _, NotFound | OGet _, ErrClosed => true
  | OStore _ _ _, Ok _ | OStore _ _ _, ErrClosed => true
  | ODelete _, Ok _ | ODelete _, ErrClosed | OTrunc _, Ok _ | OTrunc _, ErrClosed => true
  | OSet, Ok _ | OSet, ErrClosed | OGetS, Ok _ | OGetS, ErrClosed => true
  | OClose, Ok _ => true
  | _, _ => false
  end.

Lemma allowed_strict_of o res : allowed o res = true -> res <> ErrSealed -> allowed_strict o res = true.
Proof. destruct o, res; cbn; intros A N; try discriminate A; try reflexivity; congruence. Qed.

Theorem no_errsealed_reach : forall w progs extra s,
  single_writer w progs extra -> reach progs extra s ->
  forall t th res, nth_error (ths s) t = Some th -> In res (t_outs th) -> res <> ErrSealed.
Proof. intros w progs extra s SW R. apply (no_errsealed w progs extra s SW R). Qed.

Theorem racing_calls_strict : forall w progs extra s,
  single_writer w progs extra -> reach progs extra s ->
  forall t th, nth_error (ths s) t = Some th -> t <> length progs ->
    exists ops, nth_error (progs ++ [] :: extra) t = Some (ops ++ t_prog th) /\
                Forall2 (fun o res => allowed_strict o res = true) ops (t_outs th).
Proof.
  intros w progs extra s SW R t th E N.
  destruct (racing_calls w progs extra s SW R t th E N) as (ops & Q & Fa). exists ops. split; [exact Q|].
  assert (Ns : forall res, In res (t_outs th) -> res <> ErrSealed) by (intros res; apply (no_errsealed w progs extra s SW R t th res E)).
  clear -Fa Ns. induction Fa as [|o res ops outs A Fa IH]; constructor.
  - apply allowed_strict_of; [exact A | apply Ns; now left].
  - apply IH. intros res0 Hi. apply Ns. now right.
Qed.
