(* CloseSafeStep.v -- every step preserves CloseSafe.Safe (or the process has panicked) *)
From Coq Require Import List Arith Bool Lia.
From RW Require Import Conc.Sys Conc.SysFacts Conc.Close Conc.ListX Conc.CloseInv Conc.CloseFacts Conc.CloseSafe.
Import ListNotations.

Ltac frame_tac :=
  first [ apply frame_refl | apply frame_ref | apply frame_fin | apply frame_retire | apply frame_close
        | apply frame_publish0 | (apply frame_ctl; reflexivity) ].

(* a lock holder rewrites the io fields of one file *)
Lemma core_mod g t v th th' :
  holds_mu th = true -> h_base v = h_base (geth g t) -> h_chain v -> h_syn (geth g t) <= h_syn v ->
  S (g_cur g) = length (g_states g) -> (forall h, h_chain (geth g h)) ->
  factsB (upd_h g t v) th' -> core g (upd_h g t v) th th'.
Proof.
  intros Hm B Cv Sv La Ch Fa. unfold core.
  split; [now apply frame_upd_h|]. split; [exact La|]. split; [|split; [|split; [now left | exact Fa]]].
  - intros h. rewrite geth_upd_h. destruct ((t =? h) && (t <? length (g_hnds g))); auto.
  - intros h _. rewrite geth_upd_h. destruct ((t =? h) && (t <? length (g_hnds g))) eqn:Q; [|lia].
    apply andb_true_iff in Q. destruct Q as [Q _]. apply Nat.eqb_eq in Q. now subst.
Qed.

Lemma tailh_upd_h g x v :
  tailh (upd_h g (tail_of (getst g x)) v) x =
  if tail_of (getst g x) <? length (g_hnds g) then v else tailh g x.
Proof.
  unfold tailh. change (getst (upd_h g (tail_of (getst g x)) v) x) with (getst g x).
  rewrite geth_upd_h, Nat.eqb_refl. reflexivity.
Qed.

Lemma tailh_oob g x : length (g_hnds g) <= tail_of (getst g x) -> tailh g x = dh.
Proof. intros L. unfold tailh, geth. now rewrite nth_overflow by lia. Qed.

Lemma core_step s t th g' th' :
  Safe s -> nth_error (ths s) t = Some th -> step_thread (sh s) t th = Some (g', th') ->
  t_pc th' <> PPanic -> core (sh s) g' th th'.
Proof.
  intros A E F NP.
  pose proof (a_thr _ A _ _ E) as TF. pose proof (a_last _ A) as La. pose proof (a_chain _ A) as Ch.
  pose proof (a_wf _ A _ _ E) as WF.
  unfold step_thread in F. crack F.
  all: try (match goal with Q : pm3_tx ?g ?o ?y ?k = (?a, ?b) |- _ =>
              destruct (pm3_shape g o y k) as (segs & mn & nh & Q1 & Q2); rewrite Q in Q1; cbn [fst] in Q1; subst a end).
  all: inversion F; subst; clear F.
  all: try (exfalso; apply NP; reflexivity). all: clear NP.
  all: unfold factsB in TF; repeat match goal with H : t_pc _ = _ |- _ => rewrite H in TF end.
  (* steps that do not touch the io fields of any file *)
  all: try (apply core_same;
            [ frame_tac
            | cbn; rewrite ?upd_length; try rewrite app_length; cbn; lia
            | exact Ch
            | intros h0; cbn; first [reflexivity | apply close_all_io]
            | unfold factsB; cbn; try exact I; try (cbn in TF; rewrite ?upd_length; lia);
              try (match goal with |- context [continue _ _ ?k] => destruct k; cbn; exact I end) ]; fail).
  - (* GetLog: the in-memory lookup found file n *)
    apply core_same; [apply frame_refl | exact La | exact Ch | reflexivity |].
    unfold factsB. cbn [t_pc setpc]. change (cur_op (setpc th (PGetRead x n))) with (cur_op th).
    rewrite Heqo. unfold find_log in Heqo1.
    destruct ((0 <? first_index (sh s) (getst (sh s) x)) && (first_index (sh s) (getst (sh s) x) <=? i) &&
              (i <=? last_index (sh s) (getst (sh s) x))); [|discriminate].
    destruct (seg_for (sh s) (s_segs (getst (sh s) x)) i None) as [h0|] eqn:Sf; [|discriminate].
    destruct (Nat.ltb_spec (i - h_base (geth (sh s) h0)) (h_cnt (geth (sh s) h0))) as [Lc|Lc]; [|discriminate].
    inversion Heqo1; subst. split.
    + eapply seg_for_base; eauto. discriminate.
    + destruct (Ch n) as (C1 & _). lia.
  - (* StoreLogs: offsets published *)
    apply core_mod; auto.
    all: try (unfold holds_mu, op_locking; rewrite Heqp, Heqo; reflexivity).
    all: try (destruct (Ch (tail_of (getst (sh s) x))) as (C1 & C2 & C3);
              unfold h_chain, with_ents; cbn; rewrite app_length; lia).
    all: try (unfold factsB; cbn; exact TF).
  - (* WriteAt *)
    apply core_mod; auto.
    all: try (unfold holds_mu; rewrite Heqp; reflexivity).
    all: try (destruct (Ch (tail_of (getst (sh s) x))) as (C1 & C2 & C3); unfold h_chain, with_io; cbn; lia).
    unfold factsB. cbn [t_pc setpc]. split; [cbn; exact TF|]. rewrite tailh_upd_h.
    destruct (tail_of (getst (sh s) x) <? length (g_hnds (sh s))) eqn:Q; [reflexivity|].
    apply Nat.ltb_ge in Q. now rewrite tailh_oob by exact Q.
  - (* fsync *)
    destruct TF as (Lx & W).
    apply core_mod; auto.
    all: try (unfold holds_mu; rewrite Heqp; reflexivity).
    all: try (destruct (Ch (tail_of (getst (sh s) x))) as (C1 & C2 & C3); unfold h_chain, with_io; cbn; lia).
    unfold factsB. cbn [t_pc setpc]. split; [cbn; exact Lx|]. rewrite tailh_upd_h.
    destruct (tail_of (getst (sh s) x) <? length (g_hnds (sh s))) eqn:Q; [split; [exact W | reflexivity]|].
    apply Nat.ltb_ge in Q. now rewrite tailh_oob by exact Q.
  - (* commitIdx store, sealed *)
    destruct TF as (Lx & W & Sy). unfold tailh in *.
    apply core_mod; auto.
    all: try (unfold holds_mu; rewrite Heqp; reflexivity).
    all: try (destruct (Ch (tail_of (getst (sh s) x))) as (C1 & C2 & C3); unfold h_chain, with_io; cbn; lia).
    all: try exact I.
  - (* commitIdx store *)
    destruct TF as (Lx & W & Sy). unfold tailh in *.
    apply core_mod; auto.
    all: try (unfold holds_mu; rewrite Heqp; reflexivity).
    all: try (destruct (Ch (tail_of (getst (sh s) x))) as (C1 & C2 & C3); unfold h_chain, with_io; cbn; lia).
    all: try exact I.
  - (* ForceSeal, commit fails *)
    apply core_mod; auto.
    all: try (unfold holds_mu; rewrite Heqp; reflexivity).
    all: try apply (Ch _). all: try exact I.
  - (* ForceSeal *)
    apply core_mod; auto.
    all: try (unfold holds_mu; rewrite Heqp; reflexivity).
    all: try apply (Ch _). all: try exact I.
  - (* publish *)
    unfold core. split; [now apply frame_publish|]. split; [cbn; rewrite app_length; cbn; lia|].
    assert (G : forall h, h < length (g_hnds (sh s)) ->
                geth (publish (set_hnds (sh s) (g_hnds (sh s) ++ nh)) (mk_state segs mn)) h = geth (sh s) h).
    { intros h L. unfold geth, publish, set_hnds; cbn. now rewrite app_nth1 by exact L. }
    split; [|split; [|split; [left; unfold holds_mu; now rewrite Heqp | exact I]]].
    + intros h. destruct (Nat.lt_ge_cases h (length (g_hnds (sh s)))) as [L|L]; [rewrite G by exact L; apply Ch|].
      destruct (f_new _ _ (frame_publish (sh s) nh (mk_state segs mn) Q2) h L) as [Q|[b Q]];
        eapply chain_io; try exact Q; [apply chain_dh | unfold h_chain, new_hnd; cbn; lia].
    + intros h L. rewrite G by exact L. lia.
Qed.

Lemma not_panic_pc th : is_panic th = false -> t_pc th <> PPanic.
Proof. unfold is_panic. destruct (t_pc th); congruence. Qed.

Lemma safe_step_np s t th g' th' :
  Safe s -> nth_error (ths s) t = Some th -> step_thread (sh s) t th = Some (g', th') ->
  t_pc th' <> PPanic -> Safe {| sh := g'; ths := upd (ths s) t th' |}.
Proof.
  intros A E F P.
  assert (L : t < length (ths s)) by (eapply nth_error_Some_lt; eauto).
  pose proof (a_wf _ A _ _ E) as WF.
  pose proof (wf_step1 _ _ _ _ _ WF F P) as WF'.
  pose proof (mu_change1 _ _ _ _ _ WF F P) as MC.
  destruct (core_step s t th g' th' A E F P) as (Fr & La' & Ch' & Mono & Hio & Fa').
  split; cbn [sh ths].
  - intros u thu Eu. destruct (nth_error_upd_inv _ _ _ _ _ Eu) as [(-> & -> & _)|(N & Eu')]; [exact WF'|].
    eapply a_wf; eauto.
  - intros u thu Eu Hu. destruct (nth_error_upd_inv _ _ _ _ _ Eu) as [(-> & -> & _)|(N & Eu')].
    + destruct MC as [(A1 & B)|[(A1 & B & C & D)|(A1 & B & C)]].
      * rewrite B. apply (a_mu1 _ A _ _ E). congruence.
      * exact D.
      * congruence.
    + pose proof (a_mu1 _ A _ _ Eu' Hu) as M.
      destruct MC as [(A1 & B)|[(A1 & B & C & D)|(A1 & B & C)]].
      * congruence.
      * congruence.
      * pose proof (a_mu1 _ A _ _ E A1). congruence.
  - intros u Mu. destruct MC as [(A1 & B)|[(A1 & B & C & D)|(A1 & B & C)]]; [| |congruence].
    + rewrite B in Mu. destruct (a_mu2 _ A _ Mu) as (thu & Eu & Hu).
      destruct (Nat.eq_dec u t) as [->|N].
      * exists th'. rewrite nth_error_upd_eq by exact L. split; [reflexivity|]. congruence.
      * exists thu. rewrite nth_error_upd_neq by congruence. auto.
    + assert (u = t) by congruence. subst. exists th'. rewrite nth_error_upd_eq by exact L. auto.
  - exact La'.
  - exact Ch'.
  - intros u thu Eu. destruct (nth_error_upd_inv _ _ _ _ _ Eu) as [(-> & -> & _)|(N & Eu')]; [exact Fa'|].
    apply (factsB_frame (sh s) g' thu Fr Mono); [|eapply a_thr; eauto].
    intros Hu. destruct Hio as [Ht|Hio]; [|exact Hio].
    pose proof (a_mu1 _ A _ _ E Ht). pose proof (a_mu1 _ A _ _ Eu' Hu). congruence.
Qed.

Lemma safe_step s t s' : Safe s -> step s t = Some s' -> crashed s' = true \/ Safe s'.
Proof.
  intros A H. destruct (step_decomp _ _ _ H) as (th & g' & th' & E & F & ->).
  assert (L : t < length (ths s)) by (eapply nth_error_Some_lt; eauto).
  destruct (is_panic th') eqn:P.
  { left. unfold crashed. cbn. now apply existsb_upd. }
  right. apply not_panic_pc in P. eapply safe_step_np; eauto.
Qed.

Lemma crashed_mono s t s' : step s t = Some s' -> crashed s = true -> crashed s' = true.
Proof.
  intros H C. destruct (step_decomp _ _ _ H) as (th & g' & th' & E & F & ->).
  unfold crashed in *. cbn. apply existsb_exists in C. destruct C as (thp & In_ & Pp).
  apply In_nth_error in In_. destruct In_ as (u & Eu).
  apply existsb_exists. exists thp. split; [|exact Pp].
  apply nth_error_In with (n := u). rewrite nth_error_upd_neq; [exact Eu|].
  intros ->. assert (thp = th) by congruence. subst.
  unfold is_panic in Pp. unfold step_thread in F. destruct (t_pc th); try discriminate.
Qed.

Lemma safe_init progs extra : Safe (init progs extra).
Proof.
  assert (Hth : forall t th, nth_error (ths (init progs extra)) t = Some th ->
                             (exists p, th = caller p) \/ th = rotator).
  { intros t th E. apply nth_error_In in E. cbn in E. apply in_app_or in E. destruct E as [E|[E|E]].
    - apply in_map_iff in E. destruct E as (p & <- & _). left; eauto.
    - right; auto.
    - apply in_map_iff in E. destruct E as (p & <- & _). left; eauto. }
  split.
  - intros t th E. destruct (Hth t th E) as [[p ->]| ->]; reflexivity.
  - intros t th E Hm. destruct (Hth t th E) as [[p ->]| ->]; discriminate.
  - cbn. discriminate.
  - reflexivity.
  - intros [|h]; unfold geth, h_chain; cbn; [lia|]. destruct h; cbn; lia.
  - intros t th E. destruct (Hth t th E) as [[p ->]| ->]; exact I.
Qed.

(* the invariant holds in every state reachable without a panic, for every schedule *)
Theorem safe_run progs extra sch :
  let s := run step (init progs extra) sch in crashed s = true \/ Safe s.
Proof.
  cbn zeta. apply (run_inv sys step (fun s => crashed s = true \/ Safe s)).
  - intros s t s' [C|A] H; [left; eapply crashed_mono; eauto | eapply safe_step; eauto].
  - right. apply safe_init.
Qed.
