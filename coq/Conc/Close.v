(* Close.v -- the L3 concurrency model of wal.go / state.go / segment (C14, C06).
   Threads: any number of API callers (each runs a list of calls: reads,
   StoreLogs, DeleteRange, stable store calls, Close) and the rotation
   goroutine.  Atomic steps mirror the atomic actions of the code: closed-flag
   load/swap, writeMu lock/unlock, channel send/receive/close on triggerRotate
   (1-buffered) and awaitRotate, state pointer load/store, refcount inc/dec
   (including the reference every state holds on its successor), finalizer
   store/swap/run, handle close, metaDB close, and for an append: offsets
   publish, file write, fsync, commitIdx store.  The hook points of /repo are
   program counters (see `pc_point`).  Entries are abstract: a tag per entry.

   `Panic` is an explicit outcome wherever the code would dereference the empty
   state, close a closed/nil channel, send on a closed channel or index the
   offsets slice out of range; `IOErr` is the outcome of reading through a
   closed file handle. *)
From Coq Require Import List Arith Bool Lia.
From RW Require Import Conc.Sys.
Import ListNotations.

(* ---- API ------------------------------------------------------------------- *)
Inductive op :=
| OFirst | OLast | OGet (i : nat)
| OStore (seal : bool) (tag n : nat)   (* append n entries (content = tag) at LastIndex+1;
                                          seal: the batch fills the segment *)
| ODelete (n : nat)                    (* DeleteRange(1, n): head truncation *)
| OTrunc (n : nat)                     (* DeleteRange(n+1, max): tail truncation, keeps <= n *)
| OSet | OGetS                         (* StableStore *)
| OClose.

Inductive outcome :=
| Ok (v : nat)                  (* value / plain success (v = 0) *)
| NotFound | ErrClosed | ErrSealed
| IOErr                         (* read through a closed file handle *)
| MetaErr                       (* metaDB used after its Close *)
| Panic.

(* ---- shared memory --------------------------------------------------------- *)
Record hnd := { h_base : nat;
                h_ents : list nat;   (* entries whose offsets are published (tags) *)
                h_wr : nat;          (* entries written to the file *)
                h_syn : nat;         (* entries covered by an fsync *)
                h_cnt : nat;         (* entries visible through commitIdx *)
                h_sealed : bool; h_closes : nat }.

Inductive fin := FUnset | FNil | FSet (hs : list nat) (succ : nat).

Record st := { s_ref : nat;             (* number of references (low bits of refCount) *)
               s_ret : bool;            (* the `retired` bit of refCount *)
               s_fin : fin; s_open : bool;
               s_segs : list nat;      (* handle ids, oldest first, last = tail *)
               s_min : nat }.          (* MinIndex of the first segment *)

Record shared := {
  g_closed : bool;                (* w.closed *)
  g_mu : option tid;              (* w.writeMu *)
  g_trig : bool;                  (* triggerRotate holds a value *)
  g_trig_closed : bool;
  g_await : option nat;           (* w.awaitRotate: channel id *)
  g_chans : list bool;            (* channel id -> closed? *)
  g_cur : nat;                    (* w.s : index into g_states *)
  g_states : list st;
  g_hnds : list hnd;
  g_meta_closes : nat;
  g_stable : nat }.               (* number of successful Set calls *)

(* ---- threads --------------------------------------------------------------- *)
Inductive kont := KRet | KUnlock | KOuter (x : nat) | KRot | KRetry.

Inductive pc :=
| PIdle                                   (* between calls *)
| PChecked                                (* point <Method>.checked *)
| PStErr                                  (* Set/Get: metaDB error, closedOr() loads the flag *)
| PLock                                   (* about to Lock (blocking) *)
| PLocked                                 (* point <Method>.locked *)
| PWaiting (c : nat)                      (* point awaitRotation.waiting *)
| PRecvAwait (c : nat)                    (* <-awaitCh (blocking) *)
| PRelock                                 (* Lock again (blocking) *)
| PLoad                                   (* load w.s *)
| PLoaded (x : nat)                       (* point acquireState.loaded *)
| PAcq (x : nat)                          (* refcount incremented; re-load w.s, check s.segments *)
| PBody (x : nat)
| PGetRead (x h : nat)                    (* point OffsetForFrame.checked: offsets load + readFrame *)
| PApp1 (x : nat)                         (* point Append.buffered: offsets published *)
| PApp2 (x : nat)                         (* point vfs.sync: written, not yet synced *)
| PApp3 (x : nat)                         (* point sync.durable: synced, commitIdx not yet stored *)
| PTrig (x : nat)                         (* triggerRotateLocked: closed check, make chan *)
| PSend (x : nat)                         (* triggerRotate <- (blocking) *)
| PM0 (k : kont)                          (* mutateStateLocked: load *)
| PM1 (y : nat) (k : kont)                (* acquire *)
| PM2 (y : nat) (k : kont)                (* tx (may force-seal the tail), metaDB.CommitState *)
| PM3 (y : nat) (k : kont)                (* point mutateState.committed *)
| PM4 (y : nat) (f : fin) (k : kont)      (* point mutateState.published *)
| PRel (x : nat) (r : outcome) (k : kont) (* refcount decrement *)
| PLast (x : nat) (r : outcome) (k : kont)(* point release.lastRef *)
| PRun (hs : list nat) (sc : nat) (r : outcome) (k : kont)  (* finalizer body *)
| PUnl (r : outcome)                      (* Unlock, return *)
| PCFlag                                  (* point Close.flagSet *)
| PCLock
| PCLocked                                (* point Close.locked *)
| PC3 | PC4 | PC5 (x : nat) | PC6 (x : nat)
| PCSwapped (x e : nat)                   (* point Close.stateSwapped *)
| PC8 (x : nat)
| PRIdle                                  (* rotator: <-triggerRotate (blocking) *)
| PRRecv                                  (* point runRotate.received *)
| PRLock
| PRLocked                                (* point runRotate.locked *)
| PRExit                                  (* closed: Unlock, return *)
| PRT3 | PRT4 (d : option nat) | PRT5 (d : option nat)
| PRDone
| PPanic.

Record thread := { t_rot : bool; t_prog : list op; t_outs : list outcome; t_pc : pc }.

Record sys := { sh : shared; ths : list thread }.

(* ---- helpers ---------------------------------------------------------------- *)
Fixpoint upd {A} (l : list A) (i : nat) (x : A) : list A :=
  match l, i with
  | [], _ => []
  | _ :: r, O => x :: r
  | a :: r, S j => a :: upd r j x
  end.

Definition dst : st := {| s_ref := 0; s_ret := false; s_fin := FUnset; s_open := false; s_segs := []; s_min := 0 |}.
Definition dh : hnd := {| h_base := 0; h_ents := []; h_wr := 0; h_syn := 0; h_cnt := 0;
                          h_sealed := false; h_closes := 0 |}.

Definition getst (g : shared) (x : nat) : st := nth x (g_states g) dst.
Definition geth (g : shared) (h : nat) : hnd := nth h (g_hnds g) dh.

Definition set_states (g : shared) (l : list st) : shared :=
  {| g_closed := g_closed g; g_mu := g_mu g; g_trig := g_trig g; g_trig_closed := g_trig_closed g;
     g_await := g_await g; g_chans := g_chans g; g_cur := g_cur g; g_states := l;
     g_hnds := g_hnds g; g_meta_closes := g_meta_closes g; g_stable := g_stable g |}.
Definition set_hnds (g : shared) (l : list hnd) : shared :=
  {| g_closed := g_closed g; g_mu := g_mu g; g_trig := g_trig g; g_trig_closed := g_trig_closed g;
     g_await := g_await g; g_chans := g_chans g; g_cur := g_cur g; g_states := g_states g;
     g_hnds := l; g_meta_closes := g_meta_closes g; g_stable := g_stable g |}.
Definition set_mu (g : shared) (m : option tid) : shared :=
  {| g_closed := g_closed g; g_mu := m; g_trig := g_trig g; g_trig_closed := g_trig_closed g;
     g_await := g_await g; g_chans := g_chans g; g_cur := g_cur g; g_states := g_states g;
     g_hnds := g_hnds g; g_meta_closes := g_meta_closes g; g_stable := g_stable g |}.
Definition set_closed (g : shared) : shared :=
  {| g_closed := true; g_mu := g_mu g; g_trig := g_trig g; g_trig_closed := g_trig_closed g;
     g_await := g_await g; g_chans := g_chans g; g_cur := g_cur g; g_states := g_states g;
     g_hnds := g_hnds g; g_meta_closes := g_meta_closes g; g_stable := g_stable g |}.
Definition set_trig (g : shared) (b c : bool) : shared :=
  {| g_closed := g_closed g; g_mu := g_mu g; g_trig := b; g_trig_closed := c;
     g_await := g_await g; g_chans := g_chans g; g_cur := g_cur g; g_states := g_states g;
     g_hnds := g_hnds g; g_meta_closes := g_meta_closes g; g_stable := g_stable g |}.
Definition set_await (g : shared) (a : option nat) (cs : list bool) : shared :=
  {| g_closed := g_closed g; g_mu := g_mu g; g_trig := g_trig g; g_trig_closed := g_trig_closed g;
     g_await := a; g_chans := cs; g_cur := g_cur g; g_states := g_states g;
     g_hnds := g_hnds g; g_meta_closes := g_meta_closes g; g_stable := g_stable g |}.
Definition set_cur (g : shared) (c : nat) (l : list st) : shared :=
  {| g_closed := g_closed g; g_mu := g_mu g; g_trig := g_trig g; g_trig_closed := g_trig_closed g;
     g_await := g_await g; g_chans := g_chans g; g_cur := c; g_states := l;
     g_hnds := g_hnds g; g_meta_closes := g_meta_closes g; g_stable := g_stable g |}.
Definition set_meta (g : shared) (m s : nat) : shared :=
  {| g_closed := g_closed g; g_mu := g_mu g; g_trig := g_trig g; g_trig_closed := g_trig_closed g;
     g_await := g_await g; g_chans := g_chans g; g_cur := g_cur g; g_states := g_states g;
     g_hnds := g_hnds g; g_meta_closes := m; g_stable := s |}.

Definition st_ref (s : st) (r : nat) : st :=
  {| s_ref := r; s_ret := s_ret s; s_fin := s_fin s; s_open := s_open s; s_segs := s_segs s; s_min := s_min s |}.
Definition st_fin (s : st) (f : fin) : st :=
  {| s_ref := s_ref s; s_ret := s_ret s; s_fin := f; s_open := s_open s; s_segs := s_segs s; s_min := s_min s |}.
(* state.retire: store the finalizer, then add the retired bit (the add is the visible action) *)
Definition st_retire (s : st) (f : fin) : st :=
  {| s_ref := s_ref s; s_ret := true; s_fin := f; s_open := s_open s; s_segs := s_segs s; s_min := s_min s |}.

Definition upd_st (g : shared) (x : nat) (s : st) : shared := set_states g (upd (g_states g) x s).
Definition upd_h (g : shared) (h : nat) (v : hnd) : shared := set_hnds g (upd (g_hnds g) h v).

Definition close_h (h : hnd) : hnd :=
  {| h_base := h_base h; h_ents := h_ents h; h_wr := h_wr h; h_syn := h_syn h; h_cnt := h_cnt h;
     h_sealed := h_sealed h; h_closes := S (h_closes h) |}.
Fixpoint close_all (l : list hnd) (hs : list nat) : list hnd :=
  match hs with
  | [] => l
  | h :: r => close_all (upd l h (close_h (nth h l dh))) r
  end.

(* ---- the abstract log of a state (mirrors state.firstIndex/lastIndex/getLog) -- *)
Definition tail_of (s : st) : nat := last (s_segs s) 0.

Definition last_index (g : shared) (s : st) : nat :=
  let t := geth g (tail_of s) in
  if 0 <? h_cnt t then h_base t + h_cnt t - 1
  else if 2 <=? length (s_segs s) then h_base t - 1 else 0.

Definition first_index (g : shared) (s : st) : nat :=
  if (length (s_segs s) =? 1) && (h_cnt (geth g (tail_of s)) =? 0) then 0 else s_min s.

(* the segment holding index i: the last one whose base is <= i *)
Fixpoint seg_for (g : shared) (segs : list nat) (i : nat) (acc : option nat) : option nat :=
  match segs with
  | [] => acc
  | h :: r => if h_base (geth g h) <=? i then seg_for g r i (Some h) else acc
  end.

(* first half of getLog: the in-memory lookups (commitIdx / segment ranges) *)
Definition find_log (g : shared) (s : st) (i : nat) : option nat :=
  let f := first_index g s in
  if (0 <? f) && (f <=? i) && (i <=? last_index g s) then
    match seg_for g (s_segs s) i None with
    | Some h => (* Writer.OffsetForFrame: idx > commitIdx of that file => not found *)
                if i - h_base (geth g h) <? h_cnt (geth g h) then Some h else None
    | None => None
    end
  else None.
(* second half: offsets load, readFrame through the handle *)
Definition read_log (g : shared) (h i : nat) : outcome :=
  let v := geth g h in
  let pos := i - h_base v in
  if length (h_ents v) <=? pos then Panic            (* offsets index out of range *)
  else if 0 <? h_closes v then IOErr
  else Ok (nth pos (h_ents v) 0).

(* head truncation to newMin: (segments removed entirely, segments kept) *)
Fixpoint split_head (g : shared) (newMin lastIdx : nat) (segs : list nat) : list nat * list nat :=
  match segs with
  | [] => ([], [])
  | h :: r =>
      match r with
      | [] => if newMin <=? lastIdx then ([], segs) else ([h], [])
      | h2 :: _ => if newMin <=? h_base (geth g h2) - 1 then ([], segs)
                   else let '(a, b) := split_head g newMin lastIdx r in (h :: a, b)
      end
  end.
(* tail truncation to newMax: (segments kept, segments removed): base <= newMax is kept *)
Fixpoint split_tail (g : shared) (newMax : nat) (segs : list nat) : list nat * list nat :=
  match segs with
  | [] => ([], [])
  | h :: r => if h_base (geth g h) <=? newMax then
                let '(a, b) := split_tail g newMax r in (h :: a, b)
              else ([], segs)
  end.

Definition new_hnd (base : nat) : hnd :=
  {| h_base := base; h_ents := []; h_wr := 0; h_syn := 0; h_cnt := 0; h_sealed := false; h_closes := 0 |}.
(* a new state is created holding the reference of its predecessor *)
Definition mk_state (segs : list nat) (mn : nat) : st :=
  {| s_ref := 1; s_ret := false; s_fin := FUnset; s_open := true; s_segs := segs; s_min := mn |}.
Definition empty_state : st :=
  {| s_ref := 1; s_ret := false; s_fin := FUnset; s_open := false; s_segs := []; s_min := 0 |}.

(* publish a new state object and make it current *)
Definition publish (g : shared) (s : st) : shared :=
  set_cur g (length (g_states g)) (g_states g ++ [s]).

(* the transaction bodies of mutateStateLocked: new shared + handles the finalizer closes *)
Definition do_rotate (g : shared) (y : nat) : shared * list nat :=
  let s := getst g y in
  let t := geth g (tail_of s) in
  let nh := length (g_hnds g) in
  let g1 := set_hnds g (g_hnds g ++ [new_hnd (h_base t + h_cnt t)]) in
  (publish g1 (mk_state (s_segs s ++ [nh]) (s_min s)), []).

Definition do_trunc_head (g : shared) (y : nat) (newMin : nat) : shared * list nat :=
  let s := getst g y in
  let li := last_index g s in
  let '(rm, keep) := split_head g newMin li (s_segs s) in
  match keep with
  | [] => let nh := length (g_hnds g) in
          let g1 := set_hnds g (g_hnds g ++ [new_hnd (li + 1)]) in
          (publish g1 (mk_state [nh] (li + 1)), rm)
  | _ => (publish g (mk_state keep newMin), rm)
  end.

Definition seal_h (h : hnd) : hnd :=
  {| h_base := h_base h; h_ents := h_ents h; h_wr := h_wr h; h_syn := h_syn h; h_cnt := h_cnt h;
     h_sealed := true; h_closes := h_closes h |}.

Definition do_trunc_tail (g : shared) (y : nat) (newMax : nat) : shared * list nat :=
  let s := getst g y in
  let '(keep, rm) := split_tail g newMax (s_segs s) in
  let nh := length (g_hnds g) in
  let g1 := set_hnds g (g_hnds g ++ [new_hnd (newMax + 1)]) in
  (publish g1 (mk_state (keep ++ [nh]) (s_min s)), rm).

(* how DeleteRange classifies the request on state s (wal.go) *)
Inductive dkind := DNoop | DHead (newMin : nat) | DTail (newMax : nat).
Definition classify (g : shared) (s : st) (o : op) : dkind :=
  let f := first_index g s in
  let l := last_index g s in
  match o with
  | ODelete n => if (n <? f) || (l <? 1) then DNoop else DHead (n + 1)
  | OTrunc n => if l <=? n then DNoop
                else if n <? f then DHead (l + 1)      (* whole log: head truncation *)
                else DTail n
  | _ => DNoop
  end.

(* what mutateStateLocked publishes: rotation for the rotation goroutine, else the
   truncation the current DeleteRange call asked for *)
Definition pm3_tx (g : shared) (o : option op) (y : nat) (k : kont) : shared * list nat :=
  let same := (publish g (mk_state (s_segs (getst g y)) (s_min (getst g y))), []) in
  match k with
  | KRot => do_rotate g y
  | _ => match o with
         | Some o => match classify g (getst g y) o with
                     | DHead m => do_trunc_head g y m
                     | DTail m => do_trunc_tail g y m
                     | DNoop => same
                     end
         | None => same
         end
  end.

(* ---- one atomic step of a thread ------------------------------------------- *)
Definition cur_op (th : thread) : option op := hd_error (t_prog th).
Definition setpc (th : thread) (p : pc) : thread :=
  {| t_rot := t_rot th; t_prog := t_prog th; t_outs := t_outs th; t_pc := p |}.
(* the call returns r *)
Definition finish (th : thread) (r : outcome) : thread :=
  {| t_rot := t_rot th; t_prog := tl (t_prog th); t_outs := t_outs th ++ [r]; t_pc := PIdle |}.
Definition panic (th : thread) : thread :=
  {| t_rot := t_rot th; t_prog := tl (t_prog th); t_outs := t_outs th ++ [Panic]; t_pc := PPanic |}.

Definition is_locking (o : op) : bool :=
  match o with OStore _ _ _ | ODelete _ | OTrunc _ => true | _ => false end.

(* after a release completed: continue according to k *)
Definition continue (th : thread) (r : outcome) (k : kont) : thread :=
  match k with
  | KRet => finish th r
  | KUnlock => setpc th (PUnl r)
  | KOuter x => setpc th (PRel x r KUnlock)
  | KRot => setpc th PRT3
  | KRetry => setpc th PLoad
  end.

Definition with_ents (h : hnd) (e : list nat) (sealed : bool) : hnd :=
  {| h_base := h_base h; h_ents := e; h_wr := h_wr h; h_syn := h_syn h; h_cnt := h_cnt h;
     h_sealed := sealed; h_closes := h_closes h |}.
Definition with_io (h : hnd) (wr syn cnt : nat) : hnd :=
  {| h_base := h_base h; h_ents := h_ents h; h_wr := wr; h_syn := syn; h_cnt := cnt;
     h_sealed := h_sealed h; h_closes := h_closes h |}.

Definition step_thread (g : shared) (me : tid) (th : thread) : option (shared * thread) :=
  match t_pc th with
  | PIdle =>
      match cur_op th with
      | None => None
      | Some OClose =>
          if g_closed g then Some (g, finish th (Ok 0))
          else Some (set_closed g, setpc th PCFlag)
      | Some _ => if g_closed g then Some (g, finish th ErrClosed) else Some (g, setpc th PChecked)
      end
  | PChecked =>
      match cur_op th with
      | Some OSet => if 0 <? g_meta_closes g then Some (g, setpc th PStErr)
                     else Some (set_meta g (g_meta_closes g) (S (g_stable g)), finish th (Ok 0))
      | Some OGetS => if 0 <? g_meta_closes g then Some (g, setpc th PStErr)
                      else Some (g, finish th (Ok (g_stable g)))
      | Some o => if is_locking o then Some (g, setpc th PLock) else Some (g, setpc th PLoad)
      | None => None
      end
  | PStErr => if g_closed g then Some (g, finish th ErrClosed) else Some (g, finish th MetaErr)
  | PLock => match g_mu g with
             | None => Some (set_mu g (Some me), setpc th PLocked)
             | Some _ => None
             end
  | PLocked => match g_await g with
               | Some c => Some (set_mu g None, setpc th (PWaiting c))
               | None => Some (g, setpc th PLoad)
               end
  | PWaiting c => Some (g, setpc th (PRecvAwait c))
  | PRecvAwait c => if nth c (g_chans g) false then Some (g, setpc th PRelock) else None
  | PRelock => match g_mu g with
               | None =>
                   (* Lock; awaitRotationLocked loops: if a rotation was queued again meanwhile
                      (possible only with a second mutating goroutine) Unlock and wait for it.
                      awaitRotate is only written under writeMu, so Lock + load is one step. *)
                   match g_await g with
                   | Some c => Some (g, setpc th (PWaiting c))
                   | None => Some (set_mu g (Some me), setpc th PLoad)
                   end
               | Some _ => None
               end
  | PLoad => Some (g, setpc th (PLoaded (g_cur g)))
  | PLoaded x => let s := getst g x in
                 Some (upd_st g x (st_ref s (S (s_ref s))), setpc th (PAcq x))
  | PAcq x =>
      match cur_op th with
      | Some o =>
          if negb (g_cur g =? x) then Some (g, setpc th (PRel x ErrClosed KRetry))   (* replaced meanwhile: retry *)
          else if s_open (getst g x) then Some (g, setpc th (PBody x))
          else Some (g, setpc th (PRel x ErrClosed (if is_locking o then KUnlock else KRet)))
      | None => None
      end
  | PBody x =>
      let s := getst g x in
      if negb (s_open s) then Some (g, panic th)       (* nil dereference *)
      else
      match cur_op th with
      | Some OFirst => Some (g, setpc th (PRel x (Ok (first_index g s)) KRet))
      | Some OLast => Some (g, setpc th (PRel x (Ok (last_index g s)) KRet))
      | Some (OGet i) => match find_log g s i with
                         | Some h => Some (g, setpc th (PGetRead x h))
                         | None => Some (g, setpc th (PRel x NotFound KRet))
                         end
      | Some (OStore seal tag n) =>
          let t := tail_of s in
          let h := geth g t in
          if h_sealed h then Some (g, setpc th (PRel x ErrSealed KUnlock))
          else
            (* appendEntry: offsets.Store per entry (+ the index frame in the buffer when sealing) *)
            Some (upd_h g t (with_ents h (h_ents h ++ repeat tag n) seal), setpc th (PApp1 x))
      | Some (ODelete n) =>
          match classify g s (ODelete n) with
          | DNoop => Some (g, setpc th (PRel x (Ok 0) KUnlock))
          | _ => Some (g, setpc th (PM0 (KOuter x)))
          end
      | Some (OTrunc n) =>
          match classify g s (OTrunc n) with
          | DNoop => Some (g, setpc th (PRel x (Ok 0) KUnlock))
          | _ => Some (g, setpc th (PM0 (KOuter x)))
          end
      | _ => None
      end
  | PGetRead x h =>
      match cur_op th with
      | Some (OGet i) => match read_log g h i with
                         | Panic => Some (g, panic th)
                         | res => Some (g, setpc th (PRel x res KRet))
                         end
      | _ => None
      end
  | PApp1 x =>   (* WriteAt *)
      let t := tail_of (getst g x) in let h := geth g t in
      Some (upd_h g t (with_io h (length (h_ents h)) (h_syn h) (h_cnt h)), setpc th (PApp2 x))
  | PApp2 x =>   (* fsync *)
      let t := tail_of (getst g x) in let h := geth g t in
      Some (upd_h g t (with_io h (h_wr h) (h_wr h) (h_cnt h)), setpc th (PApp3 x))
  | PApp3 x =>   (* atomic.StoreUint64(&w.commitIdx, ...) *)
      let t := tail_of (getst g x) in let h := geth g t in
      let g' := upd_h g t (with_io h (h_wr h) (h_syn h) (length (h_ents h))) in
      if h_sealed h then Some (g', setpc th (PTrig x))
      else Some (g', setpc th (PRel x (Ok 0) KUnlock))
  | PTrig x =>
      if g_closed g then Some (g, setpc th (PRel x (Ok 0) KUnlock))
      else Some (set_await g (Some (length (g_chans g))) (g_chans g ++ [false]), setpc th (PSend x))
  | PSend x =>
      if g_trig_closed g then Some (g, panic th)        (* send on closed channel *)
      else if g_trig g then None
      else Some (set_trig g true false, setpc th (PRel x (Ok 0) KUnlock))
  | PM0 k => Some (g, setpc th (PM1 (g_cur g) k))
  | PM1 y k => let s := getst g y in
               if negb (s_open s) then Some (g, panic th)   (* clone of the empty state: nil segments *)
               else Some (upd_st g y (st_ref s (S (s_ref s))), setpc th (PM2 y k))
  | PM2 y k =>
      (* tx(): a tail truncation that keeps the tail force-seals it (index frame, write, fsync) *)
      let g1 := match k, cur_op th with
                | KOuter _, Some (OTrunc n) =>
                    match classify g (getst g y) (OTrunc n) with
                    | DTail m => let t := tail_of (getst g y) in
                                 if h_base (geth g t) <=? m then upd_h g t (seal_h (geth g t)) else g
                    | _ => g
                    end
                | _, _ => g
                end in
      if 0 <? g_meta_closes g then Some (g1, setpc th (PRel y MetaErr k))
      else Some (g1, setpc th (PM3 y k))
  | PM3 y k => let '(g', hs) := pm3_tx g (cur_op th) y k in
                Some (g', setpc th (PM4 y (FSet hs (g_cur g')) k))
  | PM4 y f k => Some (upd_st g y (st_retire (getst g y) f), setpc th (PRel y (Ok 0) k))
  | PRel x r k =>
      let s := getst g x in
      let g' := upd_st g x (st_ref s (s_ref s - 1)) in
      if (s_ref s =? 1) && s_ret s then Some (g', setpc th (PLast x r k))   (* new == retired *)
      else Some (g', continue th r k)
  | PLast x r k =>
      let s := getst g x in
      let g' := upd_st g x (st_fin s FNil) in
      match s_fin s with
      | FSet hs sc => Some (g', setpc th (PRun hs sc r k))
      | _ => Some (g', continue th r k)
      end
  | PRun hs sc r k => Some (set_hnds g (close_all (g_hnds g) hs), setpc th (PRel sc r k))
  | PUnl r => Some (set_mu g None, finish th r)
  (* ---- Close ---- *)
  | PCFlag => Some (g, setpc th PCLock)
  | PCLock => match g_mu g with
              | None => Some (set_mu g (Some me), setpc th PCLocked)
              | Some _ => None
              end
  | PCLocked =>
      match g_await g with
      | Some c => if nth c (g_chans g) false then Some (g, panic th)   (* close of closed channel *)
                  else Some (set_await g None (upd (g_chans g) c true), setpc th PC3)
      | None => Some (g, setpc th PC3)
      end
  | PC3 => if g_trig_closed g then Some (g, panic th)
           else Some (set_trig g (g_trig g) true, setpc th PC4)
  | PC4 => Some (g, setpc th (PC5 (g_cur g)))
  | PC5 x => let s := getst g x in
             Some (upd_st g x (st_ref s (S (s_ref s))), setpc th (PC6 x))
  | PC6 x => Some (publish g empty_state, setpc th (PCSwapped x (length (g_states g))))
  | PCSwapped x e =>
      let s := getst g x in
      if negb (s_open s) then Some (g, panic th)       (* s.segments.Len() on nil *)
      else Some (upd_st g x (st_retire s (FSet (s_segs s) e)), setpc th (PC8 x))
  | PC8 x => Some (set_meta g (S (g_meta_closes g)) (g_stable g), setpc th (PRel x (Ok 0) KUnlock))
  (* ---- rotation goroutine ---- *)
  | PRIdle => if g_trig g then Some (set_trig g false (g_trig_closed g), setpc th PRRecv)
              else if g_trig_closed g then Some (g, setpc th PRRecv)
              else None
  | PRRecv => Some (g, setpc th PRLock)
  | PRLock => match g_mu g with
              | None => Some (set_mu g (Some me), setpc th PRLocked)
              | Some _ => None
              end
  | PRLocked => if g_closed g then Some (g, setpc th PRExit) else Some (g, setpc th (PM0 KRot))
  | PRExit => Some (set_mu g None, setpc th PRDone)
  | PRT3 => Some (set_await g None (g_chans g), setpc th (PRT4 (g_await g)))
  | PRT4 d => Some (set_mu g None, setpc th (PRT5 d))
  | PRT5 d =>
      match d with
      | Some c => if nth c (g_chans g) false then Some (g, panic th)
                  else Some (set_await g (g_await g) (upd (g_chans g) c true), setpc th PRIdle)
      | None => Some (g, panic th)                      (* close of nil channel *)
      end
  | PRDone => None
  | PPanic => None
  end.

Definition step (s : sys) (t : tid) : option sys :=
  match nth_error (ths s) t with
  | None => None
  | Some th => match step_thread (sh s) t th with
               | None => None
               | Some (g', th') => Some {| sh := g'; ths := upd (ths s) t th' |}
               end
  end.

(* ---- initial state: a freshly created WAL (one empty tail segment, base 1) --- *)
Definition init_shared : shared :=
  {| g_closed := false; g_mu := None; g_trig := false; g_trig_closed := false;
     g_await := None; g_chans := []; g_cur := 0;
     g_states := [{| s_ref := 0; s_ret := false; s_fin := FUnset; s_open := true; s_segs := [0]; s_min := 1 |}];
     g_hnds := [new_hnd 1]; g_meta_closes := 0; g_stable := 0 |}.

Definition caller (p : list op) : thread := {| t_rot := false; t_prog := p; t_outs := []; t_pc := PIdle |}.
Definition rotator : thread := {| t_rot := true; t_prog := []; t_outs := []; t_pc := PRIdle |}.

(* callers 0..n-1, then the rotator, then further callers (the runner's setup thread) *)
Definition init (progs extra : list (list op)) : sys :=
  {| sh := init_shared; ths := map caller progs ++ rotator :: map caller extra |}.

(* ---- hook points, for the macro runner --------------------------------------- *)
Definition pc_point (p : pc) : bool :=
  match p with
  | PChecked | PLocked | PWaiting _ | PLoaded _ | PGetRead _ _ | PApp1 _ | PApp2 _ | PApp3 _
  | PM3 _ _ | PM4 _ _ _ | PLast _ _ _
  | PCFlag | PCLocked | PCSwapped _ _ | PRRecv | PRLocked => true
  | _ => false
  end.

Definition th_done (th : thread) : bool :=
  match t_pc th with
  | PIdle => match t_prog th with [] => true | _ => false end
  | PRDone | PPanic => true
  | _ => false
  end.

(* parked at a hook point, not yet started, or finished *)
Definition th_parked (th : thread) : bool :=
  pc_point (t_pc th) || th_done th ||
  match t_pc th, t_outs th with PIdle, [] => true | _, _ => false end.

Definition parked (s : sys) (t : tid) : bool :=
  match nth_error (ths s) t with Some th => th_parked th | None => true end.

Definition pre_lock (th : thread) : bool :=
  match t_pc th with
  | PChecked => match cur_op th with Some o => is_locking o | None => false end
  | PWaiting _ | PCFlag | PRRecv => true
  | _ => false
  end.

(* blocked inside the implementation (the idle rotator does not count) *)
Definition th_blocked (th : thread) : bool :=
  negb (th_parked th) && negb (match t_pc th with PRIdle => true | _ => false end).

(* the runner ignores an element that would send a second thread towards the
   mutex while it is held and somebody is already waiting (the Go runtime's
   choice between two wake-ups is not determined by the schedule) *)
Definition skip (s : sys) (t : tid) : bool :=
  match nth_error (ths s) t with
  | None => true
  | Some th =>
      pre_lock th &&
      match g_mu (sh s) with
      | Some o => negb (o =? t) &&
                  existsb (fun j => negb (j =? t) && negb (j =? o) &&
                                    match nth_error (ths s) j with Some tj => th_blocked tj | None => false end)
                          (seq 0 (length (ths s)))
      | None => false
      end
  end.

Definition nthreads (s : sys) : nat := length (ths s).
