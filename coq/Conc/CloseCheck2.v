(* CloseCheck2.v -- executable mirror of CloseInv2 (a test aid, not used by theorems) *)
From Coq Require Import List Arith Bool Lia NArith.
From RW Require Import Conc.Sys Conc.Close Conc.ListX Conc.CloseInv Conc.CloseInv2 Conc.CloseCheck.
Import ListNotations.

Definition unrun_hs (g : shared) (T : list thread) (y : nat) : option (list nat) :=
  match s_fin (getst g y) with
  | FSet hs _ => Some hs
  | _ => match find (fun th => match fin_pending th y with Some _ => true | None => false end) T with
         | Some th => fin_pending th y
         | None => match find (fun th => match t_pc th with PCSwapped y' _ => y' =? y | _ => false end) T with
                   | Some _ => Some (s_segs (getst g y))
                   | None => None
                   end
         end
  end.
Definition prot_b (g : shared) (T : list thread) (x : nat) : bool :=
  forallb (fun y => match unrun_hs g T y with Some _ => true | None => false end) (seq x (g_cur g - x)).
Definition mem (h : nat) (l : list nat) : bool := existsb (Nat.eqb h) l.
Definition res_b (th : thread) (res : outcome) : bool :=
  t_rot th || match cur_op th with Some o => allowed o res | None => true end.

Definition th_facts2_b (g : shared) (T : list thread) (th : thread) : bool :=
  let n := length (g_states g) in
  match t_pc th with
  | PBody x => prot_b g T x
  | PGetRead x h => mem h (s_segs (getst g x)) && prot_b g T x
  | PM4 y f k => match f with
                 | FSet hs sc => (sc =? S y) && negb (is_fset (s_fin (getst g y))) && negb (s_ret (getst g y)) &&
                                 forallb (fun h => mem h (s_segs (getst g (S y))) || mem h hs) (s_segs (getst g y))
                 | _ => false end
  | PCSwapped x e => negb (is_fset (s_fin (getst g x))) && negb (s_ret (getst g x)) &&
                     match s_segs (getst g e) with [] => true | _ => false end
  | PLast x res k => s_ret (getst g x) && (x <? n) && res_b th res &&
                     forallb (fun thu => match vhold thu with Some z => x <? z | None => true end) T
  | PRun _ sc res _ => (sc <? n) && res_b th res
  | PRel x res _ => (x <? n) && res_b th res
  | PUnl res => res_b th res
  | PStErr => g_closed g
  | PM2 x _ | PM3 x _ | PC6 x | PC8 x => x <? n
  | _ => true
  end.

Definition inv2_b (s : sys) : list nat :=
  let g := sh s in let T := ths s in
  let chk (n : nat) (b : bool) := if b then [] else [n] in
  chk 31 (forallb (fun x => s_ref (getst g x) =? sum (fun th => href th x) T + sum (fun st0 => fsucc (s_fin st0) x) (g_states g))
                  (seq 0 (length (g_states g)))) ++
  chk 32 (forallb (fun h => owners g T h + h_closes (geth g h) =? 1) (seq 0 (length (g_hnds g)))) ++
  chk 33 (forallb (fun h => owners g T h =? 0) (seq (length (g_hnds g)) 3)) ++
  chk 34 (forallb (fun x => match s_fin (getst g x) with
                            | FSet hs sc => (sc =? S x) && (sc <? length (g_states g)) && s_ret (getst g x) &&
                                            (1 <=? s_ref (getst g x) + sum (fun th => nlast th x) T) &&
                                            forallb (fun h => mem h (s_segs (getst g sc)) || mem h hs) (s_segs (getst g x))
                            | _ => true end) (seq 0 (length (g_states g)))) ++
  chk 35 (forallb (fun x => imp (s_ret (getst g x)) (x <? g_cur g)) (seq 0 (length (g_states g)))) ++
  chk 36 (forallb (fun th => th_facts2_b g T th) T) ++
  chk 37 (forallb (fun th => t_rot th || negb (existsb (fun r => match r with IOErr | MetaErr | Panic => true | _ => false end) (t_outs th))) T).

Definition test_inv2 (seed : N) : list (nat * list nat) :=
  check_run inv2_b (init test_cfg []) (lcg_sched 400 seed (N.of_nat (S (length test_cfg)))) 0.
Definition test_cfg2 : list (list op) :=
  [[OStore true 1 1; OStore true 2 1; ODelete 2; OStore false 3 3; OTrunc 3; OStore false 4 1; ODelete 9; OStore true 5 1];
   [OGet 1; OGet 2; OGet 3; OGet 4]; [OFirst; OLast; OGet 4; OGet 2]; [OGet 3; OClose]].
Definition test_inv2b (seed : N) : list (nat * list nat) :=
  check_run inv2_b (init test_cfg2 []) (lcg_sched 700 seed (N.of_nat (S (length test_cfg2)))) 0.
Example inv2_holds_on_samples :
  flat_map test_inv2 (map N.of_nat (seq 1 60)) ++ flat_map test_inv2b (map N.of_nat (seq 1 60)) = [].
Proof. vm_compute. reflexivity. Qed.
