(* CloseInv2.v -- invariant of the L3 model, part 2 (definitions only): reference counts
   (including the reference every state holds on its successor), the retired bit, finalizers
   and the ownership of open file handles; a validated holder of a state keeps the finalizers
   of that state and of all later states from running. *)
From Coq Require Import List Arith Bool Lia.
From RW Require Import Conc.Sys Conc.Close Conc.ListX Conc.CloseInv.
Import ListNotations.

Definition kouter (k : kont) (x : nat) : nat :=
  match k with KOuter x' => b2n (x' =? x) | _ => 0 end.
Definition fsucc (f : fin) (x : nat) : nat :=
  match f with FSet _ sc => b2n (sc =? x) | _ => 0 end.

(* references thread th holds on state x (a finalizer that is not yet stored, or that has been
   swapped out and not yet run, holds the successor's reference on behalf of its state) *)
Definition href (th : thread) (x : nat) : nat :=
  match t_pc th with
  | PAcq x' | PBody x' | PGetRead x' _ | PApp1 x' | PApp2 x' | PApp3 x' | PTrig x' | PSend x' => b2n (x' =? x)
  | PRel x' _ k => b2n (x' =? x) + kouter k x
  | PM0 k | PM1 _ k => kouter k x
  | PM2 y k | PM3 y k => b2n (y =? x) + kouter k x
  | PM4 y f k => b2n (y =? x) + kouter k x + fsucc f x
  | PLast _ _ k => kouter k x
  | PRun _ sc _ k => b2n (sc =? x) + kouter k x
  | PC6 x' | PC8 x' => b2n (x' =? x)
  | PCSwapped x' e => b2n (x' =? x) + b2n (e =? x)
  | _ => 0
  end.

Definition nlast (th : thread) (x : nat) : nat :=
  match t_pc th with PLast x' _ _ => b2n (x' =? x) | _ => 0 end.

(* ---- ownership of open file handles --------------------------------------------- *)
Definition fin_cnt (f : fin) (h : nat) : nat := match f with FSet hs _ => cnt h hs | _ => 0 end.

Definition hpend (g : shared) (th : thread) (h : nat) : nat :=
  match t_pc th with
  | PM4 _ f _ => fin_cnt f h
  | PRun hs _ _ _ => cnt h hs
  | PCSwapped x _ => cnt h (s_segs (getst g x))
  | _ => 0
  end.

Definition live (g : shared) (h : nat) : nat :=
  let s := getst g (g_cur g) in if s_open s then cnt h (s_segs s) else 0.

Definition owners (g : shared) (T : list thread) (h : nat) : nat :=
  live g h + sum (fun s => fin_cnt (s_fin s) h) (g_states g) + sum (fun th => hpend g th h) T.

Definition is_fset (f : fin) : bool := match f with FSet _ _ => true | _ => false end.

(* the finalizer of state y exists and has not started to run; hs = the handles it closes *)
Definition fin_pending (th : thread) (y : nat) : option (list nat) :=
  match t_pc th with
  | PM4 y' (FSet hs _) _ => if y' =? y then Some hs else None
  | _ => None
  end.
Definition unrun (g : shared) (T : list thread) (y : nat) (hs : list nat) : Prop :=
  (exists sc, s_fin (getst g y) = FSet hs sc) \/
  (exists t th, nth_error T t = Some th /\ fin_pending th y = Some hs) \/
  (exists t th e, nth_error T t = Some th /\ t_pc th = PCSwapped y e /\ hs = s_segs (getst g y)).

(* a validated holder: it took its reference while the state was current *)
Definition vhold (th : thread) : option nat :=
  match t_pc th with PBody x | PGetRead x _ => Some x | _ => None end.

(* outcomes a call may produce *)
Definition allowed (o : op) (res : outcome) : bool :=
  match o, res with
  | OFirst, Ok _ | OFirst, ErrClosed | OLast, Ok _ | OLast, ErrClosed => true
  | OGet _, Ok _ | OGet _, NotFound | OGet _, ErrClosed => true
  | OStore _ _ _, Ok _ | OStore _ _ _, ErrClosed | OStore _ _ _, ErrSealed => true
  | ODelete _, Ok _ | ODelete _, ErrClosed | OTrunc _, Ok _ | OTrunc _, ErrClosed => true
  | OSet, Ok _ | OSet, ErrClosed | OGetS, Ok _ | OGetS, ErrClosed => true
  | OClose, Ok _ => true
  | _, _ => false
  end.
Definition res_ok (th : thread) (res : outcome) : Prop :=
  t_rot th = false -> match cur_op th with Some o => allowed o res = true | None => True end.

(* state indexes / handle lists mentioned by a thread *)
Definition th_facts2 (g : shared) (T : list thread) (th : thread) : Prop :=
  match t_pc th with
  | PBody x => forall y, x <= y -> y < g_cur g -> exists hs, unrun g T y hs
  | PGetRead x h => In h (s_segs (getst g x)) /\ (forall y, x <= y -> y < g_cur g -> exists hs, unrun g T y hs)
  | PM4 y f k => exists hs, f = FSet hs (S y) /\ is_fset (s_fin (getst g y)) = false /\ s_ret (getst g y) = false /\
                            (forall h, In h (s_segs (getst g y)) -> In h (s_segs (getst g (S y))) \/ In h hs)
  | PCSwapped x e => is_fset (s_fin (getst g x)) = false /\ s_ret (getst g x) = false /\ s_segs (getst g e) = []
  | PLast x res k => s_ret (getst g x) = true /\ x < length (g_states g) /\ res_ok th res /\
                      (forall u thu z, nth_error T u = Some thu -> vhold thu = Some z -> x < z)
  | PRun _ sc res _ => sc < length (g_states g) /\ res_ok th res
  | PRel x res _ => x < length (g_states g) /\ res_ok th res
  | PUnl res => res_ok th res
  | PStErr => g_closed g = true
  | PM2 x _ | PM3 x _ | PC6 x | PC8 x => x < length (g_states g)
  | _ => True
  end.

Record Inv2 (orig : list (list op)) (s : sys) : Prop := {
  j_ref : forall x, x < length (g_states (sh s)) ->
            s_ref (getst (sh s) x) =
            sum (fun th => href th x) (ths s) + sum (fun st0 => fsucc (s_fin st0) x) (g_states (sh s));
  j_oob : forall x, length (g_states (sh s)) <= x ->
            sum (fun th => href th x) (ths s) = 0 /\ sum (fun st0 => fsucc (s_fin st0) x) (g_states (sh s)) = 0;
  j_own : forall h, (h < length (g_hnds (sh s)) -> owners (sh s) (ths s) h + h_closes (geth (sh s) h) = 1) /\
                    (length (g_hnds (sh s)) <= h -> owners (sh s) (ths s) h = 0);
  j_fin : forall x hs sc, x < length (g_states (sh s)) -> s_fin (getst (sh s) x) = FSet hs sc ->
            sc = S x /\ sc < length (g_states (sh s)) /\ s_ret (getst (sh s) x) = true /\
            1 <= s_ref (getst (sh s) x) + sum (fun th => nlast th x) (ths s) /\
            (forall h, In h (s_segs (getst (sh s) x)) -> In h (s_segs (getst (sh s) sc)) \/ In h hs);
  j_nseg : forall x, s_open (getst (sh s) x) = false -> s_segs (getst (sh s) x) = [];
  j_ret : forall x, x < length (g_states (sh s)) -> s_ret (getst (sh s) x) = true -> x < g_cur (sh s);
  j_hist : forall t th, nth_error (ths s) t = Some th -> t_rot th = false ->
             exists ops, nth_error orig t = Some (ops ++ t_prog th) /\
                         Forall2 (fun o res => allowed o res = true) ops (t_outs th);
  j_thr : forall t th, nth_error (ths s) t = Some th -> th_facts2 (sh s) (ths s) th
}.
