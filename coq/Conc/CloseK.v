(* CloseK.v -- how the progress measure K of Close and the rotator's pc change
   when one thread takes a step *)
From Coq Require Import List Arith Bool Lia.
From RW Require Import Conc.Sys Conc.Close Conc.ListX Conc.CloseInv Conc.CloseFacts.
Import ListNotations.

Lemma sum_b2n_zero {A} (f : A -> nat) l : sum (fun x => b2n (0 <? f x)) l = 0 -> sum f l = 0.
Proof.
  induction l as [|y l IH]; cbn [sum]; intros Z; [reflexivity|].
  destruct (Nat.ltb_spec 0 (f y)); cbn [b2n] in Z; [lia|]. rewrite IH by lia. lia.
Qed.

Lemma sum_single {A} (f : A -> nat) : forall l i a,
  nth_error l i = Some a -> sum (fun x => b2n (0 <? f x)) l <= b2n (0 <? f a) -> sum f l = f a.
Proof.
  induction l as [|x l IH]; intros [|i] a E H; cbn [sum nth_error] in *; try discriminate.
  - inversion E; subst.
    assert (Z : sum (fun x => b2n (0 <? f x)) l = 0) by lia.
    rewrite (sum_b2n_zero f l Z). lia.
  - pose proof (sum_ge_nth (fun x => b2n (0 <? f x)) l i a E) as G. cbn beta in G.
    destruct (Nat.ltb_spec 0 (f x)); cbn [b2n] in H; [destruct (0 <? f a); cbn [b2n] in *; lia|].
    rewrite (IH i a E) by lia. lia.
Qed.

Lemma nact_upd T t th th' :
  nth_error T t = Some th ->
  nact (upd T t th') + b2n (0 <? cstage th) = nact T + b2n (0 <? cstage th').
Proof. intros E. unfold nact. apply (sum_upd (fun th => b2n (0 <? cstage th)) T t th th' E). Qed.

Lemma gstage_upd T t th th' :
  nth_error T t = Some th -> gstage (upd T t th') + cstage th = gstage T + cstage th'.
Proof. intros E. unfold gstage. apply (sum_upd cstage T t th th' E). Qed.

(* the three ways K can change in a step of thread t *)
Lemma K_step g g' T t th th' :
  nact T <= 1 -> (g_closed g = false -> nact T = 0) -> nth_error T t = Some th ->
  (cstage th = 0 -> cstage th' = 0 -> g_closed g' = g_closed g -> K g' (upd T t th') = K g T) /\
  (cstage th = 0 -> cstage th' = 1 -> g_closed g = false -> g_closed g' = true ->
   K g T = 0 /\ K g' (upd T t th') = 1) /\
  (0 < cstage th -> g_closed g' = true ->
   g_closed g = true /\ K g T = cstage th /\
   K g' (upd T t th') = (if cstage th' =? 0 then 10 else cstage th')).
Proof.
  intros N1 N0 E. pose proof (nact_upd T t th th' E) as HN. pose proof (gstage_upd T t th th' E) as HG.
  pose proof (sum_ge_nth (fun th => b2n (0 <? cstage th)) T t th E) as G. cbn beta in G. fold (nact T) in G.
  unfold K. split; [|split].
  - intros A B C. rewrite C, A, B in *. cbn [b2n Nat.ltb Nat.leb] in HN.
    replace (nact (upd T t th')) with (nact T) by lia.
    replace (gstage (upd T t th')) with (gstage T) by lia. reflexivity.
  - intros A B C C'. rewrite C, C'. specialize (N0 C). rewrite A, B in *. cbn [b2n Nat.ltb Nat.leb] in HN.
    assert (Z : gstage T = 0) by (apply sum_b2n_zero; exact N0).
    replace (nact (upd T t th')) with 1 by lia. cbn. split; [reflexivity | lia].
  - intros A C'.
    destruct (Nat.ltb_spec 0 (cstage th)) as [L|L]; [|lia]. cbn [b2n] in G, HN.
    assert (C : g_closed g = true).
    { destruct (g_closed g) eqn:C; [reflexivity|]. specialize (N0 eq_refl). lia. }
    assert (N : nact T = 1) by lia.
    assert (GT : gstage T = cstage th).
    { unfold gstage. apply sum_single with (i := t); [exact E|]. fold (nact T).
      destruct (Nat.ltb_spec 0 (cstage th)); cbn [b2n]; lia. }
    rewrite C, C', N. cbn [Nat.eqb]. split; [reflexivity|]. split; [exact GT|].
    destruct (Nat.eqb_spec (cstage th') 0) as [Z|Z].
    + rewrite Z in HN. cbn [b2n Nat.ltb Nat.leb] in HN.
      replace (nact (upd T t th')) with 0 by lia. reflexivity.
    + destruct (Nat.ltb_spec 0 (cstage th')); [|lia]. cbn [b2n] in HN.
      replace (nact (upd T t th')) with 1 by lia. cbn [Nat.eqb]. lia.
Qed.

Lemma nact_step T t th th' :
  nact T <= 1 -> nth_error T t = Some th ->
  (0 < cstage th \/ nact T = 0 \/ cstage th' = 0) -> nact (upd T t th') <= 1.
Proof.
  intros N E H. pose proof (nact_upd T t th th' E) as HN.
  pose proof (sum_ge_nth (fun th => b2n (0 <? cstage th)) T t th E) as G. cbn in G. fold (nact T) in G.
  destruct (Nat.ltb_spec 0 (cstage th)); destruct (Nat.ltb_spec 0 (cstage th')); cbn in *; lia.
Qed.

(* the rotator's pc after a step of thread t *)
Lemma rot_pc_upd T t th th' r :
  nth_error T t = Some th ->
  rot_pc (upd T t th') r = if r =? t then t_pc th' else rot_pc T r.
Proof.
  intros E. unfold rot_pc. destruct (Nat.eqb_spec r t) as [->|N].
  - rewrite nth_error_upd_eq; [reflexivity | eapply nth_error_Some_lt; eauto].
  - rewrite nth_error_upd_neq by congruence. reflexivity.
Qed.
