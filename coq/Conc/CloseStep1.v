(* CloseStep1.v -- consequences of part 1 of the invariant (CloseInv.Inv1) for a single
   step: in a state satisfying Inv1 no thread can take a panicking step. *)
From Coq Require Import List Arith Bool Lia.
From RW Require Import Conc.Sys Conc.SysFacts Conc.Close Conc.ListX Conc.CloseInv Conc.CloseFacts Conc.CloseK Conc.CloseSafe.
Import ListNotations.

Ltac inv_step I H th g' th' E F :=
  destruct (step_decomp _ _ _ H) as (th & g' & th' & E & F & ->).

(* open the pair produced by the PM3 transaction *)
Ltac open_tx :=
  match goal with
  | Q : pm3_tx ?g ?o ?y ?k = (?a, ?b) |- _ =>
      let segs := fresh "segs" in let mn := fresh "mn" in let nh := fresh "nh" in
      let Q1 := fresh "Q1" in let Q2 := fresh "Q2" in
      destruct (pm3_shape g o y k) as (segs & mn & nh & Q1 & Q2); rewrite Q in Q1; cbn [fst] in Q1; subst a
  | _ => idtac
  end.

Ltac finish_F F := try open_tx; inversion F; subst; clear F.

(* facts about flags of a thread record after setpc / finish *)
Lemma cur_op_setpc th p : cur_op (setpc th p) = cur_op th. Proof. reflexivity. Qed.
Lemma op_locking_setpc th p : op_locking (setpc th p) = op_locking th. Proof. reflexivity. Qed.
Lemma op_close_setpc th p : op_close (setpc th p) = op_close th. Proof. reflexivity. Qed.

Section Step.
  Variables (w r : tid).

  (* ---- the active Close call, and what holding the mutex implies ---------------- *)
  Lemma K_active s t th :
    Inv1 w r s -> nth_error (ths s) t = Some th -> 0 < cstage th ->
    g_closed (sh s) = true /\ K (sh s) (ths s) = cstage th.
  Proof.
    intros I E A.
    destruct (K_step (sh s) (set_closed (sh s)) (ths s) t th th (i_nact _ _ _ I) (i_nact0 _ _ _ I) E)
      as (_ & _ & H3). destruct (H3 A eq_refl) as (C & Kq & _). auto.
  Qed.

  Lemma closer_of s :
    Inv1 w r s -> 1 <= K (sh s) (ths s) <= 9 ->
    exists u thu, nth_error (ths s) u = Some thu /\ cstage thu = K (sh s) (ths s).
  Proof.
    intros I HK. unfold K in HK. destruct (g_closed (sh s)) eqn:C; [|lia].
    destruct (Nat.eqb_spec (nact (ths s)) 0) as [Z|Z]; [lia|].
    destruct (sum_pos_ex (fun th => b2n (0 <? cstage th)) (ths s)) as (u & thu & Eu & P).
    { fold (nact (ths s)). lia. }
    exists u, thu. split; [exact Eu|].
    destruct (Nat.ltb_spec 0 (cstage thu)) as [L|L]; cbn in P; [|lia].
    symmetry. apply (K_active s u thu I Eu L).
  Qed.

  Lemma stage_holds th : pc_ok th = true -> 2 <= cstage th -> holds_mu th = true.
  Proof.
    destruct th as [rot prog outs p]. unfold pc_ok, cstage, holds_mu, op_close, op_locking, cur_op. cbn.
    destruct p; cbn; intros WF L; try lia; try reflexivity.
    all: destruct rot; cbn in *;
      destruct prog as [|[] ?]; cbn in *; try lia; try discriminate; try reflexivity.
    all: destruct k; cbn in *; try lia; try discriminate; try reflexivity.
  Qed.

  (* a thread that is not the closing one holds the mutex while the current state is open:
     Close has not got past waiting for the mutex *)
  Lemma lock_K s t th :
    Inv1 w r s -> nth_error (ths s) t = Some th -> holds_mu th = true -> cstage th = 0 ->
    s_open (getst (sh s) (g_cur (sh s))) = true -> K (sh s) (ths s) <= 1.
  Proof.
    intros I E Hm C0 O.
    destruct (Nat.le_gt_cases (K (sh s) (ths s)) 1) as [L|L]; [exact L|].
    rewrite (i_open _ _ _ I) in O. apply Nat.ltb_lt in O.
    destruct (closer_of s I) as (u & thu & Eu & Cu); [lia|].
    assert (Hu : holds_mu thu = true) by (apply stage_holds; [eapply i_wf; eauto | lia]).
    pose proof (i_mu1 _ _ _ I _ _ E Hm) as M1. pose proof (i_mu1 _ _ _ I _ _ Eu Hu) as M2.
    assert (u = t) by congruence. subst u. assert (thu = th) by congruence. subst. lia.
  Qed.

  (* ---- no step panics ------------------------------------------------------------- *)
  Lemma no_panic s t th g' th' :
    Safe s -> Inv1 w r s -> nth_error (ths s) t = Some th -> step_thread (sh s) t th = Some (g', th') ->
    t_pc th' <> PPanic.
  Proof.
    intros SA I E F. pose proof (a_thr _ SA _ _ E) as FB. pose proof (a_chain _ SA) as CH.
    pose proof (i_thr _ _ _ I _ _ E) as TF. pose proof (i_wf _ _ _ I _ _ E) as WF.
    unfold step_thread in F. crack F; finish_F F; cbn; try discriminate.
    all: try (match goal with |- t_pc (continue _ _ ?k) <> _ => destruct k; cbn; discriminate end).
    all: unfold th_facts1 in TF;
      repeat match goal with H : t_pc _ = _ |- _ => rewrite H in TF end;
      repeat match goal with H : cur_op _ = _ |- _ => rewrite H in TF end.
    - (* PBody: nil state *) destruct TF as [O _]. rewrite O in *. discriminate.
    - (* PGetRead: offsets index *)
      unfold factsB in FB. rewrite Heqp, Heqo in FB. destruct FB as [B L]. destruct (CH h) as (_ & C2 & C3).
      unfold read_log in *.
      match goal with H : (if length ?l <=? ?p then _ else _) = Panic |- _ =>
        destruct (Nat.leb_spec (length l) p); [lia|] end.
      match goal with H : (if ?b then _ else _) = Panic |- _ => destruct b; discriminate end.
    - (* PSend on closed channel *)
      destruct TF as (Xc & O & _).
      assert (Hm : holds_mu th = true) by (unfold holds_mu; now rewrite Heqp).
      assert (C0 : cstage th = 0) by (unfold cstage; now rewrite Heqp).
      subst. pose proof (lock_K s t th I E Hm C0 O) as L.
      rewrite (i_tc _ _ _ I) in *.
      match goal with H : (4 <=? _) = true |- _ => apply Nat.leb_le in H; lia end.
    - (* PM1: clone of the empty state *) destruct TF as (_ & O & _). rewrite O in *. discriminate.
    - (* PCLocked: close of a closed channel *)
      match goal with H : g_await _ = Some ?c |- _ => destruct (i_ch1 _ _ _ I c H) as [_ Q]; congruence end.
    - (* PC3: close(triggerRotate) twice *)
      assert (A : 0 < cstage th) by (unfold cstage; rewrite Heqp; lia).
      destruct (K_active s t th I E A) as [_ Kq]. unfold cstage in Kq. rewrite Heqp in Kq.
      rewrite (i_tc _ _ _ I), Kq in *. discriminate.
    - (* PCSwapped: old state empty *) destruct TF as (_ & _ & O). rewrite O in *. discriminate.
    - (* PRT5 closed *) destruct TF as (c & Q & [_ O] & _). inversion Q; subst. congruence.
    - (* PRT5 nil *) destruct TF as (c & Q & _). discriminate.
  Qed.

End Step.
